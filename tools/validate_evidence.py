#!/usr/bin/env python3
"""Validate an evidence file against EVIDENCE.schema.json (jsonschema when available, else a
hand check of the keys the exploration / fault_enumeration levels require)."""
import json, sys, os
path = sys.argv[1]
try:
    ev = json.load(open(path))
except Exception as e:
    print("evidence unreadable:", e); sys.exit(1)
schema_path = os.path.join(os.path.dirname(os.path.abspath(__file__)), "EVIDENCE.schema.json")
if not os.path.exists(schema_path):
    schema_path = "/root/.vp/EVIDENCE.schema.json"
ok = True
try:
    import jsonschema
    schema = json.load(open(schema_path))
    try:
        jsonschema.validate(ev, schema)
    except jsonschema.ValidationError as e:
        print("evidence invalid:", e.message); ok = False
except ImportError:
    for k in ("property_id", "tier", "seed", "level", "coverage", "wall_s"):
        if k not in ev:
            print("missing", k); ok = False
    cov = ev.get("coverage", {})
    if ev.get("level") in ("exploration", "fault_enumeration"):
        if not (isinstance(cov.get("evaluations"), int) and cov["evaluations"] >= 1): ok = False; print("evaluations")
        if not (isinstance(cov.get("distinct_nontrivial"), int) and cov["distinct_nontrivial"] >= 2): ok = False; print("distinct_nontrivial")
        if not isinstance(cov.get("rule"), str): ok = False; print("rule")
        if not (isinstance(cov.get("samples"), list) and len(cov["samples"]) >= 1): ok = False; print("samples")
sys.exit(0 if ok else 1)
