#!/usr/bin/env python3
"""Regenerates /verif/MANIFEST.json from the table below (kept in one place so the manifest is
always valid and in step with check.sh). Run: python3 tools/genmanifest.py"""
import json, os, subprocess, sys

V = os.path.dirname(os.path.dirname(os.path.abspath(__file__)))

ENG = {
    "puremon": ("harness/cmd/puremon", "assertion monitors on pure functions: algebraic laws over exhaustive / boundary / seeded inputs, child process per batch, checkptr build (ASan build in the thorough tier)"),
    "refmon": ("harness/cmd/refmon", "differential monitors on the public API: executable reference models and metamorphic relations between two real executions, child process per batch"),
    "concmon": ("harness/cmd/concmon", "stress drivers under the Go race detector with the real background WAL writer, client-boundary histories checked by porcupine / exactly-once / order checkers"),
    "crashlab": ("harness/cmd/crashlab", "strace-recorded syscall logs of a real workload process; every syscall prefix (and power-loss variants) materialised as a crash state, real restart, model of the acknowledged history"),
    "fsguard": ("harness/cmd/fsguard", "strace-based path-confinement monitor plus decoy-tree comparison for hostile bucket keys"),
}

# id: (engine, level, level_text, level_note, technique, design_ref)
CHECKS = {}

def add(pid, engine, level, text, note, technique, ref):
    CHECKS[pid] = (engine, level, text, note, technique, ref)

add("C10", "puremon", "exploration",
    "Every nanosecond offset of a 1-second interval (thorough: all 10^9, each exactly once; quick: every 997th plus both ends) and boundary + seeded offsets of every other timeframe are encoded and decoded by the real functions and the round-trip law (same interval, 0 <= t-t' <= res, monotone, exact for 1Sec) asserted on each; held-on-what-was-run, exhaustive only for the 1Sec clause.",
    "Trusts that the write/read paths call the two functions with the arguments the monitor uses (the end-to-end path is C09); float behaviour of this machine's amd64 build.",
    "runtime assertion monitor on the real encode/decode functions, exhaustive for 1Sec", "DESIGN.md section 4 C10")

ALL = [json.loads(l) for l in open(os.path.join(V, "properties.jsonl"))]

def main():
    hooks_commits = []
    hp = os.path.join(V, "hook_commits.txt")
    if os.path.exists(hp):
        hooks_commits = [l.split()[0] for l in open(hp) if l.strip() and not l.startswith("#")]
    checks = []
    na = []
    for p in ALL:
        pid = p["id"]
        if pid not in CHECKS:
            na.append({"property_id": pid, "reason": "check not built yet in this round (planned in DESIGN.md section 4 %s); not claimed until its monitor exists and is silent on the unchanged tree" % pid})
            continue
        eng, level, text, note, tech, ref = CHECKS[pid]
        checks.append({
            "property_id": pid,
            "quick_cmd": "./check.sh %s quick" % pid,
            "thorough_cmd": "./check.sh %s thorough" % pid,
            "evidence_file": "/verif/evidence/%s.json" % pid,
            "replay_cmd_template": "./check.sh %s quick --replay {path}" % pid,
            "engine": eng,
            "level_claimed": {"category": level, "text": text, "design_ref": ref},
            "level_note": note,
            "technique": tech,
        })
    used = sorted({c["engine"] for c in checks})
    man = {
        "version": 1,
        "setup_cmd": "./setup.sh",
        "hooks": {
            "guard": "verif",
            "enable": "go build -tags verif (check.sh builds every monitor binary from /repo's working tree with -tags verif; hook call sites compile to an empty inlined function without the tag)",
            "baseline_off_cmd": "cd /repo && GOFLAGS=-mod=mod GOPROXY=off GOSUMDB=off go test -vet=off -count=1 -timeout 25m ./...",
            "source_commits": hooks_commits,
            "add_only": True,
        },
        "engines": [{"name": e, "path": ENG[e][0], "serves_properties": [c["property_id"] for c in checks if c["engine"] == e], "kind_free_text": ENG[e][1]} for e in used],
        "checks": checks,
        "notes": "Runtime monitoring and sanitizers only. Every verdict is 'held on the executions observed'. Known findings: known_findings.json. Seeded-mutation results: DESIGN.md section 11 and seeded/.",
        "not_applicable": na,
    }
    json.dump(man, open(os.path.join(V, "MANIFEST.json"), "w"), indent=1)
    print("checks:", len(checks), "not_applicable:", len(na))

if __name__ == "__main__":
    main()
