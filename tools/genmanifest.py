#!/usr/bin/env python3
"""Regenerates /verif/MANIFEST.json from the table below (kept in one place so the manifest is
always valid and in step with check.sh). Run: python3 tools/genmanifest.py"""
import json, os, subprocess, sys

V = os.path.dirname(os.path.dirname(os.path.abspath(__file__)))

ENG = {
    "puremon": ("harness/cmd/pure_*", "assertion monitors on pure functions: algebraic laws over exhaustive / boundary / seeded inputs, child process per batch, checkptr build (ASan build in the thorough tier)"),
    "refmon": ("harness/cmd/ref_*", "differential monitors on the public API: executable reference models and metamorphic relations between two real executions, child process per batch"),
    "concmon": ("harness/cmd/concmon", "stress drivers under the Go race detector with the real background WAL writer, client-boundary histories checked by porcupine / exactly-once / order checkers"),
    "crashlab": ("harness/cmd/crashlab", "strace-recorded syscall logs of a real workload process; every syscall prefix (and power-loss variants) materialised as a crash state, real restart, model of the acknowledged history"),
    "fsguard": ("harness/cmd/fsguard", "strace-based path-confinement monitor plus decoy-tree comparison for hostile bucket keys"),
}

# id: (engine, level, level_text, level_note, technique, design_ref)
CHECKS = {}

def add(pid, engine, level, text, note, technique, ref):
    CHECKS[pid] = (engine, level, text, note, technique, ref)

add("C10", "puremon", "exploration",
    "Every nanosecond offset of a 1-second interval (thorough: all 10^9, each exactly once; quick: every 997th plus both ends) and boundary + seeded offsets of every other timeframe are encoded and decoded by the real functions and the round-trip law (same interval, 0 <= t-t' <= res, monotone, exact for 1Sec) asserted on each; held-on-what-was-run, exhaustive only for the 1Sec clause.",
    "Trusts that the write/read paths call the two functions with the arguments the monitor uses (the end-to-end path is C09); float behaviour of this machine's amd64 build.",
    "runtime assertion monitor on the real encode/decode functions, exhaustive for 1Sec", "DESIGN.md section 4 C10")

CRASH_NOTE = ("Crash model applied to a recorded strace log of the real server code (every syscall boundary is a crash point; overlapping calls ordered by completion); "
              "restart = the real start-up on the materialised tree on tmpfs with sync(2) made a no-op by strace injection; judge = independent model of the acknowledged history and independent WAL decoder. "
              "Held on the histories generated for the seed, not a proof. Known findings (known_findings.json) are matched by trigger computed from the log, not by symptom.")

add("C01", "crashlab", "fault_enumeration",
    "Every prefix of the file-mutating system calls of each generated history (inline and background WAL writer, fixed + variable buckets, year boundary, repeated intervals) is restarted for real; every acknowledged record must be returned and every fixed interval must hold the last acknowledged (or an in-flight) value.",
    CRASH_NOTE, "syscall-log crash-state enumeration + real restart + history model", "DESIGN.md 3.1, 4 C01")
add("C02", "crashlab", "fault_enumeration",
    "Same enumeration as C01; oracle: no phantom or torn row, every variable record exactly once, in-flight requests all-or-nothing. Duplicates/partial requests are accepted only where the listed defects F-DUP / F-SPLIT predict them from the log.",
    CRASH_NOTE, "syscall-log crash-state enumeration + multiset model with unique payloads", "DESIGN.md 3.1, 4 C02")
add("C03", "crashlab", "fault_enumeration",
    "Same enumeration as C01; oracle: the real start-up exits normally on every crash state and every bucket whose creating write was acknowledged is listed and queryable.",
    CRASH_NOTE, "syscall-log crash-state enumeration + real restart", "DESIGN.md 3.1, 4 C03")
add("C04", "crashlab", "fault_enumeration",
    "At acknowledgement / fsync / sync / truncation prefixes (thorough: every prefix for a subset) the not-yet-synced writes are dropped, reordered or torn in a bounded set of patterns (size shrinking or surviving as zeros); every distinct tree is restarted for real and the acknowledged history must be returned.",
    CRASH_NOTE + " Power-loss model: only data after the file's last fsync / the last sync(2) is volatile; metadata operations are ordered and durable.", "power-loss model over a recorded syscall log + real restart", "DESIGN.md 3.1, 4 C04")
add("C05", "crashlab", "fault_enumeration",
    "Recorded runs with the real background WAL loop (ms timers, rotation, 1-4 writers): (1) the decoded WAL message stream interleaved with fsync/sync/ftruncate/primary writes/acks is checked against protocol invariants I1-I6; (2) every crash prefix and one checksum-mismatch state per transaction is restarted for real (acknowledged transactions present in commit order; damaged record leaves no trace). Trace conformance of observed interleavings, not model checking.",
    CRASH_NOTE, "offline trace checker over the syscall log + crash-state enumeration", "DESIGN.md 4 C05")
add("C06", "crashlab", "fault_enumeration",
    "Byte-level mutants of a real WAL (truncation at every offset, bit flips in every structural field and across payloads, overwrites, inserted garbage, duplicated/swapped records, extreme length fields, zero tails) are each restarted for real; oracle MUST / MUSTNOT / MAY per transaction, no panic, no hang; ASan build of the restart in the thorough tier.",
    "Damage confined to the WAL file. Hang = 60 s watchdog. " + CRASH_NOTE, "mutation of a recorded artefact + real restart + MUST/MUSTNOT/MAY oracle", "DESIGN.md 4 C06")
add("C07", "crashlab", "exploration",
    "Real background WAL loop with 2-16 concurrent writers under strace: every writer queries its own intervals right after WriteCSM returned (visible) and every acknowledgement marker must be preceded in the syscall log by a WAL fsync after the request's WAL record (durable).",
    "In-process API boundary; schedules are those that occurred (overlapping flush requests are counted).", "client-boundary read-your-write monitor + syscall-trace durability check", "DESIGN.md 4 C07")
add("C16", "fsguard", "exploration",
    "A traced server-side process serves generated hostile keys through Create/Write/Query/GetInfo/Destroy/SQL; every path of a mutating system call must resolve below the root and a decoy tree around the root must stay byte-identical.",
    "No symlinks below the root (asserted). strace sees every syscall of the child.", "strace path-confinement monitor + decoy tree comparison", "DESIGN.md 4 C16")
add("C17", "concmon", "exploration",
    "Sequential operation sequences (oracle after every step) and concurrent rounds under -race (oracle at quiescence): the running catalog's (bucket, year) set == directory walk == fresh catalog load; listed buckets queryable. Concurrent cases without Destroy are judged strictly; with Destroy the listed defect F-CATRACE may apply.",
    "Restart represented by a fresh catalog load. Race reports depend on schedules that occurred.", "invariant check at quiescent points + race detector", "DESIGN.md 4 C17")
add("C18", "concmon", "exploration",
    "-race runs: 8 writers + 4 readers on shared intervals with the real background WAL loop; no race report, panic or query error; rows whole and from writes invoked before the query returned; variable results contain everything acknowledged before the query; fixed intervals linearizable as registers (porcupine per bucket x interval).",
    "Schedules that occurred; porcupine partitions > 400 ops skipped and counted; F-CONT reader-side errors matched by trigger.", "Go race detector + client-boundary history checked with porcupine", "DESIGN.md 4 C18")
add("C26", "concmon", "exploration",
    "-race runs of the real GRPCReplicationServer + Sender with in-memory replica streams opening/closing/reconnecting at seeded points during fan-out: no crash, no race, producer finishes, every replica's sequence gap-free and in order, permanently connected replicas receive everything.",
    "In-memory fakes of grpc.ServerStream; disconnect = next Send fails.", "stress under the race detector + per-replica order/no-loss checker", "DESIGN.md 4 C26")
add("C32", "concmon", "exploration",
    "-race runs: recording triggers with 3-5 patterns, 1-8 concurrent writers, real background loop; after graceful shutdown the multiset of deliveries equals the independently computed expectation (pattern = path-component prefix glob), with index and payload.",
    "Fixed requests carry one row per interval.", "exactly-once checker over recorded deliveries + race detector", "DESIGN.md 4 C32")
add("C34", "crashlab", "fault_enumeration",
    "Two-level enumeration: first-level crash states with un-checkpointed transactions are restarted under strace; every prefix of each recovery's mutating calls is restarted again and once more; acknowledged history returned, no old WAL left, own WAL never removed, old WAL unlinked only after its primary writes and a sync, a further restart changes nothing.",
    CRASH_NOTE, "two-level syscall-log crash-state enumeration + recovery-trace checker", "DESIGN.md 4 C34")
add("C35", "crashlab", "fault_enumeration",
    "Runs with the real background loop ended by graceful Shutdown() at seeded points (also with a request in flight): dumps of the full query and six restricted queries per bucket before the request, after Shutdown() and after a real restart must agree; the WAL left behind must need no replay.",
    CRASH_NOTE, "record + compare of client-visible results across shutdown/restart", "DESIGN.md 4 C35")

PURE_NOTE = "The real functions are called in-process (checkptr build; ASan build for the wire monitors in the thorough tier) on generated inputs; the oracle is an executable reference written from the property text. Held on the inputs generated for the seed."
add("C21", "puremon", "exploration",
    "TickCandler / CandleCandler are driven directly and through AggRunner on generated row sets (1-500 rows, 1-6 windows, ties, extreme/negative prices, several permutations per set, three time zones, all candle timeframes, Sum/Avg columns of all numeric types); output compared with a reference fold keyed by the window definition; order-independence checked for distinct timestamps.",
    PURE_NOTE + " Multi-day/-week/-month windows are executed but not asserted (the property fixes no alignment for them).", "reference-fold monitor on the real candlers", "DESIGN.md 4 C21")
add("C22", "puremon", "exploration",
    "All 78 (fine, coarse) timeframe pairs where fine divides coarse x generated tick sets x 3 zones: CandleCandler(coarse)(TickCandler(fine)(rows)) must equal TickCandler(coarse)(rows) on Epoch/Open/High/Low/Close; a stratum aimed at local midnight re-demonstrates F-TZALIGN.",
    PURE_NOTE, "metamorphic monitor (two real executions compared)", "DESIGN.md 4 C22")
add("C23", "puremon", "exploration",
    "count/min/max/avg over all ten numeric column types x lengths {0,1,2,3,10,1000} x value shapes, directly and through AggRunner.Run with the query API's syntax; gap with explicit thresholds on epoch sequences with planted gaps of threshold-1/threshold/threshold+1.",
    PURE_NOTE + " avg compared in single precision; empty input only has to not panic.", "reference-value monitor on the real aggregates", "DESIGN.md 4 C23")
add("C27", "puremon", "exploration",
    "Random ColumnSeriesMaps over all wire types (0-200 rows, 1-5 buckets, unicode names) through NewNumpyDataset / NewNumpyMultiDataset / Append -> msgpack -> ToColumnSeriesMap and the MultiQueryResponse path; buckets, names, order, types and values (bit-exact) must survive.",
    PURE_NOTE, "round-trip assertion monitor (checkptr + ASan builds)", "DESIGN.md 4 C27")
add("C28", "puremon", "exploration",
    "Transaction groups captured from the real write path (ReplicationSender hook point) and hand-built commands inside the measured acceptance envelope are decoded by ParseTGData and by an independent decoder; both must return the original path, record type, offset, index, payload, VarRecLen and schema.",
    PURE_NOTE + " What counts as 'can be accepted' is measured in-run through WriteCSM/Create.", "round-trip monitor with an independent decoder (checkptr + ASan builds)", "DESIGN.md 4 C28")
add("C29", "puremon", "exploration",
    "All schemas of 1-4 columns over the ten fixed-width types + STRING16 (thorough: exhaustive, 16 105 schemas) and sampled 5-8 column schemas, aligned and unaligned, Epoch in any position, boundary and random values: SerializeColumnsToRows -> NewRowSeries -> ToColumnSeries must return the input; record length checked.",
    PURE_NOTE, "round-trip assertion monitor (checkptr + ASan builds)", "DESIGN.md 4 C29")
add("C30", "puremon", "exploration",
    "Per (zone, year, timeframe): every interval start of the year for timeframes >= 1Min, 1 s grids around every DST transition and year edge, seeded timestamps for second-level timeframes; five zones + time.Local != configured zone; slot <-> start conversions, injectivity and data-area bounds asserted.",
    PURE_NOTE + " Zones from the system zoneinfo; a missing zone is skipped and counted.", "law-checking monitor on the real index functions", "DESIGN.md 4 C30")
add("C31", "puremon", "exploration",
    "Every duration string <n><suffix> (n to 60 quick / 400 thorough, all suffixes, both parsers) x timestamps over three years incl. DST neighbourhoods in three zones: Truncate(t) <= t < Ceil(t), IsWithin(t, Truncate(t)), one window per timestamp, parse/print stability, QueryableTimeframe divides the duration.",
    PURE_NOTE, "law-checking monitor on the real timeframe arithmetic (enumeration)", "DESIGN.md 4 C31")
add("C33", "puremon", "exploration",
    "Generated CSV files for generated schemas (valid rows; wrong field counts, bad quoting, unparsable values and timestamps at any position; header / no header; time formats and zones; chunk sizes 1..n+1) loaded with the loader's own chunk loop; either every data row is loaded with parse-equal values or an error is reported; a panic is neither.",
    PURE_NOTE + " Timestamps are parsed by an independent time.ParseInLocation for the oracle.", "differential monitor on the real CSV loader", "DESIGN.md 4 C33")

REF_NOTE = "The real write and query paths are driven in-process on a fresh root per case (checkptr build; -race build in the thorough tier); the oracle is an executable reference model written from the property text. Held on the histories generated for the seed."
add("C08", "refmon", "exploration",
    "Generated write histories for fixed-length buckets (all timeframes 1Sec-1D, all ten column types, unsorted rows, duplicates within and across requests, year boundaries, leap days, 2-3 years, >=100 commands per file) against a last-writer-wins interval map: the unrestricted query must return exactly the map's rows in ascending time with Epoch = interval start and bit-identical values.",
    REF_NOTE + " UTC configuration (zones are C30).", "executable reference model (interval map) vs. the real storage path", "DESIGN.md 4 C08")
add("C09", "refmon", "exploration",
    "Generated write histories for variable-length buckets (1-300 records per interval and an aimed stratum with thousands of compressible records, repeated appends, several intervals and years, unsorted input, payload shapes from incompressible to constant, boundary nanosecond offsets and whole seconds): result must be a permutation of the written multiset (unique ids, torn records visible), non-decreasing in time, each timestamp in its interval and at most one resolution step early.",
    REF_NOTE + " UTC configuration.", "executable reference model (record multiset) vs. the real storage path", "DESIGN.md 4 C09")
add("C14", "refmon", "exploration",
    "(bucket schema, input schema) pairs over the ten numeric types with edits {same, missing, extra, renamed, reordered, retyped} and boundary values; multi-bucket requests with the mismatching bucket first/middle/last (repeated until both map orders were observed): a mismatch by name is rejected and no bucket named in the request changes (checked immediately, after an unrelated flush and after a restart); matching names with other types are stored as the Go conversion of the input.",
    REF_NOTE + " Implementation-defined float->int conversions are not compared.", "executable reference model (Go conversions, snapshots before/after) vs. the real write path", "DESIGN.md 4 C14")
add("C15", "refmon", "exploration",
    "Buckets created through DataService.Create, the gRPC service and first-write auto-creation with column counts {1,2,255,256,1024,1025}, name lengths {1..300} (ASCII and multi-byte), all types, timeframes and both record types, then written (incl. first interval of the year, large 1D records) and restarted: the reported and enforced schema must equal the requested one, or the creation must have been rejected.",
    REF_NOTE + " Restart = fresh instance on the same root in the same process.", "schema round-trip monitor across a real reload", "DESIGN.md 4 C15")

add("C19", "refmon", "exploration",
    "Generated tables (several numeric column types, fixed and variable-length) and generated statements SELECT * FROM t WHERE c1 AND ... AND ck (k <= 4; <, <=, >, >=, =, BETWEEN; Epoch literals as datetime string / epoch seconds / epoch nanoseconds; literals on, between and outside stored values; two bounds on one column) run through the real parser and Materialize; result compared with a reference relational filter over the rows of the non-SQL query, in the column's own precision. Strata avoiding and aiming at each listed defect (F-SQL3/4/5).",
    REF_NOTE + " Only statements inside the supported grammar are generated; an error for an unsupported construct is not a violation.", "executable reference filter vs. the real SQL path", "DESIGN.md 4 C19")
add("C20", "refmon", "exploration",
    "Generated select lists (ordered subsets, aliases incl. alias = another column's name), LIMIT n against the same statement without LIMIT, and INSERT INTO t SELECT ... into targets of equal and coarser timeframe (target read back through the non-SQL query, last-writer-wins per target interval).",
    REF_NOTE, "relational reference (project / rename / head / insert) vs. the real SQL path", "DESIGN.md 4 C20")
add("C24", "refmon", "exploration",
    "The real aggregation trigger (destinations 5Min/15Min/1H/1D) is injected as plugins are and driven by the real background WAL loop; base-bar histories in order, out of order, with corrections, spanning windows, starting in earlier windows, and concurrent flush groups; after each request the monitor waits for the observed completion of the trigger and compares every destination bucket with the reference fold of the base bucket's current content.",
    REF_NOTE + " UTC; 'all writes processed' is observed through a counting wrapper, not a sleep.", "reference fold vs. the real on-disk aggregation path", "DESIGN.md 4 C24")
add("C25", "refmon", "exploration",
    "The master's serialized transaction groups are captured at the point they would be sent and applied to a second instance with the real Replayer; histories over fixed and variable buckets of all timeframes, several buckets per group, groups mixing record types (produced through the public write path with the background loop); master and replica queries must agree (variable timestamps within one resolution step).",
    REF_NOTE + " Transport is not exercised (C26).", "metamorphic comparison master vs. replica through the real replayer", "DESIGN.md 4 C25")

add("C11", "refmon", "exploration",
    "Stored histories (fixed and variable buckets, several timeframes, gaps, 2-3 year files) and many (start, end) pairs at nanosecond precision (every stored timestamp +-{0, 1 ns, 1 s, one interval}, interval and year edges, empty / inverted ranges, ranges touching no year file): the ranged query must equal the unrestricted query filtered by the property's inRange definition, in the same order. Both sides are real executions.",
    REF_NOTE + " UTC.", "metamorphic relation between two real executions (ranged vs. filtered unrestricted query)", "DESIGN.md 4 C11")
add("C12", "refmon", "exploration",
    "For stored histories and ranges, Query(range, N, direction) must equal the first/last N rows of Query(range) for N in {1,2,3,n-1,n,n+1,10n, huge}, both directions, fixed and variable, gaps of more than 8192 empty slots (multi-buffer backward scan), several year files.",
    REF_NOTE + " UTC. Queries for timeframes that are not stored are out of scope.", "metamorphic relation between two real executions (limited vs. unlimited query)", "DESIGN.md 4 C12")
add("C13", "refmon", "exploration",
    "Through DataService.Query (every fourth request through GRPCService.Query): destinations naming several symbols (existing, missing, duplicated, '*') must return per symbol the rows of the single-symbol request; requests with a column list must return the same rows and values with only the time columns and the requested columns; a symbol never stored must return no rows.",
    REF_NOTE + " Column order is not asserted; what a missing symbol / unknown column may legitimately do is spelled out in the monitor.", "metamorphic relation between real executions (multi vs. single symbol, projected vs. full)", "DESIGN.md 4 C13")

ALL = [json.loads(l) for l in open(os.path.join(V, "properties.jsonl"))]

def main():
    hooks_commits = []
    hp = os.path.join(V, "hook_commits.txt")
    if os.path.exists(hp):
        hooks_commits = [l.split()[0] for l in open(hp) if l.strip() and not l.startswith("#")]
    checks = []
    na = []
    for p in ALL:
        pid = p["id"]
        if pid not in CHECKS:
            na.append({"property_id": pid, "reason": "check not built yet in this round (planned in DESIGN.md section 4 %s); not claimed until its monitor exists and is silent on the unchanged tree" % pid})
            continue
        eng, level, text, note, tech, ref = CHECKS[pid]
        checks.append({
            "property_id": pid,
            "quick_cmd": "./check.sh %s quick" % pid,
            "thorough_cmd": "./check.sh %s thorough" % pid,
            "evidence_file": "/verif/evidence/%s.json" % pid,
            "replay_cmd_template": "./check.sh %s quick --replay {path}" % pid,
            "engine": eng,
            "level_claimed": {"category": level, "text": text, "design_ref": ref},
            "level_note": note,
            "technique": tech,
        })
    used = sorted({c["engine"] for c in checks})
    man = {
        "version": 1,
        "setup_cmd": "./setup.sh",
        "hooks": {
            "guard": "verif",
            "enable": "go build -tags verif (check.sh builds every monitor binary from /repo's working tree with -tags verif; hook call sites compile to an empty inlined function without the tag)",
            "baseline_off_cmd": "cd /repo && GOFLAGS=-mod=mod GOPROXY=off GOSUMDB=off go test -vet=off -count=1 -timeout 25m ./...",
            "source_commits": hooks_commits,
            "add_only": True,
        },
        "engines": [{"name": e, "path": ENG[e][0], "serves_properties": [c["property_id"] for c in checks if c["engine"] == e], "kind_free_text": ENG[e][1]} for e in used],
        "checks": checks,
        "notes": "Runtime monitoring and sanitizers only. Every verdict is 'held on the executions observed'. Known findings: known_findings.json. Seeded-mutation results: DESIGN.md section 11 and seeded/.",
        "not_applicable": na,
    }
    json.dump(man, open(os.path.join(V, "MANIFEST.json"), "w"), indent=1)
    print("checks:", len(checks), "not_applicable:", len(na))

if __name__ == "__main__":
    main()
