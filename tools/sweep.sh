#!/bin/bash
# usage: tools/sweep.sh <tier> <seed> [ids...]   - runs the checks one after the other, prints one line per check
cd "$(dirname "$0")/.."
TIER=$1; SEED=$2; shift 2
IDS="$@"
[ -z "$IDS" ] && IDS=$(python3 -c "import json;print(' '.join(c['property_id'] for c in json.load(open('MANIFEST.json'))['checks']))")
for id in $IDS; do
  t0=$(date +%s)
  out=$(VERIF_SEED=$SEED ./check.sh $id $TIER 2>&1); rc=$?
  t1=$(date +%s)
  echo "$id tier=$TIER seed=$SEED exit=$rc secs=$((t1-t0)) $(echo "$out" | grep -c '^VIOLATION') violation-lines | $(echo "$out" | grep SUMMARY | cut -c1-220)"
  if [ $rc -ne 0 ]; then echo "$out" | grep "detail\[\|VIOLATION\|BROKEN\|broken" | cut -c1-400 | head -8; fi
done
echo SWEEPDONE
