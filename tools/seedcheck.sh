#!/bin/bash
# usage: seedcheck.sh <seed-name> <worktree> "<demo command, run inside the worktree>" "<test packages>" <check ids...>
# Confirms a seeded change independently (demonstration fails with it and passes without it, the
# repository's own tests of the touched packages still pass with it), runs the given checks against the
# changed tree, and stores patch + demonstration + meta.json under /verif/seeded/<seed-name>/.
# The scratch worktree is NOT removed here (the caller removes it with `git worktree remove --force`).
set -u
NAME=$1; WT=$2; DEMO=$3; PKGS=$4; shift 4
export GOFLAGS=-mod=mod GOPROXY=off GOSUMDB=off GOTOOLCHAIN=local
V=/verif
OUT=$V/seeded/$NAME
mkdir -p "$OUT"
cd "$WT" || exit 2
# the source change only (tracked files)
git diff > "$OUT/patch.diff"
[ -s "$OUT/patch.diff" ] || { echo "no source change in $WT"; exit 2; }
FILES=$(git diff --name-only | tr '\n' ' ')
# demonstration files = untracked files except the agent's notes
rm -rf "$OUT/demo"; mkdir -p "$OUT/demo"
git ls-files --others --exclude-standard | grep -v '^MUTATION\.\|^\.scratch/' | while read -r f; do mkdir -p "$OUT/demo/$(dirname "$f")"; cp "$f" "$OUT/demo/$f"; done
[ -f MUTATION.md ] && cp MUTATION.md "$OUT/author_notes.md"
log() { echo "$@" | tee -a "$OUT/confirm.log"; }
: > "$OUT/confirm.log"
log "== build with the change"; go build ./... 2>&1 | tail -3 | tee -a "$OUT/confirm.log"
log "== demonstration WITH the change (must fail): $DEMO"
( eval "$DEMO" ) > "$OUT/demo_with.txt" 2>&1; RC_WITH=$?
log "   exit $RC_WITH"
git apply -R "$OUT/patch.diff" || { log "cannot reverse the patch"; exit 2; }
log "== demonstration WITHOUT the change (must pass)"
( eval "$DEMO" ) > "$OUT/demo_without.txt" 2>&1; RC_WITHOUT=$?
log "   exit $RC_WITHOUT"
git apply "$OUT/patch.diff" || { log "cannot re-apply the patch"; exit 2; }
log "== repository tests of the touched packages WITH the change: $PKGS"
# the demonstration may live inside a tested package: leave it out by name
go test -vet=off -count=1 -timeout 40m -skip 'Demo|demo' $PKGS > "$OUT/repo_tests.txt" 2>&1; RC_TESTS=$?
grep -v "no test files" "$OUT/repo_tests.txt" | tail -8 | tee -a "$OUT/confirm.log"
log "   exit $RC_TESTS"
RESULTS=""
for id in "$@"; do
  log "== check $id (quick) against the changed tree"
  ( cd $V && VERIF_REPO="$WT" VERIF_MUT_OUT=/dev/shm/verif-mut-out-$NAME ./check.sh "$id" quick ) > "$OUT/check_$id.txt" 2>&1; rc=$?
  grep "SUMMARY\|detail\[0\]\|BROKEN" "$OUT/check_$id.txt" | cut -c1-400 | tee -a "$OUT/confirm.log"
  log "   exit $rc"
  RESULTS="$RESULTS $id:$rc"
  # keep the check output small
  head -c 20000 "$OUT/check_$id.txt" > "$OUT/check_$id.txt.tmp" && mv "$OUT/check_$id.txt.tmp" "$OUT/check_$id.txt"
done
rm -rf /dev/shm/verif-mut-out-$NAME
head -c 6000 "$OUT/demo_with.txt" > "$OUT/demo_with.txt.tmp" && mv "$OUT/demo_with.txt.tmp" "$OUT/demo_with.txt"
head -c 3000 "$OUT/demo_without.txt" > "$OUT/demo_without.txt.tmp" && mv "$OUT/demo_without.txt.tmp" "$OUT/demo_without.txt"
python3 - "$OUT" "$NAME" "$FILES" "$DEMO" "$PKGS" "$RC_WITH" "$RC_WITHOUT" "$RC_TESTS" "$RESULTS" <<'EOF'
import json,sys,os
out,name,files,demo,pkgs,rcw,rcwo,rct,results=sys.argv[1:10]
meta_path=os.path.join(out,'meta.json')
meta={}
if os.path.exists(meta_path):
    try: meta=json.load(open(meta_path))
    except Exception: meta={}
meta.update({
 "seed": name,
 "property": os.environ.get("META_PROPERTY", meta.get("property", "")),
 "what_it_needs_to_manifest": os.environ.get("META_NEEDS", meta.get("what_it_needs_to_manifest", "")),
 "change": os.environ.get("META_CHANGE", meta.get("change", "")),
 "files_changed": files.split(),
 "demonstration_command": demo,
 "demonstration_exit_with_change": int(rcw),
 "demonstration_exit_without_change": int(rcwo),
 "repo_test_packages": pkgs,
 "repo_tests_exit_with_change": int(rct),
 "confirmed": int(rcw)!=0 and int(rcwo)==0 and int(rct)==0,
 "checks_run": {r.split(':')[0]: ("caught (exit 1)" if r.split(':')[1]=='1' else "not caught (exit %s)"%r.split(':')[1]) for r in results.split()},
})
json.dump(meta,open(meta_path,'w'),indent=1)
print(json.dumps(meta,indent=1))
EOF
