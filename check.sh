#!/bin/bash
# usage: check.sh <property-id> <quick|thorough> [--replay <file>]
# Rebuilds the monitor for the property from /repo's current working tree (build tag `verif`),
# runs it, validates the evidence file, cleans up. Exit 0 held / 1 violation / 2 broken check.
set -u
if [ $# -lt 2 ]; then echo "usage: $0 <id> <quick|thorough> [--replay file]" >&2; exit 2; fi
ID=$1; TIER=$2; shift 2
export GOFLAGS=-mod=mod GOPROXY=off GOSUMDB=off GOTOOLCHAIN=local
export VERIF_DIR="$(cd "$(dirname "$0")" && pwd)"
export VERIF_TIER="$TIER"
export VERIF_SEED="${VERIF_SEED:-1}"
REPO="${VERIF_REPO:-/repo}"
export VERIF_REPO_DIR="$REPO"
# Validation against a seeded change (VERIF_REPO=<scratch copy>): evidence and replays go to
# $VERIF_MUT_OUT (default /dev/shm/verif-mut-out), never into /verif/evidence.
EVDIR="$VERIF_DIR"
if [ "$REPO" != "/repo" ]; then
  export VERIF_OUT_DIR="${VERIF_MUT_OUT:-/dev/shm/verif-mut-out}"
  mkdir -p "$VERIF_OUT_DIR"
  EVDIR="$VERIF_OUT_DIR"
fi
H="$VERIF_DIR/harness"

# property -> (package under harness/cmd, build kind)
case "$ID" in
  C10) PKG=pure_tick; KIND=pure ;;
  C21|C22|C23) PKG=pure_candle; KIND=pure ;;
  C27|C28|C29) PKG=pure_wire; KIND=pure ;;
  C30|C31|C33) PKG=pure_time; KIND=pure ;;
  C08|C09) PKG=ref_store; KIND=ref ;;
  C11|C12|C13) PKG=ref_query; KIND=ref ;;
  C14|C15) PKG=ref_schema; KIND=ref ;;
  C19|C20) PKG=ref_sql; KIND=ref ;;
  C24|C25) PKG=ref_repl; KIND=ref ;;
  C17|C18|C26|C32) PKG=concmon; KIND=conc ;;
  C01|C02|C03|C04|C05|C06|C07|C34|C35) PKG=crashlab; KIND=crash ;;
  C16) PKG=fsguard; KIND=fs ;;
  *) echo "unknown property $ID" >&2; exit 2 ;;
esac

BASE=/dev/shm
[ -d "$BASE" ] && [ -w "$BASE" ] || BASE="${TMPDIR:-/tmp}"
SCR="$(mktemp -d "$BASE/verif-$ID-XXXXXX")"
export VERIF_SCRATCH="$SCR/run"
mkdir -p "$VERIF_SCRATCH" "$SCR/bin"
trap 'rm -rf "$SCR"' EXIT

# module file pointing at the tree under test (never rewrites harness/go.mod)
sed "s#=> /repo#=> $REPO#" "$H/go.mod" > "$SCR/go.mod"
sort -u "$H/go.sum" "$REPO/go.sum" > "$SCR/go.sum"
MF="-modfile=$SCR/go.mod"

build() { # build <out> <pkg> [flags...]
  local out=$1 pkg=$2; shift 2
  ( cd "$H" && go build $MF -tags verif "$@" -o "$SCR/bin/$out" "$pkg" ) || { echo "BROKEN-CHECK property=$ID build of $pkg failed"; exit 2; }
}

export VERIF_BIN="$SCR/bin"
case "$KIND" in
  pure)
    build "$PKG" "./cmd/$PKG" -gcflags=all=-d=checkptr
    if [ "$TIER" = thorough ] && [ "$PKG" = pure_wire ]; then build "$PKG-asan" "./cmd/$PKG" -asan; fi
    ;;
  ref)
    if [ "$TIER" = thorough ]; then build "$PKG" "./cmd/$PKG" -race; else build "$PKG" "./cmd/$PKG" -gcflags=all=-d=checkptr; fi
    ;;
  conc)
    build "$PKG" "./cmd/$PKG" -race
    ;;
  crash)
    build crashlab ./cmd/crashlab
    build wlchild ./cmd/wlchild
    build recchild ./cmd/recchild
    if [ "$ID" = C06 ] && [ "$TIER" = thorough ]; then build recchild-asan ./cmd/recchild -asan; fi
    ;;
  fs)
    build fsguard ./cmd/fsguard
    build fschild ./cmd/fschild
    ;;
esac

"$SCR/bin/$PKG" "$ID" --tier "$TIER" "$@"
RC=$?

if [ $# -eq 0 ] && [ $RC -ne 2 ]; then
  $(command -v python3-vt || echo python3) "$VERIF_DIR/tools/validate_evidence.py" "$EVDIR/evidence/$ID.json" || { echo "BROKEN-CHECK property=$ID evidence file invalid"; exit 2; }
fi
exit $RC
