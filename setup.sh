#!/bin/bash
# Run once after a fresh restore, offline. Warms the Go build cache for every monitor binary
# (plain, checkptr, -race, -asan variants) so that the first check does not pay for them.
# Checks rebuild from /repo's working tree themselves; nothing built here is reused except the cache.
set -u
export GOFLAGS=-mod=mod GOPROXY=off GOSUMDB=off GOTOOLCHAIN=local
cd "$(dirname "$0")/harness" || exit 1
T="$(mktemp -d)"; trap 'rm -rf "$T"' EXIT
sort -u go.sum /repo/go.sum > "$T/go.sum"; cp go.mod "$T/go.mod"
MF="-modfile=$T/go.mod"
rc=0
for d in cmd/*/; do
  p="./${d%/}"
  go build $MF -tags verif -o "$T/a" "$p" || rc=1
done
for p in ./cmd/pure_* ./cmd/ref_*; do [ -d "$p" ] && go build $MF -tags verif -gcflags=all=-d=checkptr -o "$T/a" "$p"; done
for p in ./cmd/ref_* ./cmd/concmon; do [ -d "$p" ] && go build $MF -tags verif -race -o "$T/a" "$p"; done
for p in ./cmd/pure_wire ./cmd/recchild; do [ -d "$p" ] && go build $MF -tags verif -asan -o "$T/a" "$p"; done
exit $rc
