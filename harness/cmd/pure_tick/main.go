// pure_tick: assertion monitors on pure functions (see DESIGN.md 3.3).
// exhaustive / boundary / seeded inputs), built with checkptr (and ASan in the thorough tier).
// One file per property; each registers its monitor in init().
package main

import (
	"github.com/alpacahq/marketstore/v4/verif/internal/runner"
)

var monitors []*runner.Monitor

func register(m *runner.Monitor) { monitors = append(monitors, m) }

func main() { runner.Main(monitors...) }
