package main

// C10 Sub-interval timestamp encoding is monotone and precise.
//
// Real code driven: io.GetIntervalTicks32Bit (encode, the function the writer calls through
// appendIntervalTicks) and executor.GetTimeFromTicks (decode, the function RewriteBuffer calls).
// Oracle (from the property text only):
//   t' = decode(encode(t)) lies in the same interval as t, 0 <= t - t' <= res (res = interval/2^32,
//   rounded up to 1 ns plus 1 ns for the decoder's round-to-nearest), encode is monotone, and for
//   1Sec intervals t' == t exactly.
// Known finding F-TICKSEC: the decoder rounds the seconds to 1e-8 while the nanoseconds do not
// carry, so an offset whose sub-second part is >= 1 - 5e-9 (after tick flooring) decodes exactly
// one second late. As-is model: t' - 1s satisfies the oracle and the input's sub-second part is
// within [1s - 5ns - res - 1ns, 1s).

import (
	"fmt"
	"time"

	"github.com/alpacahq/marketstore/v4/executor"
	"github.com/alpacahq/marketstore/v4/utils/io"
	"github.com/alpacahq/marketstore/v4/verif/internal/runner"
)

type c10tf struct {
	name string
	d    time.Duration
}

var c10tfs = []c10tf{
	{"1Sec", time.Second}, {"10Sec", 10 * time.Second}, {"30Sec", 30 * time.Second}, {"1Min", time.Minute},
	{"5Min", 5 * time.Minute}, {"15Min", 15 * time.Minute}, {"30Min", 30 * time.Minute},
	{"1H", time.Hour}, {"2H", 2 * time.Hour}, {"4H", 4 * time.Hour}, {"1D", 24 * time.Hour},
}

const c10chunk = 1000000 // offsets per 1Sec-exhaustive case

// case layout: [0, nExh) exhaustive/sampled 1Sec chunks; then one case per (timeframe, interval position).
func c10cases(tier string) int {
	return 1000 + len(c10tfs)*4
}

type c10out struct {
	bad, known int
	firstBad   string
	firstKnown string
	maxErr     int64
	n          int64
	carries    int64
}

// roundTrip checks one offset; prevTicks is the tick value of the previous (smaller) offset.
func c10check(o *c10out, tf c10tf, year int, index int64, ipd int64, base time.Time, off int64, prevTicks *uint32, prevOff *int64) {
	t := base.Add(time.Duration(off))
	ticks := io.GetIntervalTicks32Bit(t, index, ipd)
	if *prevOff >= 0 && off >= *prevOff && ticks < *prevTicks {
		o.bad++
		if o.firstBad == "" {
			o.firstBad = fmt.Sprintf("%s: encode not monotone: offset %d -> ticks %d but offset %d -> ticks %d", tf.name, *prevOff, *prevTicks, off, ticks)
		}
	}
	*prevTicks, *prevOff = ticks, off
	sec, ns := executor.GetTimeFromTicks(uint64(base.Unix()), uint32(ipd), ticks)
	dec := int64(sec)*1e9 + int64(ns)
	orig := t.UnixNano()
	d := orig - dec // how much earlier the decoded time is
	ivNs := tf.d.Nanoseconds()
	resNs := ivNs>>32 + 2 // res rounded up to 1ns, +1ns for the decoder's round-to-nearest
	startNs := base.UnixNano()
	o.n++
	ok := d >= 0 && d <= resNs && dec >= startNs && dec < startNs+ivNs
	if tf.d == time.Second {
		ok = ok && d == 0
	} else if d == -1 && dec < startNs+ivNs {
		// round-to-nearest of the nanosecond field may land 1 ns above a time that is not
		// representable; "at most one resolution step earlier" is about the tick floor, allow +1ns
		ok = true
	}
	if ok {
		if d > o.maxErr {
			o.maxErr = d
		}
		return
	}
	// as-is model of F-TICKSEC: trigger = the exact start of the tick (ticks*interval/2^32, computed in
	// integers) has a sub-second part >= 0.999999995 s (1 ns slack for float rounding in the decoder);
	// defective behaviour = exactly that time plus one second.
	exact := mulDivFloor(int64(ticks), ivNs)
	sub := exact % 1e9
	d2 := (dec - 1e9) - (startNs + exact) // decoded-minus-1s relative to the exact tick start: must be rounding only
	if sub >= 1e9-6 && d2 >= -1 && d2 <= 1 {
		o.known++
		o.carries++
		if o.firstKnown == "" {
			o.firstKnown = fmt.Sprintf("%s offset %dns -> ticks %d (exact tick start +%dns) -> decoded +%dns (one second late)", tf.name, off, ticks, exact, dec-startNs)
		}
		return
	}
	o.bad++
	if o.firstBad == "" {
		o.firstBad = fmt.Sprintf("%s year %d index %d offset %dns: ticks=%d decoded=start+%dns (t-t'=%dns, res=%dns, interval=%dns)", tf.name, year, index, off, ticks, dec-startNs, d, resNs, ivNs)
	}
}

func c10run(c *runner.Ctx) runner.Result {
	var res runner.Result
	var o c10out
	prevT, prevO := uint32(0), int64(-1)
	if c.Case < 1000 {
		// 1Sec: chunk c.Case of the 10^9 nanosecond offsets
		tf := c10tfs[0]
		ipd := int64(86400)
		year := 2019
		// interval: varies with the case so that several indices / years are exercised
		positions := []time.Time{
			time.Date(2019, 1, 1, 0, 0, 0, 0, time.UTC),
			time.Date(2019, 6, 15, 12, 34, 56, 0, time.UTC),
			time.Date(2020, 12, 31, 23, 59, 59, 0, time.UTC),
			time.Date(2020, 2, 29, 0, 0, 1, 0, time.UTC),
		}
		base := positions[c.Case%len(positions)]
		year = base.Year()
		index := io.TimeToIndex(base, tf.d)
		lo := int64(c.Case) * c10chunk
		hi := lo + c10chunk
		step := int64(1)
		if !c.Thorough() {
			step = 997
			lo += int64(c.Case) % step
		}
		for off := lo; off < hi; off += step {
			c10check(&o, tf, year, index, ipd, base, off, &prevT, &prevO)
		}
		if !c.Thorough() && (c.Case == 0 || c.Case == 999) {
			// first / last 10^5 offsets, every one
			a, b := int64(0), int64(100000)
			if c.Case == 999 {
				a, b = 1e9-100000, 1e9
			}
			prevO = -1
			for off := a; off < b; off++ {
				c10check(&o, tf, year, index, ipd, base, off, &prevT, &prevO)
			}
		}
		res.Sig = fmt.Sprintf("1Sec/chunk%d", c.Case)
		res.Set("timeframes", tf.name)
		if c.Case == 0 {
			res.Sample = map[string]interface{}{"timeframe": "1Sec", "interval_start": base.Format(time.RFC3339), "offsets": fmt.Sprintf("[%d,%d) step %d", lo, hi, step)}
		}
	} else {
		k := c.Case - 1000
		tf := c10tfs[k/4]
		pos := k % 4
		ipd := int64(24 * time.Hour / tf.d)
		var base time.Time
		switch pos {
		case 0: // first interval of a year
			base = time.Date(2019, 1, 1, 0, 0, 0, 0, time.UTC)
		case 1: // last interval of a leap year
			base = time.Date(2021, 1, 1, 0, 0, 0, 0, time.UTC).Add(-tf.d)
		case 2: // mid-year
			base = time.Date(2020, 7, 1, 0, 0, 0, 0, time.UTC).Truncate(tf.d)
		default:
			base = time.Date(2020, 2, 29, 0, 0, 0, 0, time.UTC).Add(tf.d * time.Duration(3%ipd))
		}
		if tf.d == 24*time.Hour && pos == 0 {
			base = time.Date(2019, 1, 2, 0, 0, 0, 0, time.UTC) // Jan 1 of a 1D bucket is index 0 (see C08/C30)
		}
		year := base.Year()
		index := io.TimeToIndex(base, tf.d)
		ivNs := tf.d.Nanoseconds()
		r := c.R("offsets")
		// boundary offsets: 0,1, interval-1, k*res +-1
		var offs []int64
		offs = append(offs, 0, 1, 2, ivNs-2, ivNs-1)
		nb := 10000
		nr := 200000
		if c.Thorough() {
			nr = 1000000
		}
		for i := 0; i < nb; i++ {
			tk := r.I64n(1 << 32)
			// offset at which tick tk starts: ceil(tk*interval/2^32)
			o64 := mulDiv(tk, ivNs)
			offs = append(offs, clampOff(o64-1, ivNs), clampOff(o64, ivNs), clampOff(o64+1, ivNs))
		}
		// whole seconds and their neighbourhood (where the seconds carry matters)
		for i := 0; i < 2000; i++ {
			s := r.I64n(ivNs/1e9+1) * 1e9
			for _, dlt := range []int64{-6, -5, -4, -1, 0, 1, 4, 5, 6} {
				offs = append(offs, clampOff(s+dlt, ivNs))
			}
		}
		for i := 0; i < nr; i++ {
			offs = append(offs, r.I64n(ivNs))
		}
		sortI64(offs)
		for _, off := range offs {
			c10check(&o, tf, year, index, ipd, base, off, &prevT, &prevO)
		}
		res.Sig = fmt.Sprintf("%s/pos%d", tf.name, pos)
		res.Set("timeframes", tf.name)
		if pos == 2 {
			res.Sample = map[string]interface{}{"timeframe": tf.name, "interval_start": base.Format(time.RFC3339), "offsets_checked": len(offs), "first_offsets": offs[:6]}
		}
	}
	res.Evals = o.n
	res.Count("round_trips", o.n)
	res.Count("seconds_carry_cases", o.carries)
	if o.bad > 0 {
		res.Violation(fmt.Sprintf("%d offsets violate the round-trip law; first: %s", o.bad, o.firstBad), map[string]interface{}{"first": o.firstBad})
	}
	if o.known > 0 {
		res.Known("F-TICKSEC", fmt.Sprintf("%d offsets decode one second late; first: %s", o.known, o.firstKnown), nil)
	}
	return res
}

func clampOff(v, iv int64) int64 {
	if v < 0 {
		return 0
	}
	if v >= iv {
		return iv - 1
	}
	return v
}

// mulDiv returns ceil(tk*iv / 2^32) without overflow (tk < 2^32, iv < 2^47).
func mulDiv(tk, iv int64) int64 {
	hi := (tk >> 16) * iv // < 2^16 * 2^47 = 2^63
	lo := (tk & 0xffff) * iv
	// (hi*2^16 + lo) / 2^32
	q := hi>>16 + (lo+(hi&0xffff)<<16)>>32
	return q + 1
}

// mulDivFloor returns floor(tk*iv / 2^32).
func mulDivFloor(tk, iv int64) int64 {
	hi := (tk >> 16) * iv
	lo := (tk & 0xffff) * iv
	return hi>>16 + (lo+(hi&0xffff)<<16)>>32
}

func sortI64(a []int64) {
	// simple radix-free sort via sort.Slice would allocate closures; fine here
	quickSortI64(a)
}

func quickSortI64(a []int64) {
	for len(a) > 12 {
		p := a[len(a)/2]
		i, j := 0, len(a)-1
		for i <= j {
			for a[i] < p {
				i++
			}
			for a[j] > p {
				j--
			}
			if i <= j {
				a[i], a[j] = a[j], a[i]
				i++
				j--
			}
		}
		if j+1 < len(a)-i {
			quickSortI64(a[:j+1])
			a = a[i:]
		} else {
			quickSortI64(a[i:])
			a = a[:j+1]
		}
	}
	for i := 1; i < len(a); i++ {
		for j := i; j > 0 && a[j] < a[j-1]; j-- {
			a[j], a[j-1] = a[j-1], a[j]
		}
	}
}

func init() {
	register(&runner.Monitor{
		ID:    "C10",
		Level: "exploration",
		Rule: "case = (timeframe, interval position, block of nanosecond offsets); each offset is encoded with io.GetIntervalTicks32Bit and decoded with executor.GetTimeFromTicks and the round-trip law is asserted; " +
			"1Sec: thorough enumerates all 10^9 offsets of four different intervals' worth of chunks (every offset exactly once), quick every 997th plus the first/last 10^5; other timeframes: tick-boundary offsets +-1, whole seconds +-6ns, interval edges and seeded offsets; a case is non-trivial when it checked >0 offsets, distinct by (timeframe, block)",
		Assumptions: []string{"encode/decode are called directly with the arguments the write path (appendIntervalTicks) and the read path (RewriteBuffer) compute; the end-to-end path is covered by C09"},
		Cases:       c10cases,
		Batch:       16,
		Run:         c10run,
		Exhaustive:  func(tier string) bool { return tier == "thorough" },
		Need:        []string{"round_trips"},
		BatchTimeout: 20 * time.Minute,
	})
}
