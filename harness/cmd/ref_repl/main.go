// ref_repl: differential monitors on the public API for the aggregation trigger (C24) and
// replication (C25) (see DESIGN.md 3.2): real instances from /repo on scratch directories, judged by a
// reference model (C24: fold of the base bucket) or a metamorphic relation (C25: master == replica).
// Built with checkptr (quick) / -race (thorough).
// One file per property; each registers its monitor in init().
package main

import (
	"runtime/debug"

	"github.com/alpacahq/marketstore/v4/verif/internal/runner"
)

// Every instance of the server allocates three channels of 10^6 slots (~70 MB, full of pointers) and
// every query two 6 MB buffers: with the default GC target the collector re-scans those channels every
// few queries. A larger target only trades memory for time; it changes nothing that is observed.
func init() { debug.SetGCPercent(400) }

var monitors []*runner.Monitor

func register(m *runner.Monitor) { monitors = append(monitors, m) }

func main() { runner.Main(monitors...) }
