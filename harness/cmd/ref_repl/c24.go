package main

// C24 On-disk aggregation matches the base data.
//
// Real code driven: the real aggtrigger.NewTrigger(destinations, filter "") registered through
// trigger.NewMatcher(trig, "*/1Min/OHLCV") and di.InjectTriggerMatchers, fired by the real
// TriggerPluginDispatcher after the real background WAL loop (SyncWAL) flushed a base-bar request; the
// trigger writes its aggregates through the globals executor.WriteCSM / executor.ThisInstance, as in
// the server. The trigger is wrapped only to count the records of completed Fire calls, so "all writes
// to the base bucket have been processed" is observed (records processed == rows written), not slept for.
//
// Oracle (reference model from the property text, c24fold): after every request, for every destination
// timeframe, QueryAll(destination) == fold of QueryAll(base): one bar per window that has base bars,
// open = first open, high = highest high, low = lowest low, close = last close, volume = total volume.
// Prices are compared exactly (they are selections); volumes are small integers, so their sums are
// exact in float32, float64 and int32 alike and summation order cannot matter.
//
// Known-finding candidates: F-AGGCACHE1, F-AGGCACHE2, F-AGGORDER (as-is model c24sim) and, only when the
// wrapper observed concurrent Fire calls for one bucket, F-AGGCONC (bounded as-is model in c24run).

import (
	"fmt"
	"reflect"
	"sort"
	"strconv"
	"strings"
	"sync"
	"time"

	"github.com/alpacahq/marketstore/v4/contrib/ondiskagg/aggtrigger"
	"github.com/alpacahq/marketstore/v4/plugins/trigger"
	"github.com/alpacahq/marketstore/v4/utils/io"
	"github.com/alpacahq/marketstore/v4/verif/internal/gen"
	"github.com/alpacahq/marketstore/v4/verif/internal/ms"
	"github.com/alpacahq/marketstore/v4/verif/internal/runner"
)

var c24destSets = [][]string{
	{"5Min", "15Min", "1H", "1D"},
	{"5Min", "1D"},
	{"15Min", "1H"},
	{"5Min", "30Min", "4H"},
	{"1H"},
	{"1D", "5Min"},
	{"2H", "30Min", "5Min"},
	{"15Min", "1D"},
}

func c24cases(tier string) int {
	if tier == "thorough" {
		return 480
	}
	return 64
}

// ---------------------------------------------------------------------------------------------
// the counting wrapper around the real trigger

type c24fireRec struct {
	key    string  // bucket key "SYM/1Min/OHLCV"
	epochs []int64 // record epochs in record order
	ov     bool    // ran while another Fire call of this trigger was running
}

type c24trig struct {
	inner  trigger.Trigger
	mu     sync.Mutex
	active map[int]bool // indexes into fires of the calls in progress
	fires  []c24fireRec
	done   int // records of completed Fire calls
	panics []string
}

func (t *c24trig) Fire(keyPath string, records []trigger.Record) {
	fr := c24fireRec{}
	el := strings.Split(keyPath, "/")
	if len(el) == 4 {
		fr.key = strings.Join(el[:3], "/")
		if y, err := strconv.Atoi(strings.TrimSuffix(el[3], ".bin")); err == nil {
			for i := range records {
				fr.epochs = append(fr.epochs, io.IndexToTime(records[i].Index(), time.Minute, int16(y)).Unix())
			}
		}
	}
	t.mu.Lock()
	idx := len(t.fires)
	if len(t.active) > 0 {
		fr.ov = true
		for j := range t.active {
			t.fires[j].ov = true
		}
	}
	t.fires = append(t.fires, fr)
	if t.active == nil {
		t.active = map[int]bool{}
	}
	t.active[idx] = true
	t.mu.Unlock()
	defer func() {
		r := recover()
		t.mu.Lock()
		delete(t.active, idx)
		t.done += len(records)
		if r != nil {
			t.panics = append(t.panics, fmt.Sprint(r))
		}
		t.mu.Unlock()
	}()
	t.inner.Fire(keyPath, records)
}

func (t *c24trig) snapshot() (done int, nfires int) {
	t.mu.Lock()
	defer t.mu.Unlock()
	return t.done, len(t.fires)
}

// ---------------------------------------------------------------------------------------------
// case generation

type c24req struct {
	Sym  int
	Kind string
	Bars []c24bar // in request (= record) order
}

type c24case struct {
	stratum  string // avoid | cache1 | cache2 | order
	destSet  int
	dests    []tfDef
	syms     []string
	volType  string // f4 | f8 | i4
	priceF64 bool
	reqs     []c24req
	day0     int64 // unix seconds of the first day
	aimed    bool  // the aimed request was generated
}

// generator state per symbol: predicted base content and the as-is model with every switch on (it
// tracks what the pinned tree does; used to place requests on / off the triggers)
type c24gsym struct {
	base    map[int64]c24bar
	sim     *c24sim
	lastMax int64 // latest epoch of the previous request for this symbol
}

func (g *c24gsym) sorted() []c24bar {
	out := make([]c24bar, 0, len(g.base))
	for _, b := range g.base {
		out = append(out, b)
	}
	sort.Slice(out, func(i, j int) bool { return out[i].E < out[j].E })
	return out
}

// try applies bars to a copy and reports which switches diverged newly.
func (g *c24gsym) try(bars []c24bar) c24flags {
	s := g.sim.clone()
	s.div = c24flags{}
	nb := map[int64]c24bar{}
	for e, b := range g.base {
		nb[e] = b
	}
	for _, b := range bars {
		nb[b.E] = b
	}
	tmp := &c24gsym{base: nb}
	s.fire(bars, tmp.sorted())
	return s.div
}

func (g *c24gsym) apply(bars []c24bar) {
	g.lastMax = 0
	for _, b := range bars {
		g.base[b.E] = b
		if b.E > g.lastMax {
			g.lastMax = b.E
		}
	}
	g.sim.fire(bars, g.sorted())
}

func c24price(r *gen.R) float64 {
	// float32-representable prices (exact in both price types), not ordered as a real candle would be:
	// a model that mixes up the columns must not pass by accident
	return float64(float32(1+r.Intn(4000)) / 8)
}

func c24newBar(r *gen.R, e int64) c24bar {
	return c24bar{E: e, O: c24price(r), H: c24price(r), L: c24price(r), C: c24price(r), V: float64(r.Intn(1000))}
}

func c24gen(c *runner.Ctx) *c24case {
	r := c.R("history")
	cs := &c24case{}
	switch c.Case % 8 {
	case 5:
		cs.stratum = "cache1"
	case 6:
		cs.stratum = "cache2"
	case 7:
		cs.stratum = "order"
	case 3:
		cs.stratum = "head" // scripted: late bar exactly at the start of the window after the cached one
	default:
		cs.stratum = "avoid"
		if c.Case%16 == 4 {
			cs.stratum = "conc" // same histories as "avoid", run with a WAL timer that cuts requests in two groups
		}
	}
	cs.destSet = (c.Case / 8) % len(c24destSets)
	for _, n := range c24destSets[cs.destSet] {
		cs.dests = append(cs.dests, tfByName(n))
	}
	nsym := 1
	if r.P(1, 3) {
		nsym = 2
	}
	for i := 0; i < nsym; i++ {
		cs.syms = append(cs.syms, fmt.Sprintf("AG%c%d", 'A'+byte(r.Intn(26)), i))
	}
	cs.volType = r.PickS("f4", "f8", "i4")
	cs.priceF64 = r.P(1, 4)
	// first day: not Jan 1 (1D slot 0 is the separate defect F-JAN1), five days of room inside the year
	year := 2016 + r.Intn(7)
	cs.day0 = yearStart(year) + int64(1+r.Intn(355))*86400
	// minute-of-day anchor; sometimes just before midnight so that requests cross the day boundary
	anchor := int64(r.Intn(1300))
	if r.P(1, 4) {
		anchor = 1440 - int64(r.Range(3, 40))
	}
	if r.P(1, 6) {
		anchor = int64(r.Intn(3)) * 60
	}
	gs := make([]*c24gsym, nsym)
	all := c24flags{c1: true, c2: true, ord: true}
	for i := range gs {
		gs[i] = &c24gsym{base: map[int64]c24bar{}, sim: newC24sim(all, cs.dests)}
	}
	ub := gs[0].sim.ub
	nreq := r.Range(6, 12)
	aimAt := r.Range(2, nreq-1)
	at := func(day int, minute int64) int64 { return cs.day0 + int64(day)*86400 + minute*60 }

	// candidate generators; every one returns bars sorted by time unless stated
	maxE := func(g *c24gsym) int64 {
		m := int64(0)
		for e := range g.base {
			if e > m {
				m = e
			}
		}
		return m
	}
	existing := func(g *c24gsym, lo, hi int64) []int64 {
		var es []int64
		for e := range g.base {
			if e >= lo && e <= hi {
				es = append(es, e)
			}
		}
		sort.Slice(es, func(i, j int) bool { return es[i] < es[j] })
		return es
	}
	freshIn := func(g *c24gsym, lo, hi int64, n int) []c24bar { // n unused minutes in [lo,hi]
		var out []c24bar
		seen := map[int64]bool{}
		for tries := 0; tries < 8*n && len(out) < n; tries++ {
			e := lo + r.I64n((hi-lo)/60+1)*60
			if _, ok := g.base[e]; ok || seen[e] {
				continue
			}
			seen[e] = true
			out = append(out, c24newBar(r, e))
		}
		sort.Slice(out, func(i, j int) bool { return out[i].E < out[j].E })
		return out
	}
	candidate := func(g *c24gsym, kind string) []c24bar {
		mx := maxE(g)
		switch kind {
		case "append": // in order after the latest bar, small gaps, may cross destination windows
			e := mx
			if e == 0 {
				e = at(0, anchor) - 60
			}
			var out []c24bar
			n := r.Range(1, 12)
			if cs.stratum == "conc" {
				n = r.Range(30, 120) // long requests: more time for the WAL timer to cut them
			}
			for i := 0; i < n; i++ {
				e += 60 * int64(r.PickI(1, 1, 1, 2, 3, 7))
				out = append(out, c24newBar(r, e))
			}
			return out
		case "otherday": // another day (earlier or later), in order
			day := r.Intn(4)
			lo := at(day, (anchor+int64(r.Intn(90)))%1400)
			return freshIn(g, lo, lo+40*60, r.Range(1, 8))
		case "backfill": // unused minutes before the latest bar, near it
			if mx == 0 {
				return nil
			}
			return freshIn(g, mx-int64(r.Range(5, 90))*60, mx-60, r.Range(1, 6))
		case "correct": // rewrite existing bars with new values
			es := existing(g, 0, 1<<62)
			if len(es) == 0 {
				return nil
			}
			// a run of neighbours, so that they tend to share windows
			i0 := r.Intn(len(es))
			var out []c24bar
			for i, n := i0, r.Range(1, 4); i < len(es) && len(out) < n; i++ {
				out = append(out, c24newBar(r, es[i]))
			}
			return out
		case "resend": // the most recent bar sent again with new values (a correction), alone or followed by newer bars
			e := mx
			if r.Bool() && g.lastMax != 0 {
				e = g.lastMax // the latest bar of the previous request (the window the trigger has cached)
			}
			if e == 0 {
				return nil
			}
			out := []c24bar{c24newBar(r, e)}
			for i, n := 0, r.PickI(0, 0, 1, 2, 5); i < n; i++ {
				e += 60 * int64(r.PickI(1, 1, 2, 3))
				if _, ok := g.base[e]; ok && e != mx {
					break
				}
				out = append(out, c24newBar(r, e))
			}
			return out
		case "correct+new": // corrections and new bars in one request
			es := existing(g, 0, 1<<62)
			if len(es) == 0 {
				return nil
			}
			i0 := r.Intn(len(es))
			out := []c24bar{c24newBar(r, es[i0])}
			out = append(out, freshIn(g, es[i0]-20*60, es[i0]+20*60, r.Range(1, 4))...)
			sort.Slice(out, func(i, j int) bool { return out[i].E < out[j].E })
			return out
		case "span": // one request over several days
			var out []c24bar
			d0 := r.Intn(3)
			for d := d0; d < 4 && d < d0+r.Range(2, 3); d++ {
				lo := at(d, (anchor+int64(r.Intn(60)))%1400)
				out = append(out, freshIn(g, lo, lo+30*60, r.Range(1, 4))...)
			}
			sort.Slice(out, func(i, j int) bool { return out[i].E < out[j].E })
			return out
		}
		return nil
	}
	kinds := []string{"append", "append", "append", "otherday", "backfill", "backfill", "correct", "correct", "correct+new", "span", "resend", "resend"}

	// cache2 stratum: the first two requests put bars on both sides of a boundary between two
	// upper-bound windows (so that partial aggregation of the neighbouring window is visible), the third
	// one is the aimed request
	var seeds [][]c24bar
	if cs.stratum == "cache2" {
		w := int64(ub.d.Seconds())
		boundary := c24trunc(at(1, anchor), ub)
		if boundary < at(0, 0)+w {
			boundary += w
		}
		mk := func(lo, hi int64) []c24bar {
			var out []c24bar
			seen := map[int64]bool{}
			for i, n := 0, r.Range(2, 6); i < n; i++ {
				e := lo + r.I64n((hi-lo)/60+1)*60
				if !seen[e] {
					seen[e] = true
					out = append(out, c24newBar(r, e))
				}
			}
			sort.Slice(out, func(i, j int) bool { return out[i].E < out[j].E })
			return out
		}
		span := minI64(w-60, 40*60)
		before, after := mk(boundary-span, boundary-60), mk(boundary, boundary+span-60)
		if r.Bool() {
			seeds = [][]c24bar{before, after} // the later window ends up cached
		} else {
			seeds = [][]c24bar{after, before} // the earlier window ends up cached
		}
		aimAt = 2
	}

	// head stratum: one request spans two upper-bound windows (the later one without a bar at its very
	// start), a correction then touches only the earlier window (which becomes the cached one), and a late
	// bar arrives exactly at the start of the later window, which already holds bars
	if cs.stratum == "head" {
		w := int64(ub.d.Seconds())
		boundary := c24trunc(at(1, anchor), ub)
		if boundary < at(0, 0)+w {
			boundary += w
		}
		mk := func(lo, hi int64, n int) []c24bar {
			var out []c24bar
			seen := map[int64]bool{}
			for i := 0; i < n; i++ {
				e := lo + r.I64n((hi-lo)/60+1)*60
				if !seen[e] {
					seen[e] = true
					out = append(out, c24newBar(r, e))
				}
			}
			sort.Slice(out, func(i, j int) bool { return out[i].E < out[j].E })
			return out
		}
		span := minI64(w-60, 40*60)
		before, after := mk(boundary-span, boundary-60, r.Range(2, 5)), mk(boundary+60, boundary+span-60, r.Range(2, 5))
		first := append(append([]c24bar{}, before...), after...)
		fix := []c24bar{c24newBar(r, before[r.Intn(len(before))].E)}
		late := []c24bar{c24newBar(r, boundary)}
		if r.Bool() {
			late = append(late, c24newBar(r, boundary+span)) // ... followed by a newer bar in the same window
		}
		seeds = [][]c24bar{first, fix, late}
		cs.aimed = true
	}
	for q := 0; q < nreq; q++ {
		si := r.Intn(nsym)
		if cs.stratum == "head" && q < len(seeds) {
			si = 0
		}
		if cs.stratum != "avoid" && cs.stratum != "conc" && q <= aimAt && !cs.aimed {
			si = 0
		}
		g := gs[si]
		var bars []c24bar
		kind := ""
		if q < len(seeds) {
			bars, kind = seeds[q], "seed"
		}
		if bars == nil && cs.stratum != "avoid" && cs.stratum != "conc" && q >= aimAt && !cs.aimed && g.sim.cache != nil {
			bars, kind = c24aim(r, cs, g, ub), cs.stratum
			if bars != nil {
				cs.aimed = true
			}
		}
		if bars == nil {
			// a request that exercises no known trigger: generate candidates until the as-is model
			// reports no divergence
			for tries := 0; tries < 30 && bars == nil; tries++ {
				k := kinds[r.Intn(len(kinds))]
				cand := candidate(g, k)
				if len(cand) == 0 {
					continue
				}
				if d := g.try(cand); d == (c24flags{}) {
					bars, kind = cand, k
				}
			}
			if bars == nil {
				// always safe: one new bar right after the latest one (inside the cached window, or
				// entirely in a later one)
				e := maxE(g) + 60
				if e == 60 {
					e = at(0, anchor)
				}
				bars, kind = []c24bar{c24newBar(r, e)}, "append1"
				if d := g.try(bars); d != (c24flags{}) {
					kind = "append1!" // cannot happen; recorded in the signature if it does
				}
			}
		}
		g.apply(bars)
		cs.reqs = append(cs.reqs, c24req{Sym: si, Kind: kind, Bars: bars})
	}
	return cs
}

// c24aim builds the request of an aimed case: it must make exactly the stratum's switch diverge.
func c24aim(r *gen.R, cs *c24case, g *c24gsym, ub tfDef) []c24bar {
	c := g.sim.cache
	want := map[string]c24flags{"cache1": {c1: true}, "cache2": {c2: true}, "order": {ord: true}}[cs.stratum]
	inCache := func() []int64 {
		var es []int64
		for e := range g.base {
			if e >= c.tail && e <= c.head {
				es = append(es, e)
			}
		}
		sort.Slice(es, func(i, j int) bool { return es[i] < es[j] })
		return es
	}
	unused := func(lo, hi int64, n int) []c24bar {
		var out []c24bar
		seen := map[int64]bool{}
		if hi < lo {
			return nil
		}
		for tries := 0; tries < 10*n && len(out) < n; tries++ {
			e := lo + r.I64n((hi-lo)/60+1)*60
			if _, ok := g.base[e]; ok || seen[e] {
				continue
			}
			seen[e] = true
			out = append(out, c24newBar(r, e))
		}
		sort.Slice(out, func(i, j int) bool { return out[i].E < out[j].E })
		return out
	}
	for tries := 0; tries < 40; tries++ {
		var bars []c24bar
		es := inCache()
		switch cs.stratum {
		case "cache1": // rewrite bars that lie in the cached window (optionally with new bars of that window)
			if len(es) == 0 {
				return nil
			}
			i0 := r.Intn(len(es))
			for i := i0; i < len(es) && len(bars) < r.Range(1, 3); i++ {
				bars = append(bars, c24newBar(r, es[i]))
			}
			if r.Bool() {
				bars = append(bars, unused(maxI64(c.tail, es[i0]-15*60), minI64(c.head-59, es[i0]+15*60), r.Range(1, 3))...)
				sort.Slice(bars, func(i, j int) bool { return bars[i].E < bars[j].E })
			}
		case "cache2": // new bars in the cached window and in a neighbouring upper-bound window that already has bars
			w := int64(ub.d.Seconds())
			var lo, hi int64
			prev, next := existingIn(g, c.tail-w, c.tail-1), existingIn(g, c.head+1, c.head+w)
			startsBefore := r.Bool()
			if (len(prev) > 0) != (len(next) > 0) {
				startsBefore = len(prev) > 0 // the neighbour that already has bars: there the partial fold shows
			}
			if startsBefore { // starts in the window before the cached one
				if len(prev) == 0 {
					lo, hi = c.tail-30*60, c.tail-60
				} else {
					lo, hi = maxI64(c.tail-w, prev[len(prev)-1]-10*60), c.tail-60
				}
				bars = append(bars, unused(lo, hi, r.Range(1, 3))...)
				if len(es) > 0 {
					bars = append(bars, unused(c.tail, minI64(c.head-59, es[0]+20*60), r.Range(1, 3))...)
				}
			} else { // ends in the window after the cached one
				if len(es) > 0 {
					bars = append(bars, unused(maxI64(c.tail, es[len(es)-1]-20*60), c.head-59, r.Range(1, 3))...)
				}
				if len(next) == 0 {
					lo, hi = c.head+1, c.head+1+30*60
				} else {
					lo, hi = c.head+1, minI64(c.head+w-59, next[0]+10*60)
				}
				bars = append(bars, unused(lo, hi, r.Range(1, 3))...)
			}
			sort.Slice(bars, func(i, j int) bool { return bars[i].E < bars[j].E })
		case "order": // new bars of the cached window, rows not ascending
			if len(es) == 0 {
				return nil
			}
			mid := es[r.Intn(len(es))]
			bars = unused(maxI64(c.tail, mid-25*60), minI64(c.head-59, mid+25*60), r.Range(2, 6))
			p := r.Perm(len(bars))
			sh := make([]c24bar, len(bars))
			for i, j := range p {
				sh[i] = bars[j]
			}
			bars = sh
		}
		if len(bars) == 0 {
			continue
		}
		// the request must cross the year boundary never, and stay off Jan 1
		if d := g.try(bars); d == want {
			return bars
		}
	}
	return nil
}

func existingIn(g *c24gsym, lo, hi int64) []int64 {
	var es []int64
	for e := range g.base {
		if e >= lo && e <= hi {
			es = append(es, e)
		}
	}
	sort.Slice(es, func(i, j int) bool { return es[i] < es[j] })
	return es
}

func maxI64(a, b int64) int64 {
	if a > b {
		return a
	}
	return b
}

func minI64(a, b int64) int64 {
	if a < b {
		return a
	}
	return b
}

// ---------------------------------------------------------------------------------------------
// driving the real code

func (cs *c24case) baseKey(si int) string { return cs.syms[si] + "/1Min/OHLCV" }
func (cs *c24case) destKey(si int, d tfDef) string {
	return cs.syms[si] + "/" + d.name + "/OHLCV"
}

func (cs *c24case) columnSeries(bars []c24bar) *io.ColumnSeries {
	n := len(bars)
	ep := make([]int64, n)
	px := [4][]float64{make([]float64, n), make([]float64, n), make([]float64, n), make([]float64, n)}
	vol := make([]float64, n)
	for i, b := range bars {
		ep[i] = b.E
		px[0][i], px[1][i], px[2][i], px[3][i] = b.O, b.H, b.L, b.C
		vol[i] = b.V
	}
	conv := func(v []float64, typ string) interface{} {
		switch typ {
		case "f4":
			o := make([]float32, len(v))
			for i, x := range v {
				o[i] = float32(x)
			}
			return o
		case "i4":
			o := make([]int32, len(v))
			for i, x := range v {
				o[i] = int32(x)
			}
			return o
		}
		return append([]float64{}, v...)
	}
	pt := "f4"
	if cs.priceF64 {
		pt = "f8"
	}
	return ms.CS(ep,
		ms.Col{Name: "Open", Data: conv(px[0], pt)}, ms.Col{Name: "High", Data: conv(px[1], pt)},
		ms.Col{Name: "Low", Data: conv(px[2], pt)}, ms.Col{Name: "Close", Data: conv(px[3], pt)},
		ms.Col{Name: "Volume", Data: conv(vol, cs.volType)})
}

func c24num(col interface{}, i int) (float64, bool) {
	if col == nil {
		return 0, false
	}
	v := reflect.ValueOf(col)
	if v.Kind() != reflect.Slice || i >= v.Len() {
		return 0, false
	}
	e := v.Index(i)
	switch e.Kind() {
	case reflect.Float32, reflect.Float64:
		return e.Float(), true
	case reflect.Int8, reflect.Int16, reflect.Int32, reflect.Int64:
		return float64(e.Int()), true
	case reflect.Uint8, reflect.Uint16, reflect.Uint32, reflect.Uint64:
		return float64(e.Uint()), true
	}
	return 0, false
}

// c24bars decodes an OHLCV table; dup reports an epoch returned twice.
func c24bars(t *ms.Table) (rows []c24bar, problem string) {
	for i := 0; i < t.N; i++ {
		b := c24bar{E: t.Epoch[i]}
		var ok [5]bool
		b.O, ok[0] = c24num(t.Cols["Open"], i)
		b.H, ok[1] = c24num(t.Cols["High"], i)
		b.L, ok[2] = c24num(t.Cols["Low"], i)
		b.C, ok[3] = c24num(t.Cols["Close"], i)
		b.V, ok[4] = c24num(t.Cols["Volume"], i)
		for k, o := range ok {
			if !o {
				return nil, fmt.Sprintf("column %s missing or not numeric (columns %v)", []string{"Open", "High", "Low", "Close", "Volume"}[k], t.Names)
			}
		}
		rows = append(rows, b)
	}
	return rows, ""
}

func c24queryBars(in *ms.Inst, key string) ([]c24bar, string) {
	var t *ms.Table
	var err error
	if p := ms.Recover(func() { t, err = queryAll(in, key) }); p != "" {
		return nil, "query panicked: " + p
	}
	if err != nil {
		if ms.QueryErrNoData(err) || strings.Contains(err.Error(), "not in catalog") {
			return nil, ""
		}
		return nil, "query failed: " + err.Error()
	}
	return c24bars(t)
}

func c24fmtBar(b c24bar) string {
	return fmt.Sprintf("%s O=%v H=%v L=%v C=%v V=%v", time.Unix(b.E, 0).UTC().Format("2006-01-02T15:04"), b.O, b.H, b.L, b.C, b.V)
}

func c24diff(want map[int64]c24bar, got []c24bar) string {
	seen := map[int64]bool{}
	var out []string
	for _, b := range got {
		if seen[b.E] {
			out = append(out, "window returned twice: "+c24fmtBar(b))
		}
		seen[b.E] = true
		w, ok := want[b.E]
		if !ok {
			out = append(out, "bar for a window without base bars: "+c24fmtBar(b))
		} else if w != b {
			out = append(out, "expected "+c24fmtBar(w)+" got "+c24fmtBar(b))
		}
	}
	var miss []int64
	for e := range want {
		if !seen[e] {
			miss = append(miss, e)
		}
	}
	sort.Slice(miss, func(i, j int) bool { return miss[i] < miss[j] })
	for _, e := range miss {
		out = append(out, "missing window: expected "+c24fmtBar(want[e]))
	}
	sort.Strings(out)
	return strings.Join(trimStrings(out, 6), "; ")
}

const c24maxPolls = 200000 // x 200 us sleeps; a bound in polls, not a deadline that decides anything

func c24run(c *runner.Ctx) (res runner.Result) {
	ms.Quiet()
	cs := c24gen(c)
	inner, err := aggtrigger.NewTrigger(map[string]interface{}{"destinations": c24destSets[cs.destSet], "filter": ""})
	if err != nil {
		res.Inconclusive("aggtrigger.NewTrigger failed: " + err.Error())
		return res
	}
	trig := &c24trig{inner: inner}
	matchers := []*trigger.Matcher{trigger.NewMatcher(trig, "*/1Min/OHLCV")}
	// long WAL timer: a request is flushed by its own flush request; the timer could cut a request in two
	// groups, i.e. two concurrent Fire calls for one bucket (handled below when it happens all the same)
	walRefresh := 10 * time.Second
	if cs.stratum == "conc" {
		// aimed at F-AGGCONC: the timer fires every 200 us, so now and then it flushes the first rows of a
		// request before the request's own flush: two groups, two concurrent Fire calls for one bucket
		// (schedule-dependent: how often it happened is counted in requests_split_into_concurrent_fires)
		walRefresh = 200 * time.Microsecond
	}
	inst := ms.Open(c.Scratch+"/data", ms.Opts{Triggers: matchers, WALRefresh: walRefresh, PrimaryRefresh: 2 * time.Second,
		RotateInterval: 5, SetGlobalInstance: true})
	time.Sleep(10 * time.Millisecond) // let the WAL goroutine announce itself before the first request
	defer inst.Shutdown()

	nsym := len(cs.syms)
	type symState struct {
		sims    []*c24sim
		alive   []bool
		idealOK bool
		firstAt int    // request index of the first deviation from the reference model
		first   string // its description
		firstW  interface{}
		// concurrency: first request of this symbol that reached the trigger in several / overlapping Fire calls
		taintAt   int
		taintDesc string
		ovWin     map[string]map[int64]bool // per destination: windows touched by requests from taintAt on
		outside   string                    // a deviation after taintAt in a window not in ovWin
	}
	st := make([]*symState, nsym)
	subsets := c24subsets()
	for i := range st {
		st[i] = &symState{idealOK: true, firstAt: -1, taintAt: -1, ovWin: map[string]map[int64]bool{}}
		for _, f := range subsets {
			st[i].sims = append(st[i].sims, newC24sim(f, cs.dests))
			st[i].alive = append(st[i].alive, true)
		}
		for _, d := range cs.dests {
			st[i].ovWin[d.name] = map[int64]bool{}
		}
	}
	written := 0
	for qi, rq := range cs.reqs {
		_, firesBefore := trig.snapshot()
		if err := inst.Write(cs.baseKey(rq.Sym), cs.columnSeries(rq.Bars), false); err != nil {
			res.Inconclusive(fmt.Sprintf("request %d rejected by the writer: %v", qi, err))
			return res
		}
		written += len(rq.Bars)
		polls := 0
		for {
			if done, _ := trig.snapshot(); done >= written {
				break
			}
			polls++
			if polls > c24maxPolls {
				done, _ := trig.snapshot()
				res.Inconclusive(fmt.Sprintf("request %d: trigger processed %d of %d written records after %d polls", qi, done, written, polls))
				return res
			}
			time.Sleep(200 * time.Microsecond)
		}
		res.Count("requests", 1)
		res.Count("base_bars_written", int64(len(rq.Bars)))
		res.Set("request_kinds", rq.Kind)
		if rq.Kind == "cache1" || rq.Kind == "cache2" || rq.Kind == "order" {
			res.Count("aimed_requests", 1)
		}
		trig.mu.Lock()
		fires := append([]c24fireRec{}, trig.fires[firesBefore:]...)
		panics := append([]string{}, trig.panics...)
		trig.mu.Unlock()
		res.Count("fire_calls", int64(len(fires)))
		s := st[rq.Sym]
		single := len(fires) == 1 && !fires[0].ov && len(fires[0].epochs) == len(rq.Bars) && fires[0].key == cs.baseKey(rq.Sym)
		if single {
			for i, e := range fires[0].epochs {
				single = single && e == rq.Bars[i].E
			}
		}
		if !single && s.taintAt < 0 {
			ov := false
			for _, f := range fires {
				ov = ov || f.ov
			}
			s.taintAt = qi
			s.taintDesc = fmt.Sprintf("request %d reached the trigger in %d Fire calls (overlapping: %v)", qi, len(fires), ov)
			res.Count("requests_split_into_concurrent_fires", 1)
		}
		if s.taintAt >= 0 {
			for _, d := range cs.dests {
				for _, b := range rq.Bars {
					s.ovWin[d.name][c24trunc(b.E, d)] = true
				}
			}
		}

		// observe
		base, prob := c24queryBars(inst, cs.baseKey(rq.Sym))
		if prob != "" {
			res.Inconclusive(fmt.Sprintf("request %d: base bucket unreadable: %s", qi, prob))
			return res
		}
		// as-is models see the request in record order and the base content of that moment
		if s.taintAt < 0 {
			for k, sim := range s.sims {
				if s.alive[k] {
					sim.fire(rq.Bars, base)
				}
			}
		}
		for _, d := range cs.dests {
			got, prob := c24queryBars(inst, cs.destKey(rq.Sym, d))
			want := c24fold(base, d)
			res.Count("destination_tables_compared", 1)
			res.Count("destination_bars_compared", int64(len(want)))
			gotMap := map[int64]c24bar{}
			dup := false
			for _, b := range got {
				if _, ok := gotMap[b.E]; ok {
					dup = true
				}
				gotMap[b.E] = b
			}
			okIdeal := prob == "" && !dup && c24sameDest(want, gotMap)
			if !okIdeal && s.idealOK {
				s.idealOK = false
				s.firstAt = qi
				diff := prob
				if diff == "" {
					diff = c24diff(want, got)
				}
				s.first = fmt.Sprintf("after request %d (%s, %d bars) destination %s differs from the fold of the base bucket: %s", qi, rq.Kind, len(rq.Bars), cs.destKey(rq.Sym, d), diff)
				if len(panics) > 0 {
					s.first += "; trigger panicked: " + panics[0]
				}
				s.firstW = c24witness(cs, rq.Sym, qi, d, base, want, got)
			}
			if s.taintAt < 0 {
				for k, sim := range s.sims {
					if s.alive[k] && (prob != "" || dup || !c24sameDest(sim.dest[d.name], gotMap)) {
						s.alive[k] = false
					}
				}
			} else if !okIdeal && s.outside == "" {
				if prob != "" || dup {
					s.outside = "destination " + d.name + " unreadable or with a window twice"
				}
				for e, w := range want {
					if g, ok := gotMap[e]; (!ok || g != w) && !s.ovWin[d.name][e] {
						s.outside = fmt.Sprintf("destination %s window %s", d.name, time.Unix(e, 0).UTC().Format("2006-01-02T15:04"))
					}
				}
				for e := range gotMap {
					if _, ok := want[e]; !ok && !s.ovWin[d.name][e] {
						s.outside = fmt.Sprintf("destination %s extra window %s", d.name, time.Unix(e, 0).UTC().Format("2006-01-02T15:04"))
					}
				}
			}
		}
	}
	// verdict per symbol
	why := map[string]string{
		"F-AGGCACHE1": "a rewritten base bar inside the cached upper-bound window keeps its cached (old) values in the aggregates",
		"F-AGGCACHE2": "a request that only overlaps the cached upper-bound window is aggregated from the cache plus its own bars: the other windows are folded from partial data",
		"F-AGGORDER":  "for a request whose rows are not ascending the trigger takes its first/last record as earliest/latest bar: destination windows outside that range keep stale bars",
	}
	for si, s := range st {
		if s.idealOK {
			continue
		}
		if s.taintAt >= 0 && s.firstAt >= s.taintAt {
			// as-is model F-AGGCONC. Trigger (measured by the wrapper): a request of this bucket was
			// delivered in several Fire calls / a Fire call ran while another one was running (the
			// dispatcher starts one goroutine per flushed group and file). Defective behaviour: the calls
			// share the cache entry of the bucket and write the same destination windows without
			// ordering, so a call that read the base data earlier can overwrite newer aggregates. The
			// outcome depends on the schedule; the model only bounds it: every deviating window was
			// touched by a request from the concurrent one on.
			if s.outside == "" {
				res.Known("F-AGGCONC", s.first+" ["+s.taintDesc+": concurrent Fire calls for one base bucket overwrite each other's aggregates; every deviating window was touched by that request or a later one]", s.firstW)
				res.Count("known_F-AGGCONC", 1)
			} else {
				res.Violation(fmt.Sprintf("symbol %s: %s [%s, but %s deviates and was not touched since]", cs.syms[si], s.first, s.taintDesc, s.outside), s.firstW)
			}
			continue
		}
		// the first deviation precedes any concurrency: classify it with the as-is models (their state is
		// the one before the concurrent request, if there was one)
		classified := false
		for k, f := range subsets {
			if !s.alive[k] {
				continue
			}
			dv := s.sims[k].div
			if (f.c1 && !dv.c1) || (f.c2 && !dv.c2) || (f.ord && !dv.ord) {
				continue // a switch whose trigger never held cannot explain anything
			}
			for _, id := range []struct {
				on bool
				id string
			}{{f.c1, "F-AGGCACHE1"}, {f.c2, "F-AGGCACHE2"}, {f.ord, "F-AGGORDER"}} {
				if id.on {
					res.Known(id.id, s.first+" ["+why[id.id]+"; all destination tables after every request equal the as-is model "+f.String()+"]", s.firstW)
					res.Count("known_"+id.id, 1)
				}
			}
			classified = true
			break
		}
		if !classified {
			res.Violation(fmt.Sprintf("symbol %s: %s", cs.syms[si], s.first), s.firstW)
		}
	}
	if res.Counts["destination_bars_compared"] > 0 {
		res.Sig = c24sig(cs)
	}
	if c.Case < 2 || (c.Case >= 5 && c.Case < 8) {
		res.Sample = c24sample(cs)
	}
	return res
}

func c24sig(cs *c24case) string {
	kinds := map[string]bool{}
	for _, q := range cs.reqs {
		kinds[q.Kind] = true
	}
	var ks []string
	for k := range kinds {
		ks = append(ks, k)
	}
	sort.Strings(ks)
	px := "f4"
	if cs.priceF64 {
		px = "f8"
	}
	return fmt.Sprintf("%s/dests=%s/px=%s/vol=%s/syms=%d/kinds=%s", cs.stratum, strings.Join(c24destSets[cs.destSet], "+"), px, cs.volType, len(cs.syms), strings.Join(ks, "+"))
}

func c24fmtReq(cs *c24case, qi int) string {
	q := cs.reqs[qi]
	var bs []string
	for _, b := range q.Bars {
		bs = append(bs, c24fmtBar(b))
	}
	return fmt.Sprintf("request %d [%s] %s: %s", qi, q.Kind, cs.baseKey(q.Sym), strings.Join(bs, " | "))
}

func c24sample(cs *c24case) interface{} {
	var rs []string
	for i := range cs.reqs {
		rs = append(rs, c24fmtReq(cs, i))
	}
	return map[string]interface{}{"stratum": cs.stratum, "destinations": c24destSets[cs.destSet], "volume_type": cs.volType, "price_f64": cs.priceF64, "requests": rs}
}

func c24witness(cs *c24case, si, upto int, d tfDef, base []c24bar, want map[int64]c24bar, got []c24bar) interface{} {
	var rs []string
	for i := 0; i <= upto && i < len(cs.reqs); i++ {
		if cs.reqs[i].Sym == si {
			rs = append(rs, c24fmtReq(cs, i))
		}
	}
	var bs, ws, gs []string
	for _, b := range base {
		bs = append(bs, c24fmtBar(b))
	}
	var we []int64
	for e := range want {
		we = append(we, e)
	}
	sort.Slice(we, func(i, j int) bool { return we[i] < we[j] })
	for _, e := range we {
		ws = append(ws, c24fmtBar(want[e]))
	}
	for _, b := range got {
		gs = append(gs, c24fmtBar(b))
	}
	return map[string]interface{}{
		"trigger_config":          map[string]interface{}{"on": "*/1Min/OHLCV", "destinations": c24destSets[cs.destSet], "filter": ""},
		"requests_in_order":       rs,
		"base_bucket_now":         trimStrings(bs, 80),
		"destination":             cs.destKey(si, d),
		"expected_fold_of_base":   trimStrings(ws, 40),
		"destination_bucket_rows": trimStrings(gs, 40),
	}
}

func init() {
	register(&runner.Monitor{
		ID:    "C24",
		Level: "exploration",
		Rule: "case = (destination set out of 8, rotated; 1-2 symbols; price type float32/float64; volume type float32/float64/int32) and a history of 6-12 base-bar requests on 1Min OHLCV buckets over four consecutive days (anchored anywhere in a day, before midnight or at its start): appends in order with gaps crossing 5Min..1D windows, requests on another day, backfills before the latest bar, corrections of existing bars, corrections mixed with new bars, requests spanning several days; " +
			"after every request the monitor waits until the trigger has processed as many records as were written, then compares every destination bucket with the fold of the base bucket's current content. " +
			"Strata by case number mod 8: 0-4 avoid (every request is placed so that no known trigger holds: rewrites only outside the cached window, no request overlapping the cached window without lying inside it, rows ascending), 5 aims at F-AGGCACHE1, 6 at F-AGGCACHE2, 7 at F-AGGORDER (one aimed request per history); every 16th case (mod 16 = 4) runs an avoid history (with appends of 30-120 bars) with a 200 us WAL timer so that requests get cut into two groups and the trigger fires concurrently for one bucket (F-AGGCONC, schedule-dependent). " +
			"A case is non-trivial when at least one destination bar was compared; distinct by (stratum, destination set, price/volume types, symbols, set of request kinds)",
		Assumptions: []string{
			"filter \"\" (the nasdaq market-hours filter is not covered); UTC",
			"all base bars of one history lie in one year and not on Jan 1 (a request spanning two years fires the trigger twice concurrently; 1D slot 0 is F-JAN1)",
			"base requests are issued from one goroutine and the next one waits for the trigger (the known defect F-REQFLUSH would otherwise make 'processed' unobservable)",
			"no two rows of one request share a minute",
		},
		Cases:        c24cases,
		Batch:        4,
		Run:          c24run,
		Need:         []string{"requests", "fire_calls", "destination_bars_compared"},
		BatchTimeout: 45 * time.Minute,
		MinDistinct:  10,
	})
}
