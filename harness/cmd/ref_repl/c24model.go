package main

// Models for C24.
//
//  1. c24fold: the reference model written from the property text: one bar per destination window that
//     has base bars; open = first open, high = highest high, low = lowest low, close = last close,
//     volume = total volume of the base bars currently stored in the window.
//
//  2. c24sim: the as-is model used ONLY to classify a deviation from (1) as a known finding. It
//     describes how the trigger decides which base bars it folds on each Fire, with one switch per
//     defect. With a switch off the corresponding step behaves as the property needs; with it on it
//     behaves as the pinned tree does:
//       c1  (F-AGGCACHE1) the cached bars of the last upper-bound window are unioned with the request's
//           bars so that the CACHED bar wins for an epoch present in both (a rewritten bar keeps its
//           old values);
//       c2  (F-AGGCACHE2) the cache is used when the request merely OVERLAPS the cached window instead
//           of lying inside it, so windows outside the cached one are folded from the request's bars
//           alone, and the cache is then replaced by that partial data;
//       ord (F-AGGORDER) the first and last record of the request are taken as its earliest and latest
//           bar, so for a request whose rows are not in ascending order the destination windows before
//           the first / after the last record are not refreshed.
//     A switch "diverged" when the defective step actually differed from the sound one during a history
//     (= the trigger predicate of the finding, evaluated on the input history).

import (
	"sort"
)

type c24bar struct {
	E          int64 // epoch seconds
	O, H, L, C float64
	V          float64
}

func c24trunc(e int64, d tfDef) int64 { s := int64(d.d.Seconds()); return e - e%s }
func c24ceil(e int64, d tfDef) int64  { s := int64(d.d.Seconds()); return e - e%s + s }

// c24fold folds base bars (sorted by epoch) into windows of d.
func c24fold(rows []c24bar, d tfDef) map[int64]c24bar {
	out := map[int64]c24bar{}
	for _, r := range rows {
		w := c24trunc(r.E, d)
		a, ok := out[w]
		if !ok {
			out[w] = c24bar{E: w, O: r.O, H: r.H, L: r.L, C: r.C, V: r.V}
			continue
		}
		if r.H > a.H {
			a.H = r.H
		}
		if r.L < a.L {
			a.L = r.L
		}
		a.C = r.C
		a.V += r.V
		out[w] = a
	}
	return out
}

type c24flags struct{ c1, c2, ord bool }

func (f c24flags) String() string {
	s := ""
	if f.c1 {
		s += "+F-AGGCACHE1"
	}
	if f.c2 {
		s += "+F-AGGCACHE2"
	}
	if f.ord {
		s += "+F-AGGORDER"
	}
	return s
}

func (f c24flags) size() int {
	n := 0
	for _, b := range []bool{f.c1, f.c2, f.ord} {
		if b {
			n++
		}
	}
	return n
}

type c24cache struct {
	rows       []c24bar
	tail, head int64 // first second / last second (minus one) of the cached upper-bound window
}

type c24sim struct {
	flags c24flags
	dests []tfDef
	ub    tfDef
	cache *c24cache
	dest  map[string]map[int64]c24bar
	div   c24flags // which switched-on defects actually changed a decision so far
}

func newC24sim(flags c24flags, dests []tfDef) *c24sim {
	s := &c24sim{flags: flags, dests: dests, dest: map[string]map[int64]c24bar{}}
	for i, d := range dests {
		s.dest[d.name] = map[int64]c24bar{}
		if i == 0 || d.d > s.ub.d {
			s.ub = d
		}
	}
	return s
}

func (s *c24sim) clone() *c24sim {
	n := &c24sim{flags: s.flags, dests: s.dests, ub: s.ub, div: s.div, dest: map[string]map[int64]c24bar{}}
	if s.cache != nil {
		c := *s.cache
		c.rows = append([]c24bar{}, s.cache.rows...)
		n.cache = &c
	}
	for k, m := range s.dest {
		mm := make(map[int64]c24bar, len(m))
		for e, b := range m {
			mm[e] = b
		}
		n.dest[k] = mm
	}
	return n
}

// c24slice mirrors the bounds the trigger applies to a sorted series: drop rows before the first row
// >= start (if there is one), then drop rows after the last row < end (if there is one).
func c24slice(rows []c24bar, start, end int64) []c24bar {
	for i, r := range rows {
		if r.E >= start {
			rows = rows[i:]
			break
		}
	}
	for i := len(rows) - 1; i >= 0; i-- {
		if rows[i].E < end {
			rows = rows[:i+1]
			break
		}
	}
	return rows
}

// fire processes one trigger invocation: recs = the request's bars in record order, base = the base
// bucket's content at that time, sorted by epoch.
func (s *c24sim) fire(recs []c24bar, base []c24bar) {
	if len(recs) == 0 {
		return
	}
	mn, mx := recs[0].E, recs[0].E
	for _, r := range recs {
		if r.E < mn {
			mn = r.E
		}
		if r.E > mx {
			mx = r.E
		}
	}
	head, tail := mn, mx
	if s.flags.ord {
		head, tail = recs[0].E, recs[len(recs)-1].E
		if head != mn || tail != mx {
			s.div.ord = true
		}
	}
	var cs []c24bar
	useCache := false
	if c := s.cache; c != nil {
		overlap := tail >= c.tail && head <= c.head
		contained := head >= c.tail && tail <= c.head && mn >= c.tail && mx <= c.head
		useCache = contained
		if s.flags.c2 {
			useCache = overlap
			if overlap != contained {
				s.div.c2 = true
			}
		}
		if !useCache {
			s.cache = nil
		}
	}
	if useCache {
		m := map[int64]c24bar{}
		for _, r := range recs {
			m[r.E] = r
		}
		for _, r := range s.cache.rows {
			if n, ok := m[r.E]; ok {
				if s.flags.c1 {
					if n != r {
						s.div.c1 = true
					}
					m[r.E] = r
				}
				continue
			}
			m[r.E] = r
		}
		for _, r := range m {
			cs = append(cs, r)
		}
		sort.Slice(cs, func(i, j int) bool { return cs[i].E < cs[j].E })
	} else {
		qs, qe := c24trunc(head, s.ub), c24ceil(tail, s.ub)-1
		for _, r := range base {
			if r.E >= qs && r.E <= qe {
				cs = append(cs, r)
			}
		}
		if len(cs) == 0 {
			return
		}
	}
	for _, d := range s.dests {
		start, end := c24trunc(head, d), c24ceil(tail, d)-1
		slc := c24slice(cs, start, end)
		if len(slc) == 0 {
			continue
		}
		// consecutive rows of one window form a group (the series is sorted)
		g0 := 0
		emit := func(a, b int) {
			w := c24trunc(slc[a].E, d)
			f := c24fold(slc[a:b], d)
			s.dest[d.name][w] = f[w]
		}
		for i := range slc {
			if c24trunc(slc[i].E, d) != c24trunc(slc[g0].E, d) {
				emit(g0, i)
				g0 = i
			}
		}
		emit(g0, len(slc))
		if d.d == s.ub.d {
			t := c24trunc(tail, d)
			s.cache = &c24cache{rows: append([]c24bar{}, c24slice(cs, t, end)...), tail: t, head: end}
		}
	}
}

func c24sameDest(a, b map[int64]c24bar) bool {
	if len(a) != len(b) {
		return false
	}
	for e, x := range a {
		if y, ok := b[e]; !ok || x != y {
			return false
		}
	}
	return true
}

// all non-empty subsets of the three switches
func c24subsets() []c24flags {
	var out []c24flags
	for m := 1; m < 8; m++ {
		out = append(out, c24flags{c1: m&1 != 0, c2: m&2 != 0, ord: m&4 != 0})
	}
	sort.SliceStable(out, func(i, j int) bool { return out[i].size() < out[j].size() })
	return out
}
