package main

// C25 Replicas converge to the master.
//
// Real code driven: a master instance (ms.Open = the start-up sequence of cmd/start) whose
// WALFileType.ReplicationSender is replaced by a capturing sender, so every serialized transaction
// group is copied at exactly the point the master would transmit it (executor/wal.go, after the WAL
// fsync); a replica instance on its own root with replication.NewReplayer(executor.ParseTGData,
// replicaWriter.WriteCSM, replicaRoot), exactly as internal/di builds it, which applies the captured
// groups in order through Replay.
//
// Oracle (metamorphic, from the property text): after every transmitted group has been applied, for
// every bucket the unrestricted query on the replica returns the same rows as on the master: same
// columns, same row count, same values bit for bit, fixed-length timestamps equal, variable-length
// timestamps equal within one resolution step (interval/2^32 rounded up to 1 ns, +1 ns rounding).
//
// Grouping of writes into transactions: one WriteCSM call = one group with inline flushing. Groups that
// hold several WriteCSM calls (and groups that mix fixed and variable-length buckets, which one call
// cannot produce because it takes a single isVariableLength flag) are produced with the real
// background WAL loop: the capturing sender blocks the loop inside Send of a primer group (the real
// Sender.Send blocks too when its channel is full) while several goroutines call WriteCSM; all but
// one return from RequestFlush at once because a flush request is already queued, which shows that
// all commands are queued; then the loop is released and flushes them as one group. What the groups
// really contained is measured from the captured bytes (counts mixed_tgs, multi_file_tgs).
//
// Known-finding candidates (as-is models in c25judge): F-REPLSEC, F-REPLMIX.

import (
	"context"
	"fmt"
	"sort"
	"strings"
	"sync"
	"time"

	"github.com/alpacahq/marketstore/v4/executor"
	"github.com/alpacahq/marketstore/v4/replication"
	"github.com/alpacahq/marketstore/v4/utils/io"
	"github.com/alpacahq/marketstore/v4/verif/internal/gen"
	"github.com/alpacahq/marketstore/v4/verif/internal/ms"
	"github.com/alpacahq/marketstore/v4/verif/internal/runner"
)

type c25bucket struct {
	Key      string
	TF       tfDef
	Variable bool
	ColNames []string
	colTypes []int // indexes into ms.ElemTypes
	anchor   int64 // unix seconds of the anchor interval start
	cross    bool  // the intervals anchor .. anchor+7 straddle the end of the year
	fresh    bool  // replmix stratum: first written by the mixed group
	// set while generating: some written variable record lies >= 1 s after its interval start
	secOffset bool
}

type c25row struct {
	T int64   // ns since the Unix epoch
	V []int64 // seeds of the value columns
}

type c25part struct {
	B    int
	Rows []c25row
}

type c25write struct {
	Variable bool
	Parts    []c25part
}

type c25group struct {
	Writes []c25write
	Mixed  bool // planned to mix record types (replmix stratum, last group only)
}

type c25case struct {
	stratum string
	buckets []*c25bucket
	groups  []c25group
	bg      bool
}

func c25cases(tier string) int {
	if tier == "thorough" {
		return 1000
	}
	return 120
}

func yearStart(y int) int64 { return time.Date(y, 1, 1, 0, 0, 0, 0, time.UTC).Unix() }

func c25gen(c *runner.Ctx) *c25case {
	r := c.R("history")
	cs := &c25case{}
	switch c.Case % 10 {
	case 6, 7:
		cs.stratum = "replsec"
	case 8, 9:
		cs.stratum = "replmix"
	default:
		cs.stratum = "plain"
	}
	year := 2017 + r.Intn(6)
	nb := r.Range(2, 5)
	for i := 0; i < nb; i++ {
		b := &c25bucket{}
		b.TF = allTFs[(c.Case/10+i*3+r.Intn(2))%len(allTFs)]
		b.Variable = r.Bool()
		if cs.stratum == "replmix" && i < 2 {
			b.Variable = i == 0
		}
		if cs.stratum == "replsec" && i == 0 {
			b.Variable = true
			if b.TF.d == time.Second {
				b.TF = allTFs[1+r.Intn(len(allTFs)-1)]
			}
		}
		if cs.stratum == "replmix" && i == nb-1 && i >= 2 && !b.Variable && r.Bool() {
			b.fresh = true
		}
		attr := "FIX"
		if b.Variable {
			attr = "TICK"
		}
		b.Key = fmt.Sprintf("S%c%d/%s/%s%d", 'A'+byte(r.Intn(26)), i, b.TF.name, attr, i)
		nc := r.Range(1, 3)
		for k := 0; k < nc; k++ {
			b.ColNames = append(b.ColNames, fmt.Sprintf("%c%d", 'A'+byte(r.Intn(20)), k))
			b.colTypes = append(b.colTypes, r.Intn(len(ms.ElemTypes)))
		}
		// anchor interval: start of year, end of year, or anywhere; 8 intervals of room inside the year
		ys, ye := yearStart(year), yearStart(year+1)
		step := int64(b.TF.d / time.Second)
		lo := ys
		if b.TF.d == 24*time.Hour {
			lo = ys + 86400 // Jan 1 of a 1D bucket is the separate defect F-JAN1 (C08)
		}
		hi := ye - 8*step
		switch k := r.Intn(5); {
		case k == 0:
			b.anchor = lo
		case k == 1:
			b.anchor = hi
		case k == 4 && b.TF.d < 24*time.Hour:
			// the eight intervals straddle the end of the year: one bucket is written in two year files
			b.anchor = ye - 4*step
			b.cross = true
		default:
			b.anchor = lo + r.I64n((hi-lo)/step+1)*step
		}
		cs.buckets = append(cs.buckets, b)
	}
	ofType := func(variable bool, withFresh bool, used map[int]bool) []int {
		var cand []int
		for i, b := range cs.buckets {
			if b.Variable == variable && !used[i] && (withFresh || !b.fresh) {
				cand = append(cand, i)
			}
		}
		return cand
	}
	mkWrite := func(variable bool, cand []int, np int, used map[int]bool) (c25write, bool) {
		wr := c25write{Variable: variable}
		for _, pi := range r.Perm(len(cand)) {
			if len(wr.Parts) >= np {
				break
			}
			bi := cand[pi]
			used[bi] = true
			wr.Parts = append(wr.Parts, c25part{B: bi, Rows: c25rows(r, cs, cs.buckets[bi])})
		}
		return wr, len(wr.Parts) > 0
	}
	if cs.stratum == "replmix" {
		// every bucket that is not "fresh" exists on the replica with its right record type before the mixed group
		for _, variable := range []bool{true, false} {
			if wr, ok := mkWrite(variable, ofType(variable, false, map[int]bool{}), 99, map[int]bool{}); ok {
				cs.groups = append(cs.groups, c25group{Writes: []c25write{wr}})
			}
		}
	}
	ng := r.Range(2, 6)
	if cs.stratum == "replmix" {
		ng = r.Range(0, 3)
	}
	for g := 0; g < ng; g++ {
		var grp c25group
		nw := 1
		if r.P(2, 5) {
			nw = r.Range(2, 3)
		}
		used := map[int]bool{}
		variable := r.Bool() // one record type per group: mixing happens only in the aimed stratum's last group
		for w := 0; w < nw; w++ {
			if wr, ok := mkWrite(variable, ofType(variable, false, used), r.Range(1, 3), used); ok {
				grp.Writes = append(grp.Writes, wr)
			}
		}
		if len(grp.Writes) > 0 {
			cs.groups = append(cs.groups, grp)
		}
	}
	if cs.stratum == "replmix" {
		used := map[int]bool{}
		grp := c25group{Mixed: true}
		fixed := ofType(false, true, used)
		// the fresh bucket, when there is one, is always part of the mixed group
		sort.SliceStable(fixed, func(i, j int) bool { return cs.buckets[fixed[i]].fresh && !cs.buckets[fixed[j]].fresh })
		wa := c25write{Variable: false}
		for k, bi := range fixed {
			if k >= 2 && !cs.buckets[bi].fresh {
				break
			}
			wa.Parts = append(wa.Parts, c25part{B: bi, Rows: c25rows(r, cs, cs.buckets[bi])})
		}
		wb, _ := mkWrite(true, ofType(true, true, used), r.Range(1, 2), used)
		grp.Writes = []c25write{wa, wb}
		cs.groups = append(cs.groups, grp)
	}
	for _, g := range cs.groups {
		if len(g.Writes) > 1 {
			cs.bg = true
		}
	}
	return cs
}

// c25rows generates the rows of one bucket in one request.
func c25rows(r *gen.R, cs *c25case, b *c25bucket) []c25row {
	n := r.Range(1, 6)
	step := int64(b.TF.d / time.Second)
	var rows []c25row
	mkV := func() []int64 {
		v := make([]int64, len(b.ColNames))
		for k := range v {
			switch r.Intn(4) {
			case 0:
				v[k] = int64(r.Intn(7)) - 3
			case 1:
				v[k] = int64(r.U64())
			default:
				v[k] = int64(r.Intn(100000))
			}
		}
		return v
	}
	if !b.Variable {
		// distinct intervals inside one request (several rows for one slot of a fixed bucket in one
		// request is C08's subject); epochs need not be aligned to the interval
		perm := r.Perm(8)
		for i := 0; i < n; i++ {
			t := b.anchor + int64(perm[i])*step
			if r.P(1, 4) && step > 1 {
				t += r.I64n(step)
			}
			rows = append(rows, c25row{T: t * 1e9, V: mkV()})
		}
	} else {
		ivNs := b.TF.d.Nanoseconds()
		for i := 0; i < n; i++ {
			span := 4
			if b.cross {
				span = 8
			}
			start := (b.anchor + int64(r.Intn(span))*step) * 1e9
			var off int64
			subSecondOnly := cs.stratum != "replsec" && b.TF.d > time.Second
			switch r.Intn(6) {
			case 0:
				off = 0
			case 1:
				off = 999999999 - int64(r.Intn(3))
			case 2:
				off = int64(r.Intn(1000)) * 1000000
			default:
				off = r.I64n(1e9)
			}
			if !subSecondOnly && b.TF.d > time.Second {
				switch r.Intn(5) {
				case 0: // whole seconds inside the interval
					off = r.I64n(ivNs/1e9) * 1e9
				case 1: // the last nanoseconds of the interval
					off = ivNs - 1 - int64(r.Intn(3))
				case 2: // keep the sub-second offset
				default:
					off = r.I64n(ivNs)
				}
				if off >= 1e9 {
					b.secOffset = true
				}
			}
			rows = append(rows, c25row{T: start + off, V: mkV()})
		}
	}
	if !r.P(1, 3) {
		sort.SliceStable(rows, func(i, j int) bool { return rows[i].T < rows[j].T })
	}
	return rows
}

func (b *c25bucket) cs(rows []c25row) *io.ColumnSeries {
	ep := make([]int64, len(rows))
	ns := make([]int32, len(rows))
	for i, rw := range rows {
		ep[i] = rw.T / 1e9
		ns[i] = int32(rw.T % 1e9)
	}
	var cols []ms.Col
	if b.Variable {
		cols = append(cols, ms.Col{Name: "Nanoseconds", Data: ns})
	}
	for k, name := range b.ColNames {
		seeds := make([]int64, len(rows))
		for i, rw := range rows {
			seeds[i] = rw.V[k]
		}
		cols = append(cols, ms.Col{Name: name, Data: ms.MakeCol(ms.ElemTypes[b.colTypes[k]].T, seeds)})
	}
	return ms.CS(ep, cols...)
}

func (cs *c25case) csm(w c25write) io.ColumnSeriesMap {
	csm := io.NewColumnSeriesMap()
	for _, p := range w.Parts {
		b := cs.buckets[p.B]
		csm.AddColumnSeries(*ms.TBK(b.Key), b.cs(p.Rows))
	}
	return csm
}

// c25capture is the ReplicationSender of the master: it stores a copy of every group it is handed.
type c25capture struct {
	mu      sync.Mutex
	tgs     [][]byte // copies taken inside Send: what a replica whose link keeps up receives
	refs    [][]byte // the very slices handed to Send, retained un-copied as replication.Sender queues them
	gate    chan struct{} // when set, the next Send blocks on it after signalling entered
	entered chan struct{}
}

func (c *c25capture) Run(_ context.Context) {}

func (c *c25capture) Send(tg []byte) {
	cp := append([]byte(nil), tg...)
	c.mu.Lock()
	c.tgs = append(c.tgs, cp)
	c.refs = append(c.refs, tg)
	g, e := c.gate, c.entered
	c.gate, c.entered = nil, nil
	c.mu.Unlock()
	if g != nil {
		e <- struct{}{}
		<-g
	}
}

const c25primerKey = "PRIMER/1Min/P"

const c25wait = 120 * time.Second // liveness guard of the harness itself; firing => inconclusive, never a verdict

type c25set struct {
	key   string // bucket key
	rt    io.EnumRecordType
	epoch int64 // interval start of the set's index
}

type c25tgInfo struct {
	files []string
	types []io.EnumRecordType
	sets  []c25set
	mixed bool
}

func c25parse(tg []byte) c25tgInfo {
	var inf c25tgInfo
	_, sets := executor.ParseTGData(tg, "")
	seen := map[string]bool{}
	for _, s := range sets {
		if !seen[s.FilePath] {
			seen[s.FilePath] = true
			inf.files = append(inf.files, s.FilePath)
			inf.types = append(inf.types, s.RecordType)
		}
		if s.RecordType != sets[0].RecordType {
			inf.mixed = true
		}
		st := c25set{rt: s.RecordType}
		if tbk, year, err := io.NewTimeBucketKeyFromWalKeyPath(s.FilePath); err == nil {
			st.key = tbk.GetItemKey()
			if tf, err := tbk.GetTimeFrame(); err == nil {
				st.epoch = io.IndexToTime(s.Buffer.Index(), tf.Duration, int16(year)).Unix()
			}
		}
		inf.sets = append(inf.sets, st)
	}
	return inf
}

type c25tables struct {
	tabs map[string]*ms.Table
	errs map[string]string
}

func c25query(in *ms.Inst, keys []string) c25tables {
	q := c25tables{map[string]*ms.Table{}, map[string]string{}}
	for _, k := range keys {
		var t *ms.Table
		var err error
		if p := ms.Recover(func() { t, err = queryAll(in, k) }); p != "" {
			q.errs[k] = "panic: " + p
			continue
		}
		if err != nil {
			q.errs[k] = err.Error()
			continue
		}
		q.tabs[k] = t
	}
	return q
}

// c25ranged is a second query per bucket: a time range whose bounds are interval starts (a variable-length
// timestamp can move by one resolution step but never across an interval start, so both sides must
// select the same rows) with an optional row limit from either end.
type c25ranged struct {
	start, end time.Time
	limit      int
	fromStart  bool
}

func (cs *c25case) ranged(c *runner.Ctx) map[string]c25ranged {
	r := c.R("ranged")
	out := map[string]c25ranged{}
	for _, b := range cs.buckets {
		if b.TF.name == "4H" {
			continue // ExecuteQuery reads the 2H bucket for a 4H key (see helpers.go)
		}
		step := int64(b.TF.d / time.Second)
		s := b.anchor + int64(r.Intn(4))*step
		e := s + int64(r.Intn(6))*step
		limit := r.PickI(0, 0, 1, 3)
		if b.Variable {
			// records one resolution step apart may legitimately change places on the replica, so a row
			// limit could cut between them: ranges only
			limit = 0
		}
		out[b.Key] = c25ranged{time.Unix(s, 0).UTC(), time.Unix(e, 0).UTC(), limit, r.Bool()}
	}
	return out
}

func c25queryRanged(in *ms.Inst, qs map[string]c25ranged) c25tables {
	q := c25tables{map[string]*ms.Table{}, map[string]string{}}
	for k, rq := range qs {
		var t *ms.Table
		var err error
		if p := ms.Recover(func() { t, err = in.Query(k, rq.start, rq.end, rq.limit, rq.fromStart, nil) }); p != "" {
			q.errs[k] = "panic: " + p
			continue
		}
		if err != nil {
			q.errs[k] = err.Error()
			continue
		}
		q.tabs[k] = t
	}
	return q
}

// noData: the bucket has no rows (never written).
func (q c25tables) noData(k string) bool {
	if t, ok := q.tabs[k]; ok {
		return t.N == 0
	}
	e := q.errs[k]
	// a bucket nothing was written to: either unknown to the catalog or without a file in range
	return ms.QueryErrNoData(fmt.Errorf("%s", e)) || strings.Contains(e, "not in catalog")
}

func c25run(c *runner.Ctx) (res runner.Result) {
	ms.Quiet()
	cs := c25gen(c)
	opts := ms.Opts{}
	if cs.bg {
		// long timers: groups are cut by flush requests only, never by the WAL ticker
		opts = ms.Opts{WALRefresh: 5 * time.Second, PrimaryRefresh: 5 * time.Second, RotateInterval: 5}
	}
	master := ms.Open(c.Scratch+"/master", opts)
	capt := &c25capture{}
	master.WAL.ReplicationSender = capt
	if cs.bg {
		time.Sleep(10 * time.Millisecond) // let the WAL goroutine announce itself (haveWALWriter) before the first request
	}
	masterDown := false
	shutdownMaster := func() {
		if !masterDown {
			masterDown = true
			master.WAL.Shutdown()
		}
	}
	defer shutdownMaster()

	keys := []string{}
	for _, b := range cs.buckets {
		keys = append(keys, b.Key)
	}

	var writeErrs []string
	var mu sync.Mutex
	doWrite := func(w c25write) {
		if err := master.W.WriteCSM(cs.csm(w), w.Variable); err != nil {
			mu.Lock()
			writeErrs = append(writeErrs, err.Error())
			mu.Unlock()
		}
	}
	primerN := 0
	stuck := ""
	var snapshot c25tables // master state before the planned mixed group
	for gi, g := range cs.groups {
		if g.Mixed {
			snapshot = c25query(master, keys)
		}
		if len(g.Writes) == 1 {
			doWrite(g.Writes[0])
			continue
		}
		// several WriteCSM calls that share one flush
		gate, entered := make(chan struct{}), make(chan struct{}, 1)
		capt.mu.Lock()
		capt.gate, capt.entered = gate, entered
		capt.mu.Unlock()
		pdone := make(chan struct{})
		go func(k int) {
			defer close(pdone)
			t := yearStart(2016) + 86400 + int64(k)*60
			if err := master.Write(c25primerKey, ms.CS([]int64{t}, ms.Col{Name: "X", Data: []int32{int32(k)}}), false); err != nil {
				mu.Lock()
				writeErrs = append(writeErrs, err.Error())
				mu.Unlock()
			}
		}(primerN)
		primerN++
		select {
		case <-entered:
		case <-time.After(c25wait):
			stuck = fmt.Sprintf("group %d: primer group never reached the sender", gi)
		}
		if stuck != "" {
			close(gate)
			break
		}
		done := make(chan struct{}, len(g.Writes))
		order := make([]int, len(g.Writes))
		for i := range order {
			order[i] = i
		}
		if g.Mixed && c.Case%2 == 1 {
			order[0], order[1] = order[1], order[0] // which record type is queued first alternates
		}
		for k, wi := range order {
			go func(w c25write) { doWrite(w); done <- struct{}{} }(g.Writes[wi])
			if g.Mixed && k == 0 {
				time.Sleep(2 * time.Millisecond) // let the first writer queue its commands first (what really happened is read from the captured group)
			}
		}
		// all but one writer return from RequestFlush immediately once a flush request is queued; if two
		// of them queued a request at the same instant fewer return: release after a grace period anyway
		returned := 0
		grace := time.After(2 * time.Second)
	waitQueued:
		for returned < len(g.Writes)-1 {
			select {
			case <-done:
				returned++
			case <-grace:
				break waitQueued
			}
		}
		close(gate)
		guard := time.After(c25wait)
		for returned < len(g.Writes) && stuck == "" {
			select {
			case <-done:
				returned++
			case <-guard:
				stuck = fmt.Sprintf("group %d: a writer never returned", gi)
			}
		}
		select {
		case <-pdone:
		case <-time.After(c25wait):
			stuck = fmt.Sprintf("group %d: primer write never returned", gi)
		}
		if stuck != "" {
			break
		}
	}
	if stuck != "" {
		res.Inconclusive("harness liveness guard: " + stuck)
		return res
	}
	if len(writeErrs) > 0 {
		res.Inconclusive(fmt.Sprintf("master rejected %d generated writes (first: %s)", len(writeErrs), writeErrs[0]))
		return res
	}
	if primerN > 0 {
		keys = append(keys, c25primerKey)
	}
	mq := c25query(master, keys)
	ranged := cs.ranged(c)
	mr := c25queryRanged(master, ranged)
	shutdownMaster() // also clears the package-global haveWALWriter, which the replica's inline flush depends on

	capt.mu.Lock()
	tgs := capt.tgs
	sent := capt.tgs
	// Every second case models a link that lags behind the writers: replication.Sender.Send only queues
	// the slice it is handed (chan []byte, 500 deep) and the gRPC server queues it again per stream, so a
	// replica that is slower than the writers receives what those slices hold when they are finally
	// marshalled - here: after the master's last write. (The master legitimately sorts variable-length
	// payloads in place inside a sent buffer; such a buffer still describes the same rows.)
	lagging := c.Case%2 == 1
	if lagging {
		tgs = capt.refs
		res.Count("lagging_link_cases", 1)
		for i := range sent {
			if string(sent[i]) != string(capt.refs[i]) {
				res.Count("queued_buffers_changed_after_send", 1)
			}
		}
	}
	capt.mu.Unlock()

	replica := ms.Open(c.Scratch+"/replica", ms.Opts{})
	defer replica.WAL.Shutdown()
	replayer := replication.NewReplayer(executor.ParseTGData, replica.W.WriteCSM, replica.Root)
	var replayErrs []string
	var infos []c25tgInfo
	for i, tg := range tgs {
		inf := c25parse(sent[i])
		infos = append(infos, inf)
		res.Count("tgs_replayed", 1)
		res.Count("write_sets_replayed", int64(len(inf.sets)))
		if len(inf.files) > 1 {
			res.Count("multi_file_tgs", 1)
		}
		if inf.mixed {
			res.Count("mixed_tgs", 1)
		}
		var err error
		if p := ms.Recover(func() { err = replayer.Replay(tg) }); p != "" {
			replayErrs = append(replayErrs, fmt.Sprintf("group %d: panic: %s", i, p))
		} else if err != nil {
			replayErrs = append(replayErrs, fmt.Sprintf("group %d: %v", i, err))
		}
	}
	rq := c25query(replica, keys)
	rr := c25queryRanged(replica, ranged)

	agree := c25judge(&res, cs, keys, mq, rq, snapshot, infos, replayErrs)
	// buckets whose unrestricted results agree must agree on the ranged / limited query too
	for _, b := range cs.buckets {
		k := b.Key
		q, ok := ranged[k]
		if !ok || !agree[k] {
			continue
		}
		res.Count("ranged_queries_compared", 1)
		m, okm := mr.tabs[k]
		rp, okr := rr.tabs[k]
		d := ""
		switch {
		case !okm && !okr:
			if mr.noData(k) != rr.noData(k) {
				d = fmt.Sprintf("master: %s; replica: %s", mr.errs[k], rr.errs[k])
			}
		case okm != okr:
			d = fmt.Sprintf("master error %q, replica error %q", mr.errs[k], rr.errs[k])
			if (okm && m.N == 0 && rr.noData(k)) || (okr && rp.N == 0 && mr.noData(k)) {
				d = ""
			}
		default:
			tol := int64(0)
			if b.Variable {
				tol = b.TF.d.Nanoseconds()>>32 + 2
			}
			if d = sameColumns(m, rp); d == "" {
				if d = sameRowsTimed(m, rp, tol, nil); d != "" && b.Variable && sameRowMultiset(m, rp, tol, nil) == "" && nonDecreasing(rp, tol) {
					d = ""
				}
			}
		}
		if d != "" {
			w := c25witness(cs, b, m, rp, nil).(map[string]interface{})
			w["query"] = fmt.Sprintf("start=%s end=%s limit=%d fromStart=%v", q.start.Format(time.RFC3339), q.end.Format(time.RFC3339), q.limit, q.fromStart)
			res.Violation(fmt.Sprintf("bucket %s: the unrestricted query agrees but the query [%s, %s] limit %d fromStart=%v differs between master and replica: %s",
				k, q.start.Format(time.RFC3339), q.end.Format(time.RFC3339), q.limit, q.fromStart, d), w)
		}
	}

	res.Count("write_requests", int64(c25nWrites(cs)))
	if res.Counts["rows_compared"] > 0 {
		res.Sig = c25sig(cs)
	}
	if c.Case < 2 || c.Case == 6 || c.Case == 8 {
		res.Sample = c25sample(cs, len(tgs))
	}
	return res
}

// c25judge compares master and replica bucket by bucket.
func c25judge(res *runner.Result, cs *c25case, keys []string, mq, rq, snapshot c25tables, infos []c25tgInfo, replayErrs []string) (agree map[string]bool) {
	agree = map[string]bool{}
	var nRowsFixed, nRowsVar int64
	// what the captured groups say about mixing (trigger of F-REPLMIX): index of the mixed groups
	var mixedAt []int
	var mixedDesc []string
	for i, inf := range infos {
		if inf.mixed {
			mixedAt = append(mixedAt, i)
			mixedDesc = append(mixedDesc, fmt.Sprintf("group %d: files %v record types %v", i, inf.files, inf.types))
		}
	}
	descTGs := func() []string {
		var ds []string
		for i, inf := range infos {
			ds = append(ds, fmt.Sprintf("group %d: files %v types %v", i, inf.files, inf.types))
		}
		return trimStrings(ds, 20)
	}
	for _, k := range keys {
		var b *c25bucket
		for _, x := range cs.buckets {
			if x.Key == k {
				b = x
			}
		}
		if b == nil {
			b = &c25bucket{Key: k, TF: tfByName("1Min"), ColNames: []string{"X"}}
		}
		m, okm := mq.tabs[k]
		if !okm {
			if mq.noData(k) {
				// never written on the master: the replica must not have rows either
				if rtab, ok := rq.tabs[k]; ok && rtab.N > 0 {
					res.Violation(fmt.Sprintf("bucket %s has no data on the master but %d rows on the replica", k, rtab.N), c25witness(cs, b, nil, rtab, descTGs()))
				}
				continue
			}
			res.Inconclusive(fmt.Sprintf("master query of %s failed: %s", k, mq.errs[k]))
			continue
		}
		res.Count("buckets_compared", 1)
		if m.N > 0 && time.Unix(0, m.TimeNs(0)).UTC().Year() != time.Unix(0, m.TimeNs(m.N-1)).UTC().Year() {
			res.Count("buckets_with_rows_in_two_years", 1)
		}
		res.Set("timeframes", b.TF.name)
		if b.Variable {
			nRowsVar += int64(m.N)
			res.Set("variable_timeframes", b.TF.name)
		} else {
			nRowsFixed += int64(m.N)
		}
		tol := int64(0)
		if b.Variable {
			tol = b.TF.d.Nanoseconds()>>32 + 2
		}
		ideal := ""
		rp, okr := rq.tabs[k]
		if !okr {
			ideal = "replica query failed: " + rq.errs[k]
		} else if d := sameColumns(m, rp); d != "" {
			ideal = d
		} else if d := sameRowsTimed(m, rp, tol, nil); d != "" {
			ideal = d
			// rows whose ticks differ by one step may legitimately swap places after re-encoding
			if b.Variable && sameRowMultiset(m, rp, tol, nil) == "" && nonDecreasing(rp, tol) {
				ideal = ""
			}
		}
		if ideal == "" {
			agree[k] = true
			continue
		}
		detail := fmt.Sprintf("bucket %s (%s, variable=%v): replica differs from master: %s", k, b.TF.name, b.Variable, ideal)
		if len(replayErrs) > 0 {
			detail += "; replay errors: " + strings.Join(trimStrings(replayErrs, 3), " / ")
		}
		// ---- as-is model F-REPLSEC ----
		// Trigger: variable-length bucket with an interval longer than one second into which a record was
		// written >= 1 s after its interval start, and no group mixed record types. Defective behaviour:
		// the replayer rebuilds Epoch from the interval index alone and keeps only the nanosecond field, so
		// every record arrives at interval start + (its time mod 1 s) and is sorted there.
		if okr && b.Variable && b.TF.d > time.Second && b.secOffset && len(mixedAt) == 0 {
			ivNs := b.TF.d.Nanoseconds()
			at := func(t int64) int64 { return t - t%ivNs + t%1e9 }
			if sameColumns(m, rp) == "" && sameRowMultiset(m, rp, tol, at) == "" && nonDecreasing(rp, tol) {
				res.Known("F-REPLSEC", detail+" [every replica row = interval start + (master time mod 1 s)]", c25witness(cs, b, m, rp, nil))
				res.Count("replsec_buckets", 1)
				continue
			}
		}
		// ---- as-is model F-REPLMIX ----
		// Trigger (measured from the captured bytes): a group holds write sets of both record types.
		// Defective behaviour: Replay passes the record type of the group's FIRST set to WriteCSM for
		// every set and stops at the first set that fails.
		if len(mixedAt) > 0 {
			planned := len(mixedAt) == 1 && mixedAt[0] == len(infos)-1 && len(cs.groups) > 0 && cs.groups[len(cs.groups)-1].Mixed && snapshot.tabs != nil
			if !planned {
				res.Inconclusive(detail + " [a group mixed record types but not as the single last group the as-is model of F-REPLMIX is written for: " + strings.Join(trimStrings(mixedDesc, 3), "; ") + "]")
				continue
			}
			if why := c25mixAsIs(b, k, m, rq, snapshot, infos[mixedAt[0]], replayErrs); why != "" {
				res.Known("F-REPLMIX", detail+" ["+why+"; "+mixedDesc[0]+"]", c25witness(cs, b, m, rp, descTGs()))
				res.Count("replmix_buckets", 1)
				continue
			}
		}
		res.Violation(detail, c25witness(cs, b, m, rp, descTGs()))
	}
	res.Count("rows_compared_fixed", nRowsFixed)
	res.Count("rows_compared_variable", nRowsVar)
	res.Count("rows_compared", nRowsFixed+nRowsVar)
	return agree
}

// c25mixAsIs: the mixed group is the last one; before it every bucket except a "fresh" fixed one exists
// on the replica with its right record type (earlier groups are unmixed and are required to have
// replicated exactly - they are judged by the ideal oracle through the snapshot comparison here).
//
//	first set FIXED:    sets before the first VARIABLE set are applied correctly; the first VARIABLE
//	                    set is written with isVariableLength=false into an existing VARIABLE bucket, fails
//	                    the schema check (its Nanoseconds column is not removed) and Replay returns: the
//	                    remaining sets of the group are dropped. Expected replica content: variable
//	                    buckets = master before the group; fixed buckets = master before the group with
//	                    the slots of the applied sets taken from the master's final state.
//	first set VARIABLE: every set is applied; a fixed set written with isVariableLength=true into an
//	                    existing FIXED bucket is written as fixed (the bucket's own type decides), so
//	                    existing buckets equal the master; a fresh fixed bucket is created as a VARIABLE
//	                    bucket: same rows, same intervals, plus a Nanoseconds column.
//
// Returns a description when the replica's bucket equals the as-is expectation, "" otherwise.
func c25mixAsIs(b *c25bucket, k string, m *ms.Table, rq, snapshot c25tables, inf c25tgInfo, replayErrs []string) string {
	ivNs := b.TF.d.Nanoseconds()
	rp, okr := rq.tabs[k]
	cols := valueCols(m)
	if inf.sets[0].rt == io.FIXED {
		if len(replayErrs) == 0 {
			return ""
		}
		applied := map[int64]bool{}
		for _, s := range inf.sets {
			if s.rt == io.VARIABLE {
				break
			}
			if s.key == k {
				applied[s.epoch] = true
			}
		}
		snap, oks := snapshot.tabs[k]
		if b.Variable {
			tol := ivNs>>32 + 2
			if !oks || snap.N == 0 {
				if rq.noData(k) {
					return "first set FIXED: the group's variable-length sets were dropped (bucket absent on the replica)"
				}
				return ""
			}
			if okr && sameColumns(snap, rp) == "" && sameRowsTimed(snap, rp, tol, nil) == "" {
				return "first set FIXED: the group's variable-length sets were dropped: replica bucket = master before the group"
			}
			return ""
		}
		// fixed bucket: per slot, applied => master final, else => master before the group
		want := map[int64]string{}
		if oks {
			for i := 0; i < snap.N; i++ {
				want[snap.Epoch[i]] = rowKey(snap, cols, i)
			}
		}
		for i := 0; i < m.N; i++ {
			if applied[m.Epoch[i]] {
				want[m.Epoch[i]] = rowKey(m, cols, i)
			}
		}
		if len(want) == 0 {
			if rq.noData(k) {
				return "first set FIXED: the fixed sets queued after the first variable set were dropped (bucket absent on the replica)"
			}
			return ""
		}
		if !okr || rp.N != len(want) || sameColumns(m, rp) != "" {
			return ""
		}
		for i := 0; i < rp.N; i++ {
			if w, ok := want[rp.Epoch[i]]; !ok || w != rowKey(rp, cols, i) {
				return ""
			}
		}
		return "first set FIXED: the fixed sets queued after the first variable set were dropped"
	}
	// first set VARIABLE
	if !b.fresh || b.Variable || !okr {
		return ""
	}
	if strings.Join(valueCols(rp), ",") != strings.Join(cols, ",") || rp.Nanos == nil || rp.N != m.N {
		return ""
	}
	iv := func(t int64) int64 { return t - t%ivNs }
	if sameRowMultiset(m, rp, 0, func(t int64) int64 { return iv(t) }) == "" {
		return "first set VARIABLE: the fresh fixed bucket was created as a VARIABLE bucket on the replica (aligned rows)"
	}
	// unaligned epochs keep their offset inside the interval in a variable bucket: compare by interval
	type rk struct {
		iv int64
		k  string
	}
	cnt := map[rk]int{}
	for i := 0; i < m.N; i++ {
		cnt[rk{iv(m.TimeNs(i)), rowKey(m, cols, i)}]++
	}
	for i := 0; i < rp.N; i++ {
		cnt[rk{iv(rp.TimeNs(i)), rowKey(rp, cols, i)}]--
	}
	for _, v := range cnt {
		if v != 0 {
			return ""
		}
	}
	return "first set VARIABLE: the fresh fixed bucket was created as a VARIABLE bucket on the replica"
}

func c25nWrites(cs *c25case) int {
	n := 0
	for _, g := range cs.groups {
		n += len(g.Writes)
	}
	return n
}

func c25sig(cs *c25case) string {
	var bs []string
	for _, b := range cs.buckets {
		t := "F"
		if b.Variable {
			t = "V"
		}
		bs = append(bs, b.TF.name+t)
	}
	sort.Strings(bs)
	multi := 0
	for _, g := range cs.groups {
		if len(g.Writes) > 1 {
			multi++
		}
	}
	return fmt.Sprintf("%s/%s/multiwriter-groups=%d", cs.stratum, strings.Join(bs, ","), multi)
}

func c25sample(cs *c25case, ntg int) interface{} {
	var gs []interface{}
	for _, g := range cs.groups {
		var ws []interface{}
		for _, w := range g.Writes {
			var ps []string
			for _, p := range w.Parts {
				b := cs.buckets[p.B]
				var ts []string
				for _, rw := range p.Rows {
					ts = append(ts, time.Unix(0, rw.T).UTC().Format("2006-01-02T15:04:05.000000000"))
				}
				ps = append(ps, fmt.Sprintf("%s %v", b.Key, ts))
			}
			ws = append(ws, map[string]interface{}{"isVariableLength": w.Variable, "buckets": ps})
		}
		gs = append(gs, ws)
	}
	return map[string]interface{}{"stratum": cs.stratum, "background_wal_loop": cs.bg, "groups_of_WriteCSM_calls": gs, "transaction_groups_captured": ntg}
}

func c25witness(cs *c25case, b *c25bucket, m, rp *ms.Table, tgs []string) interface{} {
	w := map[string]interface{}{"bucket": b.Key, "timeframe": b.TF.name, "variable_length": b.Variable, "columns": b.ColNames}
	var writes []string
	for gi, g := range cs.groups {
		for wi, wr := range g.Writes {
			for _, p := range wr.Parts {
				if cs.buckets[p.B] != b {
					continue
				}
				for _, rw := range p.Rows {
					writes = append(writes, fmt.Sprintf("group %d write %d: t=%s values=%v", gi, wi, time.Unix(0, rw.T).UTC().Format("2006-01-02T15:04:05.000000000"), rw.V))
				}
			}
		}
	}
	w["rows_written_to_master"] = trimStrings(writes, 40)
	if m != nil {
		w["master_rows"] = m.Dump(30)
	}
	if rp != nil {
		w["replica_rows"] = rp.Dump(30)
	}
	if tgs != nil {
		w["captured_groups"] = tgs
	}
	return w
}

func init() {
	register(&runner.Monitor{
		ID:    "C25",
		Level: "exploration",
		Rule: "case = 2-5 buckets (fixed and variable-length, timeframes rotated over all ten, 1-3 columns of random element types, anchored at the start, the end or inside a year) and groups of 1-3 WriteCSM calls of 1-3 buckets x 1-6 rows (sorted or not, rewrites of slots, several records per interval); " +
			"every serialized transaction group is captured at the master's ReplicationSender.Send and replayed on a replica built like internal/di builds it; then master and replica are queried for every bucket (unrestricted, plus one range between interval starts with an optional row limit) and compared. " +
			"Strata by case number mod 10: 0-5 plain (no known trigger: variable records of buckets longer than 1 s stay within the first second of their interval, no group mixes record types), 6-7 aim at F-REPLSEC (offsets anywhere in the interval: whole seconds, last nanoseconds), 8-9 aim at F-REPLMIX (the last group is shared by a fixed and a variable-length writer, queue order alternating). " +
			"A case is non-trivial when at least one row was compared; distinct by (stratum, multiset of timeframe+record type, number of multi-writer groups)",
		Assumptions: []string{
			"transport (gRPC stream) is not part of this property: groups are handed to the replayer in the order the master sent them (C26 covers connection handling)",
			"master and replica run one after the other in one process with the same configuration (UTC, compression on); the replica is opened after the master's WAL goroutine has shut down",
			"several rows for the same slot of a fixed-length bucket inside one request, Jan 1 of 1D buckets and requests spanning years are left to C08",
		},
		Cases:        c25cases,
		Batch:        8,
		Run:          c25run,
		Need:         []string{"rows_compared", "tgs_replayed", "rows_compared_fixed", "rows_compared_variable", "multi_file_tgs", "ranged_queries_compared"},
		BatchTimeout: 45 * time.Minute,
		MinDistinct:  20,
	})
}
