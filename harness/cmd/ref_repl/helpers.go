package main

// Helpers shared by the C24 and C25 monitors (comparison of decoded query results, small utilities).
// Nothing here is model code of a property; the reference models live in c24model.go / c25.go.

import (
	"fmt"
	"reflect"
	"sort"
	"strings"
	"time"

	"github.com/alpacahq/marketstore/v4/executor"
	"github.com/alpacahq/marketstore/v4/planner"
	"github.com/alpacahq/marketstore/v4/verif/internal/ms"
)

type tfDef struct {
	name string
	d    time.Duration
}

// the on-disk timeframes of the server
var allTFs = []tfDef{
	{"1Sec", time.Second}, {"10Sec", 10 * time.Second}, {"1Min", time.Minute}, {"5Min", 5 * time.Minute},
	{"15Min", 15 * time.Minute}, {"30Min", 30 * time.Minute}, {"1H", time.Hour}, {"2H", 2 * time.Hour},
	{"4H", 4 * time.Hour}, {"1D", 24 * time.Hour},
}

func tfByName(n string) tfDef {
	for _, t := range allTFs {
		if t.name == n {
			return t
		}
	}
	panic("unknown timeframe " + n)
}

// valueCols lists the column names of t that are not time columns, sorted.
func valueCols(t *ms.Table) []string {
	var out []string
	for _, n := range t.Names {
		if n != "Epoch" && n != "Nanoseconds" {
			out = append(out, n)
		}
	}
	sort.Strings(out)
	return out
}

// rowKey renders the value columns of row i bit-exactly.
func rowKey(t *ms.Table, cols []string, i int) string {
	var sb strings.Builder
	for _, n := range cols {
		fmt.Fprintf(&sb, "%v|", ms.Cell(t.Cols[n], i))
	}
	return sb.String()
}

// sameColumns compares column name sets and element types.
func sameColumns(a, b *ms.Table) string {
	an := append([]string{}, a.Names...)
	bn := append([]string{}, b.Names...)
	sort.Strings(an)
	sort.Strings(bn)
	if strings.Join(an, ",") != strings.Join(bn, ",") {
		return fmt.Sprintf("column sets differ: %v vs %v", a.Names, b.Names)
	}
	for _, n := range a.Names {
		if reflect.TypeOf(a.Cols[n]) != reflect.TypeOf(b.Cols[n]) {
			return fmt.Sprintf("column %s types differ: %T vs %T", n, a.Cols[n], b.Cols[n])
		}
	}
	return ""
}

func abs64(v int64) int64 {
	if v < 0 {
		return -v
	}
	return v
}

// sameRowsTimed compares a and b row by row in returned order: value columns bit for bit, row time
// (Epoch + Nanoseconds) within tol ns. at maps the time of a's row before comparison (nil = identity).
func sameRowsTimed(a, b *ms.Table, tol int64, at func(int64) int64) string {
	if a.N != b.N {
		return fmt.Sprintf("row counts differ: %d vs %d", a.N, b.N)
	}
	cols := valueCols(a)
	for i := 0; i < a.N; i++ {
		ta := a.TimeNs(i)
		if at != nil {
			ta = at(ta)
		}
		if abs64(ta-b.TimeNs(i)) > tol {
			return fmt.Sprintf("row %d: time %d vs %d (tolerance %d ns)", i, ta, b.TimeNs(i), tol)
		}
		if rowKey(a, cols, i) != rowKey(b, cols, i) {
			return fmt.Sprintf("row %d: values differ: {%s} vs {%s}", i, a.RowString(i), b.RowString(i))
		}
	}
	return ""
}

// sameRowMultiset compares a and b as multisets of rows: value columns bit for bit, times within tol
// after mapping a's times with at. Rows are paired after sorting by (values, time), which is an optimal
// pairing for a one-dimensional tolerance.
func sameRowMultiset(a, b *ms.Table, tol int64, at func(int64) int64) string {
	if a.N != b.N {
		return fmt.Sprintf("row counts differ: %d vs %d", a.N, b.N)
	}
	type rw struct {
		k string
		t int64
		i int
	}
	cols := valueCols(a)
	mk := func(t *ms.Table, f func(int64) int64) []rw {
		out := make([]rw, t.N)
		for i := 0; i < t.N; i++ {
			tt := t.TimeNs(i)
			if f != nil {
				tt = f(tt)
			}
			out[i] = rw{rowKey(t, cols, i), tt, i}
		}
		sort.SliceStable(out, func(x, y int) bool {
			if out[x].k != out[y].k {
				return out[x].k < out[y].k
			}
			return out[x].t < out[y].t
		})
		return out
	}
	ra, rb := mk(a, at), mk(b, nil)
	for i := range ra {
		if ra[i].k != rb[i].k {
			return fmt.Sprintf("row multisets differ: {%s} has no partner, nearest {%s}", a.RowString(ra[i].i), b.RowString(rb[i].i))
		}
		if abs64(ra[i].t-rb[i].t) > tol {
			return fmt.Sprintf("row {%s}: time %d vs %d (tolerance %d ns)", a.RowString(ra[i].i), ra[i].t, rb[i].t, tol)
		}
	}
	return ""
}

// nonDecreasing reports whether the row times of t never go back by more than tol.
func nonDecreasing(t *ms.Table, tol int64) bool {
	for i := 1; i < t.N; i++ {
		if t.TimeNs(i) < t.TimeNs(i-1)-tol {
			return false
		}
	}
	return true
}

func trimStrings(xs []string, n int) []string {
	if len(xs) > n {
		return append(append([]string{}, xs[:n]...), fmt.Sprintf("... %d total", len(xs)))
	}
	return xs
}

// queryAll is the unrestricted query on a bucket. Everything goes through the public query service
// (ms.QueryAll -> frontend.QueryService.ExecuteQuery) except 4H buckets: ExecuteQuery rewrites the
// timeframe of the key to utils.CandleDuration.QueryableTimeframe(), which for "4H" is "2H" on the
// pinned tree (the list utils.Timeframes has 4H before 2H), i.e. it reads another bucket. 4H buckets
// are therefore read with the planner and reader ExecuteQuery itself uses, without the rewrite.
func queryAll(in *ms.Inst, key string) (*ms.Table, error) {
	if !strings.Contains(key, "/4H/") {
		return in.QueryAll(key)
	}
	q := planner.NewQuery(in.Cat)
	q.AddTargetKey(ms.TBK(key))
	q.SetRange(time.Unix(0, 0).UTC(), ms.FarFuture)
	pr, err := q.Parse()
	if err != nil {
		return nil, err
	}
	rd, err := executor.NewReader(pr)
	if err != nil {
		return nil, err
	}
	csm, err := rd.Read()
	if err != nil {
		return nil, err
	}
	for k, cs := range csm {
		if k.GetItemKey() == key {
			return ms.FromCS(cs), nil
		}
	}
	return ms.FromCS(nil), nil
}
