package main

// Shared by C21 and C22: candle timeframes with their window definition, the row-set generator,
// the reference fold and the comparison of a candler output with it.
//
// Nothing in here is derived from contrib/candler or utils/timeframe.go: a window is
//   - <n>Sec/<n>Min/<n>H with n*unit dividing 24 h: [k*d, (k+1)*d) counted from the Unix epoch,
//   - 1D: the calendar day of the row in the instance time zone (utils.InstanceConfig.Timezone),
//   - 1M: the calendar month of the row in the instance time zone,
//   - 1W: a seven-day week starting on a Monday at 00:00; the property does not say in which zone
//     the Monday starts, so both Monday 00:00 UTC and Monday 00:00 local are accepted (see c21.go);
// a candle's Epoch is the start of its window in Unix seconds. The fold is the one the property
// gives: open/close = price of an earliest/a latest row of the window, high/low = extremes (float32),
// sums/averages over all rows of the window (float64, any summation order).

import (
	"fmt"
	"math"
	"sort"
	"strings"
	"time"
	_ "time/tzdata"

	"github.com/alpacahq/marketstore/v4/contrib/candler/candlecandler"
	"github.com/alpacahq/marketstore/v4/contrib/candler/tickcandler"
	"github.com/alpacahq/marketstore/v4/sqlparser"
	"github.com/alpacahq/marketstore/v4/uda"
	"github.com/alpacahq/marketstore/v4/utils"
	"github.com/alpacahq/marketstore/v4/utils/functions"
	"github.com/alpacahq/marketstore/v4/utils/io"
	"github.com/alpacahq/marketstore/v4/verif/internal/gen"
	"github.com/alpacahq/marketstore/v4/verif/internal/ms"
)

// ---------------------------------------------------------------------------------------------
// zones

var zoneNames = []string{"UTC", "America/New_York", "Asia/Kolkata"}

// zoneFor derives the zone from the case number so that all cases of one child batch share it.
func zoneFor(caseNo, batch int) (*time.Location, string) {
	name := zoneNames[(caseNo/batch)%len(zoneNames)]
	if loc, ok := zoneCache[name]; ok {
		return loc, name
	}
	loc, err := time.LoadLocation(name)
	if err != nil {
		panic("cannot load zone " + name + ": " + err.Error())
	}
	zoneCache[name] = loc
	return loc, name
}

var zoneCache = map[string]*time.Location{}

// setZone sets the process-global the real code reads (io.ToSystemTimezone).
func setZone(loc *time.Location) {
	if utils.InstanceConfig.Timezone != loc {
		utils.InstanceConfig.Timezone = loc
	}
}

// ---------------------------------------------------------------------------------------------
// timeframes and windows

const (
	tfFixed = iota
	tfDay
	tfWeek
	tfMonth
)

type tfSpec struct {
	name string
	kind int
	sec  int64 // length (nominal for day/week/month) in seconds
}

func fixedTF(name string, sec int64) tfSpec { return tfSpec{name, tfFixed, sec} }

var (
	tf1D = tfSpec{"1D", tfDay, 86400}
	tf1W = tfSpec{"1W", tfWeek, 7 * 86400}
	tf1M = tfSpec{"1M", tfMonth, 31 * 86400}
)

// refWindow returns the start (Unix seconds) of the window of tf that contains the instant sec.
func refWindow(tf tfSpec, sec int64, loc *time.Location, weekLocal bool) int64 {
	switch tf.kind {
	case tfFixed:
		m := sec % tf.sec
		if m < 0 {
			m += tf.sec
		}
		return sec - m
	case tfDay:
		y, m, d := time.Unix(sec, 0).In(loc).Date()
		return time.Date(y, m, d, 0, 0, 0, 0, loc).Unix()
	case tfMonth:
		y, m, _ := time.Unix(sec, 0).In(loc).Date()
		return time.Date(y, m, 1, 0, 0, 0, 0, loc).Unix()
	case tfWeek:
		if !weekLocal {
			const monday0 = 4 * 86400 // 1970-01-05 was a Monday
			m := (sec - monday0) % (7 * 86400)
			if m < 0 {
				m += 7 * 86400
			}
			return sec - m
		}
		t := time.Unix(sec, 0).In(loc)
		y, m, d := t.Date()
		back := (int(t.Weekday()) + 6) % 7
		return time.Date(y, m, d-back, 0, 0, 0, 0, loc).Unix()
	}
	panic("bad timeframe kind")
}

// ---------------------------------------------------------------------------------------------
// rows

type crow struct {
	sec        int64
	ns         int32
	o, h, l, c float32   // tick rows: all four = the price
	x          []float64 // values of the Sum/Avg input columns (exact in float32 and in the column type)
}

func (r crow) t() int64 { return r.sec*1000000000 + int64(r.ns) }

type sumCol struct {
	name   string
	typ    io.EnumElementType
	typStr string
	sum    bool // mapped to Sum
	avg    bool // mapped to Avg
}

type candleInput struct {
	candle  bool // true: Open/High/Low/Close rows for CandleCandler; false: Price rows for TickCandler
	withNs  bool // carries a Nanoseconds column
	sumCols []sumCol
}

func (in *candleInput) kind() string {
	if in.candle {
		return "candle"
	}
	return "tick"
}

func typedCol(t io.EnumElementType, vals []float64) interface{} {
	n := len(vals)
	switch t {
	case io.FLOAT32:
		c := make([]float32, n)
		for i, v := range vals {
			c[i] = float32(v)
		}
		return c
	case io.FLOAT64:
		c := make([]float64, n)
		copy(c, vals)
		return c
	default:
		iv := make([]int64, n)
		for i, v := range vals {
			iv[i] = int64(v)
		}
		return ms.MakeCol(t, iv)
	}
}

// buildCS lays the rows out as the column series the aggregate receives, in the given row order.
func buildCS(rows []crow, order []int, in *candleInput) *io.ColumnSeries {
	n := len(order)
	ep := make([]int64, n)
	ns := make([]int32, n)
	o, h, l, c := make([]float32, n), make([]float32, n), make([]float32, n), make([]float32, n)
	xs := make([][]float64, len(in.sumCols))
	for k := range xs {
		xs[k] = make([]float64, n)
	}
	for i, j := range order {
		r := rows[j]
		ep[i], ns[i] = r.sec, r.ns
		o[i], h[i], l[i], c[i] = r.o, r.h, r.l, r.c
		for k := range xs {
			xs[k][i] = r.x[k]
		}
	}
	cs := io.NewColumnSeries()
	cs.AddColumn("Epoch", ep)
	if in.withNs {
		cs.AddColumn("Nanoseconds", ns)
	}
	if in.candle {
		cs.AddColumn("Open", o)
		cs.AddColumn("High", h)
		cs.AddColumn("Low", l)
		cs.AddColumn("Close", c)
	} else {
		cs.AddColumn("Price", o)
	}
	for k, sc := range in.sumCols {
		cs.AddColumn(sc.name, typedCol(sc.typ, xs[k]))
	}
	return cs
}

// ---------------------------------------------------------------------------------------------
// calling the real code

var candleTBK = *io.NewTimeBucketKey("VERIF/1Min/TICK")

var theAggRunner = sqlparser.NewDefaultAggRunner(nil)

func candlerCall(in *candleInput, tf string) string {
	var sb strings.Builder
	if in.candle {
		fmt.Fprintf(&sb, "candlecandler('%s',Open,High,Low,Close", tf)
	} else {
		fmt.Fprintf(&sb, "tickcandler('%s', Price", tf)
	}
	for _, sc := range in.sumCols {
		if sc.sum {
			fmt.Fprintf(&sb, ",Sum::%s", sc.name)
		}
		if sc.avg {
			fmt.Fprintf(&sb, ", Avg::%s", sc.name)
		}
	}
	sb.WriteString(")")
	return sb.String()
}

// runCandler aggregates cs with the real candler: directly (New + Accum, the way the repository's own
// tests drive it) or through AggRunner.Run with the call string the query API takes in `functions`.
func runCandler(in *candleInput, tf string, cs *io.ColumnSeries, viaRun bool) (out *io.ColumnSeries, err error, panicked string) {
	panicked = ms.Recover(func() {
		if viaRun {
			out, err = theAggRunner.Run([]string{candlerCall(in, tf)}, cs, candleTBK)
			return
		}
		var proto uda.AggInterface
		if in.candle {
			proto = &candlecandler.CandleCandler{}
		} else {
			proto = &tickcandler.TickCandler{}
		}
		am := functions.NewArgumentMap(proto.GetRequiredArgs(), proto.GetOptionalArgs()...)
		f32 := func(name string) io.DataShape { return io.DataShape{Name: name, Type: io.FLOAT32} }
		if in.candle {
			am.MapRequiredColumn("Open", f32("Open"))
			am.MapRequiredColumn("High", f32("High"))
			am.MapRequiredColumn("Low", f32("Low"))
			am.MapRequiredColumn("Close", f32("Close"))
		} else {
			am.MapRequiredColumn("CandlePrice", f32("Price"))
		}
		for _, sc := range in.sumCols {
			if sc.sum {
				am.MapRequiredColumn("Sum", io.DataShape{Name: sc.name, Type: sc.typ})
			}
			if sc.avg {
				am.MapRequiredColumn("Avg", io.DataShape{Name: sc.name, Type: sc.typ})
			}
		}
		var agg uda.AggInterface
		agg, err = proto.New(am, tf)
		if err != nil {
			return
		}
		out, err = agg.Accum(candleTBK, am, cs)
	})
	return out, err, panicked
}

// ---------------------------------------------------------------------------------------------
// reference fold

type refCandle struct {
	start      int64
	n          int // rows of the window
	nIn        int // rows taking part in open/high/low/close (== n in the ideal model)
	tMin, tMax int64
	opens      []float32 // prices of the earliest rows
	closes     []float32 // prices of the latest rows
	high, low  float32
	sum, abs   []float64 // per Sum/Avg input column: sum of values, sum of |values|
}

// refFold folds rows into candles keyed by win(row). within == nil: every row of a window takes part
// in OHLC (the property); otherwise only the rows it accepts do (as-is models of known findings);
// sums and the row count always cover all rows of the window.
func refFold(rows []crow, nx int, win func(sec int64) int64, within func(r crow, start int64) bool) map[int64]*refCandle {
	m := map[int64]*refCandle{}
	for _, r := range rows {
		s := win(r.sec)
		c := m[s]
		if c == nil {
			c = &refCandle{start: s, sum: make([]float64, nx), abs: make([]float64, nx)}
			m[s] = c
		}
		c.n++
		for k := 0; k < nx; k++ {
			c.sum[k] += r.x[k]
			c.abs[k] += math.Abs(r.x[k])
		}
		if within != nil && !within(r, s) {
			continue
		}
		t := r.t()
		if c.nIn == 0 {
			c.tMin, c.tMax = t, t
			c.opens, c.closes = []float32{r.o}, []float32{r.c}
			c.high, c.low = r.h, r.l
			c.nIn = 1
			continue
		}
		c.nIn++
		switch {
		case t < c.tMin:
			c.tMin, c.opens = t, []float32{r.o}
		case t == c.tMin:
			c.opens = append(c.opens, r.o)
		}
		switch {
		case t > c.tMax:
			c.tMax, c.closes = t, []float32{r.c}
		case t == c.tMax:
			c.closes = append(c.closes, r.c)
		}
		if r.h > c.high {
			c.high = r.h
		}
		if r.l < c.low {
			c.low = r.l
		}
	}
	return m
}

func sortedStarts(m map[int64]*refCandle) []int64 {
	s := make([]int64, 0, len(m))
	for k := range m {
		s = append(s, k)
	}
	sort.Slice(s, func(i, j int) bool { return s[i] < s[j] })
	return s
}

// ---------------------------------------------------------------------------------------------
// reading and judging an output

type outCandles struct {
	epoch      []int64
	o, h, l, c []float32
	sums       map[string][]float64 // input column name -> <name>_SUM
	avgs       map[string][]float64
}

func readCandles(cs *io.ColumnSeries, in *candleInput) (*outCandles, string) {
	if cs == nil {
		return nil, "no output column series"
	}
	oc := &outCandles{sums: map[string][]float64{}, avgs: map[string][]float64{}}
	var ok bool
	if oc.epoch, ok = cs.GetColumn("Epoch").([]int64); !ok {
		return nil, fmt.Sprintf("output has no int64 Epoch column (columns %v)", cs.GetColumnNames())
	}
	get := func(name string) []float32 {
		c, ok2 := cs.GetColumn(name).([]float32)
		if !ok2 || len(c) != len(oc.epoch) {
			ok = false
		}
		return c
	}
	oc.o, oc.h, oc.l, oc.c = get("Open"), get("High"), get("Low"), get("Close")
	if !ok {
		return nil, fmt.Sprintf("output lacks float32 Open/High/Low/Close columns of the Epoch column's length (columns %v)", cs.GetColumnNames())
	}
	if in != nil {
		for _, sc := range in.sumCols {
			if sc.sum {
				c, ok2 := cs.GetColumn(sc.name + "_SUM").([]float64)
				if !ok2 || len(c) != len(oc.epoch) {
					return nil, fmt.Sprintf("output lacks the sum column for %s (columns %v)", sc.name, cs.GetColumnNames())
				}
				oc.sums[sc.name] = c
			}
			if sc.avg {
				c, ok2 := cs.GetColumn(sc.name + "_AVG").([]float64)
				if !ok2 || len(c) != len(oc.epoch) {
					return nil, fmt.Sprintf("output lacks the average column for %s (columns %v)", sc.name, cs.GetColumnNames())
				}
				oc.avgs[sc.name] = c
			}
		}
	}
	return oc, ""
}

func inF32(v float32, set []float32) bool {
	for _, x := range set {
		if x == v {
			return true
		}
	}
	return false
}

type candleDiff struct {
	msg   string
	start int64 // window concerned (0 when the set of windows differs)
	idx   int
}

// judgeCandles compares an output with a reference fold. nil => the output is exactly what the
// reference allows (one candle per window with rows, increasing Epoch, open/close among the allowed
// prices, extremes equal, sums/averages within float64 summation error).
func judgeCandles(oc *outCandles, ref map[int64]*refCandle, in *candleInput) *candleDiff {
	starts := sortedStarts(ref)
	for i := 1; i < len(oc.epoch); i++ {
		if oc.epoch[i] <= oc.epoch[i-1] {
			return &candleDiff{msg: fmt.Sprintf("candles not in strictly increasing time order: Epoch[%d]=%d, Epoch[%d]=%d", i-1, oc.epoch[i-1], i, oc.epoch[i]), idx: i}
		}
	}
	if len(oc.epoch) != len(starts) {
		return &candleDiff{msg: fmt.Sprintf("%d candles returned, %d windows contain rows; returned Epoch=%v expected=%v", len(oc.epoch), len(starts), trimI64(oc.epoch, 12), trimI64(starts, 12))}
	}
	for i, s := range starts {
		if oc.epoch[i] != s {
			return &candleDiff{msg: fmt.Sprintf("candle %d has Epoch %d, expected window start %d; returned Epoch=%v expected=%v", i, oc.epoch[i], s, trimI64(oc.epoch, 12), trimI64(starts, 12)), idx: i}
		}
	}
	for i, s := range starts {
		rc := ref[s]
		if rc.nIn == 0 {
			if oc.o[i] != 0 || oc.h[i] != 0 || oc.l[i] != 0 || oc.c[i] != 0 {
				return &candleDiff{msg: fmt.Sprintf("window %d: OHLC=(%v,%v,%v,%v), model has no contributing row", s, oc.o[i], oc.h[i], oc.l[i], oc.c[i]), start: s, idx: i}
			}
		} else {
			var bad []string
			if !inF32(oc.o[i], rc.opens) {
				bad = append(bad, fmt.Sprintf("open=%v, earliest row(s) at %dns have price(s) %v", oc.o[i], rc.tMin, rc.opens))
			}
			if !inF32(oc.c[i], rc.closes) {
				bad = append(bad, fmt.Sprintf("close=%v, latest row(s) at %dns have price(s) %v", oc.c[i], rc.tMax, rc.closes))
			}
			if oc.h[i] != rc.high {
				bad = append(bad, fmt.Sprintf("high=%v, maximum is %v", oc.h[i], rc.high))
			}
			if oc.l[i] != rc.low {
				bad = append(bad, fmt.Sprintf("low=%v, minimum is %v", oc.l[i], rc.low))
			}
			if len(bad) > 0 {
				return &candleDiff{msg: fmt.Sprintf("window %d (%d rows): %s", s, rc.n, strings.Join(bad, "; ")), start: s, idx: i}
			}
		}
		if in == nil {
			continue
		}
		for k, sc := range in.sumCols {
			tol := float64(rc.n+2) * 0x1p-50 * rc.abs[k]
			if sc.sum {
				got := oc.sums[sc.name][i]
				if !(math.Abs(got-rc.sum[k]) <= tol) {
					return &candleDiff{msg: fmt.Sprintf("window %d: sum of %s (%s) = %v, expected %v over %d rows", s, sc.name, sc.typStr, got, rc.sum[k], rc.n), start: s, idx: i}
				}
			}
			if sc.avg {
				got := oc.avgs[sc.name][i]
				want := rc.sum[k] / float64(rc.n)
				if !(math.Abs(got-want) <= tol/float64(rc.n)+math.Abs(want)*0x1p-50) {
					return &candleDiff{msg: fmt.Sprintf("window %d: average of %s (%s) = %v, expected %v over %d rows", s, sc.name, sc.typStr, got, want, rc.n), start: s, idx: i}
				}
			}
		}
	}
	return nil
}

func trimI64(a []int64, n int) []int64 {
	if len(a) > n {
		return a[:n]
	}
	return a
}

// sameOHLC reports the first difference between two outputs on Epoch/Open/High/Low/Close ("" if none).
func sameOHLC(a, b *outCandles) string {
	if len(a.epoch) != len(b.epoch) {
		return fmt.Sprintf("%d candles vs %d candles (Epoch %v vs %v)", len(a.epoch), len(b.epoch), trimI64(a.epoch, 12), trimI64(b.epoch, 12))
	}
	for i := range a.epoch {
		if a.epoch[i] != b.epoch[i] {
			return fmt.Sprintf("candle %d: Epoch %d vs %d", i, a.epoch[i], b.epoch[i])
		}
		if a.o[i] != b.o[i] || a.h[i] != b.h[i] || a.l[i] != b.l[i] || a.c[i] != b.c[i] {
			return fmt.Sprintf("candle %d (Epoch %d): OHLC (%v,%v,%v,%v) vs (%v,%v,%v,%v)", i, a.epoch[i], a.o[i], a.h[i], a.l[i], a.c[i], b.o[i], b.h[i], b.l[i], b.c[i])
		}
	}
	return ""
}

func (oc *outCandles) dump(max int) []string {
	var out []string
	for i := range oc.epoch {
		if i >= max {
			out = append(out, fmt.Sprintf("... %d candles", len(oc.epoch)))
			break
		}
		out = append(out, fmt.Sprintf("Epoch=%d (%s) O=%v H=%v L=%v C=%v", oc.epoch[i], time.Unix(oc.epoch[i], 0).UTC().Format(time.RFC3339), oc.o[i], oc.h[i], oc.l[i], oc.c[i]))
	}
	return out
}

// dumpRows writes rows out (in the given order), restricted to one window when win != nil.
func dumpRows(rows []crow, order []int, in *candleInput, win func(int64) int64, start int64, max int) []string {
	var out []string
	total := 0
	for _, j := range order {
		r := rows[j]
		if win != nil && win(r.sec) != start {
			continue
		}
		total++
		if len(out) >= max {
			continue
		}
		var s string
		if in != nil && in.candle {
			s = fmt.Sprintf("Epoch=%d ns=%d O=%v H=%v L=%v C=%v", r.sec, r.ns, r.o, r.h, r.l, r.c)
		} else {
			s = fmt.Sprintf("Epoch=%d ns=%d Price=%v", r.sec, r.ns, r.o)
		}
		if len(r.x) > 0 {
			s += fmt.Sprintf(" x=%v", r.x)
		}
		out = append(out, s)
	}
	if total > len(out) {
		out = append(out, fmt.Sprintf("... %d rows in total", total))
	}
	return out
}

// ---------------------------------------------------------------------------------------------
// generator

// anchors: instants around which row sets are placed (UTC seconds): ordinary days, DST changes of
// America/New_York, year / leap-day / month boundaries, a week boundary.
var anchorTimes = []time.Time{
	time.Date(2019, 6, 12, 13, 37, 11, 0, time.UTC),
	time.Date(2021, 3, 14, 7, 0, 0, 0, time.UTC),   // New York spring forward (02:00 EST)
	time.Date(2021, 11, 7, 6, 0, 0, 0, time.UTC),   // New York fall back (02:00 EDT)
	time.Date(2021, 1, 1, 0, 0, 0, 0, time.UTC),    // year boundary
	time.Date(2020, 2, 29, 23, 59, 59, 0, time.UTC), // leap day
	time.Date(2022, 8, 1, 0, 0, 0, 0, time.UTC),    // month boundary on a Monday
	time.Date(2023, 10, 2, 0, 0, 0, 0, time.UTC),   // Monday
	time.Date(2001, 9, 9, 1, 46, 40, 0, time.UTC),  // epoch 1e9
}

func pickBase(r *gen.R, tf tfSpec) int64 {
	var base int64
	if r.P(1, 2) {
		// anywhere in 2005..2035
		base = 1104537600 + r.I64n(946684800)
	} else {
		a := anchorTimes[r.Intn(len(anchorTimes))].Unix()
		// up to two windows before the anchor so that the anchor lies inside the row set's span
		base = a - r.I64n(2*tf.sec+1)
	}
	if r.P(1, 2) {
		base -= base % tf.sec // start on a multiple of the nominal length
	}
	return base
}

var priceModes = []string{"random", "positive", "negative", "extreme", "equal", "fewvalues", "mono_up", "mono_down"}

var extremeF32 = []float32{
	math.MaxFloat32, -math.MaxFloat32, math.SmallestNonzeroFloat32, -math.SmallestNonzeroFloat32,
	0, float32(math.Copysign(0, -1)), 1, -1, 1e30, -1e30, 16777216, 16777218, -16777216, 0.1, -0.1, 3.4e38, 1e-38,
}

func priceDraw(r *gen.R, mode string, few []float32) float32 {
	switch mode {
	case "positive":
		return float32(1+r.Intn(100000)) / 100
	case "negative":
		return -float32(1+r.Intn(100000)) / 100
	case "extreme":
		return extremeF32[r.Intn(len(extremeF32))]
	case "equal":
		return few[0]
	case "fewvalues":
		return few[r.Intn(len(few))]
	default: // random, mono_* (mono is imposed afterwards)
		return float32((r.F64() - 0.5) * 4000)
	}
}

type rowSetSpec struct {
	tf        tfSpec
	nRows     int
	nSpan     int    // nominal windows spanned
	withNs    bool   // sub-second timestamps
	ties      bool   // plant equal timestamps
	priceMode string // see priceModes
	candle    bool
	nx        int // number of Sum/Avg input columns
	xKind     []int // per column: 0 small non-negative ints (fit every type), 1 signed ints < 2^24, 2 binary fractions
	base      int64
	minPerFine int64 // >0: cluster rows in windows of this many seconds (C22: several rows per fine candle)
}

// genRows generates the row set of a case (in generation order, which is not time order).
// Timestamps are distinct unless spec.ties.
func genRows(r *gen.R, sp *rowSetSpec, loc *time.Location) []crow {
	span := int64(sp.nSpan) * sp.tf.sec
	type ts struct {
		sec int64
		ns  int32
	}
	seen := map[ts]bool{}
	var stamps []ts
	add := func(t ts) {
		if t.sec < 86400 {
			return
		}
		if seen[t] {
			return
		}
		seen[t] = true
		stamps = append(stamps, t)
	}
	nsDraw := func() int32 {
		if !sp.withNs {
			return 0
		}
		switch r.Intn(6) {
		case 0:
			return 0
		case 1:
			return 999999999
		case 2:
			return 1
		default:
			return int32(r.Intn(1000000000))
		}
	}
	var clusterAt int64 = -1
	for tries := 0; len(stamps) < sp.nRows && tries < sp.nRows*20+50; tries++ {
		switch k := r.Intn(10); {
		case k < 5: // anywhere in the span
			add(ts{sp.base + r.I64n(span), nsDraw()})
		case k < 8: // at a window boundary: first instant, last instant, one past the first
			t := sp.base + r.I64n(span)
			w := refWindow(sp.tf, t, loc, false)
			switch r.Intn(4) {
			case 0:
				add(ts{w, 0})
			case 1:
				if sp.withNs {
					add(ts{w - 1, 999999999})
				} else {
					add(ts{w - 1, 0})
				}
			case 2:
				if sp.withNs {
					add(ts{w, 1})
				} else {
					add(ts{w + 1, 0})
				}
			default:
				add(ts{w + sp.tf.sec - 1, nsDraw()})
			}
		default: // clustered near the previous cluster point
			if clusterAt < 0 || r.P(1, 5) {
				clusterAt = sp.base + r.I64n(span)
			}
			width := sp.tf.sec
			if sp.minPerFine > 0 {
				width = sp.minPerFine
				clusterAt -= clusterAt % width
			}
			if width > 600 && sp.minPerFine == 0 {
				width = 600
			}
			add(ts{clusterAt + r.I64n(width), nsDraw()})
		}
	}
	rows := make([]crow, len(stamps))
	for i, t := range stamps {
		rows[i].sec, rows[i].ns = t.sec, t.ns
	}
	if sp.ties && len(rows) >= 2 {
		// equal timestamps: copy the timestamp of some rows (preferably the first/last of a window) onto others
		byT := make([]int, len(rows))
		for i := range byT {
			byT[i] = i
		}
		sort.Slice(byT, func(a, b int) bool { return rows[byT[a]].t() < rows[byT[b]].t() })
		nt := 1 + r.Intn(1+len(rows)/3)
		for k := 0; k < nt; k++ {
			var src int
			switch r.Intn(3) {
			case 0:
				src = byT[0]
			case 1:
				src = byT[len(byT)-1]
			default:
				src = r.Intn(len(rows))
			}
			dst := r.Intn(len(rows))
			rows[dst].sec, rows[dst].ns = rows[src].sec, rows[src].ns
		}
	}
	// prices
	few := []float32{priceDraw(r, "random", nil), priceDraw(r, "random", nil), priceDraw(r, "random", nil)}
	if r.P(1, 4) {
		few[0] = extremeF32[r.Intn(len(extremeF32))]
	}
	mono := sp.priceMode == "mono_up" || sp.priceMode == "mono_down"
	for i := range rows {
		if !sp.candle {
			p := priceDraw(r, sp.priceMode, few)
			rows[i].o, rows[i].h, rows[i].l, rows[i].c = p, p, p, p
			continue
		}
		v := []float32{priceDraw(r, sp.priceMode, few), priceDraw(r, sp.priceMode, few), priceDraw(r, sp.priceMode, few), priceDraw(r, sp.priceMode, few)}
		sort.Slice(v, func(a, b int) bool { return v[a] < v[b] })
		rows[i].l, rows[i].h = v[0], v[3]
		if r.Bool() {
			rows[i].o, rows[i].c = v[1], v[2]
		} else {
			rows[i].o, rows[i].c = v[2], v[1]
		}
		if r.P(1, 8) { // open at the low, close at the high (or the reverse)
			rows[i].o, rows[i].c = v[0], v[3]
		}
	}
	if mono {
		// prices ordered like (or against) time: open/close/high/low sit at the ends of each window
		idx := make([]int, len(rows))
		for i := range idx {
			idx[i] = i
		}
		sort.SliceStable(idx, func(a, b int) bool { return rows[idx[a]].t() < rows[idx[b]].t() })
		for k, i := range idx {
			p := float32(k) * 0.25
			if sp.priceMode == "mono_down" {
				p = -p
			}
			if sp.candle {
				rows[i].o, rows[i].l, rows[i].h, rows[i].c = p, p-0.125, p+0.125, p+0.0625
			} else {
				rows[i].o, rows[i].h, rows[i].l, rows[i].c = p, p, p, p
			}
		}
	}
	// Sum/Avg inputs
	for i := range rows {
		if sp.nx == 0 {
			break
		}
		rows[i].x = make([]float64, sp.nx)
		for k := 0; k < sp.nx; k++ {
			switch sp.xKind[k] {
			case 0:
				rows[i].x[k] = float64(r.Intn(128))
			case 1:
				rows[i].x[k] = float64(r.Intn(1<<25) - 1<<24 + 1) // |v| < 2^24: exact in float32
			default:
				rows[i].x[k] = float64(r.Intn(1<<20)-1<<19) / 64 // binary fraction, exact in float32
			}
		}
	}
	return rows
}

func rowsBucket(n int) string {
	switch {
	case n <= 1:
		return "1"
	case n <= 5:
		return "2-5"
	case n <= 60:
		return "6-60"
	default:
		return "61+"
	}
}

func identity(n int) []int {
	p := make([]int, n)
	for i := range p {
		p[i] = i
	}
	return p
}

func timeOrder(rows []crow, desc bool) []int {
	p := identity(len(rows))
	sort.SliceStable(p, func(a, b int) bool {
		if desc {
			return rows[p[a]].t() > rows[p[b]].t()
		}
		return rows[p[a]].t() < rows[p[b]].t()
	})
	return p
}

func distinctTimes(rows []crow) bool {
	seen := make(map[int64]bool, len(rows))
	for _, r := range rows {
		if seen[r.t()] {
			return false
		}
		seen[r.t()] = true
	}
	return true
}
