package main

// C22 Candle aggregation composes across timeframes.
//
// Metamorphic relation between two real executions on the same generated tick rows (distinct timestamps):
//   A = TickCandler(coarse)(rows)
//   B = CandleCandler(coarse)(TickCandler(fine)(rows))
// for every pair (fine, coarse) of {1Sec 5Sec 10Sec 30Sec 1Min 5Min 15Min 30Min 1H 2H 4H 1D} where the
// fine duration divides the coarse one (fine == coarse included). A and B must have the same Epoch, Open,
// High, Low and Close columns. Half of the cases run B the way the query API does: one AggRunner.Run call
// with the two-element function chain; the others call New + Accum twice.
//
// Known finding F-TZALIGN (new, demonstrated here): sub-day windows are aligned to UTC while 1D windows are
// calendar days of the instance zone, so in a zone whose UTC offset is not a multiple of the fine duration
// (Asia/Kolkata: 1H 2H 4H; America/New_York: 2H 4H) a fine candle straddles local midnight and B books all
// of its rows on the day in which the fine window starts.
//   Trigger (on the input): coarse is 1D and some row lies on another local day than the start of the
//   Unix-epoch-aligned fine window containing it.
//   As-is: B equals the two-stage reference fold (reference fine candles, stamped with their window start,
//   folded into local days).
// Cases of the main stratum never contain such a row (rows in straddling fine windows are not generated), so
// there A == B is required without exception; a block of extra cases at the end aims at the trigger
// (pairs 30Min|1D 1H|1D 2H|1D 4H|1D with rows planted on both sides of local midnights, all three zones).

import (
	"fmt"
	"time"

	"github.com/alpacahq/marketstore/v4/utils/io"
	"github.com/alpacahq/marketstore/v4/verif/internal/ms"
	"github.com/alpacahq/marketstore/v4/verif/internal/runner"
)

const c22batch = 50

var c22tfs = []tfSpec{
	fixedTF("1Sec", 1), fixedTF("5Sec", 5), fixedTF("10Sec", 10), fixedTF("30Sec", 30), fixedTF("1Min", 60),
	fixedTF("5Min", 300), fixedTF("15Min", 900), fixedTF("30Min", 1800), fixedTF("1H", 3600), fixedTF("2H", 7200),
	fixedTF("4H", 14400), tf1D,
}

type c22pair struct{ fine, coarse tfSpec }

var c22pairs = func() []c22pair {
	var ps []c22pair
	for _, f := range c22tfs {
		for _, co := range c22tfs {
			if co.sec%f.sec == 0 {
				ps = append(ps, c22pair{f, co})
			}
		}
	}
	return ps
}()

// c22aimPairs: the pairs whose fine windows can straddle a local midnight in one of the zones, plus 30Min|1D
// (nests in all three zones) as a control.
var c22aimPairs = func() []c22pair {
	var ps []c22pair
	for _, p := range c22pairs {
		if p.coarse.kind == tfDay && p.fine.kind == tfFixed && p.fine.sec >= 1800 {
			ps = append(ps, p)
		}
	}
	return ps
}()

// case layout: [0, pairs*sets) main stratum, pair = case mod pairs; then the block aimed at F-TZALIGN
// (three batches in quick, so that every zone occurs).
func c22main(tier string) int {
	if tier == "thorough" {
		return len(c22pairs) * 2000
	}
	return len(c22pairs) * 20
}

func c22cases(tier string) int {
	if tier == "thorough" {
		return c22main(tier) + 100*3*c22batch
	}
	return c22main(tier) + 3*c22batch
}

func c22run(c *runner.Ctx) runner.Result {
	var res runner.Result
	ms.Quiet()
	loc, zone := zoneFor(c.Case, c22batch)
	setZone(loc)
	pair := c22pairs[c.Case%len(c22pairs)]
	aim := c.Case >= c22main(c.Tier)
	if aim {
		pair = c22aimPairs[c.Case%len(c22aimPairs)]
	}
	fine, coarse := pair.fine, pair.coarse
	r := c.R("rows")

	sp := &rowSetSpec{tf: coarse, priceMode: priceModes[r.Intn(len(priceModes))]}
	switch r.Intn(10) {
	case 0, 1:
		sp.nRows = 1 + r.Intn(5)
	case 2, 3, 4, 5:
		sp.nRows = 6 + r.Intn(55)
	default:
		sp.nRows = 61 + r.Intn(340)
	}
	sp.nSpan = 1 + r.Intn(4)
	sp.withNs = r.P(2, 3)
	sp.base = pickBase(r, coarse)
	sp.minPerFine = fine.sec
	rows := genRows(r, sp, loc)
	fineWin := func(sec int64) int64 { return refWindow(fine, sec, loc, false) }
	coarseWin := func(sec int64) int64 { return refWindow(coarse, sec, loc, false) }
	straddles := func(rw crow) bool { return coarseWin(fineWin(rw.sec)) != coarseWin(rw.sec) }
	if aim && coarse.kind == tfDay && len(rows) > 0 {
		// rows on both sides of local midnights inside the span
		for i := 0; i < 6; i++ {
			mid := coarseWin(sp.base + r.I64n(int64(sp.nSpan)*coarse.sec))
			rows = append(rows, crow{sec: mid - 1 - r.I64n(fine.sec)}, crow{sec: mid + r.I64n(fine.sec)})
		}
		seen := map[int64]bool{}
		kept := rows[:0]
		for _, rw := range rows {
			if rw.sec > 86400 && !seen[rw.t()] {
				seen[rw.t()] = true
				if rw.o == 0 && rw.h == 0 {
					p := priceDraw(r, "random", nil)
					rw.o, rw.h, rw.l, rw.c = p, p, p, p
				}
				kept = append(kept, rw)
			}
		}
		rows = kept
	}
	if !aim {
		kept := rows[:0]
		for _, rw := range rows {
			if !straddles(rw) {
				kept = append(kept, rw)
			}
		}
		rows = kept
	}
	if len(rows) == 0 {
		// every generated row sat in a straddling fine window (tiny sets only): nothing to compare
		res.Count("empty_row_sets_skipped", 1)
		return res
	}
	if !distinctTimes(rows) {
		res.Inconclusive("generator produced equal timestamps")
		return res
	}
	trigger := false
	for _, rw := range rows {
		if straddles(rw) {
			trigger = true
		}
	}

	in := &candleInput{withNs: sp.withNs}
	cin := &candleInput{candle: true}
	order := c.R("perm").Perm(len(rows))
	if r.P(1, 3) {
		order = timeOrder(rows, false)
	}
	viaRun := c.Case%2 == 1
	route := "New+Accum"
	if viaRun {
		route = fmt.Sprintf("AggRunner.Run [%s, %s]", candlerCall(in, fine.name), candlerCall(cin, coarse.name))
	}
	witness := func(a, b *outCandles) map[string]interface{} {
		w := map[string]interface{}{"fine": fine.name, "coarse": coarse.name, "zone": zone, "route_of_composition": route,
			"rows_in_input_order": dumpRows(rows, order, in, nil, 0, 80), "rows_total": len(rows)}
		if a != nil {
			w["direct_coarse"] = a.dump(10)
		}
		if b != nil {
			w["composed"] = b.dump(10)
		}
		return w
	}

	// A: rows -> coarse
	outA, err, pan := runCandler(in, coarse.name, buildCS(rows, order, in), false)
	res.Count("accum_calls", 1)
	if pan != "" || err != nil {
		res.Violation(fmt.Sprintf("tickcandler %s failed: panic=%q err=%v", coarse.name, pan, err), witness(nil, nil))
		return res
	}
	a, bad := readCandles(outA, nil)
	if bad != "" {
		res.Violation("tickcandler "+coarse.name+": "+bad, witness(nil, nil))
		return res
	}
	// B: rows -> fine -> coarse
	var outB *io.ColumnSeries
	var nFine int
	if viaRun {
		pan = ms.Recover(func() {
			outB, err = theAggRunner.Run([]string{candlerCall(in, fine.name), candlerCall(cin, coarse.name)}, buildCS(rows, order, in), candleTBK)
		})
		res.Count("accum_calls", 2)
		res.Count("compositions_via_aggrunner_chain", 1)
		nFine = len(refFold(rows, 0, fineWin, nil))
	} else {
		var outF *io.ColumnSeries
		outF, err, pan = runCandler(in, fine.name, buildCS(rows, order, in), false)
		res.Count("accum_calls", 1)
		if pan == "" && err == nil {
			f, bad2 := readCandles(outF, nil)
			if bad2 != "" {
				res.Violation("tickcandler "+fine.name+": "+bad2, witness(a, nil))
				return res
			}
			nFine = len(f.epoch)
			outB, err, pan = runCandler(cin, coarse.name, outF, false)
			res.Count("accum_calls", 1)
		}
	}
	if pan != "" || err != nil {
		res.Violation(fmt.Sprintf("composition %s -> %s failed (%s): panic=%q err=%v", fine.name, coarse.name, route, pan, err), witness(a, nil))
		return res
	}
	b, bad := readCandles(outB, nil)
	if bad != "" {
		res.Violation(fmt.Sprintf("composition %s -> %s: %s", fine.name, coarse.name, bad), witness(a, nil))
		return res
	}
	res.Count("compositions_compared", 1)
	res.Count("coarse_candles_compared", int64(len(a.epoch)))
	res.Count("fine_candles", int64(nFine))
	res.Count("rows_fed", int64(len(rows)))
	if nFine < len(rows) {
		res.Count("sets_with_multi_row_fine_candles", 1)
	}
	if nFine > len(a.epoch) {
		res.Count("sets_with_multi_candle_coarse_windows", 1)
	}
	if diff := sameOHLC(a, b); diff != "" {
		known := false
		if trigger {
			// as-is: two-stage reference fold
			st1 := refFold(rows, 0, fineWin, nil)
			var rows2 []crow
			for _, s := range sortedStarts(st1) {
				fc := st1[s]
				rows2 = append(rows2, crow{sec: s, o: fc.opens[0], h: fc.high, l: fc.low, c: fc.closes[0]})
			}
			st2 := refFold(rows2, 0, coarseWin, nil)
			if judgeCandles(b, st2, nil) == nil {
				known = true
			}
		}
		detail := fmt.Sprintf("%s -> %s in %s (%s): direct vs composed: %s", fine.name, coarse.name, zone, route, diff)
		if known {
			res.Count("tzalign_defect_outputs", 1)
			res.Known("F-TZALIGN", "fine candle straddles local midnight (fine windows UTC-aligned, 1D windows local): "+detail, witness(a, b))
		} else {
			res.Violation(detail, witness(a, b))
		}
	}
	if trigger {
		res.Count("sets_with_tzalign_trigger", 1)
	}

	res.Evals = 3
	nsmode := "sec"
	if sp.withNs {
		nsmode = "ns"
	}
	rt := "direct"
	if viaRun {
		rt = "chain"
	}
	res.Set("pairs", fine.name+"|"+coarse.name)
	res.Set("zones", zone)
	res.Set("pair_zone", fine.name+"|"+coarse.name+"@"+zone)
	res.Sig = fmt.Sprintf("%s|%s/%s/rows%s/%s/%s", fine.name, coarse.name, zone, rowsBucket(len(rows)), nsmode, rt)
	if c.Case < 3 {
		res.Sample = map[string]interface{}{"fine": fine.name, "coarse": coarse.name, "zone": zone, "route": route,
			"rows": dumpRows(rows, order, in, nil, 0, 8), "direct": a.dump(4), "composed": b.dump(4)}
	}
	return res
}

func init() {
	register(&runner.Monitor{
		ID:    "C22",
		Level: "exploration",
		Rule: fmt.Sprintf("case = pair (fine, coarse) number case mod %d of all %d pairs of {1Sec..4H,1D} with fine | coarse (every pair in every tier: quick 20, thorough 2000 row sets per pair) "+
			"x generated tick set (1-400 rows, distinct timestamps at second or nanosecond resolution, clustered so that fine candles hold several rows, over 1-4 coarse windows around ordinary days / DST changes / year and month ends) "+
			"x zone of the batch; TickCandler(coarse)(rows) is compared with CandleCandler(coarse)(TickCandler(fine)(rows)) on Epoch/Open/High/Low/Close, the composition run either as two New+Accum calls or as one AggRunner.Run function chain. "+
			"These sets contain no row in a fine window that straddles a local midnight (so equality is demanded outright); an extra block (quick 150, thorough 15000 cases) plants such rows for 30Min|1D..4H|1D (F-TZALIGN). "+
			"A case is non-trivial when both aggregations produced candles that were compared; distinct by (pair, zone, row-count bucket, resolution, route)", len(c22pairs), len(c22pairs)),
		Assumptions: []string{
			"timestamps of a row set are distinct (with equal timestamps the property leaves open/close of either side open)",
			"the nesting predicate of the trigger uses Unix-epoch-aligned sub-day windows and local calendar days, i.e. the window definition of C21",
		},
		Cases:        c22cases,
		Batch:        c22batch,
		Run:          c22run,
		Need:         []string{"compositions_compared", "coarse_candles_compared", "sets_with_multi_row_fine_candles", "sets_with_multi_candle_coarse_windows", "compositions_via_aggrunner_chain"},
		MinDistinct:  len(c22pairs),
		BatchTimeout: 20 * time.Minute,
		ChildEnv:     []string{"GOMAXPROCS=2"}, // a case is single-threaded; keeps 16 children from running 16 GC workers each
	})
}
