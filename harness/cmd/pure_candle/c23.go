package main

// C23 Scalar aggregates and gap detection are correct.
//
// Real code driven: uda/count, uda/min, uda/max, uda/avg, uda/gap, each directly (New + Accum) and through
// sqlparser.AggRunner.Run with the call syntax of the query API's `functions` field ("MIN (Val)",
// "count(Val)", "gap('10Sec')", ...), which runs ParseFunctionCall and ArgumentMap.PrepareArguments.
//
// Oracle (from the property text):
//   count == number of input rows (0 for empty input);
//   min / max == minimum / maximum of the column's values converted to float32 (exact);
//   avg == mean of the float32-converted values, to single precision: |avg - mean| <= (n+1) * 2^-24 * mean(|v|) + 2^-149
//          (the error bound of a float32 summation in any order; the real code sums in float64);
//   gap('<threshold>') == exactly the consecutive row pairs (Epoch[i], Epoch[i+1]) with
//          Epoch[i+1]-Epoch[i] > threshold seconds, reported as (start, end, length); compared as a multiset.
// Not asserted: the value of min/max/avg for empty input (only that nothing panics), the Epoch of the
// scalar results (it is the wall clock), the order of the reported gaps, gap without a threshold,
// unsorted Epoch input for gap (the sign convention of a negative difference is not stated).
//
// Known finding F-UDATYPE: uda.ColumnToFloat32 has cases only for float32/float64/int/int64/int32 columns; for
// i1 i2 u1 u2 u4 u8 it returns an empty slice and no error.
//   Trigger: column type in {i1,i2,u1,u2,u4,u8} and at least one row.
//   As-is: min and max panic "index out of range [0] with length 0"; avg returns NaN (0/0). count is unaffected.

import (
	"fmt"
	"math"
	"reflect"
	"sort"
	"strings"
	"time"

	"github.com/alpacahq/marketstore/v4/uda"
	"github.com/alpacahq/marketstore/v4/uda/avg"
	"github.com/alpacahq/marketstore/v4/uda/count"
	"github.com/alpacahq/marketstore/v4/uda/gap"
	"github.com/alpacahq/marketstore/v4/uda/max"
	"github.com/alpacahq/marketstore/v4/uda/min"
	"github.com/alpacahq/marketstore/v4/utils/functions"
	"github.com/alpacahq/marketstore/v4/utils/io"
	"github.com/alpacahq/marketstore/v4/verif/internal/gen"
	"github.com/alpacahq/marketstore/v4/verif/internal/ms"
	"github.com/alpacahq/marketstore/v4/verif/internal/runner"
)

// type slots: the four types ColumnToFloat32 converts appear three times each, so that two thirds of the
// scalar cases are judged against the ideal model only.
var c23typeSlots = []int{8, 9, 2, 3, 8, 9, 2, 3, 8, 9, 2, 3, 0, 1, 4, 5, 6, 7} // indexes into ms.ElemTypes
var c23lengths = []int{0, 1, 2, 3, 10, 1000}
var c23valueSets = []string{"random", "constant", "extremes", "monotone"}

type c23thr struct {
	s   string
	sec int64
}

var c23thresholds = []c23thr{{"1Sec", 1}, {"2Sec", 2}, {"5Sec", 5}, {"10Sec", 10}, {"30Sec", 30}, {"90Sec", 90}, {"1Min", 60}, {"5Min", 300},
	{"15Min", 900}, {"1H", 3600}, {"4H", 14400}, {"1D", 86400}, {"2D", 172800}, {"1W", 604800}}

func c23cases(tier string) int {
	if tier == "thorough" {
		return 300000
	}
	return 3000
}

func c23supported(t io.EnumElementType) bool {
	switch t {
	case io.FLOAT32, io.FLOAT64, io.INT32, io.INT64:
		return true
	}
	return false
}

// ---- value generation: returns the typed column and its float32 conversion (Go's conversion = nearest float32)

func c23intRange(t io.EnumElementType) (lo, hi int64, unsigned64 bool) {
	switch t {
	case io.BYTE:
		return math.MinInt8, math.MaxInt8, false
	case io.INT16:
		return math.MinInt16, math.MaxInt16, false
	case io.INT32:
		return math.MinInt32, math.MaxInt32, false
	case io.INT64:
		return math.MinInt64, math.MaxInt64, false
	case io.UINT8:
		return 0, math.MaxUint8, false
	case io.UINT16:
		return 0, math.MaxUint16, false
	case io.UINT32:
		return 0, math.MaxUint32, false
	case io.UINT64:
		return 0, math.MaxInt64, true
	}
	panic("not an integer type")
}

func c23floatDraw(r *gen.R, f64 bool) float64 {
	if r.P(1, 3) {
		return float64(r.Intn(200001)-100000) / 100 // prices with two decimals (not exact in binary)
	}
	mant := 1 + r.F64()
	e := r.Range(-60, 120)
	v := math.Ldexp(mant, e)
	if r.Bool() {
		v = -v
	}
	if !f64 {
		v = float64(float32(v))
	}
	return v
}

var c23extF32 = []float64{math.MaxFloat32, -math.MaxFloat32, math.SmallestNonzeroFloat32, -math.SmallestNonzeroFloat32, 0, math.Copysign(0, -1), 1, -1, 16777216, 16777218, 0.5, -0.5, 1e-40}
var c23extF64 = []float64{math.MaxFloat32, -math.MaxFloat32, 3.4e38, -3.4e38, 1e-50, -1e-50, 0, math.Copysign(0, -1), 1, -1, 16777217, -16777217, 0.1, -0.1, 1 + 0x1p-30, 4294967295, 1e-40}

func c23values(r *gen.R, t io.EnumElementType, n int, set string) (col interface{}, f32 []float32) {
	isFloat := t == io.FLOAT32 || t == io.FLOAT64
	fv := make([]float64, n)
	iv := make([]int64, n)
	uv := make([]uint64, n) // only for u8
	var lo, hi int64
	var u64 bool
	if !isFloat {
		lo, hi, u64 = c23intRange(t)
	}
	drawInt := func() (int64, uint64) {
		if u64 {
			if r.Bool() {
				u := r.U64()
				return int64(u), u
			}
			u := uint64(r.Intn(2001))
			return int64(u), u
		}
		if r.Bool() {
			span := uint64(hi) - uint64(lo) // wraps correctly for the full int64 range
			var v int64
			if span == math.MaxUint64 {
				v = int64(r.U64())
			} else {
				v = lo + int64(r.U64()%(span+1))
			}
			return v, 0
		}
		v := int64(r.Intn(2001)) - 1000
		if v < lo {
			v = -v
		}
		if v > hi {
			v = v % (hi + 1)
		}
		return v, 0
	}
	drawExt := func() (int64, uint64) {
		if u64 {
			u := []uint64{0, 1, 2, math.MaxUint64, math.MaxUint64 - 1, 1 << 63, 1<<63 - 1, 16777217}[r.Intn(8)]
			return int64(u), u
		}
		c := []int64{lo, hi, 0, 1, lo + 1, hi - 1, -1, 16777217, -16777217}
		v := c[r.Intn(len(c))]
		if v < lo || v > hi {
			v = hi
		}
		return v, 0
	}
	for i := 0; i < n; i++ {
		switch {
		case isFloat && set == "extremes":
			if t == io.FLOAT32 {
				fv[i] = c23extF32[r.Intn(len(c23extF32))]
			} else {
				fv[i] = c23extF64[r.Intn(len(c23extF64))]
			}
		case isFloat:
			fv[i] = c23floatDraw(r, t == io.FLOAT64)
		case set == "extremes":
			iv[i], uv[i] = drawExt()
		default:
			iv[i], uv[i] = drawInt()
		}
	}
	switch set {
	case "constant":
		for i := 1; i < n; i++ {
			fv[i], iv[i], uv[i] = fv[0], iv[0], uv[0]
		}
	case "monotone":
		desc := r.Bool()
		sort.Slice(fv, func(a, b int) bool { return (fv[a] < fv[b]) != desc })
		sort.Slice(iv, func(a, b int) bool { return (iv[a] < iv[b]) != desc })
		sort.Slice(uv, func(a, b int) bool { return (uv[a] < uv[b]) != desc })
	}
	f32 = make([]float32, n)
	switch t {
	case io.FLOAT32:
		c := make([]float32, n)
		for i := range c {
			c[i] = float32(fv[i])
			f32[i] = c[i]
		}
		return c, f32
	case io.FLOAT64:
		for i := range fv {
			f32[i] = float32(fv[i])
		}
		return fv, f32
	case io.UINT64:
		for i := range uv {
			f32[i] = float32(uv[i])
		}
		return uv, f32
	}
	col = ms.MakeCol(t, iv)
	rv := reflect.ValueOf(col)
	for i := 0; i < n; i++ {
		e := rv.Index(i)
		if e.Kind() >= reflect.Uint && e.Kind() <= reflect.Uint64 {
			f32[i] = float32(e.Uint())
		} else {
			f32[i] = float32(e.Int())
		}
	}
	return col, f32
}

// scalarOut reads the single value of an output column.
func scalarOut(cs *io.ColumnSeries, name string) (f float64, i int64, rows int, ok bool) {
	if cs == nil {
		return 0, 0, 0, false
	}
	col := cs.GetColumn(name)
	if col == nil {
		return 0, 0, 0, false
	}
	rv := reflect.ValueOf(col)
	if rv.Kind() != reflect.Slice {
		return 0, 0, 0, false
	}
	rows = rv.Len()
	if rows == 0 {
		return 0, 0, 0, true
	}
	e := rv.Index(0)
	switch e.Kind() {
	case reflect.Float32, reflect.Float64:
		return e.Float(), int64(e.Float()), rows, true
	case reflect.Int, reflect.Int8, reflect.Int16, reflect.Int32, reflect.Int64:
		return float64(e.Int()), e.Int(), rows, true
	case reflect.Uint, reflect.Uint8, reflect.Uint16, reflect.Uint32, reflect.Uint64:
		return float64(e.Uint()), int64(e.Uint()), rows, true
	}
	return 0, 0, rows, false
}

var c23callForms = []string{"%s(%s)", "%s (%s)", "%s( %s )", "%s(*::%s)"}

type c23agg struct {
	name   string // registry name
	outCol string
	proto  uda.AggInterface
}

var c23aggs = []c23agg{
	{"count", "Count", &count.Count{}},
	{"min", "Min", &min.Min{}},
	{"max", "Max", &max.Max{}},
	{"avg", "Avg", &avg.Avg{}},
}

func c23runScalar(c *runner.Ctx, res *runner.Result, s int) {
	combo := s % (len(c23typeSlots) * len(c23lengths) * len(c23valueSets))
	et := ms.ElemTypes[c23typeSlots[combo%len(c23typeSlots)]]
	n := c23lengths[(combo/len(c23typeSlots))%len(c23lengths)]
	set := c23valueSets[combo/(len(c23typeSlots)*len(c23lengths))]
	r := c.R("values")
	col, f32 := c23values(r, et.T, n, set)

	// the input: Epoch, the column under test and a decoy float32 column (before or after it)
	ep := make([]int64, n)
	decoy := make([]float32, n)
	t0 := int64(1500000000) + r.I64n(100000000)
	for i := range ep {
		t0 += 1 + r.I64n(100)
		ep[i] = t0
		decoy[i] = float32(r.Intn(2000001)-1000000) * 1e30
	}
	decoyFirst := r.Bool()
	mkCS := func() *io.ColumnSeries {
		cs := io.NewColumnSeries()
		cs.AddColumn("Epoch", ep)
		if decoyFirst {
			cs.AddColumn("Other", decoy)
		}
		cs.AddColumn("Val", col)
		if !decoyFirst {
			cs.AddColumn("Other", decoy)
		}
		return cs
	}

	// reference
	var wantMin, wantMax float32
	var sum, abs float64
	for i, v := range f32 {
		if i == 0 || v < wantMin {
			wantMin = v
		}
		if i == 0 || v > wantMax {
			wantMax = v
		}
		sum += float64(v)
		abs += math.Abs(float64(v))
	}
	wantAvg := sum / float64(n)
	avgTol := float64(n+1)*0x1p-24*(abs/float64(maxInt(n, 1))) + math.SmallestNonzeroFloat32 // + one float32 denormal step

	trigger := !c23supported(et.T) && n > 0
	knownSeen := false
	sample := map[string]interface{}{}
	for _, ag := range c23aggs {
		for route := 0; route < 2; route++ {
			var out *io.ColumnSeries
			var err error
			call := "New+Accum"
			if route == 1 {
				name := ag.name
				switch r.Intn(3) {
				case 0:
					name = strings.ToUpper(name)
				case 1:
					name = strings.ToUpper(name[:1]) + name[1:]
				}
				call = fmt.Sprintf(c23callForms[r.Intn(len(c23callForms))], name, "Val")
			}
			pan := ms.Recover(func() {
				if route == 1 {
					out, err = theAggRunner.Run([]string{call}, mkCS(), candleTBK)
					return
				}
				am := functions.NewArgumentMap(ag.proto.GetRequiredArgs(), ag.proto.GetOptionalArgs()...)
				am.MapRequiredColumn("*", io.DataShape{Name: "Val", Type: io.FLOAT32})
				var a uda.AggInterface
				a, err = ag.proto.New(am)
				if err != nil {
					return
				}
				out, err = a.Accum(candleTBK, am, mkCS())
			})
			res.Count("aggregate_calls", 1)
			if route == 1 {
				res.Count("calls_via_aggrunner", 1)
			}
			if n == 0 {
				res.Count("empty_input_calls", 1)
			}
			witness := func() map[string]interface{} {
				w := map[string]interface{}{"aggregate": ag.name, "called": call, "column_type": et.Str, "rows": n, "value_set": set,
					"column_head": trimCol(col, 12), "as_float32_head": trimF32(f32, 12)}
				if n > 0 {
					w["expected"] = map[string]interface{}{"count": n, "min": wantMin, "max": wantMax, "avg": wantAvg}
				}
				return w
			}
			known := func(detail string) {
				res.Count("udatype_outputs", 1)
				if !knownSeen {
					knownSeen = true
					res.Known("F-UDATYPE", detail, witness())
				}
			}
			if pan != "" {
				if trigger && ag.name != "count" && ag.name != "avg" && strings.Contains(pan, "index out of range [0] with length 0") {
					known(fmt.Sprintf("%s on a %s column (%d rows, %s) panics: %s", ag.name, et.Str, n, call, pan))
					continue
				}
				res.Violation(fmt.Sprintf("%s on a %s column of %d rows (%s) panicked: %s", ag.name, et.Str, n, call, pan), witness())
				continue
			}
			if err != nil {
				if n == 0 && ag.name != "count" {
					continue // an error for "minimum of nothing" is not excluded by the property
				}
				res.Violation(fmt.Sprintf("%s on a %s column of %d rows (%s) returned error: %v", ag.name, et.Str, n, call, err), witness())
				continue
			}
			f, iv, rows, ok := scalarOut(out, ag.outCol)
			if n == 0 && ag.name != "count" {
				continue // result for empty input not constrained
			}
			if !ok || rows != 1 {
				names := []string{}
				if out != nil {
					names = out.GetColumnNames()
				}
				res.Violation(fmt.Sprintf("%s (%s): output has no single-row numeric column %q (columns %v, rows %d)", ag.name, call, ag.outCol, names, rows), witness())
				continue
			}
			switch ag.name {
			case "count":
				res.Count("count_checks", 1)
				if iv != int64(n) || f != float64(n) {
					res.Violation(fmt.Sprintf("count (%s) over %d rows of type %s = %v", call, n, et.Str, f), witness())
				}
			case "min", "max":
				res.Count(ag.name+"_checks", 1)
				want := wantMin
				if ag.name == "max" {
					want = wantMax
				}
				if f != float64(want) {
					res.Violation(fmt.Sprintf("%s (%s) over %d %s values = %v, expected %v", ag.name, call, n, et.Str, f, want), witness())
				}
			case "avg":
				res.Count("avg_checks", 1)
				if !(math.Abs(f-wantAvg) <= avgTol) {
					if trigger && math.IsNaN(f) {
						known(fmt.Sprintf("avg on a %s column (%d rows, %s) returns NaN", et.Str, n, call))
						continue
					}
					res.Violation(fmt.Sprintf("avg (%s) over %d %s values = %v, expected %v (tolerance %g)", call, n, et.Str, f, wantAvg, avgTol), witness())
				}
			}
			if c.Case < 3 {
				sample[ag.name+" via "+call] = f
			}
		}
	}
	res.Evals = 8
	res.Set("column_types", et.Str)
	res.Sig = fmt.Sprintf("scalar/%s/n%d/%s", et.Str, n, set)
	if c.Case < 3 {
		res.Sample = map[string]interface{}{"column_type": et.Str, "rows": n, "value_set": set, "column_head": trimCol(col, 8), "results": sample}
	}
}

func maxInt(a, b int) int {
	if a > b {
		return a
	}
	return b
}

func trimCol(col interface{}, n int) interface{} {
	rv := reflect.ValueOf(col)
	if rv.Len() > n {
		return fmt.Sprintf("%v ... (%d values)", rv.Slice(0, n).Interface(), rv.Len())
	}
	return fmt.Sprintf("%v", col)
}

func trimF32(a []float32, n int) string {
	if len(a) > n {
		return fmt.Sprintf("%v ...", a[:n])
	}
	return fmt.Sprintf("%v", a)
}

// ---------------------------------------------------------------------------------------------
// gap

var c23gapModes = []string{"mixed", "regular_with_planted", "all_at_threshold", "all_above", "all_below"}

func c23runGap(c *runner.Ctx, res *runner.Result, g int) {
	r := c.R("gap")
	thr := c23thresholds[g%len(c23thresholds)]
	lens := []int{0, 1, 2, 3, 10, 1000, 4 + r.Intn(200)}
	n := lens[(g/len(c23thresholds))%len(lens)]
	mode := c23gapModes[(g/(len(c23thresholds)*len(lens)))%len(c23gapModes)]
	ep := make([]int64, n)
	t := int64(1000000000) + r.I64n(900000000)
	var boundary int64
	step := 1 + r.I64n(thr.sec)
	for i := 0; i < n; i++ {
		if i > 0 {
			var d int64
			switch mode {
			case "all_at_threshold":
				d = thr.sec
			case "all_above":
				d = thr.sec + 1 + r.I64n(3)
			case "all_below":
				d = r.I64n(thr.sec + 1)
			case "regular_with_planted":
				d = step
				if r.P(1, 8) {
					d = []int64{thr.sec - 1, thr.sec, thr.sec + 1}[r.Intn(3)]
				}
			default:
				switch r.Intn(9) {
				case 0:
					d = 0
				case 1:
					d = 1
				case 2:
					d = thr.sec - 1
				case 3:
					d = thr.sec
				case 4:
					d = thr.sec + 1
				case 5:
					d = r.I64n(thr.sec + 1)
				case 6:
					d = thr.sec + 1 + r.I64n(10*thr.sec)
				case 7:
					d = 2 * thr.sec
				default:
					d = thr.sec * (1000 + r.I64n(1000))
				}
			}
			if d >= thr.sec-1 && d <= thr.sec+1 {
				boundary++
			}
			t += d
		}
		ep[i] = t
	}
	type trip struct{ s, e, l int64 }
	var want []trip
	for i := 0; i+1 < n; i++ {
		if d := ep[i+1] - ep[i]; d > thr.sec {
			want = append(want, trip{ep[i], ep[i+1], d})
		}
	}
	val := make([]float32, n)
	for i := range val {
		val[i] = float32(i)
	}
	mkCS := func() *io.ColumnSeries { return ms.CS(ep, ms.Col{Name: "Val", Data: val}) }

	for route := 0; route < 2; route++ {
		var out *io.ColumnSeries
		var err error
		call := ""
		pan := ms.Recover(func() {
			if route == 1 {
				call = fmt.Sprintf([]string{"gap('%s')", "GAP ('%s')", "Gap( '%s' )"}[r.Intn(3)], thr.s)
				out, err = theAggRunner.Run([]string{call}, mkCS(), candleTBK)
				return
			}
			proto := &gap.Gap{}
			am := functions.NewArgumentMap(proto.GetRequiredArgs(), proto.GetOptionalArgs()...)
			var arg interface{}
			s := thr.s
			switch r.Intn(4) {
			case 0:
				arg, call = s, "New(am, string)+Accum"
			case 1:
				arg, call = &s, "New(am, *string)+Accum"
			case 2:
				arg, call = []string{s}, "New(am, []string)+Accum"
			default:
				arg, call = &[]string{s}, "New(am, *[]string)+Accum"
			}
			var a uda.AggInterface
			a, err = proto.New(am, arg)
			if err != nil {
				return
			}
			out, err = a.Accum(candleTBK, am, mkCS())
		})
		res.Count("gap_calls", 1)
		if route == 1 {
			res.Count("calls_via_aggrunner", 1)
		}
		if n == 0 {
			res.Count("empty_input_calls", 1)
		}
		witness := func(got []trip) map[string]interface{} {
			w := map[string]interface{}{"threshold": thr.s, "threshold_seconds": thr.sec, "called": call, "rows": n, "mode": mode}
			if n <= 40 {
				w["epochs"] = ep
			} else {
				w["epochs_head"] = ep[:20]
				// the neighbourhood of the first pair on which report and expectation disagree
				rep := map[[2]int64]int{}
				for _, g := range got {
					rep[[2]int64{g.s, g.e}]++
				}
				for i := 0; i+1 < n; i++ {
					exp := 0
					if ep[i+1]-ep[i] > thr.sec {
						exp = 1
					}
					if rep[[2]int64{ep[i], ep[i+1]}] != exp && got != nil {
						lo, hi := maxInt(i-3, 0), i+5
						if hi > n {
							hi = n
						}
						w["first_disagreement_at_row"] = i
						w["epochs_around_it"] = ep[lo:hi]
						break
					}
				}
			}
			w["expected_gaps(start,end,length)"] = trimTrips(len(want), func(i int) [3]int64 { return [3]int64{want[i].s, want[i].e, want[i].l} })
			if got != nil {
				w["reported_gaps(start,end,length)"] = trimTrips(len(got), func(i int) [3]int64 { return [3]int64{got[i].s, got[i].e, got[i].l} })
			}
			return w
		}
		if pan != "" {
			res.Violation(fmt.Sprintf("gap %s on %d rows (%s) panicked: %s", thr.s, n, call, pan), witness(nil))
			continue
		}
		if err != nil {
			res.Violation(fmt.Sprintf("gap %s on %d rows (%s) returned error: %v", thr.s, n, call, err), witness(nil))
			continue
		}
		var gs, ge, gl []int64
		ok := out != nil
		if ok {
			gs, ok = out.GetColumn("Epoch").([]int64)
		}
		if ok {
			ge, ok = out.GetColumn("End").([]int64)
		}
		if ok {
			gl, ok = out.GetColumn("Length").([]int64)
		}
		if !ok || len(gs) != len(ge) || len(gs) != len(gl) {
			res.Violation(fmt.Sprintf("gap %s (%s): output lacks int64 Epoch/End/Length columns of equal length", thr.s, call), witness(nil))
			continue
		}
		got := make([]trip, len(gs))
		for i := range gs {
			got[i] = trip{gs[i], ge[i], gl[i]}
		}
		res.Count("gap_outputs_compared", 1)
		res.Count("gap_pairs_examined", int64(maxInt(n-1, 0)))
		res.Count("gaps_expected", int64(len(want)))
		less := func(a []trip) func(i, j int) bool {
			return func(i, j int) bool {
				if a[i].s != a[j].s {
					return a[i].s < a[j].s
				}
				if a[i].e != a[j].e {
					return a[i].e < a[j].e
				}
				return a[i].l < a[j].l
			}
		}
		gsorted := append([]trip{}, got...)
		wsorted := append([]trip{}, want...)
		sort.Slice(gsorted, less(gsorted))
		sort.Slice(wsorted, less(wsorted))
		diff := ""
		if len(gsorted) != len(wsorted) {
			diff = fmt.Sprintf("%d gaps reported, %d consecutive pairs differ by more than %d s", len(gsorted), len(wsorted), thr.sec)
		}
		for i := 0; diff == "" && i < len(wsorted); i++ {
			if gsorted[i] != wsorted[i] {
				diff = fmt.Sprintf("reported gap (start %d, end %d, length %d), expected (start %d, end %d, length %d)", gsorted[i].s, gsorted[i].e, gsorted[i].l, wsorted[i].s, wsorted[i].e, wsorted[i].l)
			}
		}
		if diff != "" {
			res.Violation(fmt.Sprintf("gap %s on %d rows (%s): %s", thr.s, n, call, diff), witness(got))
		}
	}
	res.Count("gap_boundary_pairs", boundary) // pairs at threshold-1, threshold, threshold+1
	res.Evals = 2
	res.Set("gap_thresholds", thr.s)
	lb := fmt.Sprintf("n%d", n)
	if n > 3 && n != 10 && n != 1000 {
		lb = "n4-203"
	}
	res.Sig = fmt.Sprintf("gap/%s/%s/%s", thr.s, lb, mode)
	if c.Case < 8 && c.Case%4 == 3 {
		res.Sample = map[string]interface{}{"gap_threshold": thr.s, "rows": n, "mode": mode, "epochs_head": trimI64(ep, 10), "gaps_expected": len(want)}
	}
}

func trimTrips(n int, at func(i int) [3]int64) interface{} {
	var out [][3]int64
	for i := 0; i < n && i < 12; i++ {
		out = append(out, at(i))
	}
	if n > 12 {
		return map[string]interface{}{"first": out, "total": n}
	}
	return out
}

func c23run(c *runner.Ctx) runner.Result {
	var res runner.Result
	ms.Quiet()
	setZone(time.UTC)
	if c.Case%4 == 3 {
		c23runGap(c, &res, c.Case/4)
	} else {
		c23runScalar(c, &res, (c.Case/4)*3+c.Case%4)
	}
	return res
}

func init() {
	register(&runner.Monitor{
		ID:    "C23",
		Level: "exploration",
		Rule: "three of four cases: (column type, length, value set) enumerated over {i1 i2 i4 i8 u1 u2 u4 u8 f4 f8} (the four types ColumnToFloat32 converts weighted x3) x {0,1,2,3,10,1000} x {random, constant, extremes, monotone}, values re-drawn per repetition; " +
			"count, min, max, avg are each called by New+Accum and through AggRunner.Run with a `functions` call string (case/spacing/named-parameter variants), on a column series that also holds a decoy column, and compared with the reference over float32-converted values. " +
			"Every fourth case: gap with an explicit threshold (1Sec..1W, 14 values) x length {0,1,2,3,10,1000, random 4-203} x spacing mode (mixed / regular with planted / all at threshold / all above / all below; differences threshold-1, threshold, threshold+1 planted), " +
			"called by New+Accum (string, *string, []string, *[]string argument) and through AggRunner.Run; reported (start,end,length) triples compared with the pairs exceeding the threshold. " +
			"Non-trivial: every case (empty inputs are checked for count==0 / no gaps / no panic); distinct by (type, length, value set) or (threshold, length bucket, mode)",
		Assumptions: []string{
			"NaN-free input; float64 inputs stay within the float32 range (no overflow to Inf on conversion)",
			"gap input Epochs are non-decreasing; the threshold is given as a timeframe string (Sec/Min/H/D/W), the only form the aggregate accepts",
			"avg is compared to single precision ((n+1)*2^-24 relative to the mean magnitude), as the property names single precision",
		},
		Cases:        c23cases,
		Batch:        100,
		Run:          c23run,
		Need:         []string{"count_checks", "min_checks", "max_checks", "avg_checks", "gap_outputs_compared", "gaps_expected", "gap_boundary_pairs", "empty_input_calls", "calls_via_aggrunner"},
		MinDistinct:  100,
		BatchTimeout: 20 * time.Minute,
		ChildEnv:     []string{"GOMAXPROCS=2"}, // a case is single-threaded; keeps 16 children from running 16 GC workers each
	})
}
