package main

// C21 Candle aggregation computes correct OHLC candles.
//
// Real code driven: tickcandler.TickCandler and candlecandler.CandleCandler (New + Accum, and through
// sqlparser.AggRunner.Run with the `functions` call syntax of the query API), which run
// candler.Candler.GetCandle/Output, Candle.AddCandle and utils.CandleDuration.Truncate/IsWithin.
//
// Oracle (candlegen.go, from the property text only): one candle per window that contains rows, Epoch
// strictly increasing and equal to the window starts; open (close) is the price of one of the rows with
// the smallest (largest) timestamp of the window; high/low are the float32 extremes; <col>_SUM/<col>_AVG
// are the sum / mean of the column over all rows of the window (float64, summation order free). The same
// row set is fed in ascending, descending, generation and random orders; with distinct timestamps all
// orders must give identical Epoch/OHLC.
//
// Not asserted (the property is silent): which of several rows with equal timestamps gives open/close;
// the result for empty input; the names/order of output columns beyond finding them; windows of
// multi-day / multi-week / multi-month / year durations (their alignment is not defined anywhere).
//
// Known findings (as-is models, judged per output; anything else is a violation):
//   F-WEEK    1W candles: the candle is keyed by Monday 00:00 UTC but membership is decided by comparing
//             the ISO week of the row with the ISO week of the window start, both in the instance zone.
//             Trigger: timeframe 1W and some row of a window lies in another local ISO week than the
//             window start (impossible in UTC). As-is: such rows are left out of open/high/low/close
//             (a candle with no other rows stays at 0,0,0,0) but still count in sums and averages.
//   F-UDATYPE a Sum/Avg input column of a type uda.ColumnToFloat32 ignores (i1 i2 u1 u2 u4 u8).
//             Trigger: such a column is mapped. As-is: Accum panics "index out of range [0] with length 0".

import (
	"fmt"
	"strings"
	"time"

	"github.com/alpacahq/marketstore/v4/utils/io"
	"github.com/alpacahq/marketstore/v4/verif/internal/ms"
	"github.com/alpacahq/marketstore/v4/verif/internal/runner"
)

const c21batch = 100

var c21fixed = []tfSpec{
	fixedTF("1Sec", 1), fixedTF("5Sec", 5), fixedTF("10Sec", 10), fixedTF("30Sec", 30),
	fixedTF("1Min", 60), fixedTF("3Min", 180), fixedTF("5Min", 300), fixedTF("15Min", 900), fixedTF("20Min", 1200), fixedTF("30Min", 1800),
	fixedTF("1H", 3600), fixedTF("2H", 7200), fixedTF("4H", 14400), fixedTF("6H", 21600), fixedTF("12H", 43200),
}

var c21okTypes = []int{2, 3, 8, 9}        // indexes into ms.ElemTypes: i4 i8 f4 f8
var c21badTypes = []int{0, 1, 4, 5, 6, 7} // i1 i2 u1 u2 u4 u8 (ColumnToFloat32 has no case for them)

func c21cases(tier string) int {
	if tier == "thorough" {
		return 200000
	}
	return 2000
}

func isoWeekLocal(sec int64, loc *time.Location) [2]int {
	y, w := time.Unix(sec, 0).In(loc).ISOWeek()
	return [2]int{y, w}
}

func c21run(c *runner.Ctx) runner.Result {
	var res runner.Result
	ms.Quiet()
	loc, zone := zoneFor(c.Case, c21batch)
	setZone(loc)
	r := c.R("rows")

	// ---- stratum and timeframe
	k := c.Case % c21batch
	stratum := "ideal"
	var tf tfSpec
	switch {
	case k >= 96:
		stratum = "aim-udatype"
		tf = c21fixed[r.Intn(len(c21fixed))]
	case k >= 90:
		stratum = "aim-week" // in the UTC batches the trigger cannot hold: plain 1W cases
		tf = tf1W
	default:
		pool := append([]tfSpec{}, c21fixed...)
		pool = append(pool, tf1D, tf1D, tf1D, tf1M)
		if zone == "UTC" {
			pool = append(pool, tf1W)
		}
		tf = pool[r.Intn(len(pool))]
	}

	// ---- shape of the row set
	sp := &rowSetSpec{tf: tf}
	switch r.Intn(10) {
	case 0, 1, 2:
		sp.nRows = 1 + r.Intn(5)
	case 3, 4, 5, 6:
		sp.nRows = 6 + r.Intn(55)
	default:
		sp.nRows = 61 + r.Intn(440)
	}
	sp.nSpan = 1 + r.Intn(6)
	sp.withNs = r.P(1, 2)
	if tf.sec <= 10 && r.P(2, 3) {
		sp.withNs = true // otherwise a short window holds very few distinct timestamps
	}
	sp.ties = r.P(1, 4)
	sp.priceMode = priceModes[r.Intn(len(priceModes))]
	sp.candle = r.P(1, 2)
	sp.base = pickBase(r, tf)
	in := &candleInput{candle: sp.candle, withNs: sp.withNs}
	nx := r.Intn(3)
	if stratum == "aim-udatype" {
		nx = 1 + r.Intn(2)
	}
	for i := 0; i < nx; i++ {
		ti := c21okTypes[r.Intn(len(c21okTypes))]
		if stratum == "aim-udatype" && i == 0 {
			ti = c21badTypes[r.Intn(len(c21badTypes))]
		}
		et := ms.ElemTypes[ti]
		sc := sumCol{name: fmt.Sprintf("V%d", i), typ: et.T, typStr: et.Str}
		switch r.Intn(3) {
		case 0:
			sc.sum = true
		case 1:
			sc.avg = true
		default:
			sc.sum, sc.avg = true, true
		}
		in.sumCols = append(in.sumCols, sc)
		xk := 0
		switch et.T {
		case io.INT32, io.INT64:
			xk = r.Intn(2)
		case io.FLOAT32, io.FLOAT64:
			xk = r.Intn(3)
		}
		sp.xKind = append(sp.xKind, xk)
	}
	sp.nx = nx
	rows := genRows(r, sp, loc)
	if len(rows) == 0 {
		res.Inconclusive("generator produced no rows")
		return res
	}
	distinct := distinctTimes(rows)

	// ---- reference folds
	winUTC := func(sec int64) int64 { return refWindow(tf, sec, loc, false) }
	ideal := refFold(rows, nx, winUTC, nil)
	var idealLocalWeek, asIsWeek map[int64]*refCandle
	weekTrigger := false
	if tf.kind == tfWeek {
		idealLocalWeek = refFold(rows, nx, func(sec int64) int64 { return refWindow(tf, sec, loc, true) }, nil)
		within := func(rw crow, start int64) bool { return isoWeekLocal(rw.sec, loc) == isoWeekLocal(start, loc) }
		asIsWeek = refFold(rows, nx, winUTC, within)
		for _, rw := range rows {
			if !within(rw, winUTC(rw.sec)) {
				weekTrigger = true
			}
		}
	}
	udaTrigger := false
	for _, sc := range in.sumCols {
		switch sc.typ {
		case io.FLOAT32, io.FLOAT64, io.INT32, io.INT64:
		default:
			udaTrigger = true
		}
	}

	// ---- orders
	type ord struct {
		name string
		p    []int
	}
	orders := []ord{{"ascending", timeOrder(rows, false)}, {"descending", timeOrder(rows, true)}, {"generated", identity(len(rows))}}
	nPerm := 3
	if c.Thorough() {
		nPerm = 17
	}
	pr := c.R("perm")
	for i := 0; i < nPerm; i++ {
		orders = append(orders, ord{fmt.Sprintf("perm%d", i), pr.Perm(len(rows))})
	}

	var first *outCandles
	var firstName string
	allIdeal := true
	reported := map[string]bool{}
	for oi, o := range orders {
		viaRun := oi%3 == 2
		cs := buildCS(rows, o.p, in)
		out, err, pan := runCandler(in, tf.name, cs, viaRun)
		res.Count("accum_calls", 1)
		res.Count("rows_fed", int64(len(rows)))
		if viaRun {
			res.Count("calls_via_aggrunner", 1)
		}
		how := "New+Accum"
		if viaRun {
			how = "AggRunner.Run " + candlerCall(in, tf.name)
		}
		witness := func(d *candleDiff, oc *outCandles) map[string]interface{} {
			w := map[string]interface{}{"timeframe": tf.name, "zone": zone, "input": in.kind(), "nanoseconds_column": in.withNs,
				"row_order": o.name, "called": how, "rows_total": len(rows)}
			if d != nil && d.start != 0 {
				w["window_start"] = d.start
				w["rows_of_window_in_input_order"] = dumpRows(rows, o.p, in, winUTC, d.start, 40)
			} else {
				w["rows_in_input_order"] = dumpRows(rows, o.p, in, nil, 0, 60)
			}
			if oc != nil {
				w["output"] = oc.dump(12)
			}
			var cols []string
			for _, sc := range in.sumCols {
				cols = append(cols, fmt.Sprintf("%s:%s sum=%v avg=%v", sc.name, sc.typStr, sc.sum, sc.avg))
			}
			w["sum_avg_columns"] = cols
			return w
		}
		if pan != "" {
			allIdeal = false
			if udaTrigger && strings.Contains(pan, "index out of range [0] with length 0") {
				if !reported["F-UDATYPE"] {
					reported["F-UDATYPE"] = true
					res.Known("F-UDATYPE", fmt.Sprintf("%s candler %s with a Sum/Avg column of a type ColumnToFloat32 ignores: panic %q", in.kind(), tf.name, pan), witness(nil, nil))
				}
				res.Count("udatype_panics", 1)
				continue
			}
			res.Violation(fmt.Sprintf("%s candler %s (%s, order %s) panicked: %s", in.kind(), tf.name, how, o.name, pan), witness(nil, nil))
			break
		}
		if err != nil {
			allIdeal = false
			res.Violation(fmt.Sprintf("%s candler %s (%s, order %s) returned error: %v", in.kind(), tf.name, how, o.name, err), witness(nil, nil))
			break
		}
		oc, bad := readCandles(out, in)
		if bad != "" {
			allIdeal = false
			res.Violation(fmt.Sprintf("%s candler %s (%s): %s", in.kind(), tf.name, how, bad), witness(nil, nil))
			break
		}
		res.Count("candles_compared", int64(len(oc.epoch)))
		d := judgeCandles(oc, ideal, in)
		if d != nil && idealLocalWeek != nil && judgeCandles(oc, idealLocalWeek, in) == nil {
			d = nil
		}
		if d == nil {
			if first == nil {
				first, firstName = oc, o.name
			} else if distinct {
				res.Count("order_independence_checks", 1)
				if diff := sameOHLC(first, oc); diff != "" {
					res.Violation(fmt.Sprintf("%s candler %s: distinct timestamps, but order %s and order %s give different candles: %s", in.kind(), tf.name, firstName, o.name, diff), witness(nil, oc))
					break
				}
			}
			continue
		}
		allIdeal = false
		if tf.kind == tfWeek && weekTrigger && judgeCandles(oc, asIsWeek, in) == nil {
			res.Count("week_defect_outputs", 1)
			if !reported["F-WEEK"] {
				reported["F-WEEK"] = true
				res.Known("F-WEEK", fmt.Sprintf("1W %s candles in %s: rows whose local ISO week differs from that of the window start (Monday 00:00 UTC) are left out of OHLC: %s", in.kind(), zone, d.msg), witness(d, oc))
			}
			continue
		}
		res.Violation(fmt.Sprintf("%s candler %s in %s (%s, order %s): %s", in.kind(), tf.name, zone, how, o.name, d.msg), witness(d, oc))
		break
	}
	_ = allIdeal

	// ---- bookkeeping
	res.Evals = int64(len(orders))
	tmode := "distinct"
	if !distinct {
		tmode = "ties"
		res.Count("row_sets_with_equal_timestamps", 1)
	} else {
		res.Count("row_sets_with_distinct_timestamps", 1)
	}
	nsmode := "sec"
	if sp.withNs {
		nsmode = "ns"
	}
	res.Count("row_sets", 1)
	res.Count("windows_expected", int64(len(ideal)))
	if nx > 0 {
		res.Count("row_sets_with_sum_avg", 1)
	}
	if stratum != "ideal" {
		res.Count("row_sets_aimed_at_findings", 1)
	}
	res.Set("timeframes", tf.name)
	res.Set("zones", zone)
	res.Sig = fmt.Sprintf("%s/%s/%s/rows%s/win%d/%s/%s/%s/x%d", in.kind(), tf.name, zone, rowsBucket(len(rows)), len(ideal), tmode, nsmode, sp.priceMode, nx)
	if c.Case < 3 {
		var exp []string
		for _, s := range sortedStarts(ideal) {
			rc := ideal[s]
			exp = append(exp, fmt.Sprintf("Epoch=%d rows=%d open in %v high=%v low=%v close in %v", s, rc.n, rc.opens, rc.high, rc.low, rc.closes))
			if len(exp) >= 6 {
				break
			}
		}
		res.Sample = map[string]interface{}{"timeframe": tf.name, "zone": zone, "input": in.kind(), "rows": dumpRows(rows, identity(len(rows)), in, nil, 0, 8),
			"orders_fed": len(orders), "expected_candles": exp}
	}
	return res
}

func init() {
	register(&runner.Monitor{
		ID:    "C21",
		Level: "exploration",
		Rule: "case = one generated row set (1-500 rows over 1-6 nominal windows around ordinary days, DST changes, year/month/week boundaries; rows at the first/last instant of windows; " +
			"distinct or planted equal timestamps; second or nanosecond resolution; prices random/negative/extreme/equal/few-valued/monotone; tick or candle input; 0-2 Sum/Avg columns of types i4 i8 f4 f8) " +
			"x one timeframe (1Sec..12H dividing a day, 1D, 1M, 1W) x the zone of the batch (UTC, America/New_York, Asia/Kolkata); the set is aggregated in ascending, descending, generated and seeded random orders " +
			"(quick 6, thorough 20 orders; every third through AggRunner.Run) and every output is compared with the reference fold; distinct-timestamp sets must give identical OHLC in all orders. " +
			"90% of the cases avoid the triggers of known findings, 6% aim at F-WEEK (1W outside UTC), 4% at F-UDATYPE (Sum/Avg column of a type ColumnToFloat32 ignores). " +
			"Every case is non-trivial (>=1 row aggregated); distinct by (input kind, timeframe, zone, row-count bucket, windows, ties, resolution, price mode, sum columns)",
		Assumptions: []string{
			"window definition used by the oracle: sub-day timeframes dividing 24h are aligned to the Unix epoch, 1D/1M are the calendar day/month in the instance zone, 1W starts Monday 00:00 (UTC or instance zone, either accepted)",
			"prices are NaN-free float32; candle input rows satisfy Low <= Open,Close <= High; Sum/Avg input values are exactly representable in float32",
			"multi-day, multi-week, multi-month and year durations, multi-column price mappings and chunked Accum calls are not exercised: the property does not define their windows / semantics",
		},
		Cases:        c21cases,
		Batch:        c21batch,
		Run:          c21run,
		Need:         []string{"accum_calls", "candles_compared", "order_independence_checks", "row_sets_with_equal_timestamps", "calls_via_aggrunner"},
		BatchTimeout: 20 * time.Minute,
		ChildEnv:     []string{"GOMAXPROCS=2"}, // a case is single-threaded; keeps 16 children from running 16 GC workers each
	})
}
