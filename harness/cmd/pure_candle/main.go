// pure_candle: assertion monitors on the aggregate functions (candlers, scalar aggregates, gap),
// see DESIGN.md 3.3. The real code is called directly and through sqlparser.AggRunner.Run on
// generated column series (boundary / seeded inputs); built with checkptr.
// One file per property; each registers its monitor in init(). candlegen.go holds the shared
// generator and the reference fold (written from the property text).
package main

import (
	"github.com/alpacahq/marketstore/v4/verif/internal/runner"
)

var monitors []*runner.Monitor

func register(m *runner.Monitor) { monitors = append(monitors, m) }

func main() { runner.Main(monitors...) }
