// fsguard: path-confinement monitor for C16. A child process (real request handlers) serves
// requests with hostile bucket keys under strace; (a) every path of a creating / modifying / deleting
// system call must resolve below the data root; (b) a decoy tree around the root must be byte-identical
// afterwards. The monitor itself links no repository code.
package main

import (
	"bufio"
	"crypto/sha256"
	"encoding/hex"
	"encoding/json"
	"fmt"
	"os"
	"os/exec"
	"path/filepath"
	"sort"
	"strconv"
	"strings"
	"time"

	"github.com/alpacahq/marketstore/v4/verif/internal/gen"
	"github.com/alpacahq/marketstore/v4/verif/internal/runner"
)

type request struct {
	Kind string `json:"kind"`
	Key  string `json:"key"`
}

func unhex(s string) string {
	var b strings.Builder
	for i := 0; i < len(s); {
		if s[i] == '\\' && i+3 < len(s) && s[i+1] == 'x' {
			if v, err := strconv.ParseUint(s[i+2:i+4], 16, 8); err == nil {
				b.WriteByte(byte(v))
				i += 4
				continue
			}
		}
		b.WriteByte(s[i])
		i++
	}
	return b.String()
}

func hashTree(dir, skip string) (string, []string) {
	h := sha256.New()
	var names []string
	filepath.Walk(dir, func(p string, info os.FileInfo, err error) error {
		if err != nil {
			return nil
		}
		if p == skip {
			return filepath.SkipDir
		}
		rel, _ := filepath.Rel(dir, p)
		if info.IsDir() {
			names = append(names, "D "+rel)
		} else {
			b, _ := os.ReadFile(p)
			s := sha256.Sum256(b)
			names = append(names, fmt.Sprintf("F %s %d %s", rel, len(b), hex.EncodeToString(s[:8])))
		}
		return nil
	})
	sort.Strings(names)
	for _, n := range names {
		fmt.Fprintln(h, n)
	}
	return hex.EncodeToString(h.Sum(nil))[:16], names
}

var components = []string{"..", ".", "", "/abs", "a/../..", "..%2f", "%2e%2e", "日本", "*", ",", "AAPL", "x", "..\\", "...", " ", "~", "$HOME", "\t"}

func genKey(r *gen.R) string {
	long := strings.Repeat("L", 255)
	n := 1 + r.Intn(4)
	var parts []string
	for i := 0; i < n; i++ {
		c := components[r.Intn(len(components))]
		if r.P(1, 40) {
			c = long
		}
		parts = append(parts, c)
	}
	tf := r.PickS("1Min", "1H", "1D", "5Min", "..", "")
	ag := r.PickS("OHLC", "TICK", "..", "../..", "OHLC/extra")
	var key string
	sel := r.Intn(8)
	if sel >= 6 {
		sel = 3
	}
	switch sel {
	case 0: // hostile symbol, valid rest
		key = parts[0] + "/" + tf + "/" + ag
	case 1: // hostile everywhere
		key = strings.Join(parts, "/")
	case 2: // extra leading components with a matching category key
		cats := []string{}
		for i := range parts {
			cats = append(cats, fmt.Sprintf("C%d", i))
		}
		key = strings.Join(parts, "/") + "/" + tf + "/" + ag + ":" + strings.Join(cats, "/") + "/Timeframe/AttributeGroup"
	case 3:
		// siblings of the data root, including names that merely start with the root's own name
		// (a string-prefix containment test accepts those), with category orders that put the timeframe
		// item where the key has it
		sib := r.PickS("sibling", "decoydir", "root2", "root-old", "root.bak", "rootX")
		switch r.Intn(4) {
		case 0:
			key = "../" + sib + "/" + tf + "/" + ag
		case 1:
			key = "../" + sib + "/" + tf + ":Symbol/AttributeGroup/Timeframe"
		case 2:
			key = "../" + sib + "/" + tf + "/" + ag + ":Up/Symbol/Timeframe/AttributeGroup"
		default:
			key = "../" + sib + "/x/" + tf + ":Up/Symbol/AttributeGroup/Timeframe"
		}
	case 4:
		key = r.PickS("..", "../..", "./..", "a/../..") + "/" + tf + "/" + ag + ":Symbol/Timeframe/AttributeGroup"
	default:
		key = parts[0] + "/" + tf + "/" + ag + ":Symbol/Timeframe/AttributeGroup"
	}
	return key
}

type violation struct {
	Req    int
	Line   string
	Path   string
	Reason string
}

func c16run(c *runner.Ctx) runner.Result {
	var res runner.Result
	r := c.R("keys")
	outer := filepath.Join(c.Scratch, "outer")
	root := filepath.Join(outer, "root")
	os.MkdirAll(root, 0o770)
	// decoys, including a realistic sibling data directory and files a traversal would create/overwrite
	os.MkdirAll(filepath.Join(outer, "sibling", "1Min", "OHLC"), 0o770)
	os.WriteFile(filepath.Join(outer, "sibling", "1Min", "OHLC", "2020.bin"), []byte("DECOY-YEAR-FILE"), 0o600)
	os.WriteFile(filepath.Join(outer, "sibling", "category_name"), []byte("Timeframe"), 0o600)
	os.WriteFile(filepath.Join(outer, "decoy.txt"), []byte("decoy"), 0o600)
	os.MkdirAll(filepath.Join(outer, "decoydir", "sub"), 0o770)
	os.MkdirAll(filepath.Join(outer, "root2"), 0o770)
	os.WriteFile(filepath.Join(outer, "root2", "keep"), []byte("x"), 0o600)
	os.WriteFile(filepath.Join(outer, "decoydir", "sub", "file"), []byte("x"), 0o600)
	before, beforeList := hashTree(outer, root)
	nk := 40
	if c.Thorough() {
		nk = 200
	}
	kinds := []string{"create", "write", "query", "getinfo", "destroy", "sqlselect", "sqlinsert"}
	var reqs []request
	for i := 0; i < nk; i++ {
		key := genKey(r)
		for _, k := range kinds {
			kk := key
			if k != "create" {
				// handlers other than Create take the item key (category key optional)
				if i%2 == 0 {
					if j := strings.IndexByte(kk, ':'); j >= 0 {
						kk = kk[:j]
					}
				}
			}
			reqs = append(reqs, request{Kind: k, Key: kk})
		}
	}
	reqPath := filepath.Join(c.Scratch, "reqs.json")
	b, _ := json.Marshal(reqs)
	os.WriteFile(reqPath, b, 0o644)
	markPath := filepath.Join(c.Scratch, "markers")
	logPath := filepath.Join(c.Scratch, "strace.log")
	outPath := filepath.Join(c.Scratch, "child.out")
	of, _ := os.Create(outPath)
	cmd := exec.Command("strace", "-f", "-y", "-xx", "-s", "600", "-e", "trace=%file,ftruncate,write,pwrite64,fchmod,fchown", "-e", "inject=sync,syncfs:retval=0", "-o", logPath,
		filepath.Join(os.Getenv("VERIF_BIN"), "fschild"), root, reqPath, markPath)
	cmd.Stdout, cmd.Stderr = of, of
	cmd.Dir = outer // relative paths, if any, resolve inside the guarded area
	done := make(chan error, 1)
	if err := cmd.Start(); err != nil {
		res.Inconclusive("cannot start traced child: " + err.Error())
		return res
	}
	go func() { done <- cmd.Wait() }()
	var werr error
	select {
	case werr = <-done:
	case <-time.After(5 * time.Minute):
		cmd.Process.Kill()
		<-done
		res.Inconclusive("traced child did not finish within the watchdog")
		return res
	}
	of.Close()
	// (a) scan the log
	f, err := os.Open(logPath)
	if err != nil {
		res.Inconclusive("no strace log: " + err.Error())
		return res
	}
	sc := bufio.NewScanner(f)
	sc.Buffer(make([]byte, 1<<20), 1<<28)
	pending := map[string]string{}
	curReq := -1
	var viols []violation
	mutating, below := 0, 0
	outcomes := map[string]int{}
	check := func(line, path, why string) {
		mutating++
		ap := path
		if !filepath.IsAbs(ap) {
			ap = filepath.Join(outer, ap)
		}
		ap = filepath.Clean(ap)
		if ap == root || strings.HasPrefix(ap, root+"/") {
			below++
			return
		}
		if ap == markPath || ap == outPath || ap == "/dev/null" || ap == "/dev/tty" || strings.HasPrefix(ap, "/dev/pts/") || strings.HasPrefix(ap, "/proc/") || strings.HasPrefix(ap, "pipe:") || strings.HasPrefix(ap, "socket:") || strings.HasPrefix(ap, "anon_inode:") || ap == logPath {
			return
		}
		if len(viols) < 50 {
			viols = append(viols, violation{Req: curReq, Line: trunc(line, 300), Path: ap, Reason: why})
		}
	}
	for sc.Scan() {
		line := sc.Text()
		sp := strings.IndexByte(line, ' ')
		if sp < 0 {
			continue
		}
		pid, rest := line[:sp], strings.TrimLeft(line[sp+1:], " ")
		if strings.HasSuffix(rest, "<unfinished ...>") {
			pending[pid] = strings.TrimSuffix(rest, " <unfinished ...>")
			continue
		}
		if strings.HasPrefix(rest, "<... ") {
			i := strings.Index(rest, "resumed>")
			if i < 0 {
				continue
			}
			rest = pending[pid] + rest[i+8:]
			delete(pending, pid)
		}
		op := strings.IndexByte(rest, '(')
		eq := strings.LastIndex(rest, " = ")
		if op < 0 || eq < 0 {
			continue
		}
		name := rest[:op]
		args := rest[op+1 : eq]
		ret := strings.TrimSpace(rest[eq+3:])
		failed := strings.HasPrefix(ret, "-1")
		// path arguments: quoted strings; fd arguments: N<path>
		var strs []string
		for i := 0; i < len(args); i++ {
			if args[i] == '"' {
				j := strings.IndexByte(args[i+1:], '"')
				if j < 0 {
					break
				}
				strs = append(strs, unhex(args[i+1:i+1+j]))
				i += j + 1
			}
		}
		fdPath := ""
		if lt := strings.IndexByte(args, '<'); lt >= 0 && lt < 12 {
			if gt := strings.IndexByte(args, '>'); gt > lt {
				fdPath = unhex(args[lt+1 : gt])
			}
		}
		dirOf := func(n int) string { // directory of the n-th AT_FDCWD<...>/fd<...> argument
			idx := 0
			for i := 0; i < len(args); i++ {
				if args[i] == '<' {
					j := strings.IndexByte(args[i:], '>')
					if j < 0 {
						return ""
					}
					if idx == n {
						return unhex(args[i+1 : i+j])
					}
					idx++
					i += j
				}
			}
			return ""
		}
		resolve := func(p string, n int) string {
			if filepath.IsAbs(p) {
				return p
			}
			if d := dirOf(n); d != "" {
				return filepath.Join(d, p)
			}
			return p
		}
		switch name {
		case "write", "pwrite64":
			if fdPath == markPath && len(strs) > 0 {
				fs := strings.Fields(strs[0])
				if len(fs) >= 2 && fs[0] == "REQ" {
					curReq, _ = strconv.Atoi(fs[1])
				}
				if len(fs) >= 3 && fs[0] == "DONE" {
					outcomes[fs[2]]++
				}
				continue
			}
			// descriptors that are not files are annotated pipe:[..], socket:[..], anon_inode:[..]
			if !failed && filepath.IsAbs(fdPath) {
				check(rest, fdPath, "write to a file outside the data root")
			}
		case "ftruncate", "fchmod", "fchown":
			if filepath.IsAbs(fdPath) {
				check(rest, fdPath, name+" on a file outside the data root")
			}
		case "openat", "open", "creat":
			if len(strs) == 0 {
				continue
			}
			if name == "creat" || strings.Contains(args, "O_CREAT") || strings.Contains(args, "O_WRONLY") || strings.Contains(args, "O_RDWR") || strings.Contains(args, "O_TRUNC") || strings.Contains(args, "O_APPEND") {
				check(rest, resolve(strs[0], 0), "open for writing/creation outside the data root (attempt counts even if it failed)")
			}
		case "mkdir", "mkdirat", "rmdir", "unlink", "unlinkat", "truncate", "chmod", "chown", "lchown", "fchmodat", "fchownat", "utimensat", "mknod", "mknodat":
			if len(strs) > 0 {
				check(rest, resolve(strs[0], 0), name+" outside the data root (attempt counts even if it failed)")
			}
		case "rename", "renameat", "renameat2", "link", "linkat", "symlink", "symlinkat":
			for i, s := range strs {
				if name == "symlink" && i == 0 || name == "symlinkat" && i == 0 {
					continue // link target text
				}
				check(rest, resolve(s, i), name+" outside the data root")
			}
		}
	}
	f.Close()
	for _, v := range viols {
		key, kind := "?", "?"
		if v.Req >= 0 && v.Req < len(reqs) {
			key, kind = reqs[v.Req].Key, reqs[v.Req].Kind
		}
		res.Violation(fmt.Sprintf("request %d (%s %q): %s: %s", v.Req, kind, key, v.Reason, v.Path), map[string]interface{}{"kind": kind, "key": key, "syscall": v.Line})
	}
	// (b) decoy tree
	after, afterList := hashTree(outer, root)
	if after != before {
		res.Violation("files or directories next to the data root changed: "+listDiff(beforeList, afterList), map[string]interface{}{"before": beforeList, "after": afterList})
	}
	// the data root must not contain symlinks (the lexical check relies on it)
	filepath.Walk(root, func(p string, info os.FileInfo, err error) error {
		if err == nil && info.Mode()&os.ModeSymlink != 0 {
			res.Violation("a symlink appeared below the data root: "+p, nil)
		}
		return nil
	})
	if werr != nil {
		out, _ := os.ReadFile(outPath)
		res.Violation(fmt.Sprintf("the serving process died (%v) after request %d: %s", werr, curReq, trunc(tailStr(string(out), 1500), 1500)), map[string]interface{}{"request": reqAt(reqs, curReq)})
	}
	res.Evals = int64(len(reqs))
	res.Count("requests_served", int64(len(reqs)))
	res.Count("mutating_syscalls_checked", int64(mutating))
	res.Count("mutating_syscalls_below_root", int64(below))
	for k, n := range outcomes {
		res.Count("outcome_"+k, int64(n))
	}
	for i := 0; i < len(reqs); i += len(kinds) {
		res.Sigs = append(res.Sigs, keyShape(reqs[i].Key))
	}
	if c.Case < 2 {
		var ex []string
		for i := 0; i < len(reqs) && len(ex) < 8; i += len(kinds) * 5 {
			ex = append(ex, reqs[i].Key)
		}
		res.Sample = map[string]interface{}{"example_keys": ex, "kinds": kinds, "decoys": beforeList}
	}
	return res
}

func reqAt(r []request, i int) interface{} {
	if i >= 0 && i < len(r) {
		return r[i]
	}
	return nil
}

func keyShape(k string) string {
	// shape: component classes
	var out []string
	for _, c := range strings.Split(strings.SplitN(k, ":", 2)[0], "/") {
		switch {
		case c == "..":
			out = append(out, "UP")
		case c == ".":
			out = append(out, "DOT")
		case c == "":
			out = append(out, "EMPTY")
		case len(c) > 100:
			out = append(out, "LONG")
		case strings.ContainsAny(c, "%\\*,~$ \t"):
			out = append(out, "ODD")
		case c[0] > 127:
			out = append(out, "UNI")
		default:
			out = append(out, "w")
		}
	}
	s := strings.Join(out, "/")
	if strings.Contains(k, ":") {
		s += ":cat"
	}
	return s
}

func listDiff(a, b []string) string {
	ma, mb := map[string]bool{}, map[string]bool{}
	for _, x := range a {
		ma[x] = true
	}
	for _, x := range b {
		mb[x] = true
	}
	var d []string
	for _, x := range b {
		if !ma[x] {
			d = append(d, "+"+x)
		}
	}
	for _, x := range a {
		if !mb[x] {
			d = append(d, "-"+x)
		}
	}
	if len(d) > 12 {
		d = d[:12]
	}
	return strings.Join(d, "; ")
}

func trunc(s string, n int) string {
	if len(s) > n {
		return s[:n]
	}
	return s
}

func tailStr(s string, n int) string {
	if len(s) > n {
		return s[len(s)-n:]
	}
	return s
}

func main() {
	runner.Main(&runner.Monitor{
		ID:    "C16",
		Level: "exploration",
		Rule: "case = one traced server-side process serving 40 (thorough 200) generated bucket keys x 7 request kinds (Create, Write with auto-creation, Query, GetInfo, Destroy, SQL SELECT, SQL INSERT INTO) through the real request handlers; keys are built from components {.., ., empty, /abs, a/../.., ..%2f, %2e%2e, unicode, *, comma, 255-byte names, backslash, tab, ~, $HOME, plain} in 1-6 positions, with valid and invalid timeframe / attribute group, with and without (matching-length) category keys; non-trivial/distinct by the key's component-class shape",
		Assumptions: []string{"the data root contains no symlinks (asserted), so lexical resolution of the traced path arguments is exact", "strace -f -y sees every system call of the child; attempts that failed (e.g. ENOENT) count as violations too"},
		Cases: func(tier string) int {
			if tier == "thorough" {
				return 100
			}
			return 10
		},
		Batch:        1,
		Par:          8,
		BatchTimeout: 15 * time.Minute,
		Need:         []string{"requests_served", "mutating_syscalls_checked", "mutating_syscalls_below_root"},
		Run:          c16run,
	})
}
