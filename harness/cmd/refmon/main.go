// refmon: see DESIGN.md section 3.
package main

import (
	"github.com/alpacahq/marketstore/v4/verif/internal/runner"
)

var monitors []*runner.Monitor

func register(m *runner.Monitor) { monitors = append(monitors, m) }

func main() { runner.Main(monitors...) }
