package main

// Thorough tier only: after the checkptr build has run all cases, a reduced number of the same
// cases is re-run in child processes of the AddressSanitizer build that check.sh places at
// $VERIF_BIN/pure_wire-asan (the (de)serialisation code under test casts byte buffers to typed
// slices with unsafe; an out-of-object load that stays inside a Go allocation's size class is
// invisible to the Go runtime and to checkptr, ASan reports it and aborts the child).
// Mirrors runner.runBatch: journal, death of a child attributed to the case in flight.

import (
	"bufio"
	"encoding/json"
	"fmt"
	"os"
	"os/exec"
	"path/filepath"
	"strconv"
	"strings"
	"sync"
	"syscall"
	"time"

	"github.com/alpacahq/marketstore/v4/verif/internal/runner"
)

// asanPost returns a Monitor.Post that runs the cases pick(tier) through the ASan build.
func asanPost(pick func(n int) []int) func(a *runner.Agg) {
	return func(a *runner.Agg) {
		if a.Tier != "thorough" {
			return
		}
		bin := filepath.Join(os.Getenv("VERIF_BIN"), "pure_wire-asan")
		if st, err := os.Stat(bin); err != nil || st.IsDir() {
			a.Counts["asan_cases_run"] = 0 // build not provided: nothing claimed
			return
		}
		base := os.Getenv("VERIF_SHARED")
		if base == "" {
			return
		}
		cases := pick(a.Mon.Cases(a.Tier))
		type out struct {
			ran   int
			viols []struct {
				c int
				d string
				w interface{}
			}
		}
		var mu sync.Mutex
		var total out
		jobs := make(chan int, len(cases))
		for _, c := range cases {
			jobs <- c
		}
		close(jobs)
		var wg sync.WaitGroup
		for w := 0; w < 8; w++ {
			wg.Add(1)
			go func(w int) {
				defer wg.Done()
				for c := range jobs {
					dir := filepath.Join(base, fmt.Sprintf("asan-%d", c))
					os.MkdirAll(dir, 0o755)
					journal := filepath.Join(dir, "journal")
					logp := filepath.Join(dir, "log")
					lf, _ := os.Create(logp)
					cmd := exec.Command(bin, a.Mon.ID, "--child", "--tier", a.Tier, "--from", strconv.Itoa(c), "--to", strconv.Itoa(c+1), "--journal", journal)
					cmd.Stdout, cmd.Stderr = lf, lf
					cmd.Env = append(os.Environ(), "VERIF_CHILD_SCRATCH="+dir, "VERIF_SEED="+strconv.FormatInt(a.Seed, 10), "ASAN_OPTIONS=detect_leaks=0:abort_on_error=0")
					cmd.Env = append(cmd.Env, a.Mon.ChildEnv...)
					cmd.SysProcAttr = &syscall.SysProcAttr{Setpgid: true}
					done := make(chan error, 1)
					var werr error
					if err := cmd.Start(); err != nil {
						lf.Close()
						os.RemoveAll(dir)
						continue
					}
					go func() { done <- cmd.Wait() }()
					timedOut := false
					select {
					case werr = <-done:
					case <-time.After(20 * time.Minute):
						timedOut = true
						syscall.Kill(-cmd.Process.Pid, syscall.SIGKILL)
						werr = <-done
					}
					lf.Close()
					var got *runner.Result
					if f, err := os.Open(journal); err == nil {
						sc := bufio.NewScanner(f)
						sc.Buffer(make([]byte, 1<<20), 1<<30)
						for sc.Scan() {
							if line := sc.Text(); strings.HasPrefix(line, "R ") {
								var r runner.Result
								if json.Unmarshal([]byte(line[2:]), &r) == nil {
									got = &r
								}
							}
						}
						f.Close()
					}
					mu.Lock()
					switch {
					case timedOut:
						// no verdict
					case got == nil:
						logb, _ := os.ReadFile(logp)
						txt := string(logb)
						if i := strings.Index(txt, "==ERROR: AddressSanitizer"); i >= 0 {
							txt = txt[i:]
						} else if i := strings.Index(txt, "panic:"); i >= 0 {
							txt = txt[i:]
						} else if len(txt) > 2000 {
							txt = txt[len(txt)-2000:]
						}
						if len(txt) > 3000 {
							txt = txt[:3000]
						}
						total.ran++
						total.viols = append(total.viols, struct {
							c int
							d string
							w interface{}
						}{c, fmt.Sprintf("AddressSanitizer build: child died during case %d (%v): %s", c, werr, txt), map[string]interface{}{"seed": a.Seed, "case": c, "tier": a.Tier, "build": "asan"}})
					default:
						total.ran++
						for _, is := range got.Issues {
							if is.Status == "violation" {
								total.viols = append(total.viols, struct {
									c int
									d string
									w interface{}
								}{c, "AddressSanitizer build: " + is.Detail, is.Witness})
							}
						}
					}
					mu.Unlock()
					os.RemoveAll(dir)
				}
			}(w)
		}
		wg.Wait()
		a.Counts["asan_cases_run"] = int64(total.ran)
		for _, v := range total.viols {
			a.AddViolation(v.c, v.d, v.w)
		}
	}
}

// every k-th case, at most max of them
func asanEvery(k, max int) func(n int) []int {
	return func(n int) []int {
		var out []int
		for c := 0; c < n && len(out) < max; c += k {
			out = append(out, c)
		}
		return out
	}
}
