package main

// Independent reader/writer of the WAL transaction-group layout, written from
// docs/design/durable_writes_design.txt (message framing: MID, TG = TGLen TGID WTCount WTSets
// Checksum, TI = TGID DestID Status, WAL status message; WTSet header RecordType int8, FPLen int16,
// FilePath) and from the field list of property C28 (offset, interval index, payload, record
// length of variable records, column schema). All integers little-endian, no padding:
//
//   TG     := TGID int64 | WTCount int64 | WTSet*WTCount
//   WTSet  := RecordType int8 | FPLen int16 | FilePath [FPLen]byte | DataLen int32 | VarRecLen int32
//             | Offset int64 | Index int64 | Payload [DataLen]byte | Schema
//   Schema := NShapes uint8 | (NameLen uint8 | Name [NameLen]byte | ElementType uint8)*NShapes
//
// Nothing in this file calls code from /repo.

import (
	"crypto/md5"
	"encoding/binary"
	"errors"
	"fmt"
)

type c28shape struct {
	Name string
	Type byte
}

// c28cmd is one write command as the property names its parts.
type c28cmd struct {
	RecordType int8
	Path       string // relative to the root directory
	VarRecLen  int32
	Offset     int64
	Index      int64
	Payload    []byte
	Shapes     []c28shape
}

type c28reader struct {
	b   []byte
	pos int
}

var errShort = errors.New("record extends beyond the transaction group")

func (r *c28reader) take(n int) ([]byte, error) {
	if n < 0 || r.pos+n > len(r.b) {
		return nil, errShort
	}
	s := r.b[r.pos : r.pos+n]
	r.pos += n
	return s, nil
}

func (r *c28reader) u8() (byte, error) {
	s, err := r.take(1)
	if err != nil {
		return 0, err
	}
	return s[0], nil
}

func (r *c28reader) i16() (int16, error) {
	s, err := r.take(2)
	if err != nil {
		return 0, err
	}
	return int16(binary.LittleEndian.Uint16(s)), nil
}

func (r *c28reader) i32() (int32, error) {
	s, err := r.take(4)
	if err != nil {
		return 0, err
	}
	return int32(binary.LittleEndian.Uint32(s)), nil
}

func (r *c28reader) i64() (int64, error) {
	s, err := r.take(8)
	if err != nil {
		return 0, err
	}
	return int64(binary.LittleEndian.Uint64(s)), nil
}

// c28decode decodes a transaction group. Commands decoded before an error are returned with it.
func c28decode(tg []byte) (tgid int64, cmds []c28cmd, err error) {
	r := &c28reader{b: tg}
	if tgid, err = r.i64(); err != nil {
		return 0, nil, fmt.Errorf("TGID: %w", err)
	}
	cnt, err := r.i64()
	if err != nil {
		return tgid, nil, fmt.Errorf("WTCount: %w", err)
	}
	if cnt < 0 || cnt > int64(len(tg)) {
		return tgid, nil, fmt.Errorf("WTCount %d is impossible for %d bytes", cnt, len(tg))
	}
	for i := int64(0); i < cnt; i++ {
		var c c28cmd
		rt, e := r.u8()
		if e != nil {
			return tgid, cmds, fmt.Errorf("set %d RecordType: %w", i, e)
		}
		c.RecordType = int8(rt)
		fpl, e := r.i16()
		if e != nil {
			return tgid, cmds, fmt.Errorf("set %d FPLen: %w", i, e)
		}
		p, e := r.take(int(fpl))
		if e != nil {
			return tgid, cmds, fmt.Errorf("set %d FilePath (FPLen %d): %w", i, fpl, e)
		}
		c.Path = string(p)
		dl, e := r.i32()
		if e != nil {
			return tgid, cmds, fmt.Errorf("set %d DataLen: %w", i, e)
		}
		if c.VarRecLen, e = r.i32(); e != nil {
			return tgid, cmds, fmt.Errorf("set %d VarRecLen: %w", i, e)
		}
		if c.Offset, e = r.i64(); e != nil {
			return tgid, cmds, fmt.Errorf("set %d Offset: %w", i, e)
		}
		if c.Index, e = r.i64(); e != nil {
			return tgid, cmds, fmt.Errorf("set %d Index: %w", i, e)
		}
		pl, e := r.take(int(dl))
		if e != nil {
			return tgid, cmds, fmt.Errorf("set %d Payload (DataLen %d): %w", i, dl, e)
		}
		c.Payload = pl
		ns, e := r.u8()
		if e != nil {
			return tgid, cmds, fmt.Errorf("set %d NShapes: %w", i, e)
		}
		for k := 0; k < int(ns); k++ {
			nl, e := r.u8()
			if e != nil {
				return tgid, cmds, fmt.Errorf("set %d shape %d NameLen: %w", i, k, e)
			}
			nm, e := r.take(int(nl))
			if e != nil {
				return tgid, cmds, fmt.Errorf("set %d shape %d Name: %w", i, k, e)
			}
			ty, e := r.u8()
			if e != nil {
				return tgid, cmds, fmt.Errorf("set %d shape %d ElementType: %w", i, k, e)
			}
			c.Shapes = append(c.Shapes, c28shape{string(nm), ty})
		}
		cmds = append(cmds, c)
	}
	if r.pos != len(tg) {
		return tgid, cmds, fmt.Errorf("%d bytes left over after %d write sets", len(tg)-r.pos, cnt)
	}
	return tgid, cmds, nil
}

// c28overflows reports whether a command has a field that does not fit the one-byte counters of
// the Schema layout (trigger predicate of F-DSVLEN).
func c28overflows(c *c28cmd) bool {
	if len(c.Shapes) > 255 {
		return true
	}
	for _, s := range c.Shapes {
		if len(s.Name) > 255 {
			return true
		}
	}
	return false
}

// c28encodeAsIs writes the layout above, reproducing the defect F-DSVLEN: counters are stored
// modulo 256, and a schema whose count is 0 modulo 256 is not written at all. For commands that
// fit the counters this is simply the layout.
func c28encodeAsIs(tgid int64, cmds []c28cmd) []byte {
	var b []byte
	p8 := func(v uint64) { b = binary.LittleEndian.AppendUint64(b, v) }
	p8(uint64(tgid))
	p8(uint64(len(cmds)))
	for i := range cmds {
		c := &cmds[i]
		b = append(b, byte(c.RecordType))
		b = binary.LittleEndian.AppendUint16(b, uint16(len(c.Path)))
		b = append(b, c.Path...)
		b = binary.LittleEndian.AppendUint32(b, uint32(len(c.Payload)))
		b = binary.LittleEndian.AppendUint32(b, uint32(c.VarRecLen))
		p8(uint64(c.Offset))
		p8(uint64(c.Index))
		b = append(b, c.Payload...)
		if len(c.Shapes)%256 == 0 {
			continue
		}
		b = append(b, byte(len(c.Shapes)))
		for _, s := range c.Shapes {
			b = append(b, byte(len(s.Name)))
			b = append(b, s.Name...)
			b = append(b, s.Type)
		}
	}
	return b
}

// ---- WAL file messages (design document: "WAL Format")

type c28walMsg struct {
	MID    int8
	TG     []byte // MID 0
	SumOK  bool   // MID 0: MD5 over TGLen and TG matches
	TGID   int64  // MID 1
	Dest   int8   // MID 1
	Status int8   // MID 1
}

// c28scanWAL reads the messages of a WAL file image starting at pos (pos 0 = the status message).
func c28scanWAL(img []byte, pos int) (msgs []c28walMsg, end int, err error) {
	r := &c28reader{b: img, pos: pos}
	for r.pos < len(img) {
		mid, _ := r.u8()
		switch int8(mid) {
		case 0:
			l, e := r.i64()
			if e != nil {
				return msgs, r.pos, fmt.Errorf("TGLen: %w", e)
			}
			lenBytes := img[r.pos-8 : r.pos]
			if l < 0 || l > int64(len(img)) {
				return msgs, r.pos, fmt.Errorf("TGLen %d impossible", l)
			}
			tg, e := r.take(int(l))
			if e != nil {
				return msgs, r.pos, fmt.Errorf("TG data: %w", e)
			}
			sum, e := r.take(16)
			if e != nil {
				return msgs, r.pos, fmt.Errorf("checksum: %w", e)
			}
			h := md5.New()
			h.Write(lenBytes)
			h.Write(tg)
			msgs = append(msgs, c28walMsg{MID: 0, TG: tg, SumOK: string(h.Sum(nil)) == string(sum)})
		case 1:
			id, e := r.i64()
			if e != nil {
				return msgs, r.pos, fmt.Errorf("TI: %w", e)
			}
			d, e1 := r.u8()
			s, e2 := r.u8()
			if e1 != nil || e2 != nil {
				return msgs, r.pos, fmt.Errorf("TI: %w", errShort)
			}
			msgs = append(msgs, c28walMsg{MID: 1, TGID: id, Dest: int8(d), Status: int8(s)})
		case 2:
			if _, e := r.take(10); e != nil {
				return msgs, r.pos, fmt.Errorf("WALStatus: %w", e)
			}
			msgs = append(msgs, c28walMsg{MID: 2})
		default:
			return msgs, r.pos, fmt.Errorf("unknown message id %d at %d", mid, r.pos-1)
		}
	}
	return msgs, r.pos, nil
}
