package main

// Helpers shared by C27, C28 and C29: the table of wire / fixed-width element types, value and
// name generators, and a bit-exact comparison of typed columns. Nothing here calls /repo code
// except for the element-type constants.

import (
	"encoding/binary"
	"fmt"
	"math"
	"reflect"
	"strings"

	"github.com/alpacahq/marketstore/v4/utils/io"
	"github.com/alpacahq/marketstore/v4/verif/internal/gen"
)

// wtype is one of the eleven wire-supported / fixed-width element types.
type wtype struct {
	T    io.EnumElementType
	Str  string // numpy type string of the wire format
	Size int    // bytes per element
}

var wtypes = []wtype{
	{io.BYTE, "i1", 1}, {io.INT16, "i2", 2}, {io.INT32, "i4", 4}, {io.INT64, "i8", 8},
	{io.UINT8, "u1", 1}, {io.UINT16, "u2", 2}, {io.UINT32, "u4", 4}, {io.UINT64, "u8", 8},
	{io.FLOAT32, "f4", 4}, {io.FLOAT64, "f8", 8}, {io.STRING16, "U16", 64},
}

const wtByte = 0 // index of BYTE (i1) in wtypes

// boundary bit patterns (as uint64, truncated to the element width)
var wBoundary = []uint64{
	0, 1, 2, 0x7f, 0x80, 0xff, 0x100, 0x7fff, 0x8000, 0xffff, 0x10000,
	0x7fffffff, 0x80000000, 0xffffffff, 0x100000000, 0x7fffffffffffffff, 0x8000000000000000, 0xffffffffffffffff,
	0x0102030405060708, 0xf1f2f3f4f5f6f7f8,
	// float32 specials
	0x7f800000, 0xff800000, 0x7fc00000, 0x7fa00001, 0x00000001, 0x80000000, 0x3f800000,
	// float64 specials
	0x7ff0000000000000, 0xfff0000000000000, 0x7ff8000000000000, 0x7ff4000000000001, 0x0000000000000001, 0x3ff0000000000000,
}

func genBits(r *gen.R) uint64 {
	switch r.Intn(4) {
	case 0:
		return wBoundary[r.Intn(len(wBoundary))]
	case 1:
		return uint64(r.Intn(1000)) // small
	default:
		return r.U64()
	}
}

func genRune(r *gen.R) rune {
	switch r.Intn(6) {
	case 0:
		return 0
	case 1:
		return rune(32 + r.Intn(95)) // ASCII
	case 2:
		return rune(0x80 + r.Intn(0x10ffff-0x80)) // any code point
	case 3:
		return rune(int32(uint32(r.U64()))) // any 32-bit pattern, also invalid / negative
	default:
		return rune(0x3040 + r.Intn(0x60)) // hiragana
	}
}

// genCol builds a column of n values of wire type index ti.
func genCol(r *gen.R, ti, n int) interface{} {
	switch wtypes[ti].T {
	case io.BYTE:
		c := make([]int8, n)
		for i := range c {
			c[i] = int8(genBits(r))
		}
		return c
	case io.INT16:
		c := make([]int16, n)
		for i := range c {
			c[i] = int16(genBits(r))
		}
		return c
	case io.INT32:
		c := make([]int32, n)
		for i := range c {
			c[i] = int32(genBits(r))
		}
		return c
	case io.INT64:
		c := make([]int64, n)
		for i := range c {
			c[i] = int64(genBits(r))
		}
		return c
	case io.UINT8:
		c := make([]uint8, n)
		for i := range c {
			c[i] = uint8(genBits(r))
		}
		return c
	case io.UINT16:
		c := make([]uint16, n)
		for i := range c {
			c[i] = uint16(genBits(r))
		}
		return c
	case io.UINT32:
		c := make([]uint32, n)
		for i := range c {
			c[i] = uint32(genBits(r))
		}
		return c
	case io.UINT64:
		c := make([]uint64, n)
		for i := range c {
			c[i] = genBits(r)
		}
		return c
	case io.FLOAT32:
		c := make([]float32, n)
		for i := range c {
			c[i] = math.Float32frombits(uint32(genBits(r)))
		}
		return c
	case io.FLOAT64:
		c := make([]float64, n)
		for i := range c {
			c[i] = math.Float64frombits(genBits(r))
		}
		return c
	case io.STRING16:
		c := make([][16]rune, n)
		for i := range c {
			k := r.Intn(17)
			for j := 0; j < k; j++ {
				c[i][j] = genRune(r)
			}
		}
		return c
	}
	panic("genCol: bad type")
}

// encodeCol returns the Go slice type of a column and its little-endian bytes (bit-exact image).
// ok=false when the column is not one of the eleven slice types.
func encodeCol(col interface{}) (typ string, b []byte, n int, ok bool) {
	switch c := col.(type) {
	case []int8:
		b = make([]byte, len(c))
		for i, v := range c {
			b[i] = byte(v)
		}
		return "[]int8", b, len(c), true
	case []int16:
		b = make([]byte, 2*len(c))
		for i, v := range c {
			binary.LittleEndian.PutUint16(b[2*i:], uint16(v))
		}
		return "[]int16", b, len(c), true
	case []int32:
		b = make([]byte, 4*len(c))
		for i, v := range c {
			binary.LittleEndian.PutUint32(b[4*i:], uint32(v))
		}
		return "[]int32", b, len(c), true
	case []int64:
		b = make([]byte, 8*len(c))
		for i, v := range c {
			binary.LittleEndian.PutUint64(b[8*i:], uint64(v))
		}
		return "[]int64", b, len(c), true
	case []uint8:
		b = append([]byte{}, c...)
		return "[]uint8", b, len(c), true
	case []uint16:
		b = make([]byte, 2*len(c))
		for i, v := range c {
			binary.LittleEndian.PutUint16(b[2*i:], v)
		}
		return "[]uint16", b, len(c), true
	case []uint32:
		b = make([]byte, 4*len(c))
		for i, v := range c {
			binary.LittleEndian.PutUint32(b[4*i:], v)
		}
		return "[]uint32", b, len(c), true
	case []uint64:
		b = make([]byte, 8*len(c))
		for i, v := range c {
			binary.LittleEndian.PutUint64(b[8*i:], v)
		}
		return "[]uint64", b, len(c), true
	case []float32:
		b = make([]byte, 4*len(c))
		for i, v := range c {
			binary.LittleEndian.PutUint32(b[4*i:], math.Float32bits(v))
		}
		return "[]float32", b, len(c), true
	case []float64:
		b = make([]byte, 8*len(c))
		for i, v := range c {
			binary.LittleEndian.PutUint64(b[8*i:], math.Float64bits(v))
		}
		return "[]float64", b, len(c), true
	case [][16]rune:
		b = make([]byte, 64*len(c))
		for i := range c {
			for k := 0; k < 16; k++ {
				binary.LittleEndian.PutUint32(b[64*i+4*k:], uint32(c[i][k]))
			}
		}
		return "[][16]int32", b, len(c), true
	}
	if col == nil {
		return "<nil>", nil, 0, false
	}
	return reflect.TypeOf(col).String(), nil, 0, false
}

// goTypeOf returns the Go slice type name expected for a wire type.
func goTypeOf(ti int) string {
	return [...]string{"[]int8", "[]int16", "[]int32", "[]int64", "[]uint8", "[]uint16", "[]uint32", "[]uint64", "[]float32", "[]float64", "[][16]int32"}[ti]
}

// diffCol compares an observed column with the expected one, bit for bit, including the Go type.
// "" = identical.
func diffCol(name string, want, got interface{}) string {
	wt, wb, wn, _ := encodeCol(want)
	gt, gb, gn, ok := encodeCol(got)
	if !ok {
		return fmt.Sprintf("column %q: came back as %s, want %s", name, gt, wt)
	}
	if wt != gt {
		return fmt.Sprintf("column %q: type %s came back as %s", name, wt, gt)
	}
	if wn != gn {
		return fmt.Sprintf("column %q: %d values came back as %d", name, wn, gn)
	}
	if string(wb) != string(gb) {
		sz := 1
		if wn > 0 {
			sz = len(wb) / wn
		}
		for i := 0; i < wn; i++ {
			if string(wb[i*sz:(i+1)*sz]) != string(gb[i*sz:(i+1)*sz]) {
				return fmt.Sprintf("column %q (%s): value %d differs: want bytes %x got %x", name, wt, i, wb[i*sz:(i+1)*sz], gb[i*sz:(i+1)*sz])
			}
		}
	}
	return ""
}

var nameAlphabets = []string{
	"abcdefghijklmnopqrstuvwxyzABCDEFGHIJKLMNOPQRSTUVWXYZ0123456789_",
	"äöüßéèñçøå",
	"列名価格出来高始値終値",
	"ценаобъём",
	"αβγδε",
	"😀📈💹",
	" -.()[]%#@!",
	"éä", // combining marks
}

// genName returns a column name of 1..maxRunes runes over mixed alphabets, never case-insensitively
// equal to "Epoch"/"Nanoseconds" and not contained in used.
func genName(r *gen.R, maxRunes int, used map[string]bool) string {
	for {
		n := 1 + r.Intn(maxRunes)
		var sb strings.Builder
		ab := []rune(nameAlphabets[0])
		mixed := r.P(1, 2)
		if mixed {
			ab = []rune(nameAlphabets[r.Intn(len(nameAlphabets))])
		}
		for i := 0; i < n; i++ {
			if mixed && r.P(1, 4) {
				ab = []rune(nameAlphabets[r.Intn(len(nameAlphabets))])
			}
			sb.WriteRune(ab[r.Intn(len(ab))])
		}
		s := sb.String()
		if strings.EqualFold(s, "Epoch") || strings.EqualFold(s, "Nanoseconds") || used[s] {
			continue
		}
		used[s] = true
		return s
	}
}

func trunc(s string, n int) string {
	if len(s) <= n {
		return s
	}
	return fmt.Sprintf("%s...(%d bytes)", s[:n], len(s))
}

func rowBucket(n int) string {
	switch {
	case n == 0:
		return "0"
	case n == 1:
		return "1"
	case n < 10:
		return "2-9"
	case n < 100:
		return "10-99"
	default:
		return "100+"
	}
}
