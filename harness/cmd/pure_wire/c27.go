package main

// C27 Query/write wire format round-trips.
//
// Real code driven (no network, but every conversion and codec call the server and the Go client make):
//   S  io.NewNumpyDataset -> msgpack.Marshal/Unmarshal -> NumpyDataset.ToColumnSeries
//   P  io.NewNumpyDataset / NewNumpyMultiDataset / Append -> msgpack.Marshal/Unmarshal ->
//      NumpyMultiDataset.ToColumnSeriesMap
//   W  the write request: frontend.MultiWriteRequest -> msgpack2.EncodeClientRequest (client) ->
//      msgpack2 Codec.NewRequest + ReadRequest (server) -> WriteRequest.Data.ToColumnSeriesMap
//      (exactly what DataService.Write calls)
//   Q  the query response: frontend.MultiQueryResponse built the way DataService.executeQuery builds
//      it -> msgpack2 CodecRequest.WriteResponse (server) -> msgpack2.DecodeClientResponse (client) ->
//      MultiQueryResponse.ToColumnSeriesMap (what frontend/client does)
//
// Oracle (from the property text only): the decoded map has the same buckets; every bucket has the
// same column names in the same order, the same element types and the same values, bit for bit.
//
// Known finding F-WIREZERO: a column series of length zero does not survive the conversion back:
//   * NumpyMultiDataset.ToColumnSeriesMap (paths P, W) builds an empty ColumnSeries for a bucket of
//     length 0 and ColumnSeriesMap.AddColumnSeries of a series without columns adds nothing: the
//     bucket is missing from the decoded map. Trigger: the bucket has 0 rows. As-is: the decoded map
//     is the original map without its zero-length buckets.
//   * NumpyDataset.ToColumnSeries returns an empty ColumnSeries when the first column holds no bytes
//     (paths S and Q): Trigger: the whole dataset (all buckets together) has 0 rows. As-is: every
//     bucket of that dataset comes back as a series without any column (names and types lost).
//     A zero-length bucket next to a non-empty one in the same dataset must come back intact on Q.

import (
	"bytes"
	"fmt"
	"net/http"
	"reflect"
	"sort"
	"strings"
	"time"

	"github.com/vmihailenco/msgpack"

	"github.com/alpacahq/marketstore/v4/frontend"
	"github.com/alpacahq/marketstore/v4/utils/io"
	"github.com/alpacahq/marketstore/v4/utils/rpc/msgpack2"
	"github.com/alpacahq/marketstore/v4/verif/internal/gen"
	"github.com/alpacahq/marketstore/v4/verif/internal/ms"
	"github.com/alpacahq/marketstore/v4/verif/internal/runner"
)

type c27col struct {
	name string
	ti   int
}

type c27bucket struct {
	key  string // "SYM/TF/ATTR"
	n    int
	cols []interface{} // one per schema column: what is handed to the conversion
	orig []interface{} // deep copies taken when generated: the expectation, and what cols must still hold afterwards
}

func c27clone(col interface{}) interface{} {
	v := reflect.ValueOf(col)
	c := reflect.MakeSlice(v.Type(), v.Len(), v.Len())
	reflect.Copy(c, v)
	return c.Interface()
}

// c27dataset = one multi-dataset: a schema and 1..5 buckets with that schema.
type c27dataset struct {
	schema  []c27col
	buckets []c27bucket
	total   int
	shared  bool // bucket columns are windows into one backing array per column
}

func (d *c27dataset) series(b int) *io.ColumnSeries {
	cs := io.NewColumnSeries()
	for i, c := range d.schema {
		cs.AddColumn(c.name, d.buckets[b].cols[i])
	}
	return cs
}

func (d *c27dataset) describe() map[string]interface{} {
	var sch []string
	for _, c := range d.schema {
		sch = append(sch, fmt.Sprintf("%s:%s", trunc(c.name, 40), wtypes[c.ti].Str))
	}
	var bs []string
	for _, b := range d.buckets {
		bs = append(bs, fmt.Sprintf("%s rows=%d", b.key, b.n))
	}
	return map[string]interface{}{"schema": sch, "buckets": bs}
}

var c27tfs = []string{"1Sec", "1Min", "5Min", "1H", "1D"}
var c27symAlphabets = []string{"ABCDEFGHIJKLMNOPQRSTUVWXYZ", "abcxyz0123456789", "._-", "ÄÖÜ株式", "БВГ"}

func c27genKey(r *gen.R, used map[string]bool) string {
	for {
		var sb strings.Builder
		n := r.Range(1, 8)
		for i := 0; i < n; i++ {
			ab := []rune(c27symAlphabets[0])
			if r.P(1, 4) {
				ab = []rune(c27symAlphabets[r.Intn(len(c27symAlphabets))])
			}
			sb.WriteRune(ab[r.Intn(len(ab))])
		}
		k := sb.String() + "/" + c27tfs[r.Intn(len(c27tfs))] + "/" + r.PickS("OHLCV", "TICK", "Quote", "属性", "X1")
		if !used[k] {
			used[k] = true
			return k
		}
	}
}

// zero pattern of a dataset: 0 = no zero-length bucket, 1 = mixed, 2 = all buckets empty
func c27genDataset(r *gen.R, usedKeys map[string]bool, zeroPattern int) *c27dataset {
	d := &c27dataset{}
	nc := r.Range(1, 8)
	used := map[string]bool{}
	withEpoch := r.P(3, 4)
	for i := 0; i < nc; i++ {
		if i == 0 && withEpoch {
			d.schema = append(d.schema, c27col{"Epoch", 3})
			continue
		}
		d.schema = append(d.schema, c27col{genName(r, 16, used), r.Intn(len(wtypes))})
	}
	nb := r.Range(1, 5)
	if zeroPattern == 1 && nb < 2 {
		nb = 2
	}
	zeroAt := map[int]bool{}
	switch zeroPattern {
	case 1:
		zeroAt[r.Intn(nb)] = true
		for i := 0; i < nb; i++ {
			if r.P(1, 4) {
				zeroAt[i] = true
			}
		}
		if len(zeroAt) == nb { // keep one non-empty
			delete(zeroAt, r.Intn(nb))
		}
	case 2:
		for i := 0; i < nb; i++ {
			zeroAt[i] = true
		}
	}
	for b := 0; b < nb; b++ {
		n := 0
		if !zeroAt[b] {
			switch r.Intn(5) {
			case 0:
				n = 1
			case 1:
				n = r.PickI(2, 3, 199, 200)
			default:
				n = r.Range(1, 200)
			}
		}
		bk := c27bucket{key: c27genKey(r, usedKeys), n: n}
		for _, c := range d.schema {
			bk.cols = append(bk.cols, genCol(r, c.ti, n))
		}
		d.buckets = append(d.buckets, bk)
		d.total += n
	}
	// every third dataset: the buckets' columns are windows into one table per column (one contiguous
	// result split per symbol, as a caller holding one big table would pass them): a bucket's column then
	// has spare capacity that belongs to its neighbours, and the buckets sit in memory in another order
	// than they are appended in
	if nb >= 2 && r.P(1, 3) {
		d.shared = true
		memOrder := r.Perm(nb)
		for ci, c := range d.schema {
			big := reflect.ValueOf(genCol(r, c.ti, d.total))
			off := 0
			for _, b := range memOrder {
				n := d.buckets[b].n
				reflect.Copy(big.Slice(off, off+n), reflect.ValueOf(d.buckets[b].cols[ci]))
				d.buckets[b].cols[ci] = big.Slice(off, off+n).Interface()
				off += n
			}
		}
	}
	for b := range d.buckets {
		for _, col := range d.buckets[b].cols {
			d.buckets[b].orig = append(d.buckets[b].orig, c27clone(col))
		}
	}
	return d
}

// expectation for one bucket; cols==nil means "bucket present with a series without columns",
// absent buckets are simply not in the map.
type c27want struct {
	schema []c27col
	cols   []interface{}
	bare   bool // series without any column (as-is only)
}

func c27fullKey(k string) string { return k + ":" + io.DefaultTimeBucketSchema }

// c27diff compares a decoded map with an expectation. "" = equal.
func c27diff(want map[string]c27want, got io.ColumnSeriesMap) string {
	gotKeys := map[string]*io.ColumnSeries{}
	for k, cs := range got {
		gotKeys[k.String()] = cs
	}
	var wk, gk []string
	for k := range want {
		wk = append(wk, c27fullKey(k))
	}
	for k := range gotKeys {
		gk = append(gk, k)
	}
	sort.Strings(wk)
	sort.Strings(gk)
	if strings.Join(wk, "|") != strings.Join(gk, "|") {
		return fmt.Sprintf("buckets differ: encoded %q, decoded %q", wk, gk)
	}
	for k, w := range want {
		cs := gotKeys[c27fullKey(k)]
		if cs == nil {
			return fmt.Sprintf("bucket %s: nil series", k)
		}
		names := cs.GetColumnNames()
		if w.bare {
			if len(names) != 0 {
				return fmt.Sprintf("bucket %s: expected (as-is) a series without columns, got %q", k, names)
			}
			continue
		}
		var wn []string
		for _, c := range w.schema {
			wn = append(wn, c.name)
		}
		if strings.Join(wn, "\x00") != strings.Join(names, "\x00") {
			return fmt.Sprintf("bucket %s: column names/order %q came back as %q", k, wn, names)
		}
		shapes := cs.GetDataShapes()
		for i, c := range w.schema {
			if shapes[i].Type != wtypes[c.ti].T {
				return fmt.Sprintf("bucket %s column %q: type %s came back as %s", k, c.name, wtypes[c.ti].T, shapes[i].Type)
			}
			if d := diffCol(c.name, w.cols[i], cs.GetColumn(c.name)); d != "" {
				return fmt.Sprintf("bucket %s: %s", k, d)
			}
		}
	}
	return ""
}

type c27rec struct {
	h    http.Header
	body bytes.Buffer
	code int
}

func (r *c27rec) Header() http.Header         { return r.h }
func (r *c27rec) Write(b []byte) (int, error) { return r.body.Write(b) }
func (r *c27rec) WriteHeader(c int)           { r.code = c }

// c27build builds the multi-dataset the way DataService.executeQuery does, buckets in the given order.
func c27build(d *c27dataset, order []int) (*io.NumpyMultiDataset, error) {
	var nmds *io.NumpyMultiDataset
	for _, b := range order {
		cs := d.series(b)
		tbk := io.NewTimeBucketKey(d.buckets[b].key)
		if nmds == nil {
			nds, err := io.NewNumpyDataset(cs)
			if err != nil {
				return nil, fmt.Errorf("NewNumpyDataset: %w", err)
			}
			nmds, err = io.NewNumpyMultiDataset(nds, *tbk)
			if err != nil {
				return nil, fmt.Errorf("NewNumpyMultiDataset: %w", err)
			}
		} else if err := nmds.Append(cs, *tbk); err != nil {
			return nil, fmt.Errorf("Append: %w", err)
		}
	}
	return nmds, nil
}

type c27acc struct {
	res     *runner.Result
	mapNo   int
	bad     int
	first   string
	firstW  interface{}
	known   int
	firstKn string
	firstKW interface{}
}

// verdict: ideal equal -> ok; trigger and as-is equal -> known; else violation.
func (a *c27acc) verdict(path string, ds []*c27dataset, ideal, asis map[string]c27want, trigger bool, got io.ColumnSeriesMap, failure string) {
	a.res.Count("round_trips_"+path, 1)
	d := failure
	if d == "" {
		d = c27diff(ideal, got)
		if d == "" {
			return
		}
		if trigger {
			if d2 := c27diff(asis, got); d2 == "" {
				a.known++
				if a.firstKn == "" {
					a.firstKn = fmt.Sprintf("path %s: %s", path, d)
					var w []interface{}
					for _, x := range ds {
						w = append(w, x.describe())
					}
					a.firstKW = map[string]interface{}{"path": path, "map_in_case": a.mapNo, "datasets": w, "difference": d}
				}
				return
			}
		}
	}
	a.bad++
	if a.first == "" {
		a.first = fmt.Sprintf("path %s: %s", path, d)
		var w []interface{}
		for _, x := range ds {
			w = append(w, x.describe())
		}
		a.firstW = map[string]interface{}{"path": path, "map_in_case": a.mapNo, "datasets": w, "difference": d}
	}
}

func c27ideal(ds ...*c27dataset) map[string]c27want {
	m := map[string]c27want{}
	for _, d := range ds {
		for _, b := range d.buckets {
			m[b.key] = c27want{schema: d.schema, cols: b.orig}
		}
	}
	return m
}

func c27oneMap(a *c27acc, r *gen.R, mapNo int) {
	res := a.res
	usedKeys := map[string]bool{}
	nd := 1
	if r.P(1, 3) {
		nd = 2
	}
	var ds []*c27dataset
	for i := 0; i < nd; i++ {
		// strata: 70% no zero-length bucket, 20% mixed, 10% entirely empty dataset
		zp := 0
		switch x := (mapNo + i) % 10; {
		case x == 7 || x == 8:
			zp = 1
		case x == 9:
			zp = 2
		}
		ds = append(ds, c27genDataset(r, usedKeys, zp))
	}
	for _, d := range ds {
		zeros := 0
		for _, b := range d.buckets {
			if b.n == 0 {
				zeros++
			}
			res.Count("values_encoded", int64(b.n*len(d.schema)))
		}
		zs := "nozero"
		if zeros == len(d.buckets) {
			zs = "allzero"
		} else if zeros > 0 {
			zs = "somezero"
		}
		var ts []string
		hasU16 := false
		for _, c := range d.schema {
			ts = append(ts, wtypes[c.ti].Str)
			res.Set("wire_types", wtypes[c.ti].Str)
			if c.ti == 10 {
				hasU16 = true
			}
		}
		mx := 0
		for _, b := range d.buckets {
			if b.n > mx {
				mx = b.n
			}
		}
		res.Sigs = append(res.Sigs, fmt.Sprintf("cols=%d/buckets=%d/%s/maxrows=%s/U16=%v/datasets=%d", len(d.schema), len(d.buckets), zs, rowBucket(mx), hasU16, nd))
		res.Count("datasets_"+zs, 1)
		res.Count("buckets", int64(len(d.buckets)))
		res.Count("zero_length_buckets", int64(zeros))
	}

	// ---- path S: single dataset, first bucket of each dataset
	for _, d := range ds {
		b := d.buckets[0]
		var out *io.ColumnSeries
		fail := ms.Recover(func() {
			nds, err := io.NewNumpyDataset(d.series(0))
			if err != nil {
				panic(err)
			}
			enc, err := msgpack.Marshal(nds)
			if err != nil {
				panic(err)
			}
			var dec io.NumpyDataset
			if err := msgpack.Unmarshal(enc, &dec); err != nil {
				panic(err)
			}
			out, err = dec.ToColumnSeries()
			if err != nil {
				panic(err)
			}
			res.Count("bytes_on_wire", int64(len(enc)))
		})
		got := io.ColumnSeriesMap{}
		if fail == "" {
			got[*io.NewTimeBucketKey(b.key)] = out
		}
		one := &c27dataset{schema: d.schema, buckets: d.buckets[:1], total: b.n}
		asis := map[string]c27want{b.key: {bare: true}}
		a.verdict("S", []*c27dataset{one}, c27ideal(one), asis, b.n == 0, got, fail)
	}

	// ---- path P and W per dataset / request
	orders := make([][]int, len(ds))
	for i, d := range ds {
		orders[i] = r.Perm(len(d.buckets))
	}
	asisPW := func(d *c27dataset) (map[string]c27want, bool) {
		m := map[string]c27want{}
		trig := false
		for _, b := range d.buckets {
			if b.n == 0 {
				trig = true
				continue
			}
			m[b.key] = c27want{schema: d.schema, cols: b.orig}
		}
		return m, trig
	}
	for i, d := range ds {
		var got io.ColumnSeriesMap
		fail := ms.Recover(func() {
			nmds, err := c27build(d, orders[i])
			if err != nil {
				panic(err)
			}
			enc, err := msgpack.Marshal(nmds)
			if err != nil {
				panic(err)
			}
			var dec io.NumpyMultiDataset
			if err := msgpack.Unmarshal(enc, &dec); err != nil {
				panic(err)
			}
			got, err = dec.ToColumnSeriesMap()
			if err != nil {
				panic(err)
			}
			res.Count("bytes_on_wire", int64(len(enc)))
		})
		asis, trig := asisPW(d)
		a.verdict("P", []*c27dataset{d}, c27ideal(d), asis, trig, got, fail)
	}
	{
		// W: one MultiWriteRequest with one WriteRequest per dataset
		gots := make([]io.ColumnSeriesMap, len(ds))
		flags := make([]bool, len(ds))
		fail := ms.Recover(func() {
			args := &frontend.MultiWriteRequest{}
			for i, d := range ds {
				nmds, err := c27build(d, orders[i])
				if err != nil {
					panic(err)
				}
				args.Requests = append(args.Requests, frontend.WriteRequest{Data: nmds, IsVariableLength: i%2 == 1})
			}
			body, err := msgpack2.EncodeClientRequest("DataService.Write", args)
			if err != nil {
				panic(err)
			}
			res.Count("bytes_on_wire", int64(len(body)))
			hr, _ := http.NewRequest("POST", "http://localhost/rpc", bytes.NewReader(body))
			hr.Header.Set("Content-Type", "application/x-msgpack")
			cr := msgpack2.NewCodec().NewRequest(hr)
			if m, err := cr.Method(); err != nil || m != "DataService.Write" {
				panic(fmt.Sprintf("server decoded method %q, err %v", m, err))
			}
			var dec frontend.MultiWriteRequest
			if err := cr.ReadRequest(&dec); err != nil {
				panic(err)
			}
			if len(dec.Requests) != len(ds) {
				panic(fmt.Sprintf("%d write requests decoded, %d sent", len(dec.Requests), len(ds)))
			}
			for i := range dec.Requests {
				flags[i] = dec.Requests[i].IsVariableLength
				m, err := dec.Requests[i].Data.ToColumnSeriesMap()
				if err != nil {
					panic(err)
				}
				gots[i] = m
			}
		})
		for i, d := range ds {
			f := fail
			if f == "" && flags[i] != (i%2 == 1) {
				f = "is_variable_length flag changed on the wire"
			}
			asis, trig := asisPW(d)
			a.verdict("W", []*c27dataset{d}, c27ideal(d), asis, trig, gots[i], f)
		}
	}

	// ---- path Q: all datasets in one MultiQueryResponse
	{
		var got io.ColumnSeriesMap
		fail := ms.Recover(func() {
			resp := &frontend.MultiQueryResponse{Version: "verif", Timezone: "UTC"}
			for i, d := range ds {
				nmds, err := c27build(d, orders[i])
				if err != nil {
					panic(err)
				}
				resp.Responses = append(resp.Responses, frontend.QueryResponse{Result: nmds})
			}
			body, err := msgpack2.EncodeClientRequest("DataService.Query", &frontend.MultiQueryRequest{})
			if err != nil {
				panic(err)
			}
			hr, _ := http.NewRequest("POST", "http://localhost/rpc", bytes.NewReader(body))
			hr.Header.Set("Content-Type", "application/x-msgpack")
			cr := msgpack2.NewCodec().NewRequest(hr)
			w := &c27rec{h: http.Header{}}
			cr.WriteResponse(w, resp)
			res.Count("bytes_on_wire", int64(w.body.Len()))
			var dec frontend.MultiQueryResponse
			if err := msgpack2.DecodeClientResponse(&w.body, &dec); err != nil {
				panic(err)
			}
			m, err := dec.ToColumnSeriesMap()
			if err != nil {
				panic(err)
			}
			if m == nil {
				panic("nil map")
			}
			got = *m
		})
		asis := map[string]c27want{}
		trig := false
		for _, d := range ds {
			for _, b := range d.buckets {
				if d.total == 0 {
					trig = true
					asis[b.key] = c27want{bare: true}
				} else {
					asis[b.key] = c27want{schema: d.schema, cols: b.orig}
				}
			}
		}
		a.verdict("Q", ds, c27ideal(ds...), asis, trig, got, fail)
	}
	// the conversions are read-only for the caller: the columns handed in still hold what they held
	for _, d := range ds {
		if d.shared {
			res.Count("datasets_with_shared_backing_arrays", 1)
		}
		for _, b := range d.buckets {
			for ci, c := range d.schema {
				res.Count("caller_columns_rechecked", 1)
				if df := diffCol(c.name, b.orig[ci], b.cols[ci]); df != "" {
					a.res.Violation(fmt.Sprintf("the conversion to the wire format modified the caller's data: bucket %s: %s", b.key, df), map[string]interface{}{"dataset": d.describe(), "shared_backing_array": d.shared})
				}
			}
		}
	}
	if mapNo == 0 && res.Sample == nil {
		var w []interface{}
		for _, x := range ds {
			w = append(w, x.describe())
		}
		res.Sample = map[string]interface{}{"datasets": w, "paths": "S, P, W, Q"}
	}
}

func c27mapsPerCase(tier string) int {
	if tier == "thorough" {
		return 250
	}
	return 50
}

func c27cases(tier string) int {
	if tier == "thorough" {
		return 1200 // 300 000 maps
	}
	return 100 // 5 000 maps
}

func c27run(c *runner.Ctx) runner.Result {
	var res runner.Result
	ms.Quiet()
	a := &c27acc{res: &res}
	n := c27mapsPerCase(c.Tier)
	for m := 0; m < n; m++ {
		r := c.R(fmt.Sprintf("map%d", m))
		a.mapNo = m
		c27oneMap(a, r, m)
		res.Evals++
	}
	if c.Case >= 3 {
		res.Sample = nil
	}
	res.Count("maps", int64(n))
	if a.bad > 0 {
		res.Violation(fmt.Sprintf("%d wire round trips do not return the original buckets/columns; first: %s", a.bad, a.first), a.firstW)
	}
	if a.known > 0 {
		res.Count("zero_length_losses", int64(a.known))
		res.Known("F-WIREZERO", fmt.Sprintf("%d round trips lost a zero-length bucket or its column names/types; first: %s", a.known, a.firstKn), a.firstKW)
	}
	return res
}

func init() {
	register(&runner.Monitor{
		ID:    "C27",
		Level: "exploration",
		Rule: "a map = 1-2 datasets, each a schema of 1-8 columns over the 11 wire types (i1 i2 i4 i8 u1 u2 u4 u8 f4 f8 U16, unicode names, Epoch first in 3 of 4) and 1-5 buckets of 0-200 rows of boundary/random bit patterns; 70% of the datasets have no zero-length bucket, 20% mix empty and non-empty buckets, 10% are entirely empty; " +
			"each map goes through four paths: S single NumpyDataset, P NumpyMultiDataset (Append in a seeded bucket order) with msgpack Marshal/Unmarshal, W the write request through msgpack2 client encoding and the server codec's ReadRequest, Q the query response through the server codec's WriteResponse and the client's DecodeClientResponse + MultiQueryResponse.ToColumnSeriesMap; " +
			"quick 100 cases x 50 maps, thorough 1200 x 250; a dataset is non-trivial when it has at least one column, distinct by (columns, buckets, zero pattern, max rows class, has U16, datasets in the map)",
		Assumptions: []string{
			"all buckets of one dataset share the schema (the multi-dataset format requires it; Append only checks the names)",
			"symbols contain no '/', ':' or ','; column names are unique within a series and non-empty",
		},
		Cases:        c27cases,
		Batch:        8,
		Run:          c27run,
		Need:         []string{"round_trips_S", "round_trips_P", "round_trips_W", "round_trips_Q", "values_encoded", "datasets_nozero"},
		MinDistinct:  50,
		BatchTimeout: 20 * time.Minute,
		// thorough: every 25th case (at most 90) is repeated under the AddressSanitizer build
		Post: asanPost(asanEvery(25, 90)),
	})
}
