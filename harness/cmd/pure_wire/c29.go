package main

// C29 Row serialization round-trips with alignment.
//
// Real code driven: io.ColumnSeries.ToRowSeries / io.SerializeColumnsToRows (columns -> fixed-width
// rows, with and without padding of the record to 8 bytes), io.NewRowSeries + RowSeries.ToColumnSeries
// and io.NewRows + SetRowLen + Rows.ToColumnSeries / Rows.GetColumn (rows -> columns).
//
// Oracle (from the property text only): the columns read back are the original columns: same
// names, same element type, same values bit for bit; the record length is the sum of the element
// sizes (8 for Epoch), rounded up to a multiple of 8 when alignment is requested, and the buffer
// holds rows*recordLength bytes. The order of the columns read back is not asserted.
//
// Schemas: Epoch ([]int64, mandatory for the serializer) plus k further columns over the ten
// fixed-width numeric types and STRING16 ([][16]rune).
//
// Known findings (as-is models, see c29judge):
//   F-BYTECOL  Rows.GetColumn returns a BYTE (int8, wire type i1) column through getByteColumn as
//              []uint8: the element type changes from BYTE to UINT8 (-1 comes back as 255).
//              Trigger: the column's type is BYTE. As-is: same bytes, Go type []uint8.
//   F-EPOCHPOS SerializeColumnsToRows always puts Epoch first in the row, Rows.GetColumn computes
//              the offset of a column from its position in the data shapes: when Epoch is not the
//              first column of the series every column placed before Epoch is read 8 bytes too early
//              (and Rows.GetColumn("Epoch") is read too late). Trigger: Epoch is not the first data
//              shape and the column precedes Epoch (or is Epoch read through Rows.GetColumn).
//              As-is: the bytes found in the serialized rows at the data-shape-order offset.

import (
	"fmt"
	"sort"
	"strings"
	"time"

	"github.com/alpacahq/marketstore/v4/utils/io"
	"github.com/alpacahq/marketstore/v4/verif/internal/gen"
	"github.com/alpacahq/marketstore/v4/verif/internal/ms"
	"github.com/alpacahq/marketstore/v4/verif/internal/runner"
)

const (
	c29nTypes   = 11
	c29exhTotal = 1 + 11 + 121 + 1331 + 14641 // schemas with 0..4 further columns
	c29exhK3    = 1 + 11 + 121 + 1331         // ... with 0..3 further columns
	c29perCase  = 100
)

// c29layout describes the case list of a tier.
type c29layout struct {
	exh      int // number of enumerated schemas (indices [0,exh) of the enumeration)
	sampleK4 int // seeded samples among the 4-column schemas (quick only)
	wide     int // seeded schemas with 5..8 further columns
	epochPos int // seeded schemas with Epoch not in first position (aim at F-EPOCHPOS)
}

func c29lay(tier string) c29layout {
	if tier == "thorough" {
		return c29layout{exh: c29exhTotal, sampleK4: 0, wide: 200000, epochPos: 4000}
	}
	return c29layout{exh: c29exhK3, sampleK4: 1200, wide: 400, epochPos: 200}
}

func (l c29layout) total() int { return l.exh + l.sampleK4 + l.wide + l.epochPos }

func c29cases(tier string) int {
	return (c29lay(tier).total() + c29perCase - 1) / c29perCase
}

// c29enum returns the e-th schema of the enumeration (further column types, by wtypes index).
func c29enum(e int) []int {
	k, base := 0, 1
	for e >= base {
		e -= base
		base *= c29nTypes
		k++
	}
	ts := make([]int, k)
	for i := k - 1; i >= 0; i-- {
		ts[i] = e % c29nTypes
		e /= c29nTypes
	}
	return ts
}

type c29schema struct {
	types    []int // further columns (wtypes index)
	epochPos int   // position of Epoch among the columns (0 = first)
	kind     string
}

func c29pick(l c29layout, seed int64, s int) c29schema {
	switch {
	case s < l.exh:
		return c29schema{types: c29enum(s), kind: "enum"}
	case s < l.exh+l.sampleK4:
		r := gen.New(seed, "C29/k4", s)
		return c29schema{types: c29enum(c29exhK3 + r.Intn(14641)), kind: "enum"}
	case s < l.exh+l.sampleK4+l.wide:
		r := gen.New(seed, "C29/wide", s)
		k := r.Range(5, 8)
		ts := make([]int, k)
		for i := range ts {
			ts[i] = r.Intn(c29nTypes)
		}
		return c29schema{types: ts, kind: "wide"}
	default:
		r := gen.New(seed, "C29/epochpos", s)
		k := r.Range(1, 5)
		ts := make([]int, k)
		for i := range ts {
			ts[i] = r.Intn(c29nTypes)
		}
		return c29schema{types: ts, epochPos: r.Range(1, k), kind: "epochpos"}
	}
}

func (s c29schema) String() string {
	var parts []string
	for i, t := range s.types {
		if i == s.epochPos {
			parts = append(parts, "E")
		}
		parts = append(parts, wtypes[t].Str)
	}
	if s.epochPos >= len(s.types) {
		parts = append(parts, "E")
	}
	return strings.Join(parts, ",")
}

type c29col struct {
	name string
	ti   int // -1 = Epoch
	data interface{}
}

type c29acc struct {
	res       *runner.Result
	bad       []string
	badW      []interface{}
	knownByte int
	knownPos  int
	exByte    string
	exPos     string
	wByte     interface{}
	wPos      interface{}
}

func (a *c29acc) violation(detail string, w interface{}) {
	if len(a.bad) < 3 {
		a.bad = append(a.bad, detail)
		a.badW = append(a.badW, w)
	} else {
		a.bad = append(a.bad, "")
	}
}

// c29judge compares one column read back from rows with the original.
// data/recLen: the serialized rows; dsvOff: offset of the column computed from its position in the
// data shapes the reader was given (what the reader uses); trigPos: F-EPOCHPOS can apply.
func (a *c29acc) judge(where string, sch c29schema, align bool, col c29col, got interface{}, data []byte, recLen, n, dsvOff int, trigPos bool) {
	d := diffCol(col.name, col.data, got)
	if d == "" {
		return
	}
	wt, wb, _, _ := encodeCol(col.data)
	gt, gb, gn, ok := encodeCol(got)
	trigByte := col.ti == wtByte
	if ok && gn == n && (trigByte || trigPos) {
		asisT, asisB := wt, wb
		if trigByte {
			asisT = "[]uint8"
		}
		if trigPos {
			sz := 8
			if col.ti >= 0 {
				sz = wtypes[col.ti].Size
			}
			asisB = make([]byte, 0, sz*n)
			inRange := true
			for i := 0; i < n; i++ {
				o := i*recLen + dsvOff
				if o+sz > len(data) {
					inRange = false
					break
				}
				asisB = append(asisB, data[o:o+sz]...)
			}
			if !inRange {
				asisB = nil
			}
		}
		if gt == asisT && asisB != nil && string(gb) == string(asisB) {
			if trigByte && gt != wt {
				a.knownByte++
				if a.exByte == "" {
					a.exByte = fmt.Sprintf("schema [%s] align=%v %s: %s", sch, align, where, d)
					a.wByte = map[string]interface{}{"schema": sch.String(), "align": align, "rows": n, "path": where, "column": col.name,
						"written": fmt.Sprintf("%T %v", col.data, clip(col.data, 8)), "read_back": fmt.Sprintf("%T %v", got, clip(got, 8))}
				}
			}
			if trigPos && string(gb) != string(wb) {
				a.knownPos++
				if a.exPos == "" {
					a.exPos = fmt.Sprintf("schema [%s] align=%v %s: %s", sch, align, where, d)
					a.wPos = map[string]interface{}{"schema": sch.String(), "align": align, "rows": n, "path": where, "column": col.name,
						"written": fmt.Sprintf("%T %v", col.data, clip(col.data, 8)), "read_back": fmt.Sprintf("%T %v", got, clip(got, 8))}
				}
			}
			return
		}
	}
	a.violation(fmt.Sprintf("schema [%s] align=%v rows=%d %s: %s", sch, align, n, where, d),
		map[string]interface{}{"schema": sch.String(), "align": align, "rows": n, "path": where, "column": col.name,
			"want": fmt.Sprintf("%v", clip(col.data, 8)), "got": fmt.Sprintf("%v", clip(got, 8))})
}

func clip(col interface{}, n int) interface{} {
	_, _, l, ok := encodeCol(col)
	if !ok || l <= n {
		return col
	}
	switch c := col.(type) {
	case []int8:
		return c[:n]
	case []int16:
		return c[:n]
	case []int32:
		return c[:n]
	case []int64:
		return c[:n]
	case []uint8:
		return c[:n]
	case []uint16:
		return c[:n]
	case []uint32:
		return c[:n]
	case []uint64:
		return c[:n]
	case []float32:
		return c[:n]
	case []float64:
		return c[:n]
	case [][16]rune:
		return c[:n]
	}
	return col
}

func c29names(cols []c29col) string {
	ns := make([]string, len(cols))
	for i, c := range cols {
		ns[i] = c.name
	}
	sort.Strings(ns)
	return strings.Join(ns, "\x00")
}

func c29one(a *c29acc, r *gen.R, sch c29schema, align bool, n int) {
	res := a.res
	// build the columns in series order
	used := map[string]bool{}
	var cols []c29col
	ep := make([]int64, n)
	for i := range ep {
		ep[i] = int64(genBits(r))
	}
	for i, t := range sch.types {
		if i == sch.epochPos {
			cols = append(cols, c29col{"Epoch", -1, ep})
		}
		cols = append(cols, c29col{genName(r, 12, used), t, genCol(r, t, n)})
	}
	if sch.epochPos >= len(sch.types) {
		cols = append(cols, c29col{"Epoch", -1, ep})
	}
	mk := func() *io.ColumnSeries {
		cs := io.NewColumnSeries()
		for _, c := range cols {
			cs.AddColumn(c.name, c.data)
		}
		return cs
	}
	sum := 0
	for _, c := range cols {
		if c.ti < 0 {
			sum += 8
		} else {
			sum += wtypes[c.ti].Size
		}
	}
	wantLen := sum
	if align {
		wantLen = (sum + 7) / 8 * 8
	}
	key := *io.NewTimeBucketKey("SYM/1Min/ATTR")
	byName := map[string]c29col{}
	for _, c := range cols {
		byName[c.name] = c
	}
	// offsets by data-shape position for a given shape order
	dsvOffsets := func(dsv []io.DataShape) (map[string]int, map[string]bool) {
		off := map[string]int{}
		before := map[string]bool{}
		o := 0
		seenEpoch := false
		for _, ds := range dsv {
			off[ds.Name] = o
			if ds.Name == "Epoch" {
				seenEpoch = true
			} else {
				before[ds.Name] = !seenEpoch
			}
			o += ds.Type.Size()
		}
		return off, before
	}
	checkLen := func(where string, data []byte, recLen int) bool {
		if recLen != wantLen {
			a.violation(fmt.Sprintf("schema [%s] align=%v %s: record length %d, want %d (sum of sizes %d)", sch, align, where, recLen, wantLen, sum),
				map[string]interface{}{"schema": sch.String(), "align": align, "record_length": recLen, "want": wantLen})
			return false
		}
		if len(data) != recLen*n {
			a.violation(fmt.Sprintf("schema [%s] align=%v %s: %d rows serialized into %d bytes, want %d", sch, align, where, n, len(data), recLen*n),
				map[string]interface{}{"schema": sch.String(), "align": align, "rows": n, "bytes": len(data)})
			return false
		}
		return true
	}
	checkCS := func(where string, out *io.ColumnSeries, data []byte, recLen int, off map[string]int, before map[string]bool, epochViaGetColumn bool) {
		var gotCols []c29col
		for _, nm := range out.GetColumnNames() {
			gotCols = append(gotCols, c29col{name: nm})
		}
		if c29names(gotCols) != c29names(cols) {
			a.violation(fmt.Sprintf("schema [%s] align=%v %s: columns read back %q, want %q", sch, align, where, out.GetColumnNames(), mk().GetColumnNames()),
				map[string]interface{}{"schema": sch.String(), "got_names": out.GetColumnNames(), "want_names": mk().GetColumnNames()})
			return
		}
		for _, c := range cols {
			trig := sch.epochPos > 0 && before[c.name]
			if c.ti < 0 {
				trig = sch.epochPos > 0 && epochViaGetColumn
			}
			a.judge(where, sch, align, c, out.GetColumn(c.name), data, recLen, n, off[c.name], trig)
			res.Count("columns_compared", 1)
			res.Count("values_compared", int64(n))
		}
	}

	// path A: ColumnSeries.ToRowSeries -> RowSeries.ToColumnSeries
	if p := ms.Recover(func() {
		cs := mk()
		rs, err := cs.ToRowSeries(key, align)
		if err != nil {
			a.violation(fmt.Sprintf("schema [%s] align=%v: ToRowSeries failed: %v", sch, align, err), map[string]interface{}{"schema": sch.String()})
			return
		}
		data, recLen := rs.GetData(), rs.GetRowLen()
		if !checkLen("ToRowSeries", data, recLen) {
			return
		}
		if rs.GetNumRows() != n {
			a.violation(fmt.Sprintf("schema [%s] align=%v: RowSeries has %d rows, want %d", sch, align, rs.GetNumRows(), n), nil)
			return
		}
		off, before := dsvOffsets(rs.GetDataShapes())
		_, out := rs.ToColumnSeries()
		checkCS("ToRowSeries->RowSeries.ToColumnSeries", out, data, recLen, off, before, false)
		res.Count("round_trips", 1)
	}); p != "" {
		a.violation(fmt.Sprintf("schema [%s] align=%v rows=%d: panic in ToRowSeries/ToColumnSeries: %s", sch, align, n, p), map[string]interface{}{"schema": sch.String(), "align": align, "rows": n})
	}

	// path B: SerializeColumnsToRows with the shapes in a permuted order (Epoch kept where the
	// schema puts it for the epochpos kind, first otherwise) -> NewRows + SetRowLen -> Rows.ToColumnSeries
	if p := ms.Recover(func() {
		cs := mk()
		dsv := cs.GetDataShapes()
		if sch.epochPos == 0 && len(dsv) > 2 {
			perm := r.Perm(len(dsv) - 1)
			nd := []io.DataShape{dsv[0]}
			for _, k := range perm {
				nd = append(nd, dsv[1+k])
			}
			dsv = nd
		}
		data, recLen, err := io.SerializeColumnsToRows(cs, dsv, align)
		if err != nil {
			a.violation(fmt.Sprintf("schema [%s] align=%v: SerializeColumnsToRows failed: %v", sch, align, err), map[string]interface{}{"schema": sch.String()})
			return
		}
		if !checkLen("SerializeColumnsToRows", data, recLen) {
			return
		}
		rows := io.NewRows(dsv, data)
		rows.SetRowLen(recLen)
		off, before := dsvOffsets(dsv)
		out, err := rows.ToColumnSeries()
		if err != nil {
			a.violation(fmt.Sprintf("schema [%s] align=%v: Rows.ToColumnSeries failed: %v", sch, align, err), map[string]interface{}{"schema": sch.String()})
			return
		}
		checkCS("SerializeColumnsToRows->Rows.ToColumnSeries", out, data, recLen, off, before, true)
		res.Count("round_trips", 1)
	}); p != "" {
		a.violation(fmt.Sprintf("schema [%s] align=%v rows=%d: panic in SerializeColumnsToRows/Rows.ToColumnSeries: %s", sch, align, n, p), map[string]interface{}{"schema": sch.String(), "align": align, "rows": n})
	}
	if align {
		res.Count("aligned_cases", 1)
		if wantLen != sum {
			res.Count("aligned_cases_with_padding", 1)
		}
	} else {
		res.Count("unaligned_cases", 1)
	}
}

func c29run(c *runner.Ctx) runner.Result {
	var res runner.Result
	ms.Quiet()
	l := c29lay(c.Tier)
	a := &c29acc{res: &res}
	lo, hi := c.Case*c29perCase, (c.Case+1)*c29perCase
	if hi > l.total() {
		hi = l.total()
	}
	for s := lo; s < hi; s++ {
		sch := c29pick(l, c.Seed, s)
		r := gen.New(c.Seed, "C29/values", s)
		for ai, align := range []bool{false, true} {
			// one tiny and one larger row count per (schema, alignment)
			small := (s + ai) % 3 // 0, 1 or 2 rows
			for _, n := range []int{small, r.Range(3, 50)} {
				c29one(a, r, sch, align, n)
				res.Evals++
			}
			al := "un"
			if align {
				al = "al"
			}
			sig := sch.String() + "|" + al
			if sch.kind == "wide" {
				// distinct by multiset of sizes, not by the exact sequence
				szs := make([]int, len(sch.types))
				for i, t := range sch.types {
					szs[i] = wtypes[t].Size
				}
				sort.Ints(szs)
				sig = fmt.Sprintf("wide%v|%s", szs, al)
			}
			res.Sigs = append(res.Sigs, sig)
		}
		res.Count("schemas_"+sch.kind, 1)
		res.Set("column_counts", fmt.Sprint(len(sch.types)))
		if s%997 == 0 && c.Case < 40 && res.Sample == nil {
			res.Sample = map[string]interface{}{"schema": "Epoch first, then " + sch.String(), "kind": sch.kind,
				"executions": "aligned and unaligned, two row counts each, two read-back paths"}
		}
	}
	if len(a.bad) > 0 {
		res.Violation(fmt.Sprintf("%d row round trips do not return the original columns; first: %s", len(a.bad), a.bad[0]), a.badW)
	}
	if a.knownByte > 0 {
		res.Count("byte_columns_read_back_as_uint8", int64(a.knownByte))
		res.Known("F-BYTECOL", fmt.Sprintf("%d BYTE (int8) columns were read back from rows as []uint8; first: %s", a.knownByte, a.exByte), a.wByte)
	}
	if a.knownPos > 0 {
		res.Count("columns_before_epoch_misread", int64(a.knownPos))
		res.Known("F-EPOCHPOS", fmt.Sprintf("%d columns of series whose Epoch is not the first column were read back from the wrong offset; first: %s", a.knownPos, a.exPos), a.wPos)
	}
	return res
}

func init() {
	register(&runner.Monitor{
		ID:    "C29",
		Level: "exploration",
		Rule: "a schema = Epoch plus k further columns over the 11 fixed-width types (i1 i2 i4 i8 u1 u2 u4 u8 f4 f8 and STRING16); thorough enumerates every schema with k<=4 (16105) and adds 200000 seeded schemas with k=5..8 and 4000 with Epoch not in first position; quick enumerates k<=3 (1464) and samples 1200 schemas with k=4, 400 with k=5..8, 200 with Epoch not first; " +
			"every schema is serialized aligned and unaligned with 0-2 rows and with 3-50 rows of boundary/random bit patterns (NaN payloads, -0, any rune) and read back through RowSeries.ToColumnSeries and through Rows.ToColumnSeries with permuted data shapes; a case is non-trivial when at least one column was compared; distinct by (type sequence, Epoch position, alignment) (by multiset of element sizes for k>=5)",
		Assumptions: []string{
			"the series contains an Epoch column of type []int64 (the serializer refuses anything else) and no other column whose name equals \"Epoch\" case-insensitively (the serializer skips such columns: a column named \"epoch\" is dropped from the rows while still counted in the record length)",
			"the order in which columns are read back is not part of the property (ToColumnSeries always returns Epoch first)",
		},
		Cases:        c29cases,
		Batch:        16,
		Run:          c29run,
		Exhaustive:   func(tier string) bool { return tier == "thorough" },
		Need:         []string{"round_trips", "values_compared", "aligned_cases_with_padding", "unaligned_cases"},
		MinDistinct:  100,
		BatchTimeout: 20 * time.Minute,
		// thorough: every 27th case (at most 90) is repeated under the AddressSanitizer build
		Post: asanPost(asanEvery(27, 90)),
	})
}
