// pure_wire: assertion monitors on the (de)serialisation layers: network dataset format (C27),
// WAL transaction-group records (C28), fixed-width row serialisation (C29); see DESIGN.md 3.3.
// Seeded / boundary / exhaustive inputs, built with checkptr (and ASan in the thorough tier).
// One file per property; each registers its monitor in init().
package main

import (
	"github.com/alpacahq/marketstore/v4/verif/internal/runner"
)

var monitors []*runner.Monitor

func register(m *runner.Monitor) { monitors = append(monitors, m) }

func main() { runner.Main(monitors...) }
