package main

// C28 WAL transaction records round-trip.
//
// Real code driven: a real instance (ms.Open: catalog, WAL file, writer, inline flush) whose
// WAL.ReplicationSender is a capturing sender: Send receives exactly the bytes serializeTG produced
// for the transaction group that was just written to the WAL file. Writes go through
// Writer.WriteCSM (strata real / edge / aim) or are hand-built wal.WriteCommands flushed with
// WALFileType.FlushCommandsToWAL (stratum hand). Every captured group is decoded with
// executor.ParseTGData (the decoder used by replay and replication) and with the independent
// decoder of c28dec.go, and is looked up in the WAL file itself (independent message scanner).
//
// Oracle (from the property text): for every write the write path accepted (WriteCSM returned nil
// without panicking) the decoded group names exactly the original target file, record type,
// offset, interval index, payload, variable record length and column schema of each command; both
// decoders agree and the group is in the WAL file, byte for byte, under a matching checksum.
// For real writes the original commands are derived from the written rows: one command per run of
// consecutive rows in the same interval of the same year file; index/offset/ticks of a row are
// obtained from the same exported functions the writer calls (io.TimeToIndex, io.IndexToOffset,
// io.GetIntervalTicks32Bit - their correctness is the subject of C08/C10/C30); the payload, path,
// record type, record length and schema are computed here. Real groups are compared per target
// file after merging adjacent commands for the same (index, offset), because the property does not
// fix how rows are grouped into commands nor the order of files inside a group (the writer, for
// instance, stops merging the rows of one interval after a write has crossed into the next year's
// file). Hand-built groups and the groups of the aim stratum (single bucket, no year crossing in a
// variable bucket) are compared command by command, in order.
// What is "accepted" is established by the run itself (counters accepted_*): column names of 255
// and of 256+ bytes, 254 / 255+ further columns, key paths close to PATH_MAX, an Epoch-only schema
// (empty payload), a payload above 1 MB, thousands of commands in one group. Hand-built commands
// stay inside the envelope the write path was seen to produce.
//
// Known finding F-DSVLEN: the column schema is serialized with one-byte counters
// (io.DSVToBytes / DataShape.toBytes): the number of data shapes and each name length are stored
// modulo 256, and a schema whose count is a multiple of 256 is not written at all. WriteCSM accepts
// such writes (a 256-byte column name; 255 or more columns besides Epoch). Trigger: a command whose
// schema has more than 255 data shapes or a name longer than 255 bytes. As-is model: the group's
// bytes are exactly the documented layout with the counters truncated (c28encodeAsIs); all commands
// before the first triggering command decode exactly, the triggering command decodes exactly
// except for its schema, whatever follows is garbage or makes ParseTGData panic.

import (
	"context"
	"encoding/binary"
	"fmt"
	"os"
	"path/filepath"
	"sort"
	"strconv"
	"strings"
	"time"

	"github.com/alpacahq/marketstore/v4/executor"
	"github.com/alpacahq/marketstore/v4/executor/wal"
	"github.com/alpacahq/marketstore/v4/frontend"
	"github.com/alpacahq/marketstore/v4/utils/io"
	"github.com/alpacahq/marketstore/v4/verif/internal/gen"
	"github.com/alpacahq/marketstore/v4/verif/internal/ms"
	"github.com/alpacahq/marketstore/v4/verif/internal/runner"
)

type c28sender struct{ tgs [][]byte }

func (s *c28sender) Run(ctx context.Context) {}
func (s *c28sender) Send(b []byte) {
	cp := make([]byte, len(b)) // exact capacity: an out-of-range read in a decoder panics instead of reading slack
	copy(cp, b)
	s.tgs = append(s.tgs, cp)
}

type c28tf struct {
	name string
	d    time.Duration
}

var c28tfs = []c28tf{{"1D", 24 * time.Hour}, {"4H", 4 * time.Hour}, {"1H", time.Hour}, {"5Min", 5 * time.Minute}, {"1Min", time.Minute}}

// c28bucket is a bucket the case writes to.
type c28bucket struct {
	item     string // item key, e.g. "SYM/1D/ATTR" (or deeper)
	cat      string // category key ("" = default)
	tf       c28tf
	variable bool
	names    []string // further columns
	types    []int    // wtypes index
	next     time.Time
	rewrite  bool // may be written again (all names fit the 32-byte header field)
}

func (b *c28bucket) shapes() []c28shape {
	s := []c28shape{{"Epoch", byte(io.INT64)}}
	for i, n := range b.names {
		s = append(s, c28shape{n, byte(wtypes[b.types[i]].T)})
	}
	return s
}

func (b *c28bucket) sumSizes() int {
	s := 0
	for _, t := range b.types {
		s += wtypes[t].Size
	}
	return s
}

// c28rows is the data of one bucket in one WriteCSM call.
type c28rows struct {
	b     *c28bucket
	epoch []int64
	nanos []int32 // variable only
	cols  []interface{}
}

func (w *c28rows) series() *io.ColumnSeries {
	cs := io.NewColumnSeries()
	cs.AddColumn("Epoch", w.epoch)
	for i, n := range w.b.names {
		cs.AddColumn(n, w.cols[i])
	}
	if w.b.variable {
		cs.AddColumn("Nanoseconds", w.nanos)
	}
	return cs
}

// genRows advances the bucket's clock and produces n rows.
func c28genRows(r *gen.R, b *c28bucket, n int) *c28rows {
	w := &c28rows{b: b}
	t := b.next
	tfs := int64(b.tf.d / time.Second)
	for i := 0; i < n; i++ {
		if b.variable {
			if i > 0 && r.P(1, 2) {
				t = t.Add(time.Duration(r.I64n(int64(b.tf.d) / 50))) // mostly the same interval
			} else if i > 0 {
				t = t.Truncate(b.tf.d).Add(b.tf.d * time.Duration(r.Range(1, 3))).Add(time.Duration(r.I64n(int64(b.tf.d))))
			}
		} else if i > 0 {
			t = t.Truncate(b.tf.d).Add(b.tf.d * time.Duration(r.Range(1, 4))).Add(time.Duration(r.I64n(tfs)) * time.Second)
		}
		if b.tf.d == 24*time.Hour && t.YearDay() == 1 {
			t = t.Add(24 * time.Hour) // 1D slot of Jan 1 lies inside the file header (F-JAN1): stay away
		}
		w.epoch = append(w.epoch, t.Unix())
		if b.variable {
			w.nanos = append(w.nanos, int32(t.Nanosecond()))
		}
	}
	// next write starts in a later interval
	b.next = t.Truncate(b.tf.d).Add(b.tf.d * time.Duration(r.Range(1, 3)))
	for _, ti := range b.types {
		w.cols = append(w.cols, genCol(r, ti, n))
	}
	return w
}

// expect derives the original write commands of this bucket's rows.
func (w *c28rows) expect() []c28cmd {
	b := w.b
	var out []c28cmd
	sum := b.sumSizes()
	recLen := 8 + (sum+7)/8*8
	vrl := 0
	rt := int8(io.FIXED)
	if b.variable {
		recLen = 24
		vrl = sum + 4
		rt = int8(io.VARIABLE)
	}
	var enc [][]byte
	for _, c := range w.cols {
		_, bs, _, _ := encodeCol(c)
		enc = append(enc, bs)
	}
	ipd := int64(24 * time.Hour / b.tf.d)
	prevIdx, prevYear := int64(-1), -1
	shapes := b.shapes()
	for i := range w.epoch {
		ns := int64(0)
		if b.variable {
			ns = int64(w.nanos[i])
		}
		t := time.Unix(w.epoch[i], ns).UTC()
		idx := io.TimeToIndex(t, b.tf.d)
		var row []byte
		for k, ti := range b.types {
			sz := wtypes[ti].Size
			row = append(row, enc[k][i*sz:(i+1)*sz]...)
		}
		if b.variable {
			row = binary.LittleEndian.AppendUint32(row, io.GetIntervalTicks32Bit(t, idx, ipd))
		}
		if idx == prevIdx && t.Year() == prevYear {
			out[len(out)-1].Payload = append(out[len(out)-1].Payload, row...)
			continue
		}
		prevIdx, prevYear = idx, t.Year()
		out = append(out, c28cmd{
			RecordType: rt,
			Path:       b.item + "/" + strconv.Itoa(t.Year()) + ".bin",
			VarRecLen:  int32(vrl),
			Offset:     io.IndexToOffset(idx, int32(recLen)),
			Index:      idx,
			Payload:    row,
			Shapes:     shapes,
		})
	}
	return out
}

// ---------------------------------------------------------------------------------------------

type c28env struct {
	c       *runner.Ctx
	res     *runner.Result
	inst    *ms.Inst
	snd     *c28sender
	walPos  int64
	bad     int
	first   string
	firstW  interface{}
	known   int
	firstK  string
	firstKW interface{}
	sigs    map[string]bool
}

func c28class(n int) string {
	switch {
	case n <= 1:
		return strconv.Itoa(n)
	case n <= 8:
		return "2-8"
	case n <= 32:
		return "9-32"
	case n <= 254:
		return "33-254"
	case n == 255:
		return "255"
	case n == 256:
		return "256"
	default:
		return ">256"
	}
}

func (e *c28env) violation(detail string, w interface{}) {
	e.bad++
	if e.first == "" {
		e.first, e.firstW = detail, w
	}
}

func c28shapesEq(a, b []c28shape) bool {
	if len(a) != len(b) {
		return false
	}
	for i := range a {
		if a[i] != b[i] {
			return false
		}
	}
	return true
}

func c28shapeStr(s []c28shape) string {
	var p []string
	for i, x := range s {
		if i >= 6 {
			p = append(p, fmt.Sprintf("... %d shapes", len(s)))
			break
		}
		p = append(p, fmt.Sprintf("%q/%d", trunc(x.Name, 24), x.Type))
	}
	return "[" + strings.Join(p, " ") + "]"
}

// c28cmdDiff compares one decoded command with the original. skipSchema: compare all but the schema.
func c28cmdDiff(want, got *c28cmd, skipSchema bool) string {
	switch {
	case want.RecordType != got.RecordType:
		return fmt.Sprintf("record type %d decoded as %d", want.RecordType, got.RecordType)
	case want.Path != got.Path:
		return fmt.Sprintf("target file %q decoded as %q", trunc(want.Path, 80), trunc(got.Path, 80))
	case want.VarRecLen != got.VarRecLen:
		return fmt.Sprintf("variable record length %d decoded as %d", want.VarRecLen, got.VarRecLen)
	case want.Offset != got.Offset:
		return fmt.Sprintf("offset %d decoded as %d", want.Offset, got.Offset)
	case want.Index != got.Index:
		return fmt.Sprintf("interval index %d decoded as %d", want.Index, got.Index)
	case string(want.Payload) != string(got.Payload):
		return fmt.Sprintf("payload of %d bytes decoded as %d bytes (or different content)", len(want.Payload), len(got.Payload))
	case !skipSchema && !c28shapesEq(want.Shapes, got.Shapes):
		return fmt.Sprintf("column schema %s decoded as %s", c28shapeStr(want.Shapes), c28shapeStr(got.Shapes))
	}
	return ""
}

// c28normalize groups commands by target file (stable) and merges adjacent commands of a file that
// address the same (index, offset).
func c28normalize(cmds []c28cmd) map[string][]c28cmd {
	m := map[string][]c28cmd{}
	for _, c := range cmds {
		l := m[c.Path]
		if n := len(l); n > 0 && l[n-1].Index == c.Index && l[n-1].Offset == c.Offset && l[n-1].RecordType == c.RecordType &&
			l[n-1].VarRecLen == c.VarRecLen && c28shapesEq(l[n-1].Shapes, c.Shapes) {
			l[n-1].Payload = append(append([]byte{}, l[n-1].Payload...), c.Payload...)
		} else {
			l = append(l, c)
		}
		m[c.Path] = l
	}
	return m
}

// c28listDiff compares decoded commands with the originals. exact: command by command in order.
func c28listDiff(want, got []c28cmd, exact bool) string {
	if exact {
		if len(want) != len(got) {
			return fmt.Sprintf("%d commands decoded, %d written", len(got), len(want))
		}
		for i := range want {
			if d := c28cmdDiff(&want[i], &got[i], false); d != "" {
				return fmt.Sprintf("command %d of %d: %s", i, len(want), d)
			}
		}
		return ""
	}
	wm, gm := c28normalize(want), c28normalize(got)
	var wk, gk []string
	for k := range wm {
		wk = append(wk, k)
	}
	for k := range gm {
		gk = append(gk, k)
	}
	sort.Strings(wk)
	sort.Strings(gk)
	if strings.Join(wk, "\x00") != strings.Join(gk, "\x00") {
		for i := range wk {
			wk[i] = trunc(wk[i], 60)
		}
		for i := range gk {
			gk[i] = trunc(gk[i], 60)
		}
		return fmt.Sprintf("target files %q decoded as %q", wk, gk)
	}
	for _, k := range wk {
		if len(wm[k]) != len(gm[k]) {
			return fmt.Sprintf("file %s: %d (index,offset) groups decoded, %d written", trunc(k, 60), len(gm[k]), len(wm[k]))
		}
		for i := range wm[k] {
			if d := c28cmdDiff(&wm[k][i], &gm[k][i], false); d != "" {
				return fmt.Sprintf("file %s, group %d of %d: %s", trunc(k, 60), i, len(wm[k]), d)
			}
		}
	}
	return ""
}

// c28fromSets converts ParseTGData's result into c28cmds; "" on success.
func c28fromSets(root string, sets []wal.WTSet) (cmds []c28cmd, problem string) {
	for i := range sets {
		s := &sets[i]
		if len(s.Buffer) < 16 {
			return cmds, fmt.Sprintf("set %d: buffer of %d bytes has no room for offset and index", i, len(s.Buffer))
		}
		rel := s.FilePath
		if strings.HasPrefix(rel, root+"/") {
			rel = rel[len(root)+1:]
		} else {
			return cmds, fmt.Sprintf("set %d: file path %q is not below the root directory %q", i, trunc(s.FilePath, 80), root)
		}
		c := c28cmd{RecordType: int8(s.RecordType), Path: rel, VarRecLen: int32(s.VarRecLen), Offset: s.Buffer.Offset(), Index: s.Buffer.Index(), Payload: s.Buffer.Payload()}
		if s.DataLen != len(c.Payload) {
			return cmds, fmt.Sprintf("set %d: DataLen %d but %d payload bytes", i, s.DataLen, len(c.Payload))
		}
		for _, ds := range s.DataShapes {
			c.Shapes = append(c.Shapes, c28shape{ds.Name, byte(ds.Type)})
		}
		cmds = append(cmds, c)
	}
	return cmds, ""
}

// judge decides one captured transaction group against the original commands.
func (e *c28env) judge(kind string, tg []byte, want []c28cmd, exact bool, witness func(diff string) interface{}) {
	res := e.res
	res.Count("tgs_judged", 1)
	res.Count("tgs_"+kind, 1)
	res.Count("commands_compared", int64(len(want)))
	res.Count("tg_bytes", int64(len(tg)))
	{
		// shape of the group: distinct shapes are counted as distinct non-trivial sub-cases
		files := map[string]bool{}
		maxShapes, maxName, maxPayload, variable := 0, 0, 0, 0
		for i := range want {
			files[want[i].Path] = true
			if len(want[i].Shapes) > maxShapes {
				maxShapes = len(want[i].Shapes)
			}
			if l := c28longest(want[i].Shapes); l > maxName {
				maxName = l
			}
			if len(want[i].Payload) > maxPayload {
				maxPayload = len(want[i].Payload)
			}
			if want[i].RecordType == int8(io.VARIABLE) {
				variable++
			}
		}
		rt := "fixed"
		if variable == len(want) {
			rt = "variable"
		} else if variable > 0 {
			rt = "mixed"
		}
		sig := fmt.Sprintf("%s/%s/cmds=%s/files=%s/shapes=%s/name=%s/payload=2^%d", kind, rt, rowBucket(len(want)), rowBucket(len(files)), c28class(maxShapes), c28class(maxName), bitLen(int64(maxPayload)))
		if e.sigs == nil {
			e.sigs = map[string]bool{}
		}
		if !e.sigs[sig] {
			e.sigs[sig] = true
			res.Sigs = append(res.Sigs, sig)
		}
		if len(files) > 1 {
			res.Count("tgs_with_several_files", 1)
		}
		if variable > 0 {
			res.Count("tgs_with_variable_records", 1)
		}
		if variable < len(want) {
			res.Count("tgs_with_fixed_records", 1)
		}
	}
	root := e.inst.Root
	buf := make([]byte, len(tg))
	copy(buf, tg)
	var sets []wal.WTSet
	var tgidR int64
	pan := ms.Recover(func() { tgidR, sets = executor.ParseTGData(buf, root) })
	tgidI, ind, ierr := c28decode(tg)

	var real []c28cmd
	d := ""
	if pan != "" {
		d = "ParseTGData panicked: " + pan
	} else {
		var prob string
		real, prob = c28fromSets(root, sets)
		if prob != "" {
			d = "ParseTGData: " + prob
		} else if dd := c28listDiff(want, real, exact); dd != "" {
			d = "ParseTGData: " + dd
		}
	}
	if d == "" {
		if ierr != nil {
			d = "independent decoder (documented layout): " + ierr.Error()
		} else if dd := c28listDiff(want, ind, exact); dd != "" {
			d = "independent decoder (documented layout): " + dd
		} else if tgidI != tgidR {
			d = fmt.Sprintf("the decoders disagree on the group id: %d vs %d", tgidR, tgidI)
		}
	}
	if d == "" {
		return
	}
	// as-is model of F-DSVLEN
	k := -1
	for i := range want {
		if c28overflows(&want[i]) {
			k = i
			break
		}
	}
	if k >= 0 && exact {
		ok := string(tg) == string(c28encodeAsIs(tgidI, want))
		if ok && pan == "" {
			if len(real) < k {
				ok = false
			}
			for i := 0; ok && i < k; i++ {
				ok = c28cmdDiff(&want[i], &real[i], false) == ""
			}
			if ok && len(real) > k {
				ok = c28cmdDiff(&want[k], &real[k], true) == ""
			}
		}
		for i := 0; ok && i < k; i++ {
			ok = i < len(ind) && c28cmdDiff(&want[i], &ind[i], false) == ""
		}
		if ok && len(ind) > k {
			ok = c28cmdDiff(&want[k], &ind[k], true) == ""
		}
		if ok {
			e.known++
			res.Count("schema_counter_overflows", 1)
			if e.firstK == "" {
				e.firstK = fmt.Sprintf("%s: command %d has a schema of %d shapes (longest name %d bytes): %s", kind, k, len(want[k].Shapes), c28longest(want[k].Shapes), d)
				e.firstKW = witness(d)
			}
			return
		}
	}
	e.violation(fmt.Sprintf("%s: %s", kind, d), witness(d))
}

func c28longest(s []c28shape) int {
	m := 0
	for _, x := range s {
		if len(x.Name) > m {
			m = len(x.Name)
		}
	}
	return m
}

// checkWALFile looks the captured group up in the WAL file.
func (e *c28env) checkWALFile(kind string, tg []byte, witness func(diff string) interface{}) {
	// read what was appended to the WAL file since the previous group
	var img []byte
	f, err := os.Open(e.inst.WAL.FilePtr.Name())
	if err == nil {
		var st os.FileInfo
		if st, err = f.Stat(); err == nil {
			if e.walPos > st.Size() {
				e.walPos = 0
			}
			img = make([]byte, st.Size()-e.walPos)
			_, err = f.ReadAt(img, e.walPos)
		}
		f.Close()
	}
	if err != nil {
		e.res.Inconclusive("cannot read WAL file: " + err.Error())
		return
	}
	msgs, end, err := c28scanWAL(img, 0)
	e.walPos += int64(end)
	d := ""
	if err != nil {
		d = "WAL file does not parse as MID-framed messages: " + err.Error()
	} else {
		found := 0
		var commit *c28walMsg
		for i := range msgs {
			m := &msgs[i]
			if m.MID == 0 {
				found++
				if string(m.TG) != string(tg) {
					d = "the transaction group in the WAL file differs from the one handed to the replication sender"
				} else if !m.SumOK {
					d = "checksum in the WAL file does not match the transaction group"
				}
				commit = nil
			} else if m.MID == 1 && found > 0 && m.Status == 2 && m.Dest == 0 {
				commit = m
			}
		}
		if d == "" && found != 1 {
			d = fmt.Sprintf("%d transaction groups appended to the WAL file by one flush", found)
		}
		if d == "" && (commit == nil || len(tg) < 8 || commit.TGID != int64(binary.LittleEndian.Uint64(tg))) {
			d = "no commit-complete message with the group's id follows the group in the WAL file"
		}
	}
	e.res.Count("wal_file_lookups", 1)
	if d != "" {
		e.violation(kind+": "+d, witness(d))
	}
}

func (e *c28env) syncWALPos() {
	if st, err := os.Stat(e.inst.WAL.FilePtr.Name()); err == nil {
		e.walPos = st.Size()
	}
}

// describe a write for samples / witnesses
func c28describe(ws []*c28rows) interface{} {
	var out []interface{}
	for _, w := range ws {
		var sch []string
		for i, n := range w.b.names {
			if i >= 8 {
				sch = append(sch, fmt.Sprintf("... %d further columns", len(w.b.names)))
				break
			}
			sch = append(sch, fmt.Sprintf("%s(%d bytes):%s", trunc(n, 20), len(n), wtypes[w.b.types[i]].Str))
		}
		ep := w.epoch
		if len(ep) > 6 {
			ep = ep[:6]
		}
		out = append(out, map[string]interface{}{"bucket": trunc(w.b.item, 80), "bucket_key_bytes": len(w.b.item), "variable": w.b.variable,
			"columns_besides_epoch": len(w.b.names), "schema": sch, "rows": len(w.epoch), "first_epochs": ep})
	}
	return out
}

// write performs one WriteCSM call and judges the resulting group. Returns whether it was accepted.
func (e *c28env) write(kind string, ws []*c28rows, exact bool) bool {
	res := e.res
	csm := io.NewColumnSeriesMap()
	var want []c28cmd
	rows := 0
	for _, w := range ws {
		var tbk *io.TimeBucketKey
		if w.b.cat != "" {
			tbk = io.NewTimeBucketKey(w.b.item, w.b.cat)
		} else {
			tbk = io.NewTimeBucketKey(w.b.item)
		}
		csm.AddColumnSeries(*tbk, w.series())
		ex := w.expect()
		if len(ex) > 0 && ex[0].Path != ex[len(ex)-1].Path {
			res.Count("writes_crossing_a_year", 1)
		}
		want = append(want, ex...)
		rows += len(w.epoch)
	}
	e.snd.tgs = nil
	var err error
	pan := ms.Recover(func() { err = e.inst.W.WriteCSM(csm, ws[0].b.variable) })
	res.Count("writes", 1)
	if pan != "" || err != nil {
		reason := pan
		if err != nil {
			reason = err.Error()
		}
		res.Count("writes_rejected", 1)
		res.Count("rejected_"+kind, 1)
		res.Set("rejections", kind+": "+trunc(reason, 90))
		// whatever was queued before the rejection is flushed and dropped
		ms.Recover(func() { e.inst.WAL.RequestFlush() })
		e.snd.tgs = nil
		e.syncWALPos()
		return false
	}
	res.Count("writes_accepted", 1)
	res.Count("accepted_"+kind, 1)
	res.Count("rows_written", int64(rows))
	wit := func(diff string) interface{} {
		return map[string]interface{}{"stratum": kind, "write": c28describe(ws), "difference": diff}
	}
	if rows == 0 {
		if len(e.snd.tgs) != 0 {
			e.violation(kind+": a write without rows produced a transaction group", wit(""))
		}
		return true
	}
	if len(e.snd.tgs) != 1 {
		e.violation(fmt.Sprintf("%s: an accepted write of %d rows produced %d transaction groups", kind, rows, len(e.snd.tgs)), wit(""))
		e.syncWALPos()
		return true
	}
	tg := e.snd.tgs[0]
	e.judge(kind, tg, want, exact, wit)
	e.checkWALFile(kind, tg, wit)
	return true
}

// ---------------------------------------------------------------------------------------------
// generators

func c28padName(r *gen.R, nbytes int, used map[string]bool) string {
	for {
		prefix := ""
		if nbytes > 8 && r.P(1, 2) {
			prefix = genName(r, 6, map[string]bool{})
			if len(prefix) > nbytes {
				prefix = ""
			}
		}
		var sb strings.Builder
		sb.WriteString(prefix)
		for sb.Len() < nbytes {
			sb.WriteByte("abcdefghijklmnopqrstuvwxyz0123456789"[r.Intn(36)])
		}
		s := sb.String()
		if used[s] || strings.EqualFold(s, "Epoch") || strings.EqualFold(s, "Nanoseconds") {
			continue
		}
		used[s] = true
		return s
	}
}

var c28symAlpha = "ABCDEFGHIJKLMNOPQRSTUVWXYZ0123456789"

func c28sym(r *gen.R, n int) string {
	var sb strings.Builder
	for i := 0; i < n; i++ {
		sb.WriteByte(c28symAlpha[r.Intn(len(c28symAlpha))])
	}
	return sb.String()
}

func c28start(r *gen.R, tf c28tf) time.Time {
	year := 2018 + r.Intn(5)
	t := time.Date(year, 1, 2, 0, 0, 0, 0, time.UTC).Add(time.Duration(r.Intn(300)) * 24 * time.Hour)
	if r.P(1, 5) { // close to the end of the year: the write continues in next year's file
		t = time.Date(year, 12, 31, 0, 0, 0, 0, time.UTC).Add(-tf.d * time.Duration(r.Range(0, 3)))
		if tf.d < 24*time.Hour {
			t = time.Date(year+1, 1, 1, 0, 0, 0, 0, time.UTC).Add(-tf.d * time.Duration(r.Range(1, 4)))
		}
	}
	return t.Add(tf.d * time.Duration(r.Intn(int(24*time.Hour/tf.d)))).Truncate(tf.d)
}

func c28newBucket(r *gen.R, n int, nameBytes func(i int) int, ncols int, variable bool, tf c28tf) *c28bucket {
	b := &c28bucket{tf: tf, variable: variable, rewrite: true}
	b.item = fmt.Sprintf("%s%d/%s/%s", c28sym(r, r.Range(1, 6)), n, tf.name, r.PickS("OHLCV", "TICK", "Q", "属性"))
	used := map[string]bool{}
	for i := 0; i < ncols; i++ {
		var nm string
		if nb := nameBytes(i); nb > 0 {
			nm = c28padName(r, nb, used)
		} else {
			nm = genName(r, 10, used)
		}
		if len(nm) > 32 {
			b.rewrite = false
		}
		b.names = append(b.names, nm)
		b.types = append(b.types, r.Intn(len(wtypes)))
	}
	b.next = c28start(r, tf)
	return b
}

// destroy removes a bucket through the real Destroy handler.
func (e *c28env) destroy(key string) bool {
	var resp frontend.MultiServerResponse
	p := ms.Recover(func() {
		e.inst.DS.Destroy(nil, &frontend.MultiKeyRequest{Requests: []frontend.KeyRequest{{Key: key}}}, &resp)
	})
	return p == "" && len(resp.Responses) > 0 && resp.Responses[0].Error == ""
}

// ---- stratum real: ordinary writes, every trigger avoided
func (e *c28env) runReal(r *gen.R) {
	var pool []*c28bucket
	nw := r.Range(30, 50)
	for i := 0; i < nw; i++ {
		variable := r.P(2, 5)
		var ws []*c28rows
		nb := 1
		if r.P(1, 4) {
			nb = r.Range(2, 4) // several buckets in one WriteCSM => several files in one group
		}
		// now and then a bucket is destroyed and written again under the same key with other columns
		// (and possibly the other record type): the group must carry the schema of the new write
		var reborn *c28bucket
		if len(pool) > 0 && r.P(1, 5) {
			pi := r.Intn(len(pool))
			old := pool[pi]
			if old.cat == "" && e.destroy(old.item) {
				ncols := r.Intn(9)
				reborn = c28newBucket(r, 0, func(int) int { return 0 }, ncols, variable, old.tf)
				reborn.item = old.item
				pool[pi] = reborn
				e.res.Count("buckets_destroyed_and_written_again", 1)
			}
		}
		for k := 0; k < nb; k++ {
			var b *c28bucket
			if k == 0 && reborn != nil {
				b = reborn
			}
			// rewrite an existing bucket of the same record type?
			if b == nil && len(pool) > 0 && r.P(1, 3) {
				cand := pool[r.Intn(len(pool))]
				dup := false
				for _, w := range ws {
					dup = dup || w.b == cand
				}
				if cand.variable == variable && cand.rewrite && !dup {
					b = cand
				}
			}
			if b == nil {
				ncols := r.Intn(13)
				if r.P(1, 10) {
					ncols = 0 // Epoch only: empty payload
				}
				tf := c28tfs[r.Intn(len(c28tfs))]
				if ncols > 6 {
					tf = c28tfs[r.Intn(2)]
				}
				long := r.P(1, 6)
				b = c28newBucket(r, len(pool)*10+k+i*100, func(int) int {
					if long && r.P(1, 2) {
						return r.Range(33, 255)
					}
					return 0
				}, ncols, variable, tf)
				pool = append(pool, b)
			}
			rows := r.Range(1, 30)
			if r.P(1, 20) {
				rows = 0
			}
			ws = append(ws, c28genRows(r, b, rows))
		}
		e.write("real", ws, false)
		if i == 0 && e.c.Case < 40 && e.res.Sample == nil {
			e.res.Sample = map[string]interface{}{"stratum": "real", "first_write": c28describe(ws), "writes_in_case": nw}
		}
	}
}

// ---- stratum edge: boundaries the write path accepts (still no trigger)
func (e *c28env) runEdge(r *gen.R, sub int) string {
	switch sub % 7 {
	case 6: // an empty column name, names made of multi-byte runes only
		for i := 0; i < 4; i++ {
			b := c28newBucket(r, i, func(int) int { return 0 }, 3, i%2 == 1, c28tfs[r.Intn(2)])
			b.names[i%3] = ""
			b.names[(i+1)%3] = []string{"価格", "объём", "📈", "é"}[i]
			if b.names[(i+2)%3] == b.names[(i+1)%3] { // keep the names distinct (AddColumn renames duplicates)
				b.names[(i+2)%3] += "二"
			}
			e.write("emptyname", []*c28rows{c28genRows(r, b, r.Range(1, 4))}, false)
		}
		return "emptyname"
	case 0: // names of exactly 255 bytes
		for i := 0; i < 4; i++ {
			pos := r.Intn(3)
			b := c28newBucket(r, i, func(k int) int {
				if k == pos {
					return 255
				}
				return r.PickI(0, 0, 254, 255, 128)
			}, 3, i%2 == 1, c28tfs[0])
			e.write("name255", []*c28rows{c28genRows(r, b, r.Range(1, 4))}, false)
		}
		return "name255"
	case 1: // 254 further columns = 255 data shapes
		for i := 0; i < 2; i++ {
			b := c28newBucket(r, i, func(int) int { return 0 }, 254, i%2 == 1, c28tfs[0])
			e.write("cols254", []*c28rows{c28genRows(r, b, r.Range(1, 3))}, false)
		}
		return "cols254"
	case 2: // Epoch-only schema: commands with an empty payload
		for i := 0; i < 4; i++ {
			b := c28newBucket(r, i, func(int) int { return 0 }, 0, false, c28tfs[r.Intn(len(c28tfs))])
			e.write("emptypayload", []*c28rows{c28genRows(r, b, r.Range(1, 20))}, false)
		}
		return "emptypayload"
	case 3: // one command with more than 1 MB of payload (variable bucket, all rows in one day)
		b := c28newBucket(r, 0, func(int) int { return 0 }, 1, true, c28tfs[0])
		b.types[0] = 10 // STRING16: 64 + 4 bytes per record
		n := 16000 + r.Intn(500)
		w := &c28rows{b: b}
		t := b.next
		for i := 0; i < n; i++ {
			t = t.Add(time.Duration(1+r.Intn(4000000)) * time.Nanosecond)
			w.epoch = append(w.epoch, t.Unix())
			w.nanos = append(w.nanos, int32(t.Nanosecond()))
		}
		w.cols = []interface{}{genCol(r, 10, n)}
		e.write("bigpayload", []*c28rows{w}, false)
		return "bigpayload"
	case 4: // key path close to PATH_MAX
		room := 4050 - len(e.inst.Root) - len("/1D/ATTR/2020.bin") - len("/category_name")
		var items, cats []string
		cats = append(cats, "Symbol")
		lvl := 0
		for room > 0 {
			n := 250
			if n > room-1 {
				n = room - 1
			}
			if n <= 0 {
				break
			}
			items = append(items, c28sym(r, n))
			if lvl > 0 {
				cats = append(cats, fmt.Sprintf("Level%d", lvl))
			}
			lvl++
			room -= n + 1
		}
		b := &c28bucket{tf: c28tfs[0], names: []string{"px"}, types: []int{8}}
		b.item = strings.Join(items, "/") + "/1D/ATTR"
		b.cat = strings.Join(cats, "/") + "/Timeframe/AttributeGroup"
		b.next = c28start(r, b.tf)
		e.write("longpath", []*c28rows{c28genRows(r, b, r.Range(2, 5))}, false)
		e.res.Set("longest_key_path_bytes", strconv.Itoa(len(b.item)+len("/2020.bin")))
		// a plain long symbol / attribute group as well
		b2 := &c28bucket{tf: c28tfs[0], names: []string{"px"}, types: []int{9}, variable: true}
		b2.item = c28sym(r, 255) + "/1D/" + c28sym(r, 255)
		b2.next = c28start(r, b2.tf)
		e.write("longpath", []*c28rows{c28genRows(r, b2, r.Range(2, 5))}, false)
		return "longpath"
	default: // thousands of commands in one group
		b := c28newBucket(r, 0, func(int) int { return 0 }, 2, false, c28tfs[4])
		b.next = time.Date(2021, 3, 1, 0, 0, 0, 0, time.UTC)
		e.write("manycommands", []*c28rows{c28genRows(r, b, 2500+r.Intn(1000))}, false)
		return "manycommands"
	}
}

// ---- stratum aim: writes that overflow the one-byte counters (F-DSVLEN)
func (e *c28env) runAim(r *gen.R, sub int) string {
	kind := ""
	var b *c28bucket
	switch sub % 8 {
	case 0, 1, 2, 3:
		nb := []int{256, 300, 512, 1000}[sub%4]
		kind = fmt.Sprintf("name%d", nb)
		ncols := r.Range(1, 4)
		pos := r.Intn(ncols)
		b = c28newBucket(r, sub, func(k int) int {
			if k == pos {
				return nb
			}
			return 0
		}, ncols, r.Bool(), c28tfs[0])
	default:
		nc := []int{255, 256, 300, 511}[sub%4]
		kind = fmt.Sprintf("cols%d", nc)
		b = c28newBucket(r, sub, func(int) int { return 0 }, nc, r.Bool(), c28tfs[0])
		for i := range b.types { // keep the record small
			b.types[i] = r.PickI(0, 1, 4, 5)
		}
	}
	// first a group with one command, then (new bucket, same shape) a group with several commands
	e.write(kind, []*c28rows{c28genRows(r, b, 1)}, true)
	b2 := *b
	b2.item = "Z" + b.item
	b2.next = c28start(r, b2.tf)
	b2.variable = false
	e.write(kind, []*c28rows{c28genRows(r, &b2, r.Range(2, 4))}, true)
	return kind
}

// ---- stratum hand: hand-built commands inside the envelope the write path produces
func (e *c28env) runHand(r *gen.R) {
	ntg := r.Range(20, 32)
	for g := 0; g < ntg; g++ {
		nc := r.Range(1, 12)
		if r.P(1, 8) {
			nc = r.Range(30, 120)
		}
		var want []c28cmd
		var cmds []*wal.WriteCommand
		for i := 0; i < nc; i++ {
			var c c28cmd
			// path
			plen := r.PickI(1, 5, 20, 40, 80, 200, 600)
			if r.P(1, 25) {
				plen = r.Range(1000, 3900)
			}
			var parts []string
			total := 0
			for total < plen {
				n := r.Range(1, 40)
				if n > 250 {
					n = 250
				}
				p := c28sym(r, n)
				if r.P(1, 6) {
					p = r.PickS("株", "ÄÖ", "цена", "a b", "x.y") + p
				}
				parts = append(parts, p)
				total += len(p) + 1
			}
			c.Path = "hb/" + strings.Join(parts, "/") + "/" + strconv.Itoa(1970+r.Intn(200)) + ".bin"
			// schema: Epoch + 0..254 columns, names of 0..255 bytes
			ncol := r.Intn(8)
			if r.P(1, 12) {
				ncol = r.PickI(100, 253, 254)
			}
			c.Shapes = []c28shape{{"Epoch", byte(io.INT64)}}
			used := map[string]bool{}
			sum := 0
			for k := 0; k < ncol; k++ {
				var nm string
				switch r.Intn(8) {
				case 0:
					nm = c28padName(r, r.PickI(32, 33, 254, 255), used)
				case 1:
					nm = c28padName(r, r.Range(1, 255), used)
				default:
					nm = genName(r, 12, used)
				}
				if k == 0 && r.P(1, 30) {
					nm = "" // an empty column name is accepted by the write path as well
				}
				ti := r.Intn(len(wtypes))
				sum += wtypes[ti].Size
				c.Shapes = append(c.Shapes, c28shape{nm, byte(wtypes[ti].T)})
			}
			recLen := 8 + (sum+7)/8*8
			payloadRec := sum
			if r.P(2, 5) {
				c.RecordType = int8(io.VARIABLE)
				c.VarRecLen = int32(sum + 4)
				recLen = 24
				payloadRec = sum + 4
			}
			c.Index = r.PickI64(0, 1, 2, 366, 525600, 31622400, int64(r.Intn(1<<25)), int64(r.Intn(1<<25)))
			c.Offset = r.PickI64(io.Headersize, io.IndexToOffset(c.Index, int32(recLen)), 1<<31-1, 1<<31, 1<<32, 1<<40+12345, r.I64n(1<<41))
			if c.Offset < 0 {
				c.Offset = io.Headersize
			}
			nrec := 1
			if c.RecordType == int8(io.VARIABLE) {
				nrec = r.Range(1, 40)
			}
			plenBytes := payloadRec * nrec
			if r.P(1, 60) {
				plenBytes = 1<<20 + r.Intn(4096)
			}
			c.Payload = make([]byte, plenBytes)
			for k := 0; k+8 <= len(c.Payload); k += 8 {
				binary.LittleEndian.PutUint64(c.Payload[k:], r.U64())
			}
			for k := len(c.Payload) &^ 7; k < len(c.Payload); k++ {
				c.Payload[k] = byte(r.U64())
			}
			want = append(want, c)
			var dsv []io.DataShape
			for _, s := range c.Shapes {
				dsv = append(dsv, io.DataShape{Name: s.Name, Type: io.EnumElementType(s.Type)})
			}
			cmds = append(cmds, e.inst.WAL.WriteCommand(io.EnumRecordType(c.RecordType), filepath.Join(e.inst.Root, c.Path), int(c.VarRecLen), c.Offset, c.Index, c.Payload, dsv))
		}
		e.snd.tgs = nil
		var err error
		pan := ms.Recover(func() { err = e.inst.WAL.FlushCommandsToWAL(cmds) })
		wit := func(diff string) interface{} {
			var l []interface{}
			for i, c := range want {
				if i >= 6 {
					l = append(l, fmt.Sprintf("... %d commands", len(want)))
					break
				}
				l = append(l, map[string]interface{}{"record_type": c.RecordType, "path": trunc(c.Path, 80), "path_bytes": len(c.Path), "var_rec_len": c.VarRecLen,
					"offset": c.Offset, "index": c.Index, "payload_bytes": len(c.Payload), "schema": c28shapeStr(c.Shapes)})
			}
			return map[string]interface{}{"stratum": "hand", "commands": l, "difference": diff}
		}
		if pan != "" || err != nil {
			e.violation(fmt.Sprintf("hand: FlushCommandsToWAL failed on commands of the kind the write path produces: %s %v", pan, err), wit(""))
			e.syncWALPos()
			continue
		}
		if len(e.snd.tgs) != 1 {
			e.violation(fmt.Sprintf("hand: one flush produced %d transaction groups", len(e.snd.tgs)), wit(""))
			e.syncWALPos()
			continue
		}
		e.judge("hand", e.snd.tgs[0], want, true, wit)
		e.checkWALFile("hand", e.snd.tgs[0], wit)
		if g == 0 && e.c.Case < 40 && e.res.Sample == nil {
			e.res.Sample = wit("")
		}
	}
}

// case layout: case%10 in 0..5 real, 6 edge, 7 aim, 8..9 hand
func c28run(c *runner.Ctx) runner.Result {
	var res runner.Result
	ms.Quiet()
	e := &c28env{c: c, res: &res, snd: &c28sender{}}
	root := filepath.Join(c.Scratch, "r")
	ms.MustMkdir(root)
	if p := ms.Recover(func() { e.inst = ms.Open(root, ms.Opts{}) }); p != "" || e.inst == nil {
		res.Inconclusive("cannot open an instance: " + p)
		return res
	}
	e.inst.WAL.ReplicationSender = e.snd
	e.syncWALPos()
	r := c.R("writes")
	kind := ""
	switch m := c.Case % 10; {
	case m <= 5:
		kind = "real"
		e.runReal(r)
	case m == 6:
		kind = "edge/" + e.runEdge(r, c.Case/10)
	case m == 7:
		kind = "aim/" + e.runAim(r, c.Case/10)
	default:
		kind = "hand"
		e.runHand(r)
	}
	// release the instance: Shutdown closes the trigger dispatcher's channel so that its goroutine
	// (and the three 1,000,000-slot channels it keeps alive) can be collected
	done := make(chan struct{})
	go func() { ms.Recover(func() { e.inst.WAL.Shutdown() }); close(done) }()
	select {
	case <-done:
	case <-time.After(30 * time.Second):
	}
	res.Evals = res.Counts["tgs_judged"]
	if res.Counts["tgs_judged"] > 0 {
		// shape of the case: stratum, number of groups class, largest group class
		res.Sig = fmt.Sprintf("%s/tgs=%s/cmds=%s/bytes=2^%d", kind, rowBucket(int(res.Counts["tgs_judged"])), rowBucket(int(res.Counts["commands_compared"])), bitLen(res.Counts["tg_bytes"]))
	}
	if e.bad > 0 {
		res.Violation(fmt.Sprintf("%d accepted writes do not decode from the WAL to what was written; first: %s", e.bad, e.first), e.firstW)
	}
	if e.known > 0 {
		res.Known("F-DSVLEN", fmt.Sprintf("%d accepted writes carry a schema that does not fit the one-byte counters and do not decode to what was written; first: %s", e.known, e.firstK), e.firstKW)
	}
	return res
}

func bitLen(v int64) int {
	n := 0
	for v > 0 {
		n++
		v >>= 1
	}
	return n
}

func c28cases(tier string) int {
	if tier == "thorough" {
		return 1500
	}
	return 80
}

func init() {
	register(&runner.Monitor{
		ID:    "C28",
		Level: "exploration",
		Rule: "a case opens a real instance on a scratch root with a capturing replication sender; case%10 in 0..5: 30-50 WriteCSM calls (1-4 buckets each, fixed and variable, 0-12 further columns over the 11 element types, names up to 255 bytes, 0-30 rows, year crossings, rewrites of existing buckets); 6: one accepted boundary (names of 255 bytes, an empty name, 254 further columns, Epoch-only schema = empty payload, >1 MB payload, key path near PATH_MAX, 2500+ commands in a group); 7: writes whose schema overflows a one-byte counter (names of 256/300/512/1000 bytes, 255/256/300/511 further columns), single and multi-command groups; 8..9: 20-32 groups of 1-120 hand-built commands flushed with FlushCommandsToWAL (paths 1-3900 bytes, offsets up to 2^41, 0-254 further columns, names 0-255 bytes, payloads 0 bytes-1 MB); " +
			"every captured group is decoded by ParseTGData and by an independent decoder and looked up in the WAL file; quick 80 cases, thorough 1500; a case is non-trivial when at least one group was judged, distinct by (stratum/sub-kind, groups class, commands class, log2 of the bytes)",
		Assumptions: []string{
			"index, offset and interval ticks of a written row are taken from io.TimeToIndex / io.IndexToOffset / io.GetIntervalTicks32Bit (properties C08, C10, C30 judge those); everything else of the original command is computed by the monitor",
			"rows are written in non-decreasing time order, fixed-length rows in distinct intervals, never into the 1D slot of 1 January (F-JAN1 / F-PREVYEAR belong to C08)",
			"the transaction-group layout is the little-endian layout of docs/design/durable_writes_design.txt completed by the field list of the property (see c28dec.go); a deliberate change of the on-disk layout needs the independent decoder to be updated",
			"instance timezone UTC",
		},
		Cases:        c28cases,
		Batch:        5,
		ChildEnv:     []string{"GOGC=off", "GOMEMLIMIT=512MiB"}, // every instance owns ~60 MB of channel buffers that each GC cycle scans: collect only when needed
		Run:          c28run,
		Need:         []string{"tgs_judged", "tgs_real", "tgs_hand", "wal_file_lookups", "writes_accepted", "commands_compared"},
		MinDistinct:  8,
		BatchTimeout: 20 * time.Minute,
		// thorough: every 37th case (at most 90) is repeated under the AddressSanitizer build
		Post: asanPost(asanEvery(37, 90)),
	})
}
