// fschild: serves a list of requests with client-supplied bucket keys through the real request
// handlers (DataService.Create/Write/Query/GetInfo/Destroy, SQL). Run under strace by fsguard.
// usage: fschild <root> <requests.json> <markerfile>
package main

import (
	"encoding/json"
	"fmt"
	"os"
	"time"

	"github.com/alpacahq/marketstore/v4/frontend"
	"github.com/alpacahq/marketstore/v4/utils/io"
	"github.com/alpacahq/marketstore/v4/verif/internal/ms"
)

type request struct {
	Kind string `json:"kind"` // create | write | query | getinfo | destroy | sqlselect | sqlinsert
	Key  string `json:"key"`  // item key, optionally ":category key"
}

func main() {
	root, reqPath, markPath := os.Args[1], os.Args[2], os.Args[3]
	b, err := os.ReadFile(reqPath)
	if err != nil {
		fmt.Fprintln(os.Stderr, err)
		os.Exit(64)
	}
	var reqs []request
	if err := json.Unmarshal(b, &reqs); err != nil {
		fmt.Fprintln(os.Stderr, err)
		os.Exit(64)
	}
	mf, err := os.OpenFile(markPath, os.O_CREATE|os.O_WRONLY|os.O_APPEND, 0o644)
	if err != nil {
		os.Exit(64)
	}
	ms.Quiet()
	in := ms.Open(root, ms.Opts{SetGlobalInstance: true})
	// one legitimate bucket to SELECT from / INSERT from
	in.Write("SRC/1Min/OHLC", ms.CS([]int64{time.Date(2020, 3, 1, 10, 0, 0, 0, time.UTC).Unix()}, ms.Col{Name: "Open", Data: []float32{1}}), false)
	for i, rq := range reqs {
		fmt.Fprintf(mf, "REQ %d\n", i)
		outcome := "ok"
		p := ms.Recover(func() {
			switch rq.Kind {
			case "create":
				var resp frontend.MultiServerResponse
				key := rq.Key
				in.DS.Create(nil, &frontend.MultiCreateRequest{Requests: []frontend.CreateRequest{{Key: key, ColumnNames: []string{"Open"}, ColumnTypes: []string{"f4"}}}}, &resp)
				if len(resp.Responses) > 0 && resp.Responses[0].Error != "" {
					outcome = "err"
				}
			case "write":
				tbk := io.NewTimeBucketKeyFromString(rq.Key)
				csm := io.NewColumnSeriesMap()
				csm.AddColumnSeries(*tbk, ms.CS([]int64{time.Date(2020, 3, 1, 10, 0, 0, 0, time.UTC).Unix()}, ms.Col{Name: "Open", Data: []float32{2}}))
				if err := in.W.WriteCSM(csm, false); err != nil {
					outcome = "err"
				}
			case "query":
				var resp frontend.MultiQueryResponse
				if err := in.DS.Query(nil, &frontend.MultiQueryRequest{Requests: []frontend.QueryRequest{{Destination: rq.Key}}}, &resp); err != nil {
					outcome = "err"
				}
			case "getinfo":
				var resp frontend.MultiGetInfoResponse
				in.DS.GetInfo(nil, &frontend.MultiKeyRequest{Requests: []frontend.KeyRequest{{Key: rq.Key}}}, &resp)
			case "destroy":
				var resp frontend.MultiServerResponse
				in.DS.Destroy(nil, &frontend.MultiKeyRequest{Requests: []frontend.KeyRequest{{Key: rq.Key}}}, &resp)
				if len(resp.Responses) > 0 && resp.Responses[0].Error != "" {
					outcome = "err"
				}
			case "sqlselect":
				var resp frontend.MultiQueryResponse
				if err := in.DS.Query(nil, &frontend.MultiQueryRequest{Requests: []frontend.QueryRequest{{IsSQLStatement: true, SQLStatement: "SELECT * FROM `" + rq.Key + "`;"}}}, &resp); err != nil {
					outcome = "err"
				}
			case "sqlinsert":
				var resp frontend.MultiQueryResponse
				if err := in.DS.Query(nil, &frontend.MultiQueryRequest{Requests: []frontend.QueryRequest{{IsSQLStatement: true, SQLStatement: "INSERT INTO `" + rq.Key + "` SELECT * FROM `SRC/1Min/OHLC`;"}}}, &resp); err != nil {
					outcome = "err"
				}
			}
		})
		if p != "" {
			outcome = "panic"
		}
		fmt.Fprintf(mf, "DONE %d %s\n", i, outcome)
	}
	fmt.Fprintf(mf, "END\n")
	os.Exit(0)
}
