// recchild: the real start-up on a (crash-state) root directory, then a dump of everything.
// usage: recchild <root> <out.json> [battery]
// Exit 0 with out.json written = start-up succeeded. A panic / log.Fatal ends the process with its
// own status; the parent captures stderr/stdout.
package main

import (
	"fmt"
	"os"

	"github.com/alpacahq/marketstore/v4/verif/internal/dump"
	"github.com/alpacahq/marketstore/v4/verif/internal/hist"
	"github.com/alpacahq/marketstore/v4/verif/internal/ms"
)

func main() {
	if len(os.Args) < 3 {
		fmt.Fprintln(os.Stderr, "usage: recchild <root> <out.json> [battery]")
		os.Exit(64)
	}
	ms.Quiet()
	in := ms.Open(os.Args[1], ms.Opts{})
	d := dump.All(in, len(os.Args) > 3 && os.Args[3] == "battery")
	d.Stage = "recovered"
	if err := hist.WriteJSON(os.Args[2], d); err != nil {
		fmt.Fprintln(os.Stderr, "cannot write dump:", err)
		os.Exit(65)
	}
	os.Exit(0)
}
