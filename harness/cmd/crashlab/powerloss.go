package main

import (
	"fmt"
	"sort"

	"github.com/alpacahq/marketstore/v4/verif/internal/gen"
	sp "github.com/alpacahq/marketstore/v4/verif/internal/straceparse"
)

// Power-loss model (C04, C03): at crash prefix k, a write is volatile if neither an fsync of its file
// nor a global sync completed after it inside the prefix. Volatile data may be lost or torn; metadata
// (create, mkdir, rename, unlink, truncate-to-size) is treated as ordered and durable. A lost write
// that extended its file is explored both ways: the extension vanishes with the data, or the size
// survives and the bytes read as zeros.

func volatileWrites(rec *Recording, k int) []int {
	var out []int
	synced := map[string]bool{} // walking backwards: path fsynced later
	all := false
	for j := k - 1; j >= 0; j-- {
		e := rec.Log.Effects[j]
		switch e.Kind {
		case sp.SyncAll:
			all = true
		case sp.Fsync:
			synced[e.Path] = true
		case sp.Write:
			if !all && !synced[e.Path] {
				out = append(out, j)
			}
		}
		if all {
			break
		}
	}
	sort.Ints(out)
	return out
}

type plVariant struct {
	mods  map[int]*mod
	label string
}

// lossVariants enumerates a bounded set of loss / tear patterns over the volatile writes of prefix k.
func lossVariants(rec *Recording, k int, r *gen.R, budget int) []plVariant {
	vol := volatileWrites(rec, k)
	if len(vol) == 0 {
		return nil
	}
	var out []plVariant
	add := func(label string, mods map[int]*mod) {
		out = append(out, plVariant{mods: mods, label: label})
	}
	byFile := map[string][]int{}
	for _, j := range vol {
		p := rec.Log.Effects[j].Path
		byFile[p] = append(byFile[p], j)
	}
	var files []string
	for p := range byFile {
		files = append(files, p)
	}
	sort.Strings(files)
	for _, ks := range []bool{false, true} {
		m := map[int]*mod{}
		for _, j := range vol {
			m[j] = &mod{drop: true, keepSize: ks}
		}
		add(fmt.Sprintf(" +power loss: all %d volatile writes lost (size kept=%v)", len(vol), ks), m)
	}
	for fi, p := range files {
		ks := fi%2 == 1
		m := map[int]*mod{}
		for _, j := range byFile[p] {
			m[j] = &mod{drop: true, keepSize: ks}
		}
		add(fmt.Sprintf(" +power loss: all %d volatile writes of %s lost (size kept=%v)", len(byFile[p]), p, ks), m)
		// time-prefix survives: cut points
		js := byFile[p]
		if len(js) > 1 {
			cuts := []int{1, len(js) / 2, len(js) - 1}
			seen := map[int]bool{}
			for ci, c := range cuts {
				if c <= 0 || c >= len(js) || seen[c] {
					continue
				}
				seen[c] = true
				m := map[int]*mod{}
				for _, j := range js[c:] {
					m[j] = &mod{drop: true, keepSize: (ci+fi)%2 == 0}
				}
				add(fmt.Sprintf(" +power loss: only the first %d of %d volatile writes of %s survive (size kept=%v)", c, len(js), p, (ci+fi)%2 == 0), m)
			}
		}
	}
	// single write dropped while later ones survive (reordering), single write torn
	nDrop, nTear := 6, 4
	perm := r.Perm(len(vol))
	for i := 0; i < len(perm) && i < nDrop; i++ {
		j := vol[perm[i]]
		ks := i%2 == 0
		add(fmt.Sprintf(" +power loss: volatile %s lost alone (size kept=%v)", rec.Log.Effects[j], ks), map[int]*mod{j: {drop: true, keepSize: ks}})
	}
	perm = r.Perm(len(vol))
	tn := 0
	for i := 0; i < len(perm) && tn < nTear; i++ {
		j := vol[perm[i]]
		n := len(rec.Log.Effects[j].Data)
		if n < 2 {
			continue
		}
		keep := n / 2
		if n > 1024 && tn%2 == 0 {
			keep = 512 * (1 + r.Intn(n/512))
			if keep >= n {
				keep = 512
			}
		}
		ks := tn%2 == 1
		add(fmt.Sprintf(" +power loss: volatile %s torn after %d bytes (size kept=%v)", rec.Log.Effects[j], keep, ks), map[int]*mod{j: {keep: keep, keepSize: ks}})
		tn++
	}
	if budget > 0 && len(out) > budget {
		// keep the systematic ones first, sample the rest
		out = out[:budget]
	}
	return out
}

// buildLossState re-walks the log up to k with the variant's modifications.
func buildLossState(rec *Recording, k int, v plVariant) *snap {
	w := newWalker(rec)
	for w.k < k {
		w.stepMod(v.mods[w.k])
	}
	s := w.snapshot()
	s.Label = v.label
	return s
}

// lossPoints chooses the prefixes at which loss variants are applied: just after every acknowledgement
// marker, just before every fsync of a WAL file (maximal volatile WAL data), before and after every global sync, after every
// WAL truncation, and the end of the log; thorough: every prefix ending in a mutating effect.
func lossPoints(rec *Recording, every bool) []int {
	n := len(rec.Log.Effects)
	set := map[int]bool{n: true}
	for i, e := range rec.Log.Effects {
		switch {
		case every && e.Mutating():
			set[i+1] = true
		case e.Kind == sp.Marker && len(e.Text) > 0 && e.Text[0] == 'A':
			set[i+1] = true
		case e.Kind == sp.Fsync && isWAL(e.Path):
			set[i] = true
			set[i+1] = true
		case e.Kind == sp.SyncAll:
			// just before the global sync the volatile set is maximal: everything the checkpoint is about
			// to declare durable is still losable
			set[i] = true
			set[i+1] = true
		case e.Kind == sp.Truncate && isWAL(e.Path):
			set[i+1] = true
		}
	}
	var out []int
	for k := range set {
		if k > 0 {
			out = append(out, k)
		}
	}
	sort.Ints(out)
	return out
}
