package main

// Independent decoder of the WAL file format (the judge's own; shares no code with /repo).
// Layout (little endian): message = MID(1) + body.
//   MID 0 TGDATA : TGLen(8) | TG[TGLen] | MD5(16) of (TGLen bytes + TG)
//        TG      : TGID(8) WTCount(8) then per write set:
//                  RecordType(1) FPLen(2) FilePath[FPLen] DataLen(4) VarRecLen(4) Offset(8) Index(8)
//                  Data[DataLen] DSVCount(1) { NameLen(1) Name Type(1) }*
//   MID 1 TXNINFO: TGID(8) Dest(1: 0 WAL, 1 CHECKPOINT) Status(1: 0 PREPARING, 2 COMMITCOMPLETE)
//   MID 2 STATUS : FileStatus(1) ReplayState(1) OwningID(8)

import (
	"crypto/md5"
	"encoding/binary"
	"fmt"
)

type walCmd struct {
	RecType   int
	Path      string
	DataLen   int
	VarRecLen int
	Offset    int64
	Index     int64
	Data      []byte
	Vs        []int64 // payload ids found in the data (column A of every record)
}

type walMsg struct {
	Kind     string // tg | txn | status | bad
	Pos, End int
	TGID     int64
	Dest     int
	Status   int
	Intact   bool // tg: length sane, body complete, checksum matches, body parses
	Cmds     []walCmd
	FileStat int
	Replay   int
	Err      string
}

func parseTGBody(b []byte) (tgid int64, cmds []walCmd, err error) {
	defer func() {
		if r := recover(); r != nil {
			err = fmt.Errorf("tg body malformed: %v", r)
		}
	}()
	tgid = int64(binary.LittleEndian.Uint64(b[0:8]))
	n := int(binary.LittleEndian.Uint64(b[8:16]))
	if n < 0 || n > len(b) {
		return tgid, nil, fmt.Errorf("write-set count %d out of range", n)
	}
	c := 16
	for i := 0; i < n; i++ {
		var w walCmd
		w.RecType = int(int8(b[c]))
		c++
		fpl := int(int16(binary.LittleEndian.Uint16(b[c:])))
		c += 2
		w.Path = string(b[c : c+fpl])
		c += fpl
		w.DataLen = int(int32(binary.LittleEndian.Uint32(b[c:])))
		c += 4
		w.VarRecLen = int(int32(binary.LittleEndian.Uint32(b[c:])))
		c += 4
		w.Offset = int64(binary.LittleEndian.Uint64(b[c:]))
		c += 8
		w.Index = int64(binary.LittleEndian.Uint64(b[c:]))
		c += 8
		w.Data = b[c : c+w.DataLen]
		c += w.DataLen
		nds := int(b[c])
		c++
		for k := 0; k < nds; k++ {
			nl := int(b[c])
			c += 1 + nl + 1
		}
		// payload ids: records are [A int64][B int64] (+ ticks uint32 for variable)
		rl := 16
		if w.RecType == 1 {
			rl = 20
		}
		for o := 0; o+rl <= len(w.Data); o += rl {
			w.Vs = append(w.Vs, int64(binary.LittleEndian.Uint64(w.Data[o:])))
		}
		cmds = append(cmds, w)
	}
	if c != len(b) {
		return tgid, cmds, fmt.Errorf("trailing %d bytes in TG body", len(b)-c)
	}
	return tgid, cmds, nil
}

// decodeWAL scans a WAL file image forward and stops at the first message that cannot be read.
func decodeWAL(b []byte) (msgs []walMsg) {
	p := 0
	for p < len(b) {
		m := walMsg{Pos: p}
		mid := b[p]
		switch mid {
		case 0:
			m.Kind = "tg"
			if p+9 > len(b) {
				m.Kind, m.Err = "bad", "short TG length"
				m.End = len(b)
				return append(msgs, m)
			}
			l := int64(binary.LittleEndian.Uint64(b[p+1:]))
			if l < 16 || l > int64(len(b)) || p+9+int(l)+16 > len(b) {
				m.Kind, m.Err = "bad", fmt.Sprintf("TG length %d does not fit", l)
				m.End = len(b)
				return append(msgs, m)
			}
			body := b[p+9 : p+9+int(l)]
			sum := md5.Sum(b[p+1 : p+9+int(l)])
			ck := b[p+9+int(l) : p+9+int(l)+16]
			m.End = p + 9 + int(l) + 16
			tgid, cmds, err := parseTGBody(body)
			m.TGID, m.Cmds = tgid, cmds
			m.Intact = err == nil && string(sum[:]) == string(ck)
			if err != nil {
				m.Err = err.Error()
			} else if !m.Intact {
				m.Err = "checksum mismatch"
			}
		case 1:
			m.Kind = "txn"
			if p+11 > len(b) {
				m.Kind, m.Err = "bad", "short TXNINFO"
				m.End = len(b)
				return append(msgs, m)
			}
			m.TGID = int64(binary.LittleEndian.Uint64(b[p+1:]))
			m.Dest = int(b[p+9])
			m.Status = int(b[p+10])
			m.End = p + 11
		case 2:
			m.Kind = "status"
			if p+11 > len(b) {
				m.Kind, m.Err = "bad", "short STATUS"
				m.End = len(b)
				return append(msgs, m)
			}
			m.FileStat = int(b[p+1])
			m.Replay = int(b[p+2])
			m.TGID = int64(binary.LittleEndian.Uint64(b[p+3:]))
			m.End = p + 11
		default:
			m.Kind, m.Err = "bad", fmt.Sprintf("unknown message id %d", mid)
			m.End = len(b)
			return append(msgs, m)
		}
		msgs = append(msgs, m)
		p = m.End
	}
	return msgs
}

// replayable returns the intact TGs not covered by a completed checkpoint record of the image (the
// transactions a correct recovery has to re-apply), in file order. Coverage is by transaction id: a
// completed checkpoint for T covers every transaction with id <= T (ids increase in commit order; a
// recovery appends its checkpoint records at the end of the file it replays).
func replayable(msgs []walMsg) []walMsg {
	var maxCk int64 = -1 << 62
	have := map[int64]bool{}
	for _, m := range msgs {
		if m.Kind == "tg" && m.Intact {
			have[m.TGID] = true
		}
	}
	for _, m := range msgs {
		if m.Kind == "txn" && m.Dest == 1 && m.Status == 2 && have[m.TGID] && m.TGID > maxCk {
			maxCk = m.TGID
		}
	}
	var out []walMsg
	for _, m := range msgs {
		if m.Kind == "tg" && m.Intact && m.TGID > maxCk {
			out = append(out, m)
		}
	}
	return out
}
