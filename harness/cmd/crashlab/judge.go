package main

import (
	"encoding/binary"
	"fmt"
	"sort"
	"strconv"
	"strings"
	"time"

	"github.com/alpacahq/marketstore/v4/verif/internal/hist"
	"github.com/alpacahq/marketstore/v4/verif/internal/runner"
	sp "github.com/alpacahq/marketstore/v4/verif/internal/straceparse"
)

const headerSize = 37024

// walker replays the effect list and keeps what the judge needs to know about a prefix.
type walker struct {
	rec *Recording
	k   int
	fs  *sp.FS
	// variable write commands whose index write has not happened yet, per primary file (FIFO)
	pend map[string][]*pcmd
	// V -> number of completed primary applications (index write done) before the crash
	applied map[int64]int
	// files with an in-place data write whose index write is still missing (F-CONT window)
	cont map[string]bool
	// variable-length files whose data/index writes were altered by a power-loss variant
	lossVar  map[string]bool
	lastWAL8 map[string]int64 // walfile -> value of the last 8-byte write (candidate TGLen)
	tgSeen   int
}

type pcmd struct {
	off int64
	vs  []int64
}

func newWalker(rec *Recording) *walker {
	return &walker{rec: rec, fs: sp.NewFS(), pend: map[string][]*pcmd{}, applied: map[int64]int{}, cont: map[string]bool{}, lossVar: map[string]bool{}, lastWAL8: map[string]int64{}}
}

func isWAL(p string) bool { return strings.Contains(p, ".walfile") }

// mod alters how one write effect reaches the tree (power-loss variants).
type mod struct {
	drop     bool // the write's data is lost
	keep     int  // torn: only the first keep bytes survive (used when !drop && keep >= 0)
	keepSize bool // the file size still grows as if the write had happened (missing bytes read as zeros)
}

// step applies effect k.
func (w *walker) step() { w.stepMod(nil) }

func (w *walker) stepMod(m *mod) {
	e := w.rec.Log.Effects[w.k]
	if e.Kind == sp.Write && m != nil {
		full := int64(len(e.Data))
		off := e.Off
		if strings.HasSuffix(e.Path, ".bin") && off >= headerSize {
			w.lossVar[e.Path] = true
		}
		f := w.fs.Files[e.Path]
		if f != nil {
			if off < 0 {
				off = f.Size
			}
			if !m.drop && m.keep >= 0 && m.keep < len(e.Data) {
				part := e
				part.Off = off
				part.Data = e.Data[:m.keep]
				w.fs.Apply(part)
			}
			if m.keepSize && off+full > f.Size {
				w.fs.Apply(sp.Effect{Kind: sp.Truncate, Path: e.Path, Size: off + full})
			}
		}
		w.k++
		return
	}
	if e.Kind == sp.Write {
		switch {
		case isWAL(e.Path):
			if len(e.Data) == 8 {
				w.lastWAL8[e.Path] = int64(binary.LittleEndian.Uint64(e.Data))
			} else if int64(len(e.Data)) == w.lastWAL8[e.Path] && len(e.Data) >= 16 {
				if _, cmds, err := parseTGBody(e.Data); err == nil {
					w.tgSeen++
					for _, c := range cmds {
						if c.RecType == 1 {
							w.pend[c.Path] = append(w.pend[c.Path], &pcmd{off: c.Offset, vs: c.Vs})
						}
					}
				}
				w.lastWAL8[e.Path] = -1
			}
		case strings.HasSuffix(e.Path, ".bin"):
			q := w.pend[e.Path]
			if len(q) > 0 {
				if len(e.Data) == 24 && e.Off == q[0].off {
					for _, v := range q[0].vs {
						w.applied[v]++
					}
					w.pend[e.Path] = q[1:]
					delete(w.cont, e.Path)
				} else if e.Off >= headerSize {
					// data write of the command at the head of the queue; in place = inside previously
					// written data (below the current end of the file)
					if f := w.fs.Files[e.Path]; f != nil && e.Off < f.Size {
						w.cont[e.Path] = true
					}
				}
			}
		}
	}
	w.fs.Apply(e)
	w.k++
}

// snap is the judge's view of a crash prefix.
type snap struct {
	K        int
	FS       *sp.FS
	Applied  map[int64]int
	Cont     []string
	HalfFile []string
	Label    string // variant label for power-loss states
}

func (w *walker) snapshot() *snap {
	s := &snap{K: w.k, FS: w.fs.Clone(), Applied: map[int64]int{}}
	for v, n := range w.applied {
		s.Applied[v] = n
	}
	for p := range w.cont {
		s.Cont = append(s.Cont, p)
	}
	for p := range w.lossVar {
		if !w.cont[p] {
			s.Cont = append(s.Cont, p)
		}
	}
	sort.Strings(s.Cont)
	s.scanHalf()
	return s
}

func (s *snap) scanHalf() {
	s.HalfFile = nil
	for p, f := range s.FS.Files {
		if strings.HasSuffix(p, ".bin") && f.Size < headerSize {
			s.HalfFile = append(s.HalfFile, p)
		}
	}
	sort.Strings(s.HalfFile)
}

// tgIntact reports whether the transaction is intact in one of the state's WAL files.
func (s *snap) tgIntact(tgid int64) bool {
	for _, msgs := range s.walImages() {
		for _, mm := range msgs {
			if mm.Kind == "tg" && mm.Intact && mm.TGID == tgid {
				return true
			}
		}
	}
	return false
}

// walImages returns the decoded WAL files of the state.
func (s *snap) walImages() map[string][]walMsg {
	out := map[string][]walMsg{}
	for p, f := range s.FS.Files {
		if isWAL(p) {
			out[p] = decodeWAL(f.Bytes(0, f.Size))
		}
	}
	return out
}

// replayedVs: payload ids a correct recovery re-applies from the state's WAL files (variable sets only).
func (s *snap) replayedVs() map[int64]int {
	out := map[int64]int{}
	for _, msgs := range s.walImages() {
		// a file whose status says "replayed" must not be replayed again
		if len(msgs) > 0 && msgs[0].Kind == "status" && msgs[0].Replay == 2 {
			continue
		}
		for _, tg := range replayable(msgs) {
			for _, c := range tg.Cmds {
				if c.RecType == 1 {
					for _, v := range c.Vs {
						out[v]++
					}
				}
			}
		}
	}
	return out
}

type slotKey struct {
	Key  string
	Slot int64 // interval start, unix seconds
}

type slotWrite struct {
	W     *winfo
	V     int64   // the request's last row for the interval
	Inter []int64 // earlier rows of the same request for the same interval (overwritten inside the request)
}

// model of the history: per fixed slot its writers in S order; per variable record its writer.
type model struct {
	rec    *Recording
	slots  map[slotKey][]slotWrite
	varRec map[int64]*winfo // V -> write (variable records)
	varKey map[int64]slotKey
	fixedV map[int64]bool
}

func buildModel(rec *Recording) *model {
	m := &model{rec: rec, slots: map[slotKey][]slotWrite{}, varRec: map[int64]*winfo{}, varKey: map[int64]slotKey{}, fixedV: map[int64]bool{}}
	ids := append([]int{}, rec.Order...)
	for _, id := range ids {
		w := rec.Writes[id]
		for _, b := range w.Step.Buckets {
			if w.Step.Variable {
				for _, r := range b.Rows {
					m.varRec[r.V] = w
					m.varKey[r.V] = slotKey{b.Key, hist.IntervalStart(b.Key, r.T)}
				}
				continue
			}
			// effective rows of this request: last row per slot
			last := map[int64]int64{}
			inter := map[int64][]int64{}
			var order []int64
			for _, r := range b.Rows {
				s := hist.IntervalStart(b.Key, r.T)
				if prev, ok := last[s]; !ok {
					order = append(order, s)
				} else {
					inter[s] = append(inter[s], prev)
				}
				last[s] = r.V
				m.fixedV[r.V] = true
			}
			for _, s := range order {
				k := slotKey{b.Key, s}
				m.slots[k] = append(m.slots[k], slotWrite{w, last[s], inter[s]})
			}
		}
	}
	return m
}

// walStopsAt returns the id of the first replayable transaction (in replay order) of the crash state's
// WAL that names a file which does not exist in the crash state, 0 if there is none.
func walStopsAt(s *snap) int64 {
	var stop int64
	for _, msgs := range s.walImages() {
		rp := replayable(msgs)
		sort.Slice(rp, func(i, j int) bool { return rp[i].TGID < rp[j].TGID })
	scan:
		for _, tg := range rp {
			for _, c := range tg.Cmds {
				if _, ok := s.FS.Files[c.Path]; !ok {
					if stop == 0 || tg.TGID < stop {
						stop = tg.TGID
					}
					break scan
				}
			}
		}
	}
	return stop
}

// walSkipAsIs models what a restart does to one fixed-length slot under F-WALSKIP: from = id of the
// transaction at which replay stops (0: the defect does not apply to this crash state); any/last = the
// payload the last replayed transaction (id < from) writes into the slot, if one does.
func walSkipAsIs(s *snap, sk slotKey) (from int64, last int64, any bool) {
	from = walStopsAt(s)
	if from == 0 {
		return 0, 0, false
	}
	tfSec := map[string]int64{"1Min": 60, "5Min": 300, "15Min": 900, "1H": 3600, "4H": 14400, "1D": 86400}
	var rp []walMsg
	for _, msgs := range s.walImages() {
		rp = append(rp, replayable(msgs)...)
	}
	sort.Slice(rp, func(i, j int) bool { return rp[i].TGID < rp[j].TGID })
	for _, tg := range rp {
		if tg.TGID >= from {
			break
		}
		for _, c := range tg.Cmds {
			parts := strings.Split(c.Path, "/")
			if c.RecType != 0 || len(parts) != 4 || strings.Join(parts[:3], "/") != sk.Key || len(c.Vs) == 0 {
				continue
			}
			year, err := strconv.Atoi(strings.TrimSuffix(parts[3], ".bin"))
			sec, ok := tfSec[parts[1]]
			if err != nil || !ok {
				continue
			}
			if time.Date(year, 1, 1, 0, 0, 0, 0, time.UTC).Unix()+(c.Index-1)*sec == sk.Slot {
				last, any = c.Vs[len(c.Vs)-1], true
			}
		}
	}
	return from, last, any
}

// destroyState: for bucket key at prefix k: (indeterminate: a Destroy is in flight; cutoff: effect position
// of the last acknowledged Destroy's start, writes started before it no longer count; -1 none).
func (m *model) destroyState(key string, k int) (indeterminate bool, cutoff int) {
	cutoff = -1
	for _, d := range m.rec.Destroys[key] {
		if d[0] >= k {
			continue
		}
		if d[1] < 0 || d[1] >= k {
			return true, cutoff
		}
		cutoff = d[1]
	}
	return false, cutoff
}

func (m *model) acked(w *winfo, k int) bool    { return w.A >= 0 && w.A < k }
func (m *model) started(w *winfo, k int) bool  { return w.S >= 0 && w.S < k }
func (m *model) inflight(w *winfo, k int) bool { return m.started(w, k) && !m.acked(w, k) }

type verdict struct {
	C01, C02, C03 []runner.Issue
	Checked       map[string]int64
}

func (v *verdict) add(list *[]runner.Issue, status, finding, detail string) {
	*list = append(*list, runner.Issue{Status: status, Finding: finding, Detail: detail})
}

func (v *verdict) cnt(k string, n int64) {
	if v.Checked == nil {
		v.Checked = map[string]int64{}
	}
	v.Checked[k] += n
}

// judge compares one recovered state with the model of the acknowledged history.
func (m *model) judge(s *snap, r *Recovered) *verdict {
	v := &verdict{}
	k := s.K
	where := fmt.Sprintf("crash after %d effects%s (last: %s)", k, s.Label, m.lastEffect(k))
	if !r.OK {
		anyAcked := false
		for _, w := range m.rec.Writes {
			if m.acked(w, k) {
				anyAcked = true
			}
		}
		c01 := func(status, finding, d string) {
			if anyAcked {
				v.add(&v.C01, status, finding, d)
			}
		}
		switch {
		case len(s.Cont) > 0 && (strings.Contains(r.Out, "snappy") || strings.Contains(r.Out, "replay transaction group data") && strings.Contains(firstLine(r.Out), "EOF")):
			d := fmt.Sprintf("%s: restart failed, index and data of variable-length file %v disagree: %s", where, s.Cont, firstLine(r.Out))
			v.add(&v.C03, "known", "F-CONT", d)
			c01("known", "F-CONT", d)
		case len(s.HalfFile) > 0 && (strings.Contains(r.Out, "\"level\":\"fatal\"") || strings.Contains(r.Out, "EOF")):
			d := fmt.Sprintf("%s: restart failed on header-less year file %v: %s", where, s.HalfFile, firstLine(r.Out))
			v.add(&v.C03, "known", "F-HALFFILE", d)
			c01("known", "F-HALFFILE", d)
		default:
			d := fmt.Sprintf("%s: restart failed (%s): %s", where, r.Status, r.Out)
			v.add(&v.C03, "violation", "", d)
			c01("violation", "", "acknowledged data not returned because "+d)
		}
		v.cnt("restarts_failed", 1)
		return v
	}
	v.cnt("restarts_ok", 1)
	d := r.Dump
	listed := map[string]bool{}
	for _, l := range d.Listed {
		listed[l] = true
	}
	// buckets that existed before the crash: their first write was acknowledged
	existed := map[string]bool{}
	for _, w := range m.rec.Writes {
		if m.acked(w, k) {
			for _, b := range w.Step.Buckets {
				if ind, cut := m.destroyState(b.Key, k); !ind && w.S > cut {
					existed[b.Key] = true
				}
			}
		}
	}
	for key := range existed {
		bd, ok := d.Buckets[key]
		if !listed[key] || !ok {
			v.add(&v.C03, "violation", "", fmt.Sprintf("%s: bucket %s existed before the crash but is not listed after restart (listed: %v)", where, key, d.Listed))
			continue
		}
		if bd.Err != "" {
			if len(s.Cont) > 0 && strings.Contains(bd.Err, "snappy") {
				v.add(&v.C03, "known", "F-CONT", fmt.Sprintf("%s: query of %s fails: %s", where, key, bd.Err))
			} else {
				v.add(&v.C03, "violation", "", fmt.Sprintf("%s: query of %s fails after restart: %s", where, key, bd.Err))
			}
		}
		v.cnt("bucket_queries", 1)
	}
	// fixed slots
	got := map[slotKey]hist.DumpRow{}
	for key, bd := range d.Buckets {
		if bd.Variable || bd.Err != "" {
			continue
		}
		for _, row := range bd.Rows {
			sk := slotKey{key, row[0]}
			if _, dup := got[sk]; dup {
				v.add(&v.C02, "violation", "", fmt.Sprintf("%s: bucket %s returns two rows for interval %d", where, key, row[0]))
			}
			got[sk] = row
			if row[3] != hist.ColB(row[2]) {
				v.add(&v.C02, "violation", "", fmt.Sprintf("%s: torn row in %s at %d: A=%d B=%d", where, key, row[0], row[2], row[3]))
			}
			if ind, _ := m.destroyState(key, k); ind {
				continue
			}
			if len(m.slots[sk]) == 0 {
				v.add(&v.C02, "violation", "", fmt.Sprintf("%s: phantom row in %s at %d (A=%d): no write targets this interval", where, key, row[0], row[2]))
			}
		}
	}
	partial := map[int]*[2]int{} // in-flight write id -> [visible rows, invisible rows]
	invisibleVs := map[int][]int64{}
	note := func(w *winfo, visible bool, vv int64) {
		p := partial[w.ID]
		if p == nil {
			p = &[2]int{}
			partial[w.ID] = p
		}
		if visible {
			p[0]++
		} else {
			p[1]++
			invisibleVs[w.ID] = append(invisibleVs[w.ID], vv)
		}
	}
	for sk, ws := range m.slots {
		if bd, ok := d.Buckets[sk.Key]; ok && bd.Err != "" {
			continue
		}
		ind, cut := m.destroyState(sk.Key, k)
		if ind {
			continue
		}
		var ack, inf []slotWrite
		for _, x := range ws {
			if x.W.S <= cut {
				continue // written before an acknowledged Destroy of the bucket
			}
			if m.acked(x.W, k) {
				ack = append(ack, x)
			} else if m.inflight(x.W, k) {
				inf = append(inf, x)
			}
		}
		cand := map[int64]bool{}
		for _, a := range ack {
			later := false
			for _, b := range ack {
				if b.W != a.W && b.W.S > a.W.A {
					later = true
				}
			}
			if !later {
				cand[a.V] = true
			}
		}
		for _, x := range inf {
			cand[x.V] = true
		}
		row, present := got[sk]
		v.cnt("fixed_slots_checked", 1)
		switch {
		case len(ack) > 0 && !present:
			v.add(&v.C01, "violation", "", fmt.Sprintf("%s: %s interval %d: acknowledged write lost (expected one of %v, slot empty)", where, sk.Key, sk.Slot, keys(cand)))
		case present && !cand[row[2]]:
			started := false
			for _, x := range ws {
				if x.V == row[2] && m.started(x.W, k) {
					started = true
				}
			}
			if len(ack) > 0 {
				inter := false
				for _, x := range inf {
					for _, iv := range x.Inter {
						inter = inter || iv == row[2]
					}
				}
				if from, last, any := walSkipAsIs(s, sk); from != 0 && ((any && last == row[2]) || (!any && (started || inter))) {
					// listed defect F-WALSKIP: replay re-applied the transactions logged before the one that names
					// a file of a destroyed bucket (the last of them that writes this slot carries the value found)
					// or none of them touches the slot (the value is what the crash left), and it never reached
					// the later transactions that would have restored an acknowledged value
					v.add(&v.C01, "known", "F-WALSKIP", fmt.Sprintf("%s: %s interval %d holds A=%d instead of the last acknowledged write (one of %v): replay stopped at transaction %d, which names a file of a destroyed bucket", where, sk.Key, sk.Slot, row[2], keys(cand), from))
				} else {
					v.add(&v.C01, "violation", "", fmt.Sprintf("%s: %s interval %d holds A=%d, expected the last acknowledged write (one of %v)", where, sk.Key, sk.Slot, row[2], keys(cand)))
				}
			}
			// an earlier row of an in-flight request for the same interval: only explicable when the
			// request was logged as several transactions (F-SPLIT) and the one with its last row is not
			// intact in the crash state's WAL
			splitInter := false
			for _, x := range inf {
				for _, iv := range x.Inter {
					if iv == row[2] {
						started = true
						tEff, ok1 := m.rec.TGOf[x.V]
						tInt, ok2 := m.rec.TGOf[iv]
						if ok1 && ok2 && tEff != tInt && m.rec.H.Mode == "background" && !s.tgIntact(tEff) {
							splitInter = true
						} else if skipFrom := walStopsAt(s); ok1 && skipFrom != 0 && tEff >= skipFrom {
							// listed defect F-WALSKIP: replay stopped before the request's transaction, so the slot
							// keeps what the interrupted primary writes had put there
							v.add(&v.C02, "known", "F-WALSKIP", fmt.Sprintf("%s: %s interval %d holds A=%d, an overwritten row of in-flight request %d (its last row for the interval is %d): replay stopped at transaction %d, which names a file of a destroyed bucket, before the request's transaction %d", where, sk.Key, sk.Slot, row[2], x.W.ID, x.V, skipFrom, tEff))
						} else {
							v.add(&v.C02, "violation", "", fmt.Sprintf("%s: %s interval %d holds A=%d, an overwritten row of in-flight request %d (its last row for the interval is %d)", where, sk.Key, sk.Slot, row[2], x.W.ID, x.V))
						}
					}
				}
			}
			if splitInter {
				v.add(&v.C02, "known", "F-SPLIT", fmt.Sprintf("%s: %s interval %d holds A=%d, an earlier row of in-flight request whose later rows were logged in a second transaction that was not committed before the crash", where, sk.Key, sk.Slot, row[2]))
			}
			if !started {
				v.add(&v.C02, "violation", "", fmt.Sprintf("%s: %s interval %d holds A=%d which no issued write put there", where, sk.Key, sk.Slot, row[2]))
			}
		}
		// atomicity bookkeeping for in-flight requests (determinate only with a single in-flight writer of the slot)
		for _, x := range inf {
			if present && row[2] == x.V {
				note(x.W, true, x.V)
			} else if len(inf) == 1 {
				note(x.W, false, x.V)
			}
		}
	}
	// variable records
	replayed := s.replayedVs()
	countV := map[int64]int{}
	for key, bd := range d.Buckets {
		if !bd.Variable || bd.Err != "" {
			continue
		}
		for _, row := range bd.Rows {
			countV[row[2]]++
			if row[3] != hist.ColB(row[2]) {
				v.add(&v.C02, "violation", "", fmt.Sprintf("%s: torn record in %s: A=%d B=%d", where, key, row[2], row[3]))
			}
			w := m.varRec[row[2]]
			if w == nil || !m.started(w, k) {
				v.add(&v.C02, "violation", "", fmt.Sprintf("%s: phantom record A=%d in %s (never issued before the crash)", where, row[2], key))
				continue
			}
			if m.varKey[row[2]].Key != key || m.varKey[row[2]].Slot != hist.IntervalStart(key, row[0]*1e9) {
				v.add(&v.C02, "violation", "", fmt.Sprintf("%s: record A=%d returned in %s at %d, written to %v", where, row[2], key, row[0], m.varKey[row[2]]))
			}
		}
	}
	dupKnown := 0
	dupEx := ""
	for vv, w := range m.varRec {
		if bd, ok := d.Buckets[m.varKey[vv].Key]; ok && bd.Err != "" {
			continue
		}
		if len(m.rec.Destroys[m.varKey[vv].Key]) > 0 {
			continue // histories destroy fixed-length buckets only; be safe
		}
		n := countV[vv]
		v.cnt("variable_records_checked", 1)
		switch {
		case m.acked(w, k):
			if n == 0 {
				v.add(&v.C01, "violation", "", fmt.Sprintf("%s: acknowledged record A=%d of write %d missing from %s", where, vv, w.ID, m.varKey[vv].Key))
			}
			fallthrough
		case m.inflight(w, k):
			if m.inflight(w, k) {
				note(w, n > 0, vv)
			}
			if n > 1 {
				asIs := s.Applied[vv] + min1(replayed[vv])
				if n == asIs {
					dupKnown++
					if dupEx == "" {
						dupEx = fmt.Sprintf("%s: record A=%d of write %d appears %d times in %s: its primary write completed %d time(s) before the (last) crash and its transaction is still un-checkpointed in the WAL, so replay appended it again", where, vv, w.ID, n, m.varKey[vv].Key, s.Applied[vv])
					}
				} else if contBucket(s, m.varKey[vv].Key) {
					v.add(&v.C02, "known", "F-CONT", fmt.Sprintf("%s: record A=%d appears %d times in %s, whose file was left with index and data out of step %v", where, vv, n, m.varKey[vv].Key, s.Cont))
				} else {
					v.add(&v.C02, "violation", "", fmt.Sprintf("%s: record A=%d appears %d times in %s (applied before crash: %d, in replayable WAL transactions: %d)", where, vv, n, m.varKey[vv].Key, s.Applied[vv], replayed[vv]))
				}
			}
		}
	}
	if dupKnown > 0 {
		v.add(&v.C02, "known", "F-DUP", fmt.Sprintf("%d records duplicated; e.g. %s", dupKnown, dupEx))
	}
	for id, p := range partial {
		if p[0] > 0 && p[1] > 0 {
			// listed defect F-SPLIT: the background timer flush cut the request's commands into two logged
			// transactions and the crash fell between their commits. Trigger computed from the recording (the
			// request's payloads sit in >= 2 transactions) and from the crash state's WAL (no invisible row's
			// transaction is intact there).
			tgs := map[int64]bool{}
			for _, vv := range effectivePayloads(m.rec.Writes[id].Step) {
				if t, ok := m.rec.TGOf[vv]; ok {
					tgs[t] = true
				}
			}
			intact := map[int64]bool{}
			for _, msgs := range s.walImages() {
				for _, mm := range msgs {
					if mm.Kind == "tg" && mm.Intact {
						intact[mm.TGID] = true
					}
				}
			}
			split := len(tgs) >= 2
			for _, vv := range invisibleVs[id] {
				if t, ok := m.rec.TGOf[vv]; ok && intact[t] {
					split = false
				}
			}
			// listed defect F-WALSKIP: replay of a WAL file stops at the first un-checkpointed transaction that
			// names a file which no longer exists (its bucket was destroyed after the transaction was logged);
			// the later transactions of that WAL file, the in-flight one included, are not replayed, so the
			// request stays as far applied as the crash left it. Trigger computed from the crash state.
			skipFrom := walStopsAt(s)
			skipped := skipFrom != 0 && len(tgs) > 0
			for t := range tgs {
				if t < skipFrom {
					skipped = false
				}
			}
			if skipped {
				v.add(&v.C02, "known", "F-WALSKIP", fmt.Sprintf("%s: in-flight request %d applied partially (%d rows visible, %d not): replay stopped at transaction %d, which names a file of a destroyed bucket, and never reached the request's transaction(s) %v", where, id, p[0], p[1], skipFrom, tgs))
			} else if split && m.rec.H.Mode == "background" {
				v.add(&v.C02, "known", "F-SPLIT", fmt.Sprintf("%s: in-flight request %d applied partially (%d rows visible, %d not): its commands were logged as %d separate transactions and only the first was committed before the crash", where, id, p[0], p[1], len(tgs)))
			} else {
				v.add(&v.C02, "violation", "", fmt.Sprintf("%s: in-flight request %d applied partially: %d rows visible, %d not (invisible payloads %v, logged as transactions %v)", where, id, p[0], p[1], invisibleVs[id], tgs))
			}
		}
		v.cnt("inflight_requests_checked", 1)
	}
	return v
}

// contBucket: one of the bucket's year files is in the state's list of files whose index and data
// are out of step.
func contBucket(s *snap, key string) bool {
	for _, p := range s.Cont {
		if strings.HasPrefix(p, key+"/") {
			return true
		}
	}
	return false
}

func min1(n int) int {
	if n > 1 {
		return 1
	}
	return n
}

func keys(m map[int64]bool) []int64 {
	var o []int64
	for k := range m {
		o = append(o, k)
	}
	sort.Slice(o, func(i, j int) bool { return o[i] < o[j] })
	return o
}

func firstLine(s string) string {
	if i := strings.IndexByte(s, '\n'); i >= 0 {
		s = s[:i]
	}
	if len(s) > 300 {
		s = s[:300]
	}
	return s
}

func (m *model) lastEffect(k int) string {
	if k == 0 {
		return "none"
	}
	return m.rec.Log.Effects[k-1].String()
}
