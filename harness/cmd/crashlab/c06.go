package main

import (
	"bytes"
	"encoding/binary"
	"fmt"
	"os"
	"path/filepath"
	"sort"
	"strings"
	"sync"
	"time"

	"github.com/alpacahq/marketstore/v4/verif/internal/gen"
	"github.com/alpacahq/marketstore/v4/verif/internal/hist"
	"github.com/alpacahq/marketstore/v4/verif/internal/runner"
	sp "github.com/alpacahq/marketstore/v4/verif/internal/straceparse"
)

// C06: WAL replay tolerates arbitrary damage to the log.
// Seed: a real history (inline, no checkpoints, every request in its own intervals) recorded under
// strace; the seed state keeps the bucket files with their headers but none of the primary data writes,
// and the WAL with all its transactions un-checkpointed - so after a restart each transaction's presence
// is independently observable. Every mutant of the WAL image is restarted for real.
// Oracle: start-up exits normally (no panic, no hang); MUST = transactions whose commit record ends before
// the first damaged byte: all their rows present exactly once; MUSTNOT = transactions of which no intact
// copy of the record remains in the mutated image: none of their rows present; MAY = the others: all or
// nothing each; no row that is in no seed transaction.

type seedTG struct {
	id         int64
	recStart   int // offset of the TGDATA message (MID byte)
	recEnd     int // end of checksum
	commitEnd  int // end of the following TXNINFO(WAL,COMMITCOMPLETE)
	prepStart  int
	vs         []int64
	fixed      map[int64]slotKey
	record     []byte // len + body + md5
}

type mutant struct {
	label string
	img   []byte
	first int // first damaged byte
}

func buildSeed(rec *Recording) (*sp.FS, string, []byte) {
	w := newWalker(rec)
	n := len(rec.Log.Effects)
	for w.k < n {
		e := rec.Log.Effects[w.k]
		if e.Kind == sp.Write && strings.HasSuffix(e.Path, ".bin") && e.Off >= headerSize {
			w.k++ // primary data never reached the disk
			continue
		}
		w.step()
	}
	var wal string
	for p := range w.fs.Files {
		if isWAL(p) {
			wal = p
		}
	}
	f := w.fs.Files[wal]
	return w.fs, wal, f.Bytes(0, f.Size)
}

func seedTGs(img []byte) []seedTG {
	msgs := decodeWAL(img)
	var out []seedTG
	for i, m := range msgs {
		if m.Kind != "tg" || !m.Intact {
			continue
		}
		t := seedTG{id: m.TGID, recStart: m.Pos, recEnd: m.End, commitEnd: m.End, prepStart: m.Pos, record: img[m.Pos+1 : m.End]}
		if i > 0 && msgs[i-1].Kind == "txn" && msgs[i-1].TGID == m.TGID {
			t.prepStart = msgs[i-1].Pos
		}
		if i+1 < len(msgs) && msgs[i+1].Kind == "txn" && msgs[i+1].TGID == m.TGID && msgs[i+1].Status == 2 {
			t.commitEnd = msgs[i+1].End
		}
		for _, c := range m.Cmds {
			t.vs = append(t.vs, c.Vs...)
		}
		out = append(out, t)
	}
	return out
}

func genMutants(img []byte, tgs []seedTG, r *gen.R, thorough bool) []mutant {
	var out []mutant
	add := func(label string, b []byte) {
		first := 0
		for first < len(b) && first < len(img) && b[first] == img[first] {
			first++
		}
		if first == len(b) && len(b) == len(img) {
			return // identical
		}
		out = append(out, mutant{label: label, img: b, first: first})
	}
	n := len(img)
	// truncation at every offset (quick: every offset up to 4 KiB images, else stride)
	stride := 1
	if !thorough && n > 400 {
		stride = n/400 + 1
	}
	for cut := 0; cut < n; cut += stride {
		add(fmt.Sprintf("truncated to %d of %d bytes", cut, n), append([]byte{}, img[:cut]...))
	}
	if stride > 1 {
		// always include every cut inside the leading STATUS message
		for cut := 1; cut <= 12 && cut < n; cut++ {
			add(fmt.Sprintf("truncated to %d of %d bytes", cut, n), append([]byte{}, img[:cut]...))
		}
		// always include the record boundaries and their neighbours
		for _, t := range tgs {
			for _, b := range []int{t.prepStart, t.recStart, t.recStart + 1, t.recStart + 9, t.recStart + 9 + 16, t.recEnd - 16, t.recEnd, t.commitEnd} {
				for d := -1; d <= 1; d++ {
					if cut := b + d; cut >= 0 && cut < n {
						add(fmt.Sprintf("truncated to %d of %d bytes", cut, n), append([]byte{}, img[:cut]...))
					}
				}
			}
		}
	}
	// bit flips: every bit of the structural fields, one bit per payload byte
	structural := map[int]bool{}
	for _, t := range tgs {
		for o := t.prepStart; o < t.recStart+1+8+16+3; o++ { // PREPARING record, MID, length, TGID, WTCount, record type + path length
			structural[o] = true
		}
		for o := t.recEnd - 16; o < t.commitEnd; o++ { // checksum + COMMITCOMPLETE record
			structural[o] = true
		}
	}
	for o := 0; o < 11 && o < n; o++ {
		structural[o] = true // STATUS
	}
	for o := 0; o < n; o++ {
		if structural[o] {
			for b := 0; b < 8; b++ {
				if !thorough && b%2 == 1 && o > 11 {
					continue
				}
				m := append([]byte{}, img...)
				m[o] ^= 1 << uint(b)
				add(fmt.Sprintf("bit %d of byte %d flipped", b, o), m)
			}
		} else if thorough || o%5 == 0 {
			m := append([]byte{}, img...)
			m[o] ^= 1 << uint(r.Intn(8))
			add(fmt.Sprintf("one bit of byte %d flipped", o), m)
		}
	}
	// byte overwrite
	nb := 100
	if thorough {
		nb = 1500
	}
	for i := 0; i < nb; i++ {
		o := r.Intn(n)
		v := []byte{0x00, 0x01, 0x02, 0xff}[r.Intn(4)]
		m := append([]byte{}, img...)
		m[o] = v
		add(fmt.Sprintf("byte %d set to 0x%02x", o, v), m)
	}
	// inserted garbage runs at message boundaries and inside records
	ni := 80
	if thorough {
		ni = 800
	}
	for i := 0; i < ni; i++ {
		var o int
		if i%2 == 0 && len(tgs) > 0 {
			t := tgs[r.Intn(len(tgs))]
			o = []int{t.prepStart, t.recStart, t.recEnd, t.commitEnd}[r.Intn(4)]
		} else {
			o = r.Intn(n + 1)
		}
		l := 1 + r.Intn(64)
		g := make([]byte, l)
		mode := r.Intn(3)
		for k := range g {
			switch mode {
			case 0:
				g[k] = byte(r.U64())
			case 1:
				g[k] = 0
			default:
				g[k] = byte(r.Intn(3))
			}
		}
		m := append(append(append([]byte{}, img[:o]...), g...), img[o:]...)
		add(fmt.Sprintf("%d garbage bytes (mode %d) inserted at %d", l, mode, o), m)
	}
	// duplicated and swapped records
	for i, t := range tgs {
		full := img[t.prepStart:t.commitEnd]
		for _, at := range []int{t.commitEnd, n} {
			m := append(append(append([]byte{}, img[:at]...), full...), img[at:]...)
			add(fmt.Sprintf("transaction %d (bytes %d-%d) duplicated at %d", i, t.prepStart, t.commitEnd, at), m)
		}
		if i+1 < len(tgs) {
			u := tgs[i+1]
			if t.commitEnd == u.prepStart {
				m := append([]byte{}, img[:t.prepStart]...)
				m = append(m, img[u.prepStart:u.commitEnd]...)
				m = append(m, img[t.prepStart:t.commitEnd]...)
				m = append(m, img[u.commitEnd:]...)
				add(fmt.Sprintf("transactions %d and %d swapped", i, i+1), m)
			}
		}
	}
	// length fields
	for i, t := range tgs {
		for _, v := range []int64{-1, 0, 7, 15, int64(n), 1 << 40, 1<<63 - 1, -1 << 63} {
			m := append([]byte{}, img...)
			binary.LittleEndian.PutUint64(m[t.recStart+1:], uint64(v))
			add(fmt.Sprintf("length of transaction %d set to %d", i, v), m)
		}
	}
	// zero-filled and garbage tails
	for _, l := range []int{1, 7, 8, 9, 16, 64, 4096} {
		add(fmt.Sprintf("%d zero bytes appended", l), append(append([]byte{}, img...), make([]byte, l)...))
	}
	return out
}

type c06seed struct {
	rec   *Recording
	fs    *sp.FS
	wal   string
	img   []byte
	tgs   []seedTG
	owner map[int64]int
}

func c06run(c *runner.Ctx) runner.Result {
	var res runner.Result
	r := c.R("hist")
	// history: every request writes its own intervals; no checkpoints; no repeated variable intervals
	h := &hist.History{Mode: "inline", End: "exit"}
	nw := 4 + r.Intn(3)
	syms := []string{"AAA", "BBB", "C-D.E_F", "sym with space", "ÜNI"}
	for i := 1; i <= nw; i++ {
		variable := r.P(1, 2) && i > 2 // the first two requests are fixed-length: they share a slot (below)
		ag := "F"
		if variable {
			ag = "V"
		}
		key := fmt.Sprintf("%s/1H/%s", syms[r.Intn(len(syms))], ag)
		st := hist.Step{Op: "write", ID: i, Variable: variable}
		bw := hist.BucketWrite{Key: key}
		nr := 1 + r.Intn(3)
		for k := 0; k < nr; k++ {
			// interval owned by (request, row): hour index = i*8+k in January 2020
			t := (yearEdge + int64(i*8+k)*3600) * 1e9
			if variable {
				t += int64(r.Intn(3000)) * 1e9 / 1 + int64(k)
			}
			bw.Rows = append(bw.Rows, hist.Row{T: t, V: int64(i)*1000 + int64(k)})
		}
		st.Buckets = append(st.Buckets, bw)
		if !variable {
			// every fixed-length request also rewrites one shared slot (payload i*1000+900): after replay the
			// slot must hold the value of the last applied transaction, i.e. replay follows commit order
			st.Buckets = append(st.Buckets, hist.BucketWrite{Key: "SHR/1H/F", Rows: []hist.Row{{T: (yearEdge + 4*3600) * 1e9, V: int64(i)*1000 + c06sharedMark}}})
		}
		h.Threads = append(h.Threads[:0], append(threadsOrEmpty(h), st))
	}
	rec, err := record(h, filepath.Join(c.Scratch, "rec"))
	if err != nil {
		res.Inconclusive("recording failed: " + err.Error())
		return res
	}
	fs, wal, img := buildSeed(rec)
	tgs := seedTGs(img)
	if len(tgs) < 3 {
		res.Inconclusive(fmt.Sprintf("seed WAL holds only %d transactions", len(tgs)))
		return res
	}
	owner := map[int64]int{}
	sharedOf := map[int64]int{} // payload written to the shared slot -> transaction
	for i, t := range tgs {
		for _, v := range t.vs {
			if v%1000 == c06sharedMark {
				sharedOf[v] = i
				continue
			}
			owner[v] = i
		}
	}
	muts := genMutants(img, tgs, c.R("mut"), c.Thorough())
	// sanity: the unmutated seed must restore everything (otherwise the oracle below is meaningless)
	muts = append([]mutant{{label: "unmodified seed", img: img, first: len(img)}}, muts...)
	var mu sync.Mutex
	type job struct{ m mutant }
	snaps := make([]*snap, len(muts))
	for i, m := range muts {
		f2 := fs.Clone()
		f2.Apply(sp.Effect{Kind: sp.Truncate, Path: wal, Size: 0})
		f2.Apply(sp.Effect{Kind: sp.Write, Path: wal, Off: 0, Data: m.img})
		snaps[i] = &snap{K: i, FS: f2, Label: m.label}
	}
	recBin := "recchild"
	if c.Thorough() && c.Case%4 == 3 {
		if _, err := os.Stat(bin("recchild-asan")); err == nil {
			recBin = "recchild-asan" // AddressSanitizer build of the restart (reports are process-fatal => start-up failed)
			res.Count("asan_seeds", 1)
		}
	}
	forEachState(snaps, c.Scratch, func(s *snap, dir string) {
		m := muts[s.K]
		rr, err := recoverState(s.FS, dir, false, recBin)
		mu.Lock()
		defer mu.Unlock()
		if err != nil {
			res.Inconclusive("cannot run restart: " + err.Error())
			return
		}
		res.Count("mutants_restarted", 1)
		res.Sigs = append(res.Sigs, fmt.Sprintf("c%d/%s", c.Case, mutantClass(m.label)))
		wit := map[string]interface{}{"history": rec.H, "mutation": m.label, "first_damaged_byte": m.first, "wal_len": len(img), "transactions": tgLayout(tgs)}
		if rr.Status == "timeout" {
			// not a verdict on a loaded machine: re-run alone with a 10 minute watchdog (an undamaged restart
			// takes well under a second); only a second firing is a hang
			mu.Unlock()
			os.RemoveAll(filepath.Join(dir, "root"))
			rr2, err2 := recoverState(s.FS, dir, false, recBin+longWatchdogSuffix)
			mu.Lock()
			res.Count("watchdog_reruns", 1)
			if err2 != nil {
				res.Inconclusive("cannot re-run restart: " + err2.Error())
				return
			}
			if rr2.Status == "timeout" {
				res.Violation(fmt.Sprintf("WAL %s: start-up hangs: it did not finish within 60 s and, re-run, not within 10 minutes (an undamaged restart takes well under a second)", m.label), wit)
				return
			}
			rr = rr2
		}
		if !rr.OK {
			res.Violation(fmt.Sprintf("WAL %s: start-up failed (%s): %s", m.label, rr.Status, rr.Out), wit)
			return
		}
		// classify transactions
		must, mustnot, may := map[int]bool{}, map[int]bool{}, map[int]bool{}
		for i, t := range tgs {
			switch {
			case t.commitEnd <= m.first:
				must[i] = true
			case bytes.Contains(m.img, t.record):
				may[i] = true
			default:
				mustnot[i] = true
			}
		}
		res.Count("tg_must", int64(len(must)))
		res.Count("tg_mustnot", int64(len(mustnot)))
		res.Count("tg_may", int64(len(may)))
		count := map[int64]int{}
		var sharedSeen []int64
		for key, bd := range rr.Dump.Buckets {
			if bd.Err != "" {
				res.Violation(fmt.Sprintf("WAL %s: bucket %s unreadable after replay: %s", m.label, key, bd.Err), wit)
				continue
			}
			for _, row := range bd.Rows {
				if _, ok := sharedOf[row[2]]; ok && row[3] == hist.ColB(row[2]) {
					sharedSeen = append(sharedSeen, row[2])
					continue
				}
				count[row[2]]++
				if _, ok := owner[row[2]]; !ok || row[3] != hist.ColB(row[2]) {
					res.Violation(fmt.Sprintf("WAL %s: row A=%d B=%d in %s is in no transaction of the seed log (data from a damaged record)", m.label, row[2], row[3], key), wit)
				}
			}
		}
		seenTG := map[int][2]int{}
		for v, i := range owner {
			x := seenTG[i]
			if count[v] > 0 {
				x[0]++
			} else {
				x[1]++
			}
			if count[v] > 1 {
				res.Violation(fmt.Sprintf("WAL %s: payload %d applied %d times", m.label, v, count[v]), wit)
			}
			seenTG[i] = x
		}
		for i := range tgs {
			x := seenTG[i]
			switch {
			case must[i] && x[1] > 0:
				if f := forgedCheckpoint(m, tgs, i); f != "" {
					res.Known("F-TXNINFO", fmt.Sprintf("WAL %s: intact transaction %d (bytes %d-%d, before the damage) is not applied: %s", m.label, i, tgs[i].prepStart, tgs[i].commitEnd, f), nil)
				} else {
					res.Violation(fmt.Sprintf("WAL %s: intact committed transaction %d (bytes %d-%d) precedes the first damaged byte %d but %d of its %d rows are missing after replay", m.label, i, tgs[i].prepStart, tgs[i].commitEnd, m.first, x[1], x[0]+x[1]), wit)
				}
			case mustnot[i] && x[0] > 0:
				res.Violation(fmt.Sprintf("WAL %s: transaction %d has no intact record left in the log, yet %d of its rows were written", m.label, i, x[0]), wit)
			case may[i] && x[0] > 0 && x[1] > 0:
				res.Violation(fmt.Sprintf("WAL %s: transaction %d applied partially (%d rows present, %d missing)", m.label, i, x[0], x[1]), wit)
			}
		}
		// commit order: the shared slot holds the value of the last transaction that was applied
		lastApplied, lastV := -1, int64(0)
		for v, i := range sharedOf {
			if x := seenTG[i]; x[0] > 0 && x[1] == 0 && i > lastApplied {
				lastApplied, lastV = i, v
			}
		}
		if lastApplied >= 0 {
			res.Count("shared_slot_checks", 1)
			switch {
			case len(sharedSeen) != 1:
				res.Violation(fmt.Sprintf("WAL %s: the slot rewritten by every fixed-length transaction holds %d rows (%v) after replay, expected the one of transaction %d", m.label, len(sharedSeen), sharedSeen, lastApplied), wit)
			case sharedSeen[0] != lastV:
				res.Violation(fmt.Sprintf("WAL %s: the slot rewritten by every fixed-length transaction holds payload %d (transaction %d) after replay although the later transaction %d (payload %d) was applied too: replay did not follow commit order", m.label, sharedSeen[0], sharedOf[sharedSeen[0]], lastApplied, lastV), wit)
			}
		}
	})
	res.Evals = int64(len(muts))
	res.Count("seed_transactions", int64(len(tgs)))
	res.Count("seed_wal_bytes", int64(len(img)))
	if c.Case < 2 {
		var ex []string
		for i := 1; i < len(muts) && len(ex) < 6; i += len(muts) / 6 {
			ex = append(ex, muts[i].label)
		}
		res.Sample = map[string]interface{}{"seed": summarise(rec, len(muts)), "wal_bytes": len(img), "transactions": tgLayout(tgs), "example_mutations": ex}
	}
	compactKnown(&res)
	return res
}

const c06sharedMark = 900

func threadsOrEmpty(h *hist.History) []hist.Step {
	if len(h.Threads) == 0 {
		return nil
	}
	return h.Threads[0]
}

func tgLayout(tgs []seedTG) []string {
	var out []string
	for i, t := range tgs {
		out = append(out, fmt.Sprintf("#%d id=%d bytes %d-%d rows=%v", i, t.id, t.prepStart, t.commitEnd, t.vs))
	}
	return out
}

func mutantClass(label string) string {
	f := strings.Fields(label)
	var keep []string
	for _, w := range f {
		if w[0] >= '0' && w[0] <= '9' || w[0] == '-' {
			keep = append(keep, "N")
		} else {
			keep = append(keep, w)
		}
	}
	// keep the numbers of the first number only for diversity of positions (bucketed)
	return strings.Join(keep, " ") + "@" + fmt.Sprint(len(label)%7)
}

// forgedCheckpoint: the mutation turned bytes of the log into a well-formed TXNINFO record that reads
// CHECKPOINT/COMMITCOMPLETE for a transaction id >= tgs[i].id (TXNINFO records carry no checksum).
func forgedCheckpoint(m mutant, tgs []seedTG, i int) string {
	for _, msg := range decodeWAL(m.img) {
		if msg.Kind == "txn" && msg.Dest == 1 && msg.Status == 2 && msg.TGID >= tgs[i].id && msg.Pos+11 > m.first-11 {
			return fmt.Sprintf("the damaged bytes at %d decode as TXNINFO(CHECKPOINT,COMMITCOMPLETE,%d), which carries no checksum and marks every transaction up to that id as already applied", msg.Pos, msg.TGID)
		}
	}
	return ""
}

var _ = sort.Ints

func init() {
	register(&runner.Monitor{
		ID:    "C06",
		Level: "fault_enumeration",
		Rule: "case = one seed: a real history of 4-6 requests (fixed and variable buckets, symbols with unusual characters) recorded under strace, reduced to bucket files with headers only plus the WAL holding every transaction un-checkpointed; mutants of the WAL image: truncation at every offset, every bit of every structural field (message ids, lengths, transaction ids, counts, path length, checksums, TXNINFO records, STATUS) and one bit per payload byte (quick: half of the bits / every third payload byte), byte overwrites with 0x00/0x01/0x02/0xff, inserted garbage runs at record boundaries and random offsets, duplicated and swapped transactions, length fields set to -1, 0, 7, 15, file size, 2^40, 2^63-1, -2^63, zero tails; every mutant is restarted with the real start-up and judged by MUST / MUSTNOT / MAY; distinct = mutation class",
		Assumptions:  []string{"the restart is the real start-up on tmpfs; hang = 60 s watchdog (an undamaged restart takes < 1 s)", "damage is confined to the WAL file; bucket files and their headers are intact"},
		Cases:        crashCases(2, 12),
		Batch:        1,
		Par:          2,
		BatchTimeout: 60 * time.Minute,
		Need:         []string{"mutants_restarted", "tg_must", "tg_mustnot", "tg_may"},
		Run:          c06run,
	})
}
