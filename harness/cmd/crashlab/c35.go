package main

import (
	"fmt"
	"os"
	"path/filepath"
	"reflect"
	"sort"
	"strings"
	"time"

	"github.com/alpacahq/marketstore/v4/verif/internal/hist"
	"github.com/alpacahq/marketstore/v4/verif/internal/runner"
	sp "github.com/alpacahq/marketstore/v4/verif/internal/straceparse"
)

// C35: restart after graceful shutdown preserves query results.
// The workload process (real background WAL loop, 1-4 writers) dumps every bucket plus a battery of
// restricted queries just before Shutdown() (D1) and right after it returned (D2); the parent restarts
// the real server on the final tree and dumps again (D3). Oracle: D3 == D2; D2 == D1 when no write was
// in flight at the shutdown request (otherwise D2 differs from D1 at most by the in-flight request,
// applied completely or not at all); every acknowledged write is in D3; no variable record twice; the
// WAL the shut-down process left behind contains nothing a restart has to replay, and the log's tail is
// flush -> CHECKPOINT(PREPARING) -> sync -> CHECKPOINT(COMMITCOMPLETE).

func dumpDiff(a, b *hist.Dump) string {
	var keys []string
	seen := map[string]bool{}
	for k := range a.Buckets {
		keys = append(keys, k)
		seen[k] = true
	}
	for k := range b.Buckets {
		if !seen[k] {
			keys = append(keys, k)
		}
	}
	sort.Strings(keys)
	for _, k := range keys {
		x, okx := a.Buckets[k]
		y, oky := b.Buckets[k]
		if !okx || !oky {
			return fmt.Sprintf("bucket %s listed in one dump only", k)
		}
		if x.Err != y.Err {
			return fmt.Sprintf("bucket %s: error %q vs %q", k, x.Err, y.Err)
		}
		if len(x.Rows) != len(y.Rows) {
			return fmt.Sprintf("bucket %s: %d rows vs %d rows", k, len(x.Rows), len(y.Rows))
		}
		for i := range x.Rows {
			if x.Rows[i] != y.Rows[i] {
				return fmt.Sprintf("bucket %s row %d: %v vs %v", k, i, x.Rows[i], y.Rows[i])
			}
		}
		if !reflect.DeepEqual(x.Battery, y.Battery) {
			for q, v := range x.Battery {
				if y.Battery[q] != v {
					return fmt.Sprintf("bucket %s query %s: %s vs %s", k, q, trunc(v, 200), trunc(y.Battery[q], 200))
				}
			}
			return fmt.Sprintf("bucket %s: battery differs", k)
		}
	}
	return ""
}

func trunc(s string, n int) string {
	if len(s) > n {
		return s[:n] + "..."
	}
	return s
}

func c35run(c *runner.Ctx) runner.Result {
	var res runner.Result
	r := c.R("hist")
	o := genOpts{Background: true, Threads: 1 + r.Intn(4), Writes: 4 + r.Intn(6), OwnSlots: true, End: "shutdown"}
	inflight := c.Case%2 == 1
	syncMode := c.Case%4 == 1
	if inflight {
		o.End = "shutdown_inflight"
		if syncMode {
			// the late request is held between "records queued" and "flush requested" until Shutdown() has
			// returned: the WAL loop's final flush carries the records and its final checkpoint must cover them
			o.End = "shutdown_inflight_sync"
		}
	}
	h := genHistory(r, o)
	if inflight {
		// the request that races with the shutdown is the last step of thread 0: make it a write
		for ti := range h.Threads {
			th := h.Threads[ti]
			for len(th) > 0 && th[len(th)-1].Op != "write" {
				th = th[:len(th)-1]
			}
			h.Threads[ti] = th
		}
		for ti := range h.Threads {
			if len(h.Threads[ti]) > 0 {
				h.Threads[0], h.Threads[ti] = h.Threads[ti], h.Threads[0]
				break
			}
		}
	}
	h.PreShutdownUs = r.PickI(0, 0, 300, 1200, 2500, 5000, 9000, 15000)
	// In half of the cases the checkpoint timer is far longer than the whole run, so that the
	// transactions of the history are still un-checkpointed when the shutdown is requested and only
	// the shutdown's own flush + checkpoint can make the restart replay-free.
	if c.Case%2 == 1 {
		h.PrimMs = r.PickI(400, 1500, 5000)
	}
	if syncMode {
		// a long WAL timer, so that it is the shutdown branch (not a pending timer flush that happens to
		// win the select) that finds the late request's records in the queue
		h.WalMs = 100
	}
	dir := filepath.Join(c.Scratch, "rec")
	rec, err := record(h, dir)
	if err != nil {
		res.Inconclusive("recording failed: " + err.Error())
		return res
	}
	if len(rec.MarkPos["SDHANG"]) > 0 {
		// not a completed graceful shutdown: nothing to compare
		res.Count("shutdowns_that_never_returned", 1)
		res.Inconclusive("Shutdown() did not return within 15 s: the request that raced with it queued records after the WAL loop had gone and finishAndWait polls the write channel for good")
		return res
	}
	var d1, d2 hist.Dump
	if err := hist.ReadJSON(filepath.Join(dir, "out", "dump_before.json"), &d1); err != nil {
		res.Inconclusive("no pre-shutdown dump: " + err.Error())
		return res
	}
	if err := hist.ReadJSON(filepath.Join(dir, "out", "dump_after.json"), &d2); err != nil {
		res.Inconclusive("no post-shutdown dump: " + err.Error())
		return res
	}
	// final tree
	w := newWalker(rec)
	n := len(rec.Log.Effects)
	for w.k < n {
		w.step()
	}
	final := w.snapshot()
	wit := func() interface{} {
		return map[string]interface{}{"history": rec.H, "effects_tail": effectsTail(rec, n, 16)}
	}
	// the request that was started concurrently with Shutdown() (shutdown_inflight cases)
	lateVs := map[int64]bool{}
	if inflight && len(h.Threads) > 0 && len(h.Threads[0]) > 0 {
		for _, vv := range effectivePayloads(h.Threads[0][len(h.Threads[0])-1]) {
			lateVs[vv] = true
		}
		for _, b := range h.Threads[0][len(h.Threads[0])-1].Buckets {
			for _, r2 := range b.Rows {
				lateVs[r2.V] = true
			}
		}
	}
	// the WAL left behind must need no replay
	shutRace := false
	// ... and that request was acknowledged, i.e. it flushed by itself after the loop had gone. A
	// transaction the loop's own final flush wrote must be covered by the loop's final checkpoint.
	lateAcked := false
	if inflight && len(h.Threads) > 0 && len(h.Threads[0]) > 0 {
		// acknowledged, or ended in a panic of its own inline flush (send on the dispatcher channel
		// that Shutdown() had closed): both mean the request flushed by itself
		if w := rec.Writes[h.Threads[0][len(h.Threads[0])-1].ID]; w != nil && (w.A >= 0 || strings.HasPrefix(w.Err, "P ")) {
			lateAcked = true
		}
	}
	// ... and the transaction was written after the request had passed the entry of RequestFlush
	// (marker HRF), i.e. not by the WAL loop's final flush
	hrf := -1
	if ps := rec.MarkPos["HRF"]; len(ps) > 0 {
		hrf = ps[len(ps)-1]
	}
	// the late request flushed by itself: it passed the entry of RequestFlush (HRF) and came back
	// (or panicked) without handing its flush to the WAL loop (no HRQ marker after HRF)
	byOwnFlush := hrf >= 0
	for _, q := range rec.MarkPos["HRQ"] {
		if q > hrf {
			byOwnFlush = false
		}
	}
	raced := inflight && !syncMode && lateAcked && byOwnFlush
	if dbg := os.Getenv("VERIF_DEBUG"); dbg != "" && inflight {
		if f, err := os.OpenFile(dbg, os.O_APPEND|os.O_CREATE|os.O_WRONLY, 0o644); err == nil {
			fmt.Fprintf(f, "INFL case=%d sync=%v lateAcked=%v byOwn=%v marks=%v tail=%v\n", c.Case, syncMode, lateAcked, byOwnFlush, rec.MarkPos, effectsTail(rec, n, 70))
			f.Close()
		}
	}
	for p, msgs := range final.walImages() {
		if rp := replayable(msgs); len(rp) > 0 {
			// listed defect F-SHUTRACE: a request that races with Shutdown() finds the background writer gone,
			// flushes inline after the loop's final checkpoint, and nobody checkpoints its transaction
			// Free-running race (shutdown_inflight): the late request found haveWALWriter cleared and ran
			// FlushToWAL by itself while (or after) the loop did its final flush and checkpoint. The two
			// are not synchronised: they may interleave their WAL writes, the late flush may bump the
			// transaction id between the loop's flush and its checkpoint record (which then names no
			// transaction of the file), or the late transaction lands after the final checkpoint. Whatever
			// is left un-checkpointed then is the listed defect. In the deterministic schedule
			// (shutdown_inflight_sync) and without an in-flight request nothing may be left over.
			if raced {
				shutRace = true
				res.Known("F-SHUTRACE", fmt.Sprintf("after graceful shutdown %s holds %d un-checkpointed transaction(s) after a request flushed by itself concurrently with the WAL loop's final flush and checkpoint; a restart replays them", p, len(rp)), nil)
			} else {
				res.Violation(fmt.Sprintf("after graceful shutdown %s still holds %d transaction(s) not covered by a completed checkpoint (first TGID %d): a restart replays them", p, len(rp), rp[0].TGID), wit())
			}
		}
		res.Count("wal_messages_decoded", int64(len(msgs)))
	}
	// trace check of the shutdown tail: between marker SD and marker X
	sd, x := -1, -1
	for i, e := range rec.Log.Effects {
		if e.Kind == sp.Marker && e.Text == "SD" {
			sd = i
		}
		if e.Kind == sp.Marker && e.Text == "X" {
			x = i
		}
	}
	if sd < 0 || x < 0 {
		res.Inconclusive("shutdown markers missing")
		return res
	}
	var tailKinds []string
	for i := sd; i < x; i++ {
		e := rec.Log.Effects[i]
		switch {
		case e.Kind == sp.Write && isWAL(e.Path):
			tailKinds = append(tailKinds, fmt.Sprintf("walwrite%d", len(e.Data)))
		case e.Kind == sp.SyncAll:
			tailKinds = append(tailKinds, "sync")
		case e.Kind == sp.Fsync && isWAL(e.Path):
			tailKinds = append(tailKinds, "fsyncwal")
		case e.Kind == sp.Write:
			tailKinds = append(tailKinds, "primary")
		}
	}
	res.Set("shutdown_tail_shapes", strings.Join(dedupRuns(tailKinds), ","))
	// D3
	rr, err := recoverState(final.FS, filepath.Join(c.Scratch, "restart"), true, "recchild")
	if err != nil {
		res.Inconclusive("cannot run restart: " + err.Error())
		return res
	}
	if !rr.OK {
		res.Violation(fmt.Sprintf("restart after graceful shutdown failed (%s): %s", rr.Status, rr.Out), wit())
		return res
	}
	d3 := rr.Dump
	res.Count("restarts_ok", 1)
	nq := 0
	for _, b := range d3.Buckets {
		nq += 1 + len(b.Battery)
	}
	res.Count("queries_compared", int64(nq))
	if diff := dumpDiff(&d2, d3); diff != "" {
		if shutRace && onlyLateDiffers(&d2, d3, lateVs) {
			res.Known("F-SHUTRACE", "query results after restart differ from those right after Shutdown() only by the replayed in-flight request: "+diff, nil)
		} else if shutRace {
			res.Known("F-SHUTRACE", "query results after restart differ from those right after Shutdown(): the raced final checkpoint names no transaction of the WAL, so the restart replays the whole file: "+diff, nil)
		} else {
			res.Violation("query results after restart differ from those right after Shutdown() returned: "+diff, wit())
		}
	}
	if !inflight {
		if diff := dumpDiff(&d1, &d2); diff != "" {
			res.Violation("query results just before the shutdown request differ from those after it (no write was in flight): "+diff, wit())
		}
	}
	// acknowledged writes present, no duplicates: the C01/C02 clauses on the final state
	m := buildModel(rec)
	v := m.judge(final, rr)
	for k2, n2 := range v.Checked {
		res.Count(k2, n2)
	}
	for _, is := range append(append([]runner.Issue{}, v.C01...), v.C02...) {
		if is.Status == "known" && is.Finding == "F-DUP" {
			// a duplicate after a *graceful* shutdown is not the crash-window defect: report it, unless it
			// is the replay of the request that raced with Shutdown()
			if shutRace {
				is.Finding = "F-SHUTRACE"
			} else {
				is.Status, is.Finding = "violation", ""
			}
		}
		if is.Status == "violation" && raced {
			// the late request ran FlushToWAL by itself, unsynchronised with the WAL loop's final flush and
			// checkpoint (both may even write the same transaction's primary records): whatever the two
			// produce together - lost, duplicated or half-written records - is the listed defect
			is.Status, is.Finding = "known", "F-SHUTRACE"
		}
		if is.Status == "violation" {
			w := wit().(map[string]interface{})
			w["marks"] = fmt.Sprint(rec.MarkPos)
			is.Witness = w
		}
		res.Issues = append(res.Issues, is)
	}
	if len(d3.WALFiles) > 0 {
		if shutRace || raced {
			res.Known("F-SHUTRACE", fmt.Sprintf("after the restart the WAL of the raced shutdown was set aside: %v", d3.WALFiles), nil)
		} else {
			res.Violation(fmt.Sprintf("after the restart old WAL files are still present: %v", d3.WALFiles), wit())
		}
	}
	res.Count("writes_acked", int64(countAcked(rec)))
	res.Count("shutdowns", 1)
	// interleaving signature: order of the WAL loop's events
	var trace []string
	hist.ReadJSON(filepath.Join(dir, "out", "hooktrace.json"), &trace)
	var loop []string
	for _, t := range trace {
		if strings.HasPrefix(t, "wal.loop.") {
			loop = append(loop, strings.TrimPrefix(t, "wal.loop."))
		}
	}
	sig := strings.Join(dedupRuns(loop), ">")
	res.Set("loop_event_orders", sig)
	res.Count("loop_events", int64(len(loop)))
	res.Sig = fmt.Sprintf("%s/th%d/pre%d/prim%d/%s", h.End, len(h.Threads), h.PreShutdownUs, h.PrimMs, sig)
	res.Count("cases_with_checkpoint_timer_longer_than_run", b2i(h.PrimMs >= 400))
	if c.Case < 3 {
		res.Sample = map[string]interface{}{"history": summarise(rec, 1), "end": h.End, "pre_shutdown_us": h.PreShutdownUs, "loop_events": trunc(sig, 300), "shutdown_tail": dedupRuns(tailKinds)}
	}
	return res
}

// onlyLateDiffers: the two dumps agree once rows carrying the late request's payloads are removed.
func onlyLateDiffers(a, b *hist.Dump, late map[int64]bool) bool {
	strip := func(d *hist.Dump) *hist.Dump {
		o := &hist.Dump{Buckets: map[string]hist.BucketDump{}}
		for k, bd := range d.Buckets {
			nb := hist.BucketDump{Err: bd.Err, Variable: bd.Variable}
			for _, r := range bd.Rows {
				if !late[r[2]] {
					nb.Rows = append(nb.Rows, r)
				}
			}
			o.Buckets[k] = nb
		}
		return o
	}
	return dumpDiff(strip(a), strip(b)) == ""
}

func b2i(b bool) int64 {
	if b {
		return 1
	}
	return 0
}

func dedupRuns(xs []string) []string {
	var out []string
	for _, x := range xs {
		if len(out) == 0 || out[len(out)-1] != x {
			out = append(out, x)
		}
	}
	return out
}

func init() {
	register(&runner.Monitor{
		ID:           "C35",
		Level:        "fault_enumeration",
		Rule:         "case = one generated write history run by the real server code with the real background WAL loop (timers 2-14 ms, rotation every 1-3 checkpoints, 1-4 writer goroutines, seeded delays at the hook points), ended by a graceful Shutdown() requested 0-15 ms after the last writer finished (every 4th case: while the last write request is still in flight); results of the unrestricted query and of six restricted queries per bucket are dumped before the request, after Shutdown() returned and after a real restart on the final tree, and compared; non-trivial/distinct by (end mode, writers, pause, order of the WAL loop's flush/checkpoint/rotate events)",
		Assumptions:  []string{crashAssumptions},
		Cases:        crashCases(24, 600),
		Batch:        4,
		Par:          8,
		BatchTimeout: 20 * time.Minute,
		Need:         []string{"shutdowns", "restarts_ok", "queries_compared", "loop_events", "cases_with_checkpoint_timer_longer_than_run"},
		Run:          c35run,
	})
}
