package main

import (
	"time"

	"github.com/alpacahq/marketstore/v4/verif/internal/gen"
	"github.com/alpacahq/marketstore/v4/verif/internal/hist"
)

var (
	fixedKeys = []string{"AAA/15Min/F", "BBB/1H/F"}
	varKeys   = []string{"AAA/15Min/V", "CCC/1H/V"}
)

// yearEdge is 2020-01-01T00:00:00Z; intervals are drawn on both sides of it so that a new year file
// is created in the middle of a history.
var yearEdge = time.Date(2020, 1, 1, 0, 0, 0, 0, time.UTC).Unix()

func intervalPool(key string) []int64 {
	d := int64(hist.TFDur(hist.KeyTF(key)) / time.Second)
	var out []int64
	for _, i := range []int64{-3, -2, -1, 0, 1, 2} {
		out = append(out, yearEdge+i*d)
	}
	return out
}

type genOpts struct {
	Writes      int
	Background  bool
	Threads     int
	VarHeavy    bool // many repeated writes to the same variable interval (continuation writes)
	End         string
	Checkpoints bool
	OwnSlots    bool // each thread owns its intervals (no cross-thread overwrite ambiguity)
	Destroy     bool // inline mode: one Destroy of a fixed bucket in mid-history (the bucket is written again later)
}

func genHistory(r *gen.R, o genOpts) *hist.History {
	h := &hist.History{Mode: "inline", End: "exit"}
	if o.End != "" {
		h.End = o.End
	}
	nth := 1
	if o.Background {
		h.Mode = "background"
		h.WalMs = r.PickI(2, 3, 5)
		h.PrimMs = r.PickI(6, 9, 14)
		h.Rotate = r.PickI(1, 2, 3)
		h.HookSeed = int64(r.Intn(1<<30)) + 1
		nth = o.Threads
		if nth <= 0 {
			nth = 1 + r.Intn(3)
		}
	}
	h.Threads = make([][]hist.Step, nth)
	id := 0
	for t := 0; t < nth; t++ {
		nw := o.Writes
		for i := 0; i < nw; i++ {
			id++
			variable := r.P(1, 2)
			if o.VarHeavy {
				variable = r.P(4, 5)
			}
			st := hist.Step{Op: "write", ID: id, Variable: variable}
			keys := fixedKeys
			if variable {
				keys = varKeys
			}
			nb := 1
			if r.P(1, 3) {
				nb = 2
			}
			perm := r.Perm(len(keys))
			ord := int64(0)
			for b := 0; b < nb; b++ {
				key := keys[perm[b]]
				pool := intervalPool(key)
				if o.VarHeavy && variable {
					pool = pool[2:4]
				}
				if o.OwnSlots && nth > 1 {
					// thread t owns intervals t, t+nth, ...
					var own []int64
					for i2, p := range pool {
						if i2%nth == t {
							own = append(own, p)
						}
					}
					pool = own
				}
				nr := 1 + r.Intn(3)
				bw := hist.BucketWrite{Key: key}
				for k := 0; k < nr; k++ {
					start := pool[r.Intn(len(pool))]
					tns := start * 1e9
					if variable {
						tns += int64(r.Intn(14))*60e9 + int64(r.Intn(60))*1e9 + int64(id)*1000 + ord
					} else if r.P(1, 3) {
						tns += int64(r.Intn(50)) * 1e9 // inside the interval
					}
					bw.Rows = append(bw.Rows, hist.Row{T: tns, V: int64(id)*1000 + ord})
					ord++
				}
				st.Buckets = append(st.Buckets, bw)
			}
			h.Threads[t] = append(h.Threads[t], st)
			if o.Destroy && !o.Background && i == nw/2 {
				id++
				h.Threads[t] = append(h.Threads[t], hist.Step{Op: "destroy", ID: id, Buckets: []hist.BucketWrite{{Key: fixedKeys[r.Intn(len(fixedKeys))]}}})
			}
			if o.Checkpoints && !o.Background && r.P(1, 4) {
				h.Threads[t] = append(h.Threads[t], hist.Step{Op: "checkpoint"})
			}
			if o.Background && r.P(1, 2) {
				h.Threads[t] = append(h.Threads[t], hist.Step{Op: "sleep", Us: r.PickI(200, 1500, 4000, 9000)})
			}
		}
	}
	return h
}
