package main

import (
	"encoding/binary"
	"fmt"
	"path/filepath"
	"strings"
	"sync"
	"time"

	"github.com/alpacahq/marketstore/v4/verif/internal/hist"
	"github.com/alpacahq/marketstore/v4/verif/internal/runner"
	sp "github.com/alpacahq/marketstore/v4/verif/internal/straceparse"
)

// C05 monitor 1: offline checker of the recorded WAL protocol trace.
// The system-call stream is a complete protocol trace (every WAL message is its own write(2)).
//   I1  TGDATA(T) is bracketed by TXNINFO(WAL,PREPARING,T) and TXNINFO(WAL,COMMITCOMPLETE,T); an fsync of the
//       WAL follows the commit record before any primary write carrying T's payload and before the
//       acknowledgement of any request contained in T
//   I2  TGIDs strictly increase
//   I3  CHECKPOINT(PREPARING,T) -> sync -> CHECKPOINT(COMMITCOMPLETE,T), T = last committed TGID, and every
//       primary write of transactions <= T precedes that sync
//   I4  the WAL is truncated only when every transaction in it is covered by a completed checkpoint
//   I5  after truncation the STATUS record is rewritten and fsynced before the next TGDATA
//   I6  every acknowledgement is preceded by a committed and synced transaction containing the request's payload

type tgState struct {
	id        int64
	vs        []int64
	prep      bool
	commitPos int
	syncPos   int
	applied   map[int64]int
	file      string
}

type traceResult struct {
	issues  []string
	tgs     int
	ckpts   int
	rotates int
	events  int
	msgs    int
}

func traceCheck(rec *Recording) *traceResult {
	tr := &traceResult{}
	bad := func(pos int, f string, a ...interface{}) {
		if len(tr.issues) < 20 {
			tr.issues = append(tr.issues, fmt.Sprintf("effect %d (%s): ", pos, rec.Log.Effects[pos].String())+fmt.Sprintf(f, a...))
		}
	}
	images := map[string][]byte{}
	seen := map[string]int{}
	tgs := map[int64]*tgState{}
	tgOf := map[int64]*tgState{}
	var order []*tgState
	var lastTG int64
	var lastCommitted *tgState
	var pendingPrep map[string]int64 = map[string]int64{}
	type ck struct {
		t       int64
		prepPos int
		synced  bool
		file    string
	}
	var curCk *ck
	ckptDone := int64(0)
	needStatus := map[string]int{} // file -> 1 need status msg, 2 need fsync
	pend := map[string][]*pcmd{}
	fixedRecLen := 24
	for pos, e := range rec.Log.Effects {
		switch {
		case e.Kind == sp.Write && isWAL(e.Path):
			img := images[e.Path]
			end := int(e.Off) + len(e.Data)
			if end > len(img) {
				img = append(img, make([]byte, end-len(img))...)
			}
			copy(img[e.Off:], e.Data)
			images[e.Path] = img
			msgs := decodeWAL(img)
			n := 0
			for _, m := range msgs {
				if m.Kind != "bad" {
					n++
				}
			}
			for i := seen[e.Path]; i < n; i++ {
				m := msgs[i]
				tr.msgs++
				switch m.Kind {
				case "status":
					if needStatus[e.Path] == 1 {
						needStatus[e.Path] = 2
					}
				case "tg":
					tr.tgs++
					if needStatus[e.Path] != 0 {
						bad(pos, "I5: TGDATA %d written after truncation before the STATUS record was rewritten and fsynced", m.TGID)
					}
					if !m.Intact {
						bad(pos, "TGDATA %d written by the server does not verify: %s", m.TGID, m.Err)
					}
					if m.TGID <= lastTG {
						bad(pos, "I2: TGID %d does not exceed the previous TGID %d", m.TGID, lastTG)
					}
					lastTG = m.TGID
					if pendingPrep[e.Path] != m.TGID {
						bad(pos, "I1: TGDATA %d not preceded by TXNINFO(WAL,PREPARING,%d)", m.TGID, m.TGID)
					}
					st := &tgState{id: m.TGID, prep: true, commitPos: -1, syncPos: -1, applied: map[int64]int{}, file: e.Path}
					for _, c := range m.Cmds {
						st.vs = append(st.vs, c.Vs...)
						for _, v := range c.Vs {
							tgOf[v] = st
						}
						if c.RecType == 1 {
							pend[c.Path] = append(pend[c.Path], &pcmd{off: c.Offset, vs: c.Vs})
						}
					}
					tgs[m.TGID] = st
					order = append(order, st)
					if curCk != nil {
						bad(pos, "I3: TGDATA %d written between CHECKPOINT(PREPARING,%d) and its COMMITCOMPLETE", m.TGID, curCk.t)
					}
				case "txn":
					switch {
					case m.Dest == 0 && m.Status == 0:
						pendingPrep[e.Path] = m.TGID
					case m.Dest == 0 && m.Status == 2:
						st := tgs[m.TGID]
						if st == nil || st.commitPos >= 0 {
							bad(pos, "I1: TXNINFO(WAL,COMMITCOMPLETE,%d) without a preceding TGDATA", m.TGID)
						} else {
							st.commitPos = pos
							lastCommitted = st
						}
					case m.Dest == 1 && m.Status == 0:
						tr.ckpts++
						if lastCommitted == nil || lastCommitted.id != m.TGID {
							lc := int64(0)
							if lastCommitted != nil {
								lc = lastCommitted.id
							}
							bad(pos, "I3: CHECKPOINT(PREPARING,%d) but the last committed transaction is %d", m.TGID, lc)
						}
						curCk = &ck{t: m.TGID, prepPos: pos, file: e.Path}
					case m.Dest == 1 && m.Status == 2:
						if curCk == nil || curCk.t != m.TGID {
							bad(pos, "I3: CHECKPOINT(COMMITCOMPLETE,%d) without matching PREPARING", m.TGID)
						} else if !curCk.synced {
							bad(pos, "I3: CHECKPOINT(COMMITCOMPLETE,%d) written without a sync after PREPARING", m.TGID)
						} else if m.TGID > ckptDone {
							ckptDone = m.TGID
						}
						curCk = nil
					}
				}
			}
			seen[e.Path] = n
		case e.Kind == sp.Fsync && isWAL(e.Path):
			for _, st := range order {
				if st.file == e.Path && st.commitPos >= 0 && st.syncPos < 0 {
					st.syncPos = pos
				}
			}
			if needStatus[e.Path] == 2 {
				needStatus[e.Path] = 0
			}
		case e.Kind == sp.SyncAll:
			if curCk != nil {
				curCk.synced = true
				// every primary write of transactions <= T must already have happened
				for _, st := range order {
					if st.id <= curCk.t && st.commitPos >= 0 {
						for _, v := range st.vs {
							if st.applied[v] == 0 && tgOf[v] == st {
								bad(pos, "I3: checkpoint %d syncs before the primary write of payload %d (transaction %d)", curCk.t, v, st.id)
							}
						}
					}
				}
			}
		case e.Kind == sp.Truncate && isWAL(e.Path) && e.Size == 0 && len(images[e.Path]) > 0:
			tr.rotates++
			for _, m := range decodeWAL(images[e.Path]) {
				if m.Kind == "tg" && m.TGID > ckptDone {
					bad(pos, "I4: WAL truncated while transaction %d is not covered by a completed checkpoint (last completed: %d)", m.TGID, ckptDone)
				}
			}
			images[e.Path] = nil
			seen[e.Path] = 0
			needStatus[e.Path] = 1
		case e.Kind == sp.Write && strings.HasSuffix(e.Path, ".bin"):
			var vs []int64
			q := pend[e.Path]
			if len(q) > 0 && len(e.Data) == 24 && e.Off == q[0].off {
				vs = q[0].vs
				pend[e.Path] = q[1:]
			} else if len(q) == 0 && len(e.Data) == fixedRecLen && e.Off >= headerSize {
				vs = []int64{int64(binary.LittleEndian.Uint64(e.Data[8:16]))}
			}
			for _, v := range vs {
				st := tgOf[v]
				if st == nil {
					bad(pos, "I1: primary write of payload %d that is in no logged transaction", v)
					continue
				}
				if st.syncPos < 0 || st.syncPos > pos {
					bad(pos, "I1: primary write of payload %d before transaction %d was committed and fsynced in the WAL", v, st.id)
				}
				st.applied[v]++
			}
		case e.Kind == sp.Marker && strings.HasPrefix(e.Text, "A "):
			var id int
			fmt.Sscanf(e.Text, "A %d", &id)
			w := rec.Writes[id]
			if w == nil {
				continue
			}
			for _, v := range effectivePayloads(w.Step) {
				st := tgOf[v]
				if st == nil || st.syncPos < 0 || st.syncPos > pos {
					bad(pos, "I6: request %d acknowledged but payload %d is in no committed and fsynced transaction yet", id, v)
					break
				}
			}
		}
		tr.events++
	}
	return tr
}

// effectivePayloads: payload ids that must be in the log for the request (variable: all records; fixed:
// the last row per interval).
func effectivePayloads(s hist.Step) []int64 {
	var out []int64
	for _, b := range s.Buckets {
		if s.Variable {
			for _, r := range b.Rows {
				out = append(out, r.V)
			}
			continue
		}
		last := map[int64]int64{}
		for _, r := range b.Rows {
			last[hist.IntervalStart(b.Key, r.T)] = r.V
		}
		for _, v := range last {
			out = append(out, v)
		}
	}
	return out
}

// checksumStates: for every transaction, the crash state right after its WAL fsync (before its primary
// writes) with one payload byte of the logged record flipped: the record fails its checksum and must
// leave no trace in the data.
type flipState struct {
	s   *snap
	vs  []int64
	tg  int64
	alt int64
}

func checksumStates(rec *Recording) []flipState {
	var out []flipState
	w := newWalker(rec)
	n := len(rec.Log.Effects)
	type cand struct {
		path string
		off  int64
		body []byte
	}
	var cur *cand
	last8 := map[string]int64{}
	for w.k < n {
		e := rec.Log.Effects[w.k]
		if e.Kind == sp.Write && isWAL(e.Path) {
			if len(e.Data) == 8 {
				last8[e.Path] = int64(binary.LittleEndian.Uint64(e.Data))
			} else if int64(len(e.Data)) == last8[e.Path] && len(e.Data) >= 16 {
				cur = &cand{path: e.Path, off: e.Off, body: e.Data}
				last8[e.Path] = -1
			}
		}
		isSync := e.Kind == sp.Fsync && isWAL(e.Path)
		w.step()
		if isSync && cur != nil {
			tgid, cmds, err := parseTGBody(cur.body)
			if err == nil && len(cmds) > 0 && len(cmds[0].Data) >= 8 {
				// offset of the first record's payload id inside the body
				dataOff := int64(16 + 1 + 2 + len(cmds[0].Path) + 4 + 4 + 8 + 8)
				s := w.snapshot()
				orig := cur.body[dataOff]
				s.FS.Apply(sp.Effect{Kind: sp.Write, Path: cur.path, Off: cur.off + dataOff, Data: []byte{orig ^ 0x01}})
				s.Label = fmt.Sprintf(" +payload byte of logged transaction %d flipped (checksum mismatch)", tgid)
				var vs []int64
				for _, c := range cmds {
					vs = append(vs, c.Vs...)
				}
				out = append(out, flipState{s: s, vs: vs, tg: tgid, alt: cmds[0].Vs[0] ^ 1})
			}
			cur = nil
		}
	}
	return out
}

func c05run(c *runner.Ctx) runner.Result {
	var res runner.Result
	r := c.R("hist")
	o := genOpts{Background: true, Threads: 1 + r.Intn(4), Writes: 5 + r.Intn(6), OwnSlots: c.Case%2 == 0}
	if c.Case%5 == 4 {
		o = genOpts{Writes: 8, Checkpoints: true} // one inline history per five for contrast
	}
	h := genHistory(r, o)
	rec, err := record(h, filepath.Join(c.Scratch, "rec"))
	if err != nil {
		res.Inconclusive("recording failed: " + err.Error())
		return res
	}
	// monitor 1: trace automaton
	tr := traceCheck(rec)
	res.Count("traces_validated", 1)
	res.Count("trace_events", int64(tr.events))
	res.Count("wal_messages", int64(tr.msgs))
	res.Count("transactions_logged", int64(tr.tgs))
	res.Count("checkpoints", int64(tr.ckpts))
	res.Count("rotations", int64(tr.rotates))
	for _, is := range tr.issues {
		res.Violation("WAL protocol trace: "+is, map[string]interface{}{"history": rec.H})
	}
	var trace []string
	hist.ReadJSON(filepath.Join(rec.Dir, "out", "hooktrace.json"), &trace)
	var loop []string
	for _, t := range trace {
		if strings.HasPrefix(t, "wal.loop.") {
			loop = append(loop, strings.TrimPrefix(t, "wal.loop."))
		}
	}
	for i := 0; i+2 < len(loop); i++ {
		res.Set("loop_event_trigrams", loop[i]+">"+loop[i+1]+">"+loop[i+2])
	}
	res.Set("loop_event_orders", trunc(strings.Join(dedupRuns(loop), ">"), 400))
	// monitor 2: recovery at every crash prefix + checksum clause
	m := buildModel(rec)
	snaps := crashPrefixes(rec)
	flips := checksumStates(rec)
	flipOf := map[*snap]flipState{}
	for _, f := range flips {
		snaps = append(snaps, f.s)
		flipOf[f.s] = f
	}
	var mu sync.Mutex
	seen := map[string]bool{}
	forEachState(snaps, c.Scratch, func(s *snap, dir string) {
		rr, err := recoverState(s.FS, dir, false, "recchild")
		mu.Lock()
		defer mu.Unlock()
		if err != nil || rr.Status == "timeout" {
			res.Inconclusive(fmt.Sprintf("prefix %d: restart not judged (%v %s)", s.K, err, rr.Status))
			return
		}
		res.Count("crash_states", 1)
		hsh := s.FS.Hash()
		if !seen[hsh] {
			seen[hsh] = true
			res.Sigs = append(res.Sigs, fmt.Sprintf("c%d/%s", c.Case, hsh))
		}
		v := m.judge(s, rr)
		for k, n := range v.Checked {
			res.Count(k, n)
		}
		wit := map[string]interface{}{"history": rec.H, "crash_prefix": s.K, "variant": s.Label, "effects_tail": effectsTail(rec, s.K, 12)}
		if f, ok := flipOf[s]; ok {
			res.Count("checksum_states", 1)
			if rr.OK {
				for _, bd := range rr.Dump.Buckets {
					for _, row := range bd.Rows {
						for _, vv := range f.vs {
							if row[2] == vv {
								res.Violation(fmt.Sprintf("crash after %d effects%s: payload %d of that transaction is in the data after recovery", s.K, s.Label, vv), wit)
							}
						}
						if row[2] == f.alt && m.varRec[f.alt] == nil && !m.fixedV[f.alt] {
							res.Violation(fmt.Sprintf("crash after %d effects%s: the damaged payload %d was applied", s.K, s.Label, f.alt), wit)
						}
					}
				}
			}
			// a damaged last record must not stop the restart either
			for _, is := range v.C03 {
				if is.Status == "violation" {
					is.Witness = wit
					res.Issues = append(res.Issues, is)
				}
			}
			return
		}
		for _, is := range v.C01 {
			if is.Status == "violation" && len(res.Issues) < 40 {
				is.Witness = wit
			}
			if is.Status == "known" || len(res.Issues) < 200 {
				res.Issues = append(res.Issues, is)
			}
		}
	})
	res.Evals = int64(len(snaps))
	res.Count("writes_acked", int64(countAcked(rec)))
	if c.Case < 2 {
		res.Sample = map[string]interface{}{"history": summarise(rec, len(snaps)), "trace": map[string]int{"events": tr.events, "wal_messages": tr.msgs, "transactions": tr.tgs, "checkpoints": tr.ckpts, "rotations": tr.rotates}, "loop_events": trunc(strings.Join(dedupRuns(loop), ">"), 300)}
	}
	compactKnown(&res)
	return res
}

func init() {
	register(&runner.Monitor{
		ID:    "C05",
		Level: "fault_enumeration",
		Rule: "case = one write history run by the real server code with the real background WAL loop (timers 2-14 ms, rotation every 1-3 checkpoints, 1-4 writers, overlapping and disjoint intervals, seeded delays at the wal.loop.* hook points) under strace; monitor 1 decodes the recorded WAL messages interleaved with fsync/sync/ftruncate/primary writes/acknowledgement markers and checks invariants I1-I6 of the write-ahead protocol on the observed trace; monitor 2 restarts the real server on every crash prefix (acknowledged transactions present, fixed intervals hold the last committed value) and on one checksum-mismatch state per transaction (payload must leave no trace); distinct = tree content hash of the crash state",
		Assumptions:  []string{crashAssumptions, "trace conformance, not model checking: the automaton judges the interleavings that occurred (their number is reported), it does not explore others"},
		Cases:        crashCases(4, 40),
		Batch:        1,
		Par:          2,
		BatchTimeout: 30 * time.Minute,
		Need:         []string{"traces_validated", "transactions_logged", "checkpoints", "crash_states", "checksum_states", "restarts_ok"},
		Run:          c05run,
	})
}
