package main

import (
	"fmt"
	"os"
	"path/filepath"
	"sort"
	"strings"
	"sync"
	"time"

	"github.com/alpacahq/marketstore/v4/verif/internal/runner"
	sp "github.com/alpacahq/marketstore/v4/verif/internal/straceparse"
)

// C34: WAL files are replayed once and never discarded while needed.
// Two-level enumeration: first-level crash states that still hold un-checkpointed transactions are
// restarted under strace; every prefix of the *recovery's* file-mutating system calls is a second-level
// crash state, restarted again (and once more: the final tree must need no replay and must not change).
// Trace checks on every recovery log: the recovering process never unlinks/renames the WAL it created;
// an old WAL is unlinked only after the primary writes of all its replayable transactions and a sync.

type recTrace struct {
	log     *sp.Log
	ownWAL  string
	issues  []string
	unlinks int
}

// analyseRecovery checks one recovery log against the WAL images of the state it started from.
func analyseRecovery(lg *sp.Log, start *sp.FS) *recTrace {
	rt := &recTrace{log: lg}
	// expected primary writes per old WAL: number of write commands in its replayable transactions
	need := map[string]int{}
	for p, f := range start.Files {
		if isWAL(p) {
			for _, tg := range replayable(decodeWAL(f.Bytes(0, f.Size))) {
				need[p] += len(tg.Cmds)
			}
		}
	}
	primary := 0
	lastPrimary, lastSync := -1, -1
	for i, e := range lg.Effects {
		switch {
		case e.Kind == sp.Create && isWAL(e.Path) && start.Files[e.Path] == nil && rt.ownWAL == "":
			rt.ownWAL = e.Path
		case e.Kind == sp.Write && strings.HasSuffix(e.Path, ".bin") && (len(e.Data) == 24):
			primary++
			lastPrimary = i
		case e.Kind == sp.SyncAll:
			lastSync = i
		case (e.Kind == sp.Unlink || e.Kind == sp.Rename) && isWAL(e.Path):
			if e.Path == rt.ownWAL {
				rt.issues = append(rt.issues, fmt.Sprintf("recovery effect %d: %s removes/renames the WAL file the running instance created itself", i, e))
			}
			if e.Kind == sp.Unlink {
				rt.unlinks++
				if n := need[e.Path]; n > 0 {
					if primary < n {
						rt.issues = append(rt.issues, fmt.Sprintf("recovery effect %d: %s deleted after %d primary writes, its un-checkpointed transactions hold %d write commands", i, e, primary, n))
					} else if lastSync < lastPrimary {
						rt.issues = append(rt.issues, fmt.Sprintf("recovery effect %d: %s deleted without a sync after the last replayed primary write", i, e))
					}
				}
			}
		}
	}
	return rt
}

// replayProgress follows the recovery prefix [0,j): per payload id how many variable-length index
// writes completed (matched against the replayable transactions of the start state in replay order), and
// the files left with an in-place data write whose index write is still missing (F-CONT window).
func replayProgress(lg *sp.Log, start *sp.FS, j int) (map[int64]int, []string) {
	out := map[int64]int{}
	pend := map[string][]*pcmd{}
	var wals []string
	for p := range start.Files {
		if isWAL(p) {
			wals = append(wals, p)
		}
	}
	sort.Strings(wals)
	for _, p := range wals {
		f := start.Files[p]
		tgs := replayable(decodeWAL(f.Bytes(0, f.Size)))
		sort.Slice(tgs, func(a, b int) bool { return tgs[a].TGID < tgs[b].TGID })
		for _, tg := range tgs {
			for _, c := range tg.Cmds {
				if c.RecType == 1 {
					pend[c.Path] = append(pend[c.Path], &pcmd{off: c.Offset, vs: c.Vs})
				}
			}
		}
	}
	fs := start.Clone()
	open := map[string]bool{}
	for i := 0; i < j && i < len(lg.Effects); i++ {
		e := lg.Effects[i]
		if e.Kind == sp.Write && strings.HasSuffix(e.Path, ".bin") {
			q := pend[e.Path]
			if len(q) > 0 {
				if len(e.Data) == 24 && q[0].off == e.Off {
					for _, v := range q[0].vs {
						out[v]++
					}
					pend[e.Path] = q[1:]
					delete(open, e.Path)
				} else if e.Off >= headerSize {
					if f := fs.Files[e.Path]; f != nil && e.Off < f.Size {
						open[e.Path] = true
					}
				}
			}
		}
		fs.Apply(e)
	}
	var cont []string
	for p := range open {
		cont = append(cont, p)
	}
	sort.Strings(cont)
	return out, cont
}

func hashBins(fsys *sp.FS) string {
	c := sp.NewFS()
	for p, f := range fsys.Files {
		if strings.HasSuffix(p, ".bin") {
			c.Files[p] = f
		}
	}
	return c.Hash()
}

func hashBinsDir(root string) string {
	var parts []string
	filepath.Walk(root, func(p string, info os.FileInfo, err error) error {
		if err == nil && !info.IsDir() && strings.HasSuffix(p, ".bin") {
			b, _ := os.ReadFile(p)
			h := 0
			for i, x := range b {
				if x != 0 {
					h = h*131 + int(x) + i
				}
			}
			r, _ := filepath.Rel(root, p)
			parts = append(parts, fmt.Sprintf("%s:%d:%d", r, len(b), h))
		}
		return nil
	})
	sort.Strings(parts)
	return strings.Join(parts, "|")
}

func c34run(c *runner.Ctx) runner.Result {
	var res runner.Result
	r := c.R("hist")
	o := genOpts{Writes: 6 + r.Intn(4), Checkpoints: c.Case%2 == 0}
	if c.Case%3 == 1 {
		o.VarHeavy = true
	}
	h := genHistory(r, o)
	rec, err := record(h, filepath.Join(c.Scratch, "rec"))
	if err != nil {
		res.Inconclusive("recording failed: " + err.Error())
		return res
	}
	m := buildModel(rec)
	all := crashPrefixes(rec)
	// first-level states that still need replay
	var first []*snap
	for _, s := range all {
		n := 0
		for _, msgs := range s.walImages() {
			n += len(replayable(msgs))
		}
		if n > 0 && len(s.Cont) == 0 {
			first = append(first, s)
		}
	}
	maxFirst := 6
	if c.Thorough() {
		maxFirst = 40
	}
	if len(first) > maxFirst {
		step := float64(len(first)) / float64(maxFirst)
		var pick []*snap
		for i := 0; i < maxFirst; i++ {
			pick = append(pick, first[int(float64(i)*step)])
		}
		first = pick
	}
	res.Count("first_level_states", int64(len(first)))
	var mu sync.Mutex
	type second struct {
		s     *snap
		j     int
		lg    *sp.Log
		start *snap
	}
	var seconds []second
	// level 1: traced recoveries (sequential per worker)
	forEachState(first, c.Scratch, func(s *snap, dir string) {
		root := filepath.Join(dir, "root")
		if err := s.FS.Materialise(root); err != nil {
			return
		}
		lg, status, err := runTraced(dir, "rec1", root, filepath.Join(dir, "nomarker"), 90*time.Second, bin("recchild"), root, filepath.Join(dir, "rec.json"))
		mu.Lock()
		defer mu.Unlock()
		if err != nil {
			res.Inconclusive(fmt.Sprintf("first-level prefix %d: traced recovery failed: %v", s.K, err))
			return
		}
		res.Count("recoveries_traced", 1)
		res.Count("recovery_syscalls", int64(lg.Syscalls))
		if status != "0" {
			res.Violation(fmt.Sprintf("first-level crash after %d effects: restart failed (%s)", s.K, status), map[string]interface{}{"history": rec.H, "crash_prefix": s.K})
			return
		}
		rt := analyseRecovery(lg, s.FS)
		res.Count("wal_unlinks_observed", int64(rt.unlinks))
		for _, is := range rt.issues {
			res.Violation(fmt.Sprintf("first-level crash after %d effects: %s", s.K, is), map[string]interface{}{"history": rec.H, "crash_prefix": s.K})
		}
		for j := 1; j <= len(lg.Effects); j++ {
			if lg.Effects[j-1].Mutating() || j == len(lg.Effects) {
				seconds = append(seconds, second{j: j, lg: lg, start: s})
			}
		}
	})
	// level 2 states
	var snaps []*snap
	info := map[*snap]second{}
	for _, sc := range seconds {
		fs2 := sc.start.FS.Clone()
		for i := 0; i < sc.j; i++ {
			fs2.Apply(sc.lg.Effects[i])
		}
		ap := map[int64]int{}
		for v, n := range sc.start.Applied {
			ap[v] = n
		}
		ap2, cont2 := replayProgress(sc.lg, sc.start.FS, sc.j)
		for v, n := range ap2 {
			ap[v] += n
		}
		s2 := &snap{K: sc.start.K, FS: fs2, Applied: ap, Label: fmt.Sprintf(" +second crash after %d effects of the recovery (last: %s)", sc.j, sc.lg.Effects[sc.j-1])}
		// the F-CONT window can open during replay as well
		s2.Cont = cont2
		s2.scanHalf()
		snaps = append(snaps, s2)
		info[s2] = sc
	}
	seen := map[string]bool{}
	forEachState(snaps, c.Scratch, func(s *snap, dir string) {
		rr, err := recoverState(s.FS, dir, false, "recchild")
		if err != nil || rr.Status == "timeout" {
			mu.Lock()
			res.Inconclusive(fmt.Sprintf("second-level state not judged (%v)", err))
			mu.Unlock()
			return
		}
		// third restart on the recovered tree: nothing left to do, nothing changes
		var third *Recovered
		before := ""
		if rr.OK {
			before = hashBinsDir(filepath.Join(dir, "root"))
			third, _ = recoverDir(filepath.Join(dir, "root"), dir, false, "recchild")
		}
		mu.Lock()
		defer mu.Unlock()
		res.Count("second_level_states", 1)
		hsh := s.FS.Hash()
		if !seen[hsh] {
			seen[hsh] = true
			res.Sigs = append(res.Sigs, fmt.Sprintf("c%d/%s", c.Case, hsh))
		}
		wit := map[string]interface{}{"history": rec.H, "crash_prefix": s.K, "variant": s.Label}
		v := m.judge(s, rr)
		for k, n := range v.Checked {
			res.Count(k, n)
		}
		for _, is := range append(append(append([]runner.Issue{}, v.C01...), v.C02...), v.C03...) {
			if is.Status == "violation" {
				is.Witness = wit
			}
			if is.Status == "known" || len(res.Issues) < 120 {
				res.Issues = append(res.Issues, is)
			}
		}
		if rr.OK {
			if len(rr.Dump.WALFiles) > 0 {
				left := []string{}
				for _, w := range rr.Dump.WALFiles {
					if !strings.HasSuffix(w, ".tmp") {
						left = append(left, w)
					}
				}
				if len(left) > 0 {
					res.Violation(fmt.Sprintf("crash after %d effects%s: after a successful start-up old WAL files are still present: %v", s.K, s.Label, left), wit)
				}
			}
			if third == nil || !third.OK {
				st := "not run"
				if third != nil {
					st = third.Status + ": " + third.Out
				}
				res.Violation(fmt.Sprintf("crash after %d effects%s: a further restart fails: %s", s.K, s.Label, st), wit)
			} else {
				res.Count("third_restarts", 1)
				if after := hashBinsDir(filepath.Join(dir, "root")); after != before {
					res.Violation(fmt.Sprintf("crash after %d effects%s: a further restart changes the primary files (something was replayed again)", s.K, s.Label), wit)
				}
				if d := dumpDiff(rr.Dump, third.Dump); d != "" {
					res.Violation(fmt.Sprintf("crash after %d effects%s: a further restart changes query results: %s", s.K, s.Label, d), wit)
				}
			}
		}
	})
	res.Evals = int64(len(snaps) + len(first))
	res.Count("histories", 1)
	if c.Case < 2 {
		res.Sample = map[string]interface{}{"history": summarise(rec, len(all)), "first_level_states_restarted_under_strace": len(first), "second_level_states": len(snaps)}
	}
	compactKnown(&res)
	return res
}

func init() {
	register(&runner.Monitor{
		ID:    "C34",
		Level: "fault_enumeration",
		Rule: "case = one write history (inline mode, with/without explicit checkpoints, continuation writes) recorded under strace; first-level crash states that still hold un-checkpointed transactions (quick: 6 per history, thorough: 40) are restarted for real under strace; every prefix of each recovery's file-mutating system calls is a second-level crash state, restarted again and then once more; oracles: the acknowledged history is returned (duplicates only as the listed defect predicts), no old WAL file remains, the recovering process never removes its own WAL, an old WAL is unlinked only after all primary writes of its un-checkpointed transactions and a sync, a further restart changes neither files nor results; distinct = tree content hash of the second-level state",
		Assumptions:  []string{crashAssumptions},
		Cases:        crashCases(2, 20),
		Batch:        1,
		Par:          2,
		BatchTimeout: 40 * time.Minute,
		Need:         []string{"first_level_states", "recoveries_traced", "second_level_states", "third_restarts", "wal_unlinks_observed"},
		Run:          c34run,
	})
}
