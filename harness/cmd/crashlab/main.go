// crashlab: syscall-log crash-state enumeration (see DESIGN.md 3.1). The judge links no code of
// the repository under test; the workload (wlchild) and the restart (recchild) are the real code.
package main

import (
	"fmt"
	"os"
	"path/filepath"
	"runtime"
	"sync"
	"time"

	"github.com/alpacahq/marketstore/v4/verif/internal/hist"
	"github.com/alpacahq/marketstore/v4/verif/internal/runner"
	sp "github.com/alpacahq/marketstore/v4/verif/internal/straceparse"
)

var monitors []*runner.Monitor

func register(m *runner.Monitor) { monitors = append(monitors, m) }

func main() { runner.Main(monitors...) }

func workers() int {
	n := runtime.NumCPU()
	if n > 16 {
		n = 16
	}
	return n
}

// forEachState runs f on every snapshot in parallel (each call gets a private scratch directory).
func forEachState(snaps []*snap, scratch string, f func(s *snap, dir string)) {
	ch := make(chan int, len(snaps))
	for i := range snaps {
		ch <- i
	}
	close(ch)
	var wg sync.WaitGroup
	for w := 0; w < workers(); w++ {
		wg.Add(1)
		go func(w int) {
			defer wg.Done()
			for i := range ch {
				dir := filepath.Join(scratch, fmt.Sprintf("w%d-s%d", w, i))
				os.MkdirAll(dir, 0o755)
				if kd := os.Getenv("VERIF_KEEPDIR"); kd != "" && fmt.Sprint(snaps[i].K) == os.Getenv("VERIF_KEEPK") {
					// debugging aid: the crash state before the restart touches it
					snaps[i].FS.Materialise(filepath.Join(kd, fmt.Sprintf("state-k%d", snaps[i].K)))
				}
				f(snaps[i], dir)
				os.RemoveAll(dir)
			}
		}(w)
	}
	wg.Wait()
}

// crashPrefixes returns a snapshot for every prefix that ends with a file-mutating effect, plus the
// complete log.
func crashPrefixes(rec *Recording) []*snap {
	w := newWalker(rec)
	var out []*snap
	n := len(rec.Log.Effects)
	for w.k < n {
		mut := rec.Log.Effects[w.k].Mutating()
		w.step()
		if mut || w.k == n {
			out = append(out, w.snapshot())
		}
	}
	return out
}

type histSummary struct {
	Mode     string `json:"mode"`
	Writes   int    `json:"writes"`
	Effects  int    `json:"effects"`
	Syscalls int    `json:"syscalls_traced"`
	States   int    `json:"crash_states"`
	First    []string `json:"first_steps"`
}

func summarise(rec *Recording, states int) histSummary {
	hs := histSummary{Mode: rec.H.Mode, Writes: len(rec.Writes), Effects: len(rec.Log.Effects), Syscalls: rec.Log.Syscalls, States: states}
	for _, th := range rec.H.Threads {
		for i, s := range th {
			if i >= 4 {
				break
			}
			d := s.Op
			if s.Op == "write" {
				d = fmt.Sprintf("write#%d var=%v", s.ID, s.Variable)
				for _, b := range s.Buckets {
					d += fmt.Sprintf(" %s x%d", b.Key, len(b.Rows))
				}
			}
			hs.First = append(hs.First, d)
		}
	}
	return hs
}

// processCrashCase: record one history, restart on every crash prefix, judge; pick selects the
// property's issues from the verdict.
func processCrashCase(c *runner.Ctx, h *hist.History, pick func(v *verdict) []runner.Issue, res *runner.Result) {
	rec, err := record(h, filepath.Join(c.Scratch, "rec"))
	if err != nil {
		res.Inconclusive("recording failed: " + err.Error())
		return
	}
	m := buildModel(rec)
	snaps := crashPrefixes(rec)
	var mu sync.Mutex
	seen := map[string]bool{}
	forEachState(snaps, c.Scratch, func(s *snap, dir string) {
		r, err := recoverState(s.FS, dir, false, "recchild")
		mu.Lock()
		defer mu.Unlock()
		if err != nil {
			res.Inconclusive(fmt.Sprintf("prefix %d: cannot run restart: %v", s.K, err))
			return
		}
		if r.Status == "timeout" {
			res.Inconclusive(fmt.Sprintf("prefix %d: restart watchdog fired", s.K))
			return
		}
		v := m.judge(s, r)
		for k, n := range v.Checked {
			res.Count(k, n)
		}
		res.Count("crash_states", 1)
		h := s.FS.Hash()
		if !seen[h] {
			seen[h] = true
			res.Sigs = append(res.Sigs, fmt.Sprintf("c%d/%s", c.Case, h))
		}
		for _, is := range pick(v) {
			if is.Status == "violation" && len(res.Issues) < 40 {
				is.Witness = map[string]interface{}{"history": rec.H, "crash_prefix": s.K, "variant": s.Label, "effects_tail": effectsTail(rec, s.K, 12)}
			}
			if is.Status == "known" || len(res.Issues) < 200 {
				res.Issues = append(res.Issues, is)
			}
		}
	})
	res.Evals = int64(len(snaps))
	res.Count("histories", 1)
	res.Count("syscalls_traced", int64(rec.Log.Syscalls))
	res.Count("effects", int64(len(rec.Log.Effects)))
	res.Count("writes_acked", int64(countAcked(rec)))
	if c.Case < 2 {
		res.Sample = summarise(rec, len(snaps))
	}
	compactKnown(res)
}

// compactKnown folds repeated known-finding issues of one case into one issue per finding with a count.
func compactKnown(res *runner.Result) {
	first := map[string]int{}
	cnt := map[string]int{}
	var out []runner.Issue
	for _, is := range res.Issues {
		if is.Status != "known" {
			out = append(out, is)
			continue
		}
		cnt[is.Finding]++
		if _, ok := first[is.Finding]; !ok {
			first[is.Finding] = len(out)
			out = append(out, is)
		}
	}
	for f, i := range first {
		res.Count("known_"+f, int64(cnt[f]))
		if cnt[f] > 1 {
			out[i].Detail = fmt.Sprintf("[%d crash states] %s", cnt[f], out[i].Detail)
		}
	}
	res.Issues = out
}

func countAcked(rec *Recording) int {
	n := 0
	for _, w := range rec.Writes {
		if w.A >= 0 {
			n++
		}
	}
	return n
}

func effectsTail(rec *Recording, k, n int) []string {
	var out []string
	for i := k - n; i < k; i++ {
		if i >= 0 {
			out = append(out, fmt.Sprintf("%d: %s", i, rec.Log.Effects[i].String()))
		}
	}
	return out
}

const crashAssumptions = "crash model: the process dies between two system calls; every prefix of the recorded file-mutating system calls is a crash state (effects of overlapping calls on different threads are ordered by completion); the restart is the real start-up code on the materialised tree on tmpfs"

func crashCases(quick, thorough int) func(string) int {
	return func(tier string) int {
		if tier == "thorough" {
			return thorough
		}
		return quick
	}
}

func init() {
	mk := func(id, what string, pick func(v *verdict) []runner.Issue, need []string) {
		register(&runner.Monitor{
			ID:    id,
			Level: "fault_enumeration",
			Rule: "case = one generated write history (inline mode with explicit checkpoints, or background mode with the real SyncWAL loop at ms timers; 2 fixed + 2 variable buckets, intervals on both sides of a year boundary, repeated intervals, multi-bucket requests) executed by the real server code under strace; " +
				"every prefix of its file-mutating system calls is materialised as a crash state and restarted with the real start-up; " + what + "; a crash state is non-trivial/distinct by the content hash of its tree",
			Assumptions:  []string{crashAssumptions},
			Cases:        crashCases(map[bool]int{true: 5, false: 4}[id == "C03"], 40),
			Batch:        1,
			Par:          2,
			BatchTimeout: 30 * time.Minute,
			Need:         need,
			Run: func(c *runner.Ctx) runner.Result {
				var res runner.Result
				r := c.R("hist")
				o := genOpts{Writes: 6 + r.Intn(5), Checkpoints: true}
				switch c.Case % 4 {
				case 1:
					o.VarHeavy = true
				case 2:
					o.Background, o.Threads, o.Writes, o.OwnSlots = true, 1+r.Intn(2), 5+r.Intn(4), true
				case 3:
					o.Writes = 10 + r.Intn(6)
					o.Destroy = true // a Destroy request in mid-history: the WAL then holds transactions for files that are gone
				}
				h := genHistory(r, o)
				if id == "C03" && c.Case%5 == 4 {
					// C03's quantifier includes the power-loss model: every fifth case applies the bounded
					// loss/tear patterns (see C04) and judges "restart succeeds, buckets readable" on them
					h = genHistory(c.R("hist-loss"), genOpts{Writes: 5 + r.Intn(3), Checkpoints: true, VarHeavy: c.Case%10 == 9})
					processLossCase(c, h, false, 16, pick, &res)
					res.Count("crash_states", res.Counts["loss_states"])
					return res
				}
				processCrashCase(c, h, pick, &res)
				return res
			},
		})
	}
	mk("C01", "oracle: every record of a write acknowledged before the crash is returned; every fixed slot written by an acknowledged write holds the value of the last acknowledged write to it or of an in-flight one",
		func(v *verdict) []runner.Issue { return v.C01 }, []string{"crash_states", "restarts_ok", "fixed_slots_checked", "variable_records_checked"})
	mk("C02", "oracle: no row that was never issued, no torn row, every variable record exactly once, every in-flight request applied completely or not at all",
		func(v *verdict) []runner.Issue { return v.C02 }, []string{"crash_states", "restarts_ok", "variable_records_checked"})
	mk("C03", "oracle: the restart exits normally, every bucket whose creating write was acknowledged is listed and its unrestricted query returns no error",
		func(v *verdict) []runner.Issue { return v.C03 }, []string{"crash_states", "bucket_queries"})
}

var _ = sp.Marker
