package main

import (
	"fmt"
	"path/filepath"
	"strings"
	"time"

	"github.com/alpacahq/marketstore/v4/verif/internal/gen"
	"github.com/alpacahq/marketstore/v4/verif/internal/hist"
	"github.com/alpacahq/marketstore/v4/verif/internal/runner"
	sp "github.com/alpacahq/marketstore/v4/verif/internal/straceparse"
)

// C07: a write returns only after it is durable and visible.
// The real server code runs with the real background WAL loop (timers 2-20 ms / 50-100 ms) and 2-16
// concurrent writers; every writer owns its intervals and, right after WriteCSM returned, queries them.
// Visible: the query invoked after the return must contain the request's data (marker R <id> ok|stale,
// written by the workload process at the client boundary).
// Durable: in the strace log of the same run, every acknowledgement marker A <id> must be preceded by an
// fsync of the WAL that follows the WAL write carrying the request's payload (invariants I1/I6 of the
// C05 trace checker on this recording).

func c07history(r *gen.R, thorough bool) *hist.History {
	h := &hist.History{Mode: "background", End: "shutdown"}
	h.WalMs = r.PickI(2, 3, 5, 10, 20)
	h.PrimMs = r.PickI(50, 70, 100)
	h.Rotate = 2
	h.HookSeed = int64(r.Intn(1<<30)) + 1
	nth := r.PickI(2, 4, 8, 16)
	per := 12 + r.Intn(12)
	if thorough {
		per = 40 + r.Intn(60)
	}
	h.Threads = make([][]hist.Step, nth)
	id := 0
	for t := 0; t < nth; t++ {
		variable := t%2 == 1
		key := fmt.Sprintf("S%02d/1H/F", t)
		if variable {
			key = fmt.Sprintf("S%02d/1H/V", t)
		}
		if t%4 >= 2 {
			// two writers share a bucket but own different intervals
			key = fmt.Sprintf("SH%d/1H/%s", t%2, map[bool]string{false: "F", true: "V"}[variable])
		}
		for i := 0; i < per; i++ {
			id++
			st := hist.Step{Op: "write", ID: id, Variable: variable, ReadBack: true}
			bw := hist.BucketWrite{Key: key}
			nr := 1 + r.Intn(2)
			for k := 0; k < nr; k++ {
				slot := int64(t*40 + r.Intn(6)) // owned by thread t
				tns := (yearEdge + slot*3600) * 1e9
				if variable {
					tns += int64(i)*1e9 + int64(k)*1000 + 7
				}
				bw.Rows = append(bw.Rows, hist.Row{T: tns, V: int64(id)*1000 + int64(k)})
			}
			st.Buckets = append(st.Buckets, bw)
			h.Threads[t] = append(h.Threads[t], st)
			if r.P(1, 5) {
				h.Threads[t] = append(h.Threads[t], hist.Step{Op: "sleep", Us: r.PickI(100, 700, 3000)})
			}
		}
	}
	return h
}

func c07run(c *runner.Ctx) runner.Result {
	var res runner.Result
	r := c.R("hist")
	h := c07history(r, c.Thorough())
	rec, err := record(h, filepath.Join(c.Scratch, "rec"))
	if err != nil {
		res.Inconclusive("recording failed: " + err.Error())
		return res
	}
	stale, ok, rerr := 0, 0, 0
	firstStale := ""
	for _, e := range rec.Log.Effects {
		if e.Kind != sp.Marker || !strings.HasPrefix(e.Text, "R ") {
			continue
		}
		f := strings.SplitN(e.Text, " ", 4)
		if len(f) < 3 {
			continue
		}
		switch f[2] {
		case "ok":
			ok++
		case "stale":
			stale++
			if firstStale == "" {
				firstStale = e.Text
			}
		default:
			rerr++
			if firstStale == "" {
				firstStale = e.Text
			}
		}
	}
	res.Count("post_return_reads", int64(ok+stale+rerr))
	res.Count("post_return_reads_ok", int64(ok))
	res.Count("writers", int64(len(h.Threads)))
	wit := map[string]interface{}{"wal_ms": h.WalMs, "prim_ms": h.PrimMs, "writers": len(h.Threads), "hook_seed": h.HookSeed, "first": firstStale}
	if stale > 0 {
		res.Violation(fmt.Sprintf("%d of %d queries issued after WriteCSM returned did not see the request's own data (%d writers); first: %s", stale, ok+stale+rerr, len(h.Threads), firstStale), wit)
	}
	if rerr > 0 {
		res.Violation(fmt.Sprintf("%d post-return queries failed; first: %s", rerr, firstStale), wit)
	}
	tr := traceCheck(rec)
	res.Count("acks_checked_against_wal_fsync", int64(countAcked(rec)))
	res.Count("transactions_logged", int64(tr.tgs))
	res.Count("trace_events", int64(tr.events))
	for _, is := range tr.issues {
		if strings.Contains(is, "I1:") || strings.Contains(is, "I6:") {
			res.Violation("durability: "+is, wit)
		}
	}
	// overlap evidence: how many flush requests were issued while another one was queued or running
	var trace []string
	hist.ReadJSON(filepath.Join(rec.Dir, "out", "hooktrace.json"), &trace)
	inFlush, overl := 0, 0
	var loop []string
	for _, t := range trace {
		switch t {
		case "wal.reqflush.enter":
			if inFlush > 0 {
				overl++
			}
			inFlush++
		case "wal.reqflush.done":
			if inFlush > 0 {
				inFlush--
			}
		}
		if strings.HasPrefix(t, "wal.") {
			loop = append(loop, strings.TrimPrefix(t, "wal."))
		}
	}
	res.Count("flush_requests_overlapping_another", int64(overl))
	for i := 0; i+2 < len(loop); i++ {
		res.Set("hook_event_trigrams", loop[i]+">"+loop[i+1]+">"+loop[i+2])
	}
	res.Sig = fmt.Sprintf("w%d/wal%d/prim%d/overlap%v", len(h.Threads), h.WalMs, h.PrimMs, overl > 0)
	if c.Case < 2 {
		res.Sample = map[string]interface{}{"writers": len(h.Threads), "writes": len(rec.Writes), "wal_ms": h.WalMs, "prim_ms": h.PrimMs, "post_return_reads": ok + stale + rerr, "overlapping_flush_requests": overl, "syscalls_traced": rec.Log.Syscalls}
	}
	return res
}

func init() {
	register(&runner.Monitor{
		ID:    "C07",
		Level: "exploration",
		Rule: "case = one run of the real server code with the real background WAL loop (WAL timer 2-20 ms, checkpoint timer 50-100 ms, rotation every 2 checkpoints, seeded delays at the wal.reqflush.*/wal.loop.* hook points) and 2, 4, 8 or 16 concurrent writers (fixed and variable buckets, private and shared buckets, every writer owns its intervals) under strace; after every acknowledged request the writer queries its intervals (visible) and the log is checked for a WAL fsync between the request's WAL record and its acknowledgement (durable); non-trivial = at least one post-return read; distinct by (writers, timers, whether flush requests overlapped)",
		Assumptions:  []string{"visibility is judged at the client boundary of the in-process API (Writer.WriteCSM, QueryService.ExecuteQuery), not over HTTP", "durable = fsync(2) of the WAL file observed in the system-call log"},
		Cases:        crashCases(12, 120),
		Batch:        1,
		Par:          4,
		BatchTimeout: 20 * time.Minute,
		Need:         []string{"post_return_reads", "acks_checked_against_wal_fsync", "flush_requests_overlapping_another"},
		Run:          c07run,
	})
}
