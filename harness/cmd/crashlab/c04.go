package main

import (
	"fmt"
	"path/filepath"
	"sync"
	"time"

	"github.com/alpacahq/marketstore/v4/verif/internal/hist"
	"github.com/alpacahq/marketstore/v4/verif/internal/runner"
)

// processLossCase: record a history; at the chosen prefixes apply the bounded set of loss/tear variants
// to the not-yet-synced data; restart for real on each distinct resulting tree; judge.
func processLossCase(c *runner.Ctx, h *hist.History, every bool, perPoint int, pick func(v *verdict) []runner.Issue, res *runner.Result) {
	rec, err := record(h, filepath.Join(c.Scratch, "rec"))
	if err != nil {
		res.Inconclusive("recording failed: " + err.Error())
		return
	}
	m := buildModel(rec)
	r := c.R("loss")
	var snaps []*snap
	seen := map[string]bool{}
	points := lossPoints(rec, every)
	nvar := 0
	for _, k := range points {
		for _, v := range lossVariants(rec, k, r, perPoint) {
			nvar++
			s := buildLossState(rec, k, v)
			hsh := s.FS.Hash()
			if seen[hsh] {
				continue
			}
			seen[hsh] = true
			snaps = append(snaps, s)
		}
	}
	var mu sync.Mutex
	forEachState(snaps, c.Scratch, func(s *snap, dir string) {
		rr, err := recoverState(s.FS, dir, false, "recchild")
		mu.Lock()
		defer mu.Unlock()
		if err != nil {
			res.Inconclusive(fmt.Sprintf("prefix %d: cannot run restart: %v", s.K, err))
			return
		}
		if rr.Status == "timeout" {
			res.Inconclusive(fmt.Sprintf("prefix %d%s: restart watchdog fired", s.K, s.Label))
			return
		}
		v := m.judge(s, rr)
		for k, n := range v.Checked {
			res.Count(k, n)
		}
		res.Count("loss_states", 1)
		res.Sigs = append(res.Sigs, fmt.Sprintf("c%d/%s", c.Case, s.FS.Hash()))
		for _, is := range pick(v) {
			if is.Status == "violation" && len(res.Issues) < 40 {
				is.Witness = map[string]interface{}{"history": rec.H, "crash_prefix": s.K, "variant": s.Label, "effects_tail": effectsTail(rec, s.K, 14)}
			}
			if is.Status == "known" || len(res.Issues) < 200 {
				res.Issues = append(res.Issues, is)
			}
		}
	})
	res.Evals = int64(len(snaps))
	res.Count("histories", 1)
	res.Count("loss_points", int64(len(points)))
	res.Count("loss_variants_generated", int64(nvar))
	res.Count("syscalls_traced", int64(rec.Log.Syscalls))
	res.Count("writes_acked", int64(countAcked(rec)))
	if c.Case < 2 {
		hs := summarise(rec, len(snaps))
		res.Sample = map[string]interface{}{"history": hs, "loss_points": len(points), "example_variant": firstLabel(snaps)}
	}
	compactKnown(res)
}

func firstLabel(s []*snap) string {
	for _, x := range s {
		if x.Label != "" {
			return fmt.Sprintf("prefix %d%s", x.K, x.Label)
		}
	}
	return ""
}

func c04pick(v *verdict) []runner.Issue {
	// acknowledged data must be recovered: the C01 clause, on power-loss states (a failed restart is
	// reported through it as well)
	return v.C01
}

func init() {
	register(&runner.Monitor{
		ID:    "C04",
		Level: "fault_enumeration",
		Rule: "case = one generated write history executed by the real server code under strace; at every prefix just after an acknowledgement marker, just before/after every fsync of the WAL, just before/after every global sync, after every WAL truncation and at the end of the log (thorough: at every prefix ending in a mutating call) the not-yet-synced writes are subjected to a bounded set of loss patterns (all lost; all of one file lost; only a time-prefix of one file's writes survives; one write lost alone; one write torn at 512-byte multiples or its midpoint; each with the file size shrinking or surviving as zeros); every distinct resulting tree is restarted with the real start-up and the acknowledged history must be returned; distinct = tree content hash",
		Assumptions: []string{crashAssumptions, "power-loss model: only file *data* written after the file's last fsync and after the last sync(2) may be lost or torn; create/mkdir/rename/unlink and explicit truncation are ordered and durable; sync(2) is taken at its word"},
		Cases:        crashCases(3, 30),
		Batch:        1,
		Par:          2,
		BatchTimeout: 40 * time.Minute,
		Need:         []string{"loss_states", "restarts_ok", "fixed_slots_checked", "variable_records_checked"},
		Run: func(c *runner.Ctx) runner.Result {
			var res runner.Result
			r := c.R("hist")
			o := genOpts{Writes: 5 + r.Intn(4), Checkpoints: true}
			switch c.Case % 3 {
			case 1:
				o.VarHeavy = true
			case 2:
				o.Background, o.Threads, o.Writes, o.OwnSlots = true, 1, 5+r.Intn(3), true
			}
			h := genHistory(r, o)
			every := c.Thorough() && c.Case%5 == 0
			processLossCase(c, h, every, 40, c04pick, &res)
			return res
		},
	})
}
