package main

import (
	"bytes"
	"encoding/binary"
	"fmt"
	"os"
	"os/exec"
	"path/filepath"
	"strconv"
	"strings"
	"syscall"
	"time"

	"github.com/alpacahq/marketstore/v4/verif/internal/hist"
	sp "github.com/alpacahq/marketstore/v4/verif/internal/straceparse"
)

const straceSet = "trace=openat,open,read,pread64,write,pwrite64,lseek,ftruncate,fsync,fdatasync,sync,syncfs,close,unlinkat,unlink,rmdir,renameat,renameat2,rename,mkdirat,mkdir"

func bin(name string) string { return filepath.Join(os.Getenv("VERIF_BIN"), name) }

// runTraced runs argv under strace with its output in dir/<tag>.out; returns the parsed log.
func runTraced(dir, tag, root, marker string, timeout time.Duration, argv ...string) (*sp.Log, string, error) {
	logp := filepath.Join(dir, tag+".strace")
	outp := filepath.Join(dir, tag+".out")
	// sync(2)/syncfs(2) are recorded but made no-ops (inject retval=0): the crash model is applied to the
	// recorded log, real device durability plays no part, and a global sync would make the run time
	// depend on unrelated disk activity of the machine.
	args := append([]string{"-f", "-y", "-xx", "-s", "8000000", "-e", straceSet, "-e", "inject=sync,syncfs:retval=0", "-o", logp}, argv...)
	cmd := exec.Command("strace", args...)
	of, _ := os.Create(outp)
	cmd.Stdout, cmd.Stderr = of, of
	cmd.SysProcAttr = &syscall.SysProcAttr{Setpgid: true}
	if err := cmd.Start(); err != nil {
		return nil, "", err
	}
	done := make(chan error, 1)
	go func() { done <- cmd.Wait() }()
	var werr error
	select {
	case werr = <-done:
	case <-time.After(timeout):
		syscall.Kill(-cmd.Process.Pid, syscall.SIGKILL)
		<-done
		of.Close()
		return nil, "", fmt.Errorf("traced process timed out after %s", timeout)
	}
	of.Close()
	lg, err := sp.Parse(logp, root, marker)
	if err != nil {
		return nil, "", err
	}
	os.Remove(logp)
	status := "0"
	if werr != nil {
		status = werr.Error()
	}
	return lg, status, nil
}

// Recording is a traced execution of a history.
type Recording struct {
	H       *hist.History
	Log     *sp.Log
	Dir     string
	Root    string
	Writes  map[int]*winfo
	Order   []int // write ids in S order
	MarkPos map[string][]int
	TGOf    map[int64]int64 // payload id -> id of the logged transaction that carries it (whole recording)
	TGPos   map[int64]int   // transaction id -> effect index of its TGDATA body write
	// Destroys: per bucket key, the [start, ack] effect positions of Destroy requests (ack = -1: not acknowledged)
	Destroys map[string][][2]int
}

type winfo struct {
	ID       int
	Step     hist.Step
	S, A     int // effect index of the markers (-1 if absent)
	Err      string
}

func record(h *hist.History, dir string) (*Recording, error) {
	os.MkdirAll(filepath.Join(dir, "out"), 0o755)
	root := filepath.Join(dir, "root")
	marker := filepath.Join(dir, "markers")
	hp := filepath.Join(dir, "h.json")
	if err := hist.WriteJSON(hp, h); err != nil {
		return nil, err
	}
	lg, status, err := runTraced(dir, "wl", root, marker, 120*time.Second, bin("wlchild"), root, hp, marker, filepath.Join(dir, "out"))
	if err != nil {
		return nil, err
	}
	if status != "0" {
		out, _ := os.ReadFile(filepath.Join(dir, "wl.out"))
		return nil, fmt.Errorf("workload process failed (%s): %s", status, tail(string(out), 1500))
	}
	if len(lg.Unparsed) > 0 {
		return nil, fmt.Errorf("parser: %s", strings.Join(lg.Unparsed, "; "))
	}
	// self-check: all effects applied to an empty tree reproduce the final tree
	fs := sp.NewFS()
	for i, e := range lg.Effects {
		if err := fs.Apply(e); err != nil {
			return nil, fmt.Errorf("self-check: effect %d %s: %v", i, e, err)
		}
	}
	want, err := sp.HashDirFlat(root)
	if err != nil {
		return nil, err
	}
	if got := fs.HashFlat(); got != want {
		return nil, fmt.Errorf("self-check: replaying all %d effects does not reproduce the workload's final tree (%s != %s)", len(lg.Effects), got, want)
	}
	os.RemoveAll(root)
	rec := &Recording{H: h, Log: lg, Dir: dir, Root: root, Writes: map[int]*winfo{}, MarkPos: map[string][]int{}}
	for _, th := range h.Threads {
		for _, s := range th {
			if s.Op == "write" {
				rec.Writes[s.ID] = &winfo{ID: s.ID, Step: s, S: -1, A: -1}
			}
		}
	}
	rec.TGOf = map[int64]int64{}
	rec.TGPos = map[int64]int{}
	last8 := map[string]int64{}
	for ei, e := range lg.Effects {
		if e.Kind == sp.Write && strings.Contains(e.Path, ".walfile") {
			if len(e.Data) == 8 {
				last8[e.Path] = int64(binary.LittleEndian.Uint64(e.Data))
			} else if int64(len(e.Data)) == last8[e.Path] && len(e.Data) >= 16 {
				if tgid, cmds, err := parseTGBody(e.Data); err == nil {
					rec.TGPos[tgid] = ei
					for _, c := range cmds {
						for _, v := range c.Vs {
							rec.TGOf[v] = tgid
						}
					}
				}
				last8[e.Path] = -1
			}
		}
	}
	for i, e := range lg.Effects {
		if e.Kind != sp.Marker {
			continue
		}
		f := strings.Fields(e.Text)
		if len(f) == 0 {
			continue
		}
		rec.MarkPos[f[0]] = append(rec.MarkPos[f[0]], i)
		if len(f) >= 3 && (f[0] == "DS" || f[0] == "DA") {
			if rec.Destroys == nil {
				rec.Destroys = map[string][][2]int{}
			}
			if f[0] == "DS" {
				rec.Destroys[f[2]] = append(rec.Destroys[f[2]], [2]int{i, -1})
			} else if l := rec.Destroys[f[2]]; len(l) > 0 {
				l[len(l)-1][1] = i
			}
			continue
		}
		if len(f) >= 2 {
			id, err := strconv.Atoi(f[1])
			if err != nil {
				continue
			}
			w := rec.Writes[id]
			if w == nil {
				continue
			}
			switch f[0] {
			case "S":
				w.S = i
				rec.Order = append(rec.Order, id)
			case "A":
				w.A = i
			case "E", "P":
				w.Err = e.Text
			}
		}
	}
	return rec, nil
}

func tail(s string, n int) string {
	if len(s) > n {
		return s[len(s)-n:]
	}
	return s
}

// Recovered is the outcome of one real restart on a crash state.
type Recovered struct {
	OK     bool
	Status string
	Out    string // tail of stdout+stderr when not OK
	Dump   *hist.Dump
}

// recoverState materialises the tree and runs the real start-up on it. keep: keep the directory.
func recoverState(fs *sp.FS, dir string, battery bool, binName string) (*Recovered, error) {
	root := filepath.Join(dir, "root")
	if err := fs.Materialise(root); err != nil {
		return nil, err
	}
	return recoverDir(root, dir, battery, binName)
}

// restartWatchdog bounds one restart. It is not a verdict by itself: callers treat a firing as
// inconclusive, except C06 (the property forbids hangs), which re-runs the case alone with
// longWatchdog and calls only a second firing a hang.
var restartWatchdog = 60 * time.Second

const longWatchdogSuffix = "#long"

func restartTimeout(binName string) time.Duration {
	if strings.HasSuffix(binName, longWatchdogSuffix) {
		return 10 * time.Minute
	}
	return restartWatchdog
}

func recoverDir(root, dir string, battery bool, binName string) (*Recovered, error) {
	outp := filepath.Join(dir, "rec.json")
	os.Remove(outp)
	args := []string{root, outp}
	if battery {
		args = append(args, "battery")
	}
	cmd := exec.Command("strace", append([]string{"-f", "--seccomp-bpf", "-e", "trace=sync,syncfs", "-e", "inject=sync,syncfs:retval=0", "-o", "/dev/null", bin(strings.TrimSuffix(binName, longWatchdogSuffix))}, args...)...)
	var buf bytes.Buffer
	cmd.Stdout, cmd.Stderr = &buf, &buf
	cmd.SysProcAttr = &syscall.SysProcAttr{Setpgid: true}
	// address-space cap: a replay that allocates without bound is observed as an allocation failure
	if err := cmd.Start(); err != nil {
		return nil, err
	}
	done := make(chan error, 1)
	go func() { done <- cmd.Wait() }()
	var werr error
	select {
	case werr = <-done:
	case <-time.After(restartTimeout(binName)):
		syscall.Kill(-cmd.Process.Pid, syscall.SIGQUIT)
		select {
		case <-done:
		case <-time.After(10 * time.Second):
			syscall.Kill(-cmd.Process.Pid, syscall.SIGKILL)
			<-done
		}
		return &Recovered{OK: false, Status: "timeout", Out: tail(buf.String(), 3000)}, nil
	}
	r := &Recovered{}
	if werr != nil {
		r.Status = werr.Error()
		r.Out = panicText(buf.String())
		return r, nil
	}
	var d hist.Dump
	if err := hist.ReadJSON(outp, &d); err != nil {
		r.Status = "no dump: " + err.Error()
		r.Out = tail(buf.String(), 2000)
		return r, nil
	}
	r.OK, r.Status, r.Dump = true, "0", &d
	return r, nil
}

func panicText(out string) string {
	for _, key := range []string{"panic:", "fatal error:", "==ERROR: AddressSanitizer", "\"level\":\"fatal\""} {
		if i := strings.Index(out, key); i >= 0 {
			s := out[i:]
			if len(s) > 1200 {
				s = s[:1200]
			}
			return s
		}
	}
	return tail(out, 1200)
}
