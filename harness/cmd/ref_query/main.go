// ref_query: metamorphic monitors on the public query API (see DESIGN.md 3.2): a generated history is
// stored through the real writer into a real instance on a scratch directory and both sides of every
// comparison are real query executions (C11 range, C12 row limit, C13 multi-symbol / projection).
// Built with checkptr in the quick tier and with -race in the thorough tier.
// One file per property; each registers its monitor in init(). hist.go holds the shared history generator.
package main

import (
	"github.com/alpacahq/marketstore/v4/verif/internal/runner"
)

var monitors []*runner.Monitor

func register(m *runner.Monitor) { monitors = append(monitors, m) }

func main() { runner.Main(monitors...) }
