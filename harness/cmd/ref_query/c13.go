package main

// C13 Multi-symbol and column-projected queries agree with single queries.
//
// Metamorphic, both sides real, observed at DataService.Query (the request/response structs of the RPC
// server; one request in four goes through the gRPC twin GRPCService.Query instead) and decoded with
// MultiQueryResponse.ToColumnSeriesMap:
//   (a) a destination naming several symbols ("A,B,C/1Min/OHLC") or every symbol ("*/1Min/OHLC") must return,
//       for each symbol, the rows the single-symbol request with the same columns/range/limit returns, and
//       nothing for symbols that were not named or have no such bucket;
//   (b) a request with Columns must return the same rows as the request without, carrying only Epoch,
//       Nanoseconds (when the bucket has it) and the requested columns that exist, with the same values.
// What the property leaves open is not asserted: column order, what an unknown column does (omitted or an
// error), whether a symbol without rows is listed, and a refusal of symbols whose schemas differ when no
// common column list is given (the API requires equal schemas). Duplicated response columns (a column
// requested twice, Epoch requested explicitly) are accepted as "requested columns"; their values must agree.
//
// Known findings (found by this monitor):
//  F-DUPSYM    a symbol named twice in the destination gets every year file planned twice: its rows come back
//              doubled (per year file). Trigger: a symbol occurs more than once in the destination.
//              As-is: for each year, that year's rows repeated as often as the symbol is named.
//  F-MULTITYPE NumpyMultiDataset.Append compares column names only: symbols whose schemas have the same names
//              but different element types are concatenated byte-wise and decoded with the first symbol's
//              types: silently wrong values (or a slice-bounds panic in the decoder). Trigger: the named
//              symbols' responses have identical column-name lists and differing type lists.
//              As-is: row counts are right, columns whose type agrees in all symbols are right.
// Cases 6 and 7 of every 8 aim at these; the others never name a symbol twice and give same-named columns
// the same type.

import (
	"context"
	"fmt"
	"reflect"
	"sort"
	"strings"
	"time"

	"github.com/alpacahq/marketstore/v4/frontend"
	"github.com/alpacahq/marketstore/v4/proto"
	"github.com/alpacahq/marketstore/v4/utils/io"
	"github.com/alpacahq/marketstore/v4/verif/internal/gen"
	"github.com/alpacahq/marketstore/v4/verif/internal/ms"
	"github.com/alpacahq/marketstore/v4/verif/internal/runner"
)

func c13cases(tier string) int {
	if tier == "thorough" {
		return 400
	}
	return 160
}

func c13requests(tier string) int {
	if tier == "thorough" {
		return 12
	}
	return 8
}

// c13tab is one symbol's part of a decoded response, columns addressed by position with the names the
// response carried on the wire (the decoder renames duplicates).
type c13tab struct {
	N     int
	Names []string
	Types []string
	Cols  []interface{}
}

func (t *c13tab) col(name string) interface{} {
	for i, n := range t.Names {
		if n == name && i < len(t.Cols) {
			return t.Cols[i]
		}
	}
	return nil
}

func (t *c13tab) has(name string) bool {
	for _, n := range t.Names {
		if n == name {
			return true
		}
	}
	return false
}

func (t *c13tab) dump(max int) []string {
	var out []string
	out = append(out, fmt.Sprintf("columns %v types %v rows %d", t.Names, t.Types, t.N))
	for i := 0; i < t.N && i < max; i++ {
		var sb strings.Builder
		for k := range t.Cols {
			fmt.Fprintf(&sb, "%s=%v ", t.Names[k], reflect.ValueOf(t.Cols[k]).Index(i).Interface())
		}
		out = append(out, sb.String())
	}
	return out
}

type c13resp struct {
	Names []string
	Types []string
	Tabs  map[string]*c13tab // by "SYM/TF/AG"
}

type c13req struct {
	Syms      []string
	TF, AG    string
	Cols      []string
	HasRange  bool
	S, E      int64
	Limit     int
	FromStart bool
	GRPC      bool
}

func (q c13req) dest() string { return strings.Join(q.Syms, ",") + "/" + q.TF + "/" + q.AG }

func (q c13req) String() string {
	s := q.dest()
	if q.Cols != nil {
		s += fmt.Sprintf(" columns=%v", q.Cols)
	}
	if q.HasRange {
		s += fmt.Sprintf(" range=[%s,%s]", fmtNs(q.S), fmtNs(q.E))
	}
	if q.Limit > 0 {
		s += fmt.Sprintf(" limit=%d fromStart=%v", q.Limit, q.FromStart)
	}
	if q.GRPC {
		s += " via=grpc"
	}
	return s
}

type c13env struct {
	in   *ms.Inst
	grpc *frontend.GRPCService
	res  *runner.Result
}

// run executes one request. errText "" = ok; "nodata" = the planner's no-files error.
func (e *c13env) run(q c13req) (*c13resp, string) {
	var resp frontend.MultiQueryResponse
	var err error
	p := ms.Recover(func() {
		if q.GRPC {
			pr := &proto.QueryRequest{Destination: q.dest(), Columns: q.Cols, LimitRecordCount: int32(q.Limit), LimitFromStart: q.FromStart}
			if q.HasRange {
				pr.EpochStart, pr.EpochStartNanos = floorDiv(q.S, 1e9), q.S-floorDiv(q.S, 1e9)*1e9
				pr.EpochEnd, pr.EpochEndNanos = floorDiv(q.E, 1e9), q.E-floorDiv(q.E, 1e9)*1e9
			}
			var out *proto.MultiQueryResponse
			out, err = e.grpc.Query(context.Background(), &proto.MultiQueryRequest{Requests: []*proto.QueryRequest{pr}})
			if err == nil {
				for _, r := range out.Responses {
					resp.Responses = append(resp.Responses, frontend.QueryResponse{Result: frontend.ToNumpyMultiDataSet(r.Result)})
				}
			}
			return
		}
		r := frontend.QueryRequest{Destination: q.dest(), Columns: q.Cols}
		if q.HasRange {
			s, sn := floorDiv(q.S, 1e9), q.S-floorDiv(q.S, 1e9)*1e9
			en, enn := floorDiv(q.E, 1e9), q.E-floorDiv(q.E, 1e9)*1e9
			r.EpochStart, r.EpochStartNanos, r.EpochEnd, r.EpochEndNanos = &s, &sn, &en, &enn
		}
		if q.Limit > 0 {
			l, fs := q.Limit, q.FromStart
			r.LimitRecordCount, r.LimitFromStart = &l, &fs
		}
		err = e.in.DS.Query(nil, &frontend.MultiQueryRequest{Requests: []frontend.QueryRequest{r}}, &resp)
	})
	e.res.Count("requests", 1)
	if q.GRPC {
		e.res.Count("requests_grpc", 1)
	}
	if p != "" {
		return nil, "panic in query: " + p
	}
	if err != nil {
		if ms.QueryErrNoData(err) {
			return nil, "nodata"
		}
		return nil, "error: " + err.Error()
	}
	if len(resp.Responses) != 1 || resp.Responses[0].Result == nil {
		return nil, fmt.Sprintf("error: %d responses / nil result for one request", len(resp.Responses))
	}
	nm := resp.Responses[0].Result
	out := &c13resp{Names: nm.ColumnNames, Types: nm.ColumnTypes, Tabs: map[string]*c13tab{}}
	var csm *io.ColumnSeriesMap
	p = ms.Recover(func() { csm, err = resp.ToColumnSeriesMap() })
	if p != "" {
		return out, "panic in decode: " + p
	}
	if err != nil {
		return out, "decode error: " + err.Error()
	}
	for k, cs := range *csm {
		t := &c13tab{Names: nm.ColumnNames, Types: nm.ColumnTypes}
		dn := cs.GetColumnNames()
		if len(dn) > 0 {
			if len(dn) != len(nm.ColumnNames) {
				return out, fmt.Sprintf("decode error: %d decoded columns for %d columns on the wire", len(dn), len(nm.ColumnNames))
			}
			for _, n := range dn {
				t.Cols = append(t.Cols, cs.GetColumn(n))
			}
			t.N = cs.Len()
		}
		if l, ok := nm.Lengths[k.String()]; ok && l != t.N {
			return out, fmt.Sprintf("decode error: %s has length %d on the wire, %d rows decoded", k.GetItemKey(), l, t.N)
		}
		out.Tabs[k.GetItemKey()] = t
	}
	return out, ""
}

// c13same: same rows (same columns as a multiset of names, same types, same values in the same order).
func c13same(a, b *c13tab) string {
	if a.N != b.N {
		return fmt.Sprintf("row counts differ: %d vs %d", a.N, b.N)
	}
	an, bn := append([]string{}, a.Names...), append([]string{}, b.Names...)
	sort.Strings(an)
	sort.Strings(bn)
	if strings.Join(an, ",") != strings.Join(bn, ",") {
		return fmt.Sprintf("column sets differ: %v vs %v", a.Names, b.Names)
	}
	if a.N == 0 {
		return ""
	}
	for i, n := range a.Names {
		if d := c13sameCol(a.Cols[i], b.col(n), a.N); d != "" {
			return "column " + n + ": " + d
		}
	}
	return ""
}

func c13sameCol(x, y interface{}, n int) string {
	if y == nil {
		return "missing"
	}
	if reflect.TypeOf(x) != reflect.TypeOf(y) {
		return fmt.Sprintf("types differ: %T vs %T", x, y)
	}
	if reflect.ValueOf(x).Len() != n || reflect.ValueOf(y).Len() != n {
		return fmt.Sprintf("lengths %d / %d for %d rows", reflect.ValueOf(x).Len(), reflect.ValueOf(y).Len(), n)
	}
	for i := 0; i < n; i++ {
		if ms.Cell(x, i) != ms.Cell(y, i) {
			return fmt.Sprintf("row %d: %v vs %v", i, reflect.ValueOf(x).Index(i).Interface(), reflect.ValueOf(y).Index(i).Interface())
		}
	}
	return ""
}

// c13proj checks (b): p = response with Columns=cols, u = response without.
func c13proj(p, u *c13tab, cols []string) string {
	if p.N != u.N {
		return fmt.Sprintf("row counts differ: projected %d vs unprojected %d", p.N, u.N)
	}
	req := map[string]bool{"Epoch": true, "Nanoseconds": true}
	for _, c := range cols {
		req[c] = true
	}
	for _, n := range p.Names {
		if !req[n] {
			return fmt.Sprintf("column %q returned but not requested (requested %v)", n, cols)
		}
		if !u.has(n) {
			return fmt.Sprintf("column %q returned but absent from the unprojected response %v", n, u.Names)
		}
	}
	for _, c := range cols {
		if u.has(c) && !p.has(c) {
			return fmt.Sprintf("requested column %q exists (%v) but was not returned (%v)", c, u.Names, p.Names)
		}
	}
	if !p.has("Epoch") {
		return "no Epoch column in the projected response"
	}
	if u.has("Nanoseconds") && !p.has("Nanoseconds") {
		return "Nanoseconds column dropped by the projection"
	}
	if p.N == 0 {
		return ""
	}
	for i, n := range p.Names {
		if d := c13sameCol(p.Cols[i], u.col(n), p.N); d != "" {
			return "column " + n + ": " + d
		}
	}
	return ""
}

// c13dupAsIs: rows of single, year by year, each year's rows repeated k times.
func c13dupAsIs(single *c13tab, k int) *c13tab {
	out := &c13tab{Names: single.Names, Types: single.Types}
	if single.N == 0 {
		return out
	}
	ep, _ := single.col("Epoch").([]int64)
	var idx []int
	i := 0
	for i < single.N {
		y := time.Unix(ep[i], 0).UTC().Year()
		j := i
		for j < single.N && time.Unix(ep[j], 0).UTC().Year() == y {
			j++
		}
		for r := 0; r < k; r++ {
			for x := i; x < j; x++ {
				idx = append(idx, x)
			}
		}
		i = j
	}
	for _, c := range single.Cols {
		src := reflect.ValueOf(c)
		dst := reflect.MakeSlice(src.Type(), len(idx), len(idx))
		for n, x := range idx {
			dst.Index(n).Set(src.Index(x))
		}
		out.Cols = append(out.Cols, dst.Interface())
	}
	out.N = len(idx)
	return out
}

type c13world struct {
	tf       qTF
	ag       string
	variable bool
	mode     string
	hists    []*qHist // the group (same tf/ag)
	decoys   []*qHist
	common   []qCol // columns every group symbol has with the same type
}

var c13symPool = []string{"A", "AA", "AAA", "B", "BRK", "CG", "Z9", "TSLA", "AAPL", "X1"}

func c13build(r *gen.R, caseNo int) *c13world {
	w := &c13world{ag: r.PickS("OHLC", "OHLCV", "TICK")}
	w.tf = pickTF(r)
	w.variable = r.P(2, 5)
	switch caseNo % 8 {
	case 4, 5:
		w.mode = "diff"
	case 6:
		w.mode = "dupsym"
	case 7:
		w.mode = "multitype"
	default:
		w.mode = "equal"
	}
	nsym := r.Range(2, 5)
	p := r.Perm(len(c13symPool))
	base := genSchema(r)
	if w.mode == "multitype" && len(base) < 2 {
		base = append(base, qCol{"Extra", io.INT32})
	}
	years := genYears(r, 3)
	if w.tf.D <= 30*time.Second {
		years = years[:1] // every request scans every year file of every symbol: keep the slow timeframes to one year
	}
	w.common = base
	if w.mode == "diff" {
		// common part = a non-empty prefix of base; every symbol adds its own extras and its own order
		w.common = base[:r.Range(1, len(base))]
	}
	for i := 0; i < nsym; i++ {
		sym := c13symPool[p[i]]
		cols := append([]qCol{}, base...)
		switch w.mode {
		case "diff":
			cols = nil
			pp := r.Perm(len(w.common))
			for _, k := range pp {
				cols = append(cols, w.common[k])
			}
			for x := 0; x < r.Intn(3); x++ {
				c := qCol{fmt.Sprintf("Own%s%d", sym, x), ms.ElemTypes[r.Intn(len(ms.ElemTypes))].T}
				at := r.Intn(len(cols) + 1)
				cols = append(cols[:at], append([]qCol{c}, cols[at:]...)...)
			}
		case "multitype":
			if i == 1 {
				k := r.Intn(len(cols))
				for {
					t := ms.ElemTypes[r.Intn(len(ms.ElemTypes))].T
					if t != cols[k].T {
						cols[k].T = t
						break
					}
				}
			}
		}
		ys := years
		if len(years) > 1 && r.P(1, 3) {
			ys = []int{years[r.Intn(len(years))]}
		}
		v := w.variable
		tf := w.tf
		w.hists = append(w.hists, genHist(r, qOpts{Sym: sym, AG: w.ag, TF: &tf, Variable: &v, Cols: cols, Years: ys, Clusters: 2}))
	}
	// decoys: a group symbol under another attribute group / timeframe, and a symbol that has no bucket in the group
	{
		v := r.Bool()
		tf := w.tf
		w.decoys = append(w.decoys, genHist(r, qOpts{Sym: w.hists[0].Sym, AG: "OTHER", TF: &tf, Variable: &v, Years: years[:1], Clusters: 1}))
		otf := qTFs[(r.Intn(len(qTFs)-1)+1+tfIndex(w.tf.Name))%len(qTFs)]
		w.decoys = append(w.decoys, genHist(r, qOpts{Sym: w.hists[len(w.hists)-1].Sym, AG: w.ag, TF: &otf, Variable: &v, Years: years[:1], Clusters: 1}))
		w.decoys = append(w.decoys, genHist(r, qOpts{Sym: c13symPool[p[nsym]], AG: "OTHER", TF: &tf, Variable: &v, Years: years[:1], Clusters: 1}))
	}
	return w
}

func tfIndex(name string) int {
	for i, t := range qTFs {
		if t.Name == name {
			return i
		}
	}
	return 0
}

func (w *c13world) has(sym string) bool {
	for _, h := range w.hists {
		if h.Sym == sym && len(h.T) > 0 {
			return true
		}
	}
	return false
}

func (w *c13world) allSymbols() []string {
	set := map[string]bool{}
	for _, h := range w.hists {
		set[h.Sym] = true
	}
	for _, h := range w.decoys {
		set[h.Sym] = true
	}
	var out []string
	for s := range set {
		out = append(out, s)
	}
	sort.Strings(out)
	return out
}

// drawRequest draws the multi-symbol request number q of the case.
func (w *c13world) drawRequest(r *gen.R, q int, bounds []int64) (c13req, string, string) {
	req := c13req{TF: w.tf.Name, AG: w.ag, GRPC: r.P(1, 4)}
	var have []string
	for _, h := range w.hists {
		have = append(have, h.Sym)
	}
	missing := []string{"NOPE", "ZZZ"}
	for _, s := range c13symPool {
		if !w.has(s) {
			missing = append(missing, s)
		}
	}
	symKind := ""
	pick := func(n int) []string {
		p := r.Perm(len(have))
		var out []string
		for i := 0; i < n && i < len(p); i++ {
			out = append(out, have[p[i]])
		}
		return out
	}
	k := r.Intn(10)
	if w.mode == "dupsym" && q%2 == 0 {
		k = 100
	}
	switch {
	case k == 100:
		symKind = "duplicated"
		req.Syms = pick(r.Range(1, len(have)))
		d := req.Syms[r.Intn(len(req.Syms))]
		for x := r.Range(1, 2); x > 0; x-- {
			at := r.Intn(len(req.Syms) + 1)
			req.Syms = append(req.Syms[:at], append([]string{d}, req.Syms[at:]...)...)
		}
	case k < 3:
		symKind = "all"
		req.Syms = pick(len(have))
	case k < 5:
		symKind = "subset"
		req.Syms = pick(r.Range(1, len(have)))
	case k < 7:
		symKind = "with-missing"
		req.Syms = pick(r.Range(1, len(have)))
		for x := r.Range(1, 2); x > 0; x-- {
			at := r.Intn(len(req.Syms) + 1)
			req.Syms = append(req.Syms[:at], append([]string{missing[r.Intn(len(missing))]}, req.Syms[at:]...)...)
		}
	case k < 8:
		symKind = "only-missing"
		req.Syms = []string{missing[r.Intn(len(missing))]}
		if r.Bool() {
			req.Syms = append(req.Syms, missing[r.Intn(len(missing))])
		}
	default:
		symKind = "star"
		req.Syms = []string{"*"}
	}
	// columns
	colKind := "none"
	pool := w.common
	if (w.mode != "diff" && r.P(1, 3)) || (w.mode == "diff" && r.P(1, 8)) {
		colKind = "none"
	} else if w.mode == "diff" || r.P(3, 4) {
		n := r.Range(1, len(pool))
		p := r.Perm(len(pool))
		for i := 0; i < n; i++ {
			req.Cols = append(req.Cols, pool[p[i]].Name)
		}
		colKind = "subset"
		if n == len(pool) {
			colKind = "all-named"
		}
		switch r.Intn(8) {
		case 0:
			req.Cols = append(req.Cols, "NoSuchColumn")
			colKind += "+unknown"
		case 1:
			req.Cols = append(req.Cols, req.Cols[r.Intn(len(req.Cols))])
			colKind += "+duplicate"
		case 2:
			at := r.Intn(len(req.Cols) + 1)
			req.Cols = append(req.Cols[:at], append([]string{"Epoch"}, req.Cols[at:]...)...)
			colKind += "+Epoch"
		case 3:
			at := r.Intn(len(req.Cols) + 1)
			req.Cols = append(req.Cols[:at], append([]string{"Nanoseconds"}, req.Cols[at:]...)...)
			colKind += "+Nanoseconds"
		case 4:
			if w.mode == "diff" {
				// a column only one symbol has: unknown to the others
				for _, h := range w.hists {
					for _, c := range h.Cols {
						if strings.HasPrefix(c.Name, "Own") {
							req.Cols = append(req.Cols, c.Name)
							colKind += "+own"
							break
						}
					}
					if strings.HasSuffix(colKind, "+own") {
						break
					}
				}
			}
		}
	} else {
		req.Cols = []string{r.PickS("NoSuchColumn", "Epoch", "Nanoseconds", "epoch")}
		colKind = "only-" + req.Cols[0]
	}
	// range / limit
	if r.P(1, 2) && len(bounds) > 1 {
		i, j := r.Intn(len(bounds)), r.Intn(len(bounds))
		if j < i && r.P(9, 10) {
			i, j = j, i
		}
		req.HasRange, req.S, req.E = true, bounds[i], bounds[j]
	}
	if r.P(1, 3) && symKind != "duplicated" {
		req.Limit = r.PickI(1, 2, 3, 7)
		req.FromStart = r.Bool()
		if w.variable {
			req.FromStart = true // F-LASTYEAR (C12) makes last-N queries on variable buckets fail on both sides
		}
	}
	if symKind == "duplicated" && w.variable {
		req.HasRange = false // the as-is model of F-DUPSYM is stated for whole year files
	}
	return req, symKind, colKind
}

func c13run(c *runner.Ctx) runner.Result {
	var res runner.Result
	ms.Quiet()
	w := c13build(c.R("world"), c.Case)
	in := ms.Open(c.Scratch+"/root", ms.Opts{})
	env := &c13env{in: in, res: &res, grpc: frontend.NewGRPCService(in.Root, in.Cat, in.Agg, in.W, in.QS)}
	rs := c.R("store")
	describe := func() map[string]interface{} {
		var bs []interface{}
		for _, h := range w.hists {
			bs = append(bs, h.describe())
		}
		var ds []string
		for _, h := range w.decoys {
			ds = append(ds, h.Key())
		}
		return map[string]interface{}{"mode": w.mode, "buckets": bs, "other_buckets": ds}
	}
	var bounds []int64
	bset := map[int64]bool{}
	for _, h := range append(append([]*qHist{}, w.hists...), w.decoys...) {
		if _, err := h.store(in, rs); err != nil {
			res.Inconclusive("could not store " + h.Key() + ": " + err.Error())
			return res
		}
	}
	for _, h := range w.hists {
		for i, t := range h.T {
			if i%3 == 0 || i == len(h.T)-1 {
				for _, v := range []int64{t, floorNs(t, h.D), floorNs(t, h.D) + int64(h.D) - 1, t + 1e9} {
					bset[v] = true
				}
			}
		}
	}
	for v := range bset {
		bounds = append(bounds, v)
	}
	sort.Slice(bounds, func(i, j int) bool { return bounds[i] < bounds[j] })
	rq := c.R("requests")
	kinds := map[string]bool{}
	multiCompared := 0
	for q := 0; q < c13requests(c.Tier); q++ {
		req, symKind, colKind := w.drawRequest(rq, q, bounds)
		res.Set("symbol_set_kinds", symKind)
		res.Set("column_list_kinds", colKind)
		kinds[symKind+"/"+colKind] = true
		M, merr := env.run(req)
		res.Count("requests_multi", 1)
		// the symbols the request names
		named := map[string]int{}
		var order []string
		if len(req.Syms) == 1 && req.Syms[0] == "*" {
			for _, s := range w.allSymbols() {
				named[s] = 1
				order = append(order, s)
			}
			res.Count("requests_star", 1)
		} else {
			for _, s := range req.Syms {
				if named[s] == 0 {
					order = append(order, s)
				}
				named[s]++
			}
		}
		dup := false
		for _, k := range named {
			if k > 1 {
				dup = true
			}
		}
		singles := map[string]*c13tab{}
		singleErr := map[string]string{}
		otherSingleErr := false
		for _, s := range order {
			sq := req
			sq.Syms = []string{s}
			S1, e1 := env.run(sq)
			res.Count("requests_single", 1)
			key := s + "/" + req.TF + "/" + req.AG
			if e1 != "" {
				singleErr[s] = e1
				if e1 != "nodata" {
					otherSingleErr = true
				}
				if e1 == "nodata" && w.has(s) {
					res.Violation(fmt.Sprintf("request %s: no-data error for a stored bucket", sq), describe())
				}
				continue
			}
			t := S1.Tabs[key]
			if t == nil {
				t = &c13tab{Names: S1.Names, Types: S1.Types}
			}
			if len(S1.Tabs) > 1 {
				res.Violation(fmt.Sprintf("request %s returned %d buckets", sq, len(S1.Tabs)), describe())
			}
			singles[s] = t
			if !w.has(s) && t.N > 0 {
				wit := describe()
				wit["request"] = sq.String()
				wit["response"] = t.dump(20)
				res.Violation(fmt.Sprintf("request %s returns %d rows although no bucket %s was ever stored", sq, t.N, key), wit)
			}
			// (b) projection against the same request without a column list
			if req.Cols != nil {
				uq := sq
				uq.Cols = nil
				uq.GRPC = false
				U1, eu := env.run(uq)
				res.Count("requests_unprojected", 1)
				if eu != "" {
					continue // the unprojected request itself fails (e.g. F-LASTYEAR): nothing to compare with
				}
				u := U1.Tabs[key]
				if u == nil {
					u = &c13tab{Names: U1.Names, Types: U1.Types}
				}
				res.Count("projections_checked", 1)
				res.Count("projected_cells_compared", int64(t.N*len(t.Names)))
				if d := c13proj(t, u, req.Cols); d != "" {
					wit := describe()
					wit["request"] = sq.String()
					wit["projected"] = t.dump(30)
					wit["unprojected"] = u.dump(30)
					res.Violation(fmt.Sprintf("projection: %s: %s", sq, d), wit)
				}
			}
		}
		// projection requests that fail although the unprojected one works
		if req.Cols != nil {
			for _, s := range order {
				e1 := singleErr[s]
				if e1 == "" || e1 == "nodata" {
					continue
				}
				uq := req
				uq.Syms, uq.Cols, uq.GRPC = []string{s}, nil, false
				if _, eu := env.run(uq); eu != "" {
					continue
				}
				unknown := false
				for _, cn := range req.Cols {
					known := cn == "Epoch" || cn == "Nanoseconds"
					for _, h := range w.hists {
						if h.Sym == s {
							for _, hc := range h.Cols {
								if hc.Name == cn {
									known = true
								}
							}
						}
					}
					if !known {
						unknown = true
					}
				}
				if unknown {
					res.Count("unknown_column_refused", 1)
					continue
				}
				wit := describe()
				wit["request"] = req.String()
				res.Violation(fmt.Sprintf("projection: %s for symbol %s fails (%s) although the same request without Columns succeeds", req, s, e1), wit)
			}
		}
		if len(order) < 1 {
			continue
		}
		// (a) multi vs single
		wit := func() map[string]interface{} {
			x := describe()
			x["request"] = req.String()
			if M != nil {
				m := map[string]interface{}{}
				for k, t := range M.Tabs {
					m[k] = t.dump(30)
				}
				x["multi_response"] = m
			}
			sg := map[string]interface{}{}
			for s, t := range singles {
				sg[s] = t.dump(30)
			}
			for s, e := range singleErr {
				sg[s] = e
			}
			x["single_responses"] = sg
			return x
		}
		// schema agreement of the named, existing symbols (as the single responses show it)
		sameNames, sameTypes, sameSet := true, true, true
		var ref *c13tab
		for _, s := range order {
			t := singles[s]
			if t == nil {
				continue
			}
			if ref == nil {
				ref = t
				continue
			}
			if strings.Join(ref.Names, ",") != strings.Join(t.Names, ",") {
				sameNames = false
			} else if strings.Join(ref.Types, ",") != strings.Join(t.Types, ",") {
				sameTypes = false
			}
			a, b := map[string]string{}, map[string]string{}
			for i, n := range ref.Names {
				a[n] = ref.Types[i]
			}
			for i, n := range t.Names {
				b[n] = t.Types[i]
			}
			if !reflect.DeepEqual(a, b) {
				sameSet = false
			}
		}
		typeTrigger := sameNames && !sameTypes
		if merr != "" {
			switch {
			case merr == "nodata" && len(singles) == 0:
				res.Count("all_missing_no_data", 1)
			case otherSingleErr:
				res.Count("multi_and_single_fail", 1)
			case merr != "nodata" && !strings.HasPrefix(merr, "panic") && !strings.Contains(merr, "decode") && len(singles) > 1 && ((req.Cols == nil && !sameNames) || !sameSet):
				res.Count("differing_schemas_refused", 1) // the API requires equal schemas or a common column list
			case typeTrigger && (strings.HasPrefix(merr, "panic in decode") || strings.HasPrefix(merr, "decode error")):
				res.Count("known_multitype", 1)
				res.Known("F-MULTITYPE", fmt.Sprintf("request %s: %s [same column names, different element types: concatenated byte-wise]", req, merr), wit())
			default:
				res.Violation(fmt.Sprintf("multi-symbol request %s fails (%s) although the single-symbol requests succeed", req, merr), wit())
			}
			continue
		}
		for key := range M.Tabs {
			sym := strings.SplitN(key, "/", 2)[0]
			if key != sym+"/"+req.TF+"/"+req.AG || named[sym] == 0 {
				res.Violation(fmt.Sprintf("request %s: response contains %s, which was not asked for", req, key), wit())
			}
			if e1 := singleErr[sym]; e1 == "nodata" && M.Tabs[key].N > 0 {
				res.Violation(fmt.Sprintf("request %s: response has %d rows for %s, which has no such bucket", req, M.Tabs[key].N, key), wit())
			}
		}
		for _, s := range order {
			t := singles[s]
			if t == nil {
				if singleErr[s] == "nodata" {
					res.Count("missing_symbol_checks", 1)
				}
				continue
			}
			key := s + "/" + req.TF + "/" + req.AG
			m := M.Tabs[key]
			if m == nil {
				m = &c13tab{Names: M.Names, Types: M.Types}
				if t.N == 0 {
					continue // no rows either way
				}
			}
			res.Count("symbols_compared", 1)
			res.Count("rows_compared", int64(t.N))
			if len(singles) > 1 {
				multiCompared++
			}
			d := c13same(m, t)
			if d == "" {
				continue
			}
			detail := fmt.Sprintf("request %s: rows for %s differ from the single-symbol request: %s", req, s, d)
			if dup && named[s] > 1 {
				if c13same(m, c13dupAsIs(t, named[s])) == "" {
					res.Count("known_dupsym", 1)
					res.Known("F-DUPSYM", detail+fmt.Sprintf(" [symbol named %d times: each year file's rows returned %d times]", named[s], named[s]), wit())
					continue
				}
			}
			if typeTrigger && m.N == t.N {
				// columns whose type agrees in all symbols must still be right
				ok := true
				for i, n := range m.Names {
					agree := true
					for _, o := range singles {
						for k, on := range o.Names {
							if on == n && o.Types[k] != m.Types[i] {
								agree = false
							}
						}
					}
					if agree && m.N > 0 && c13sameCol(m.Cols[i], t.col(n), m.N) != "" {
						ok = false
					}
				}
				if ok {
					res.Count("known_multitype", 1)
					res.Known("F-MULTITYPE", detail+" [same column names, different element types: concatenated byte-wise and decoded with the first symbol's types]", wit())
					continue
				}
			}
			res.Violation(detail, wit())
		}
	}
	res.Set("timeframes", w.tf.Name)
	res.Set("modes", w.mode)
	if multiCompared > 0 {
		var ks []string
		for k := range kinds {
			ks = append(ks, k)
		}
		sort.Strings(ks)
		if len(ks) > 3 {
			ks = ks[:3]
		}
		res.Sig = fmt.Sprintf("%s/%s/%s/nsym%d/%v", w.mode, map[bool]string{true: "var", false: "fix"}[w.variable], w.tf.Name, len(w.hists), ks)
	}
	if c.Case < 3 {
		res.Sample = describe()
	}
	return res
}

func init() {
	register(&runner.Monitor{
		ID:    "C13",
		Level: "exploration",
		Rule: "case = 2-5 symbols sharing timeframe and attribute group (fixed or variable length, 1-3 year files each, some symbols missing some years) plus three other buckets (same symbol/other attribute group, same symbol/other timeframe, other symbol) " +
			"stored through the real writer; schemas: equal (4 of 8 cases), differing orders and extra columns with a common part (2 of 8), and two aimed strata (a symbol named twice; same names with a different element type). " +
			"8 (quick) / 12 (thorough) requests per case through DataService.Query (1 in 4 through GRPCService.Query): symbol sets all/subset/with missing/only missing/*/duplicated; column lists none/subsets/all/unknown/duplicate/Epoch/Nanoseconds/one symbol's own column; with and without range and limit. " +
			"Oracle: per named symbol the multi response equals the single-symbol response (same request otherwise); the response with Columns equals the one without on the kept columns and has no other columns. " +
			"A case is non-trivial if some request compared at least two symbols with their single responses; distinct = schema mode/record type/timeframe/symbol count/request kinds.",
		Assumptions: []string{
			"UTC instance timezone",
			"variable-length buckets are limited from the start only (last-N across year files fails by itself: F-LASTYEAR under C12)",
			"a symbol without rows in the range may be listed with zero rows or left out; an unknown column may be ignored or refused",
		},
		Cases:        c13cases,
		Batch:        8,
		BatchTimeout: 60 * time.Minute,
		Run:          c13run,
		Need:         []string{"requests_multi", "requests_single", "symbols_compared", "rows_compared", "projections_checked", "projected_cells_compared", "missing_symbol_checks", "requests_star", "requests_grpc"},
	})
}
