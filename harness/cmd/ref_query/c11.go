package main

// C11 Time-range queries return exactly the rows in range.
//
// Metamorphic: a generated history is stored through the real writer; `all` = the unrestricted real
// query; for many (start, end) pairs at nanosecond precision the real ranged query must equal
// filter(all, inRange) in the same order, with inRange exactly as the property defines it:
//   variable-length: start <= Epoch*1e9+Nanoseconds <= end
//   fixed-length:    start of the interval containing `start` <= interval start of the row <= end
// (so an inverted range inside one interval still selects that interval's row for fixed-length buckets:
// that is what the definition says, and nothing more is demanded).
// An empty expectation is met by an empty table or by the planner's "no files returned" error.
//
// Known finding F-TRIM (variable-length only): trimResultsToRange skips the end test when one record is
// left after the start trim and keeps everything when no record is <= end. Trigger on the input: no stored
// record lies in [start, end] and some stored record r with r >= start lies after `end` inside the
// interval that contains `end`. As-is: exactly the records >= start of that interval are returned.
// Five cases in six avoid the trigger (pairs that hit it are re-drawn), one in six aims at it.

import (
	"fmt"
	"time"

	"github.com/alpacahq/marketstore/v4/verif/internal/gen"
	"github.com/alpacahq/marketstore/v4/verif/internal/ms"
	"github.com/alpacahq/marketstore/v4/verif/internal/runner"
)

func c11cases(tier string) int {
	if tier == "thorough" {
		return 360
	}
	return 240
}

func c11pairs(tier string) int {
	if tier == "thorough" {
		return 80
	}
	return 40
}

// trimTrigger: the input predicate of F-TRIM.
func trimTrigger(all *ms.Table, d time.Duration, s, e int64) bool {
	fe := floorNs(e, d)
	hit := false
	for i := 0; i < all.N; i++ {
		t := all.TimeNs(i)
		if t >= s && t <= e {
			return false // a record in range: the end trim works
		}
		if t > e && t >= s && t < fe+int64(d) {
			hit = true
		}
	}
	return hit
}

type c11pair struct {
	s, e int64
	kind string
}

func c11drawPair(r *gen.R, B []int64) c11pair {
	n := len(B)
	i := r.Intn(n)
	switch k := r.Intn(20); {
	case k < 8:
		j := i + r.Intn(7)
		if j >= n {
			j = n - 1
		}
		return c11pair{B[i], B[j], "near"}
	case k < 11:
		return c11pair{B[i], B[i], "point"}
	case k < 14:
		j := i - 1 - r.Intn(6)
		if j < 0 {
			j = 0
		}
		return c11pair{B[i], B[j], "inverted"}
	case k < 18:
		j := r.Intn(n)
		if j < i {
			i, j = j, i
		}
		return c11pair{B[i], B[j], "any"}
	default:
		s := B[0]
		if r.Bool() {
			s = B[r.Intn(n)]
		}
		e := B[n-1]
		if r.Bool() {
			e = B[r.Intn(n)]
		}
		return c11pair{s, e, "wide"}
	}
}

// c11aim draws a pair that satisfies the F-TRIM trigger, if the history allows one.
func c11aim(r *gen.R, all *ms.Table, d time.Duration) (c11pair, bool) {
	for try := 0; try < 40; try++ {
		k := r.Intn(all.N)
		t := all.TimeNs(k)
		f := floorNs(t, d)
		prev := int64(-1 << 62)
		if k > 0 {
			prev = all.TimeNs(k - 1)
		}
		lo := f
		if prev+1 > lo {
			lo = prev + 1
		}
		hi := t - 1
		if hi < lo {
			continue
		}
		e := lo + r.I64n(hi-lo+1)
		if r.P(1, 3) {
			e = hi
		}
		var s int64
		switch r.Intn(4) {
		case 0: // inverted inside the interval: e < s <= r
			s = e + 1 + r.I64n(t-e)
		case 1:
			s = 0
			if prev >= 0 {
				s = prev + 1
			}
		case 2:
			s = e
		default:
			s = lo
		}
		if trimTrigger(all, d, s, e) {
			return c11pair{s, e, "aim-trim"}, true
		}
	}
	return c11pair{}, false
}

func c11run(c *runner.Ctx) runner.Result {
	var res runner.Result
	ms.Quiet()
	r := c.R("hist")
	aim := c.Case%6 == 0
	o := qOpts{Dense: c.Case%5 == 1}
	if aim {
		v := true
		o.Variable = &v
	}
	h := genHist(r, o)
	in := ms.Open(c.Scratch+"/root", ms.Opts{})
	calls, err := h.store(in, c.R("store"))
	res.Count("write_calls", int64(calls))
	if err != nil {
		res.Inconclusive("could not store the history: " + err.Error())
		return res
	}
	all, et := query(in, h.Key(), 0, ms.FarFuture.UnixNano(), 0, false)
	if et != "" {
		res.Violation("unrestricted query failed: "+et, h.describe())
		return res
	}
	res.Count("rows_written", int64(len(h.T)))
	res.Count("rows_unrestricted", int64(all.N))
	if all.N == 0 {
		res.Inconclusive(fmt.Sprintf("unrestricted query returned no rows for a non-empty history: %v", h.describe()))
		return res
	}
	if h.Variable && all.Nanos == nil {
		res.Violation("variable-length bucket returned no Nanoseconds column", h.describe())
		return res
	}
	rq := c.R("ranges")
	B := boundCandidates(all, h, rq, 24)
	npairs := c11pairs(c.Tier)
	kinds := map[string]bool{}
	nonEmpty, empty, wide := 0, 0, 0
	for q := 0; q < npairs; q++ {
		var p c11pair
		aimed := false
		if aim && q%2 == 0 {
			p, aimed = c11aim(rq, all, h.D)
		}
		if !aimed {
			for try := 0; ; try++ {
				p = c11drawPair(rq, B)
				if h.costly() && p.e-p.s > wideSpan && wide >= 4 && try <= 50 {
					continue // at most 4 year-long scans per case on 1Sec..30Sec buckets
				}
				if !h.Variable || !trimTrigger(all, h.D, p.s, p.e) || try > 50 {
					break
				}
			}
			if p.e-p.s > wideSpan {
				wide++
			}
		}
		exp := all.Select(idealIdx(all, h.Variable, h.D, p.s, p.e))
		act, et := query(in, h.Key(), p.s, p.e, 0, false)
		res.Count("queries", 1)
		kinds[p.kind] = true
		res.Set("pair_kinds", p.kind)
		wit := func() map[string]interface{} {
			w := h.describe()
			w["unrestricted_rows"] = all.Dump(80)
			w["start"], w["end"] = fmtNs(p.s), fmtNs(p.e)
			w["start_ns"], w["end_ns"] = p.s, p.e
			w["expected_rows"] = exp.Dump(40)
			if act != nil {
				w["actual_rows"] = act.Dump(40)
			}
			return w
		}
		if et != "" {
			res.Violation(fmt.Sprintf("%s range [%s, %s]: query failed: %s", h.Key(), fmtNs(p.s), fmtNs(p.e), et), wit())
			continue
		}
		res.Count("rows_compared", int64(exp.N))
		if exp.N > 0 {
			nonEmpty++
		} else {
			empty++
		}
		diff := sameTable(act, exp)
		if diff == "" {
			continue
		}
		detail := fmt.Sprintf("%s (%s) range [%s, %s] (%s): expected %d rows, got %d: %s", h.Key(), map[bool]string{true: "variable", false: "fixed"}[h.Variable],
			fmtNs(p.s), fmtNs(p.e), p.kind, exp.N, act.N, diff)
		if h.Variable && trimTrigger(all, h.D, p.s, p.e) {
			asis := all.Select(asIsVar(all, h.D, p.s, p.e, 0, true, false))
			if sameTable(act, asis) == "" {
				res.Count("known_trim", 1)
				res.Known("F-TRIM", detail+" [no record in range, records after `end` in the interval containing `end` are returned]", wit())
				continue
			}
		}
		res.Violation(detail, wit())
	}
	// bounds far outside the data (and outside what an int64 of nanoseconds can hold): the customary
	// "open end" 9999-12-31, ends in 2300 / 2600, starts in 1000 / 1600
	farEnds := []time.Time{time.Date(9999, 12, 31, 23, 59, 59, 0, time.UTC), time.Date(2300, 1, 1, 0, 0, 0, 0, time.UTC), time.Date(2600, 6, 1, 0, 0, 0, 0, time.UTC), time.Date(2262, 4, 12, 0, 0, 0, 0, time.UTC)}
	farStarts := []time.Time{time.Date(1000, 1, 1, 0, 0, 0, 0, time.UTC), time.Date(1600, 1, 1, 0, 0, 0, 0, time.UTC), time.Date(1677, 9, 20, 0, 0, 0, 0, time.UTC)}
	for q := 0; q < 4; q++ {
		near := B[rq.Intn(len(B))]
		var st, en time.Time
		var exp *ms.Table
		what := ""
		if q%2 == 0 {
			st, en = tm(near), farEnds[rq.Intn(len(farEnds))]
			exp = all.Select(idealIdx(all, h.Variable, h.D, near, 1<<62))
			what = "far end"
		} else {
			st, en = farStarts[rq.Intn(len(farStarts))], tm(near)
			exp = all.Select(idealIdx(all, h.Variable, h.D, -(1 << 62), near))
			what = "far start"
		}
		if h.costly() && q >= 2 {
			break // year-long scans on 1Sec..30Sec buckets: two are enough
		}
		var act *ms.Table
		var qerr error
		pn := ms.Recover(func() { act, qerr = in.Query(h.Key(), st, en, 0, false, nil) })
		res.Count("queries", 1)
		res.Count("queries_with_far_bounds", 1)
		res.Set("pair_kinds", what)
		if pn == "" && qerr != nil && ms.QueryErrNoData(qerr) {
			act, qerr = ms.FromCS(nil), nil
		}
		w := h.describe()
		w["start"], w["end"] = st.Format(time.RFC3339Nano), en.Format(time.RFC3339Nano)
		w["expected_rows"] = exp.Dump(40)
		if pn != "" || qerr != nil {
			res.Violation(fmt.Sprintf("%s range [%s, %s] (%s): query failed: %v %s", h.Key(), st.Format(time.RFC3339), en.Format(time.RFC3339), what, qerr, pn), w)
			continue
		}
		res.Count("rows_compared", int64(exp.N))
		if diff := sameTable(act, exp); diff != "" {
			w["actual_rows"] = act.Dump(40)
			res.Violation(fmt.Sprintf("%s (%s) range [%s, %s] (%s): expected %d rows, got %d: %s", h.Key(), map[bool]string{true: "variable", false: "fixed"}[h.Variable],
				st.Format(time.RFC3339), en.Format(time.RFC3339), what, exp.N, act.N, diff), w)
		}
	}
	res.Count("queries_nonempty_expected", int64(nonEmpty))
	res.Count("queries_empty_expected", int64(empty))
	res.Set("timeframes", h.TF)
	if nonEmpty > 0 && empty > 0 {
		res.Sig = fmt.Sprintf("%s/%s/years%d/rows%s/%v/aim=%v", h.TF, map[bool]string{true: "var", false: "fix"}[h.Variable], len(h.Years), rowsBucket(all.N), h.Layout, aim)
	}
	if c.Case < 3 {
		s := h.describe()
		s["ranges"] = npairs
		res.Sample = s
	}
	return res
}

func init() {
	register(&runner.Monitor{
		ID:    "C11",
		Level: "exploration",
		Rule: "case = one generated bucket history (timeframe 1Sec..1D, fixed or variable length, random schema, 1-3 year files, clusters at year start/end/mid-year with gaps) " +
			"stored through the real writer, then 40 (quick) / 80 (thorough) (start,end) pairs drawn from: every stored timestamp +-{0,1ns,1s,one interval}, interval edges +-1ns, mid-interval, " +
			"year edges, years without a file, epoch 0 and year 2100; pairs near each other, equal, inverted, arbitrary and wide. Oracle: ranged query == filter(unrestricted query, property's inRange), same order. " +
			"A case is non-trivial if at least one pair expected rows and at least one expected none; distinct = timeframe/record type/year files/row-count bucket/layout/stratum. " +
			"1 case in 6 aims at the F-TRIM trigger, the others re-draw pairs that hit it.",
		Assumptions: []string{
			"UTC instance timezone",
			"range bounds between 1970 and 2100 (an end year > 32767 wraps an int16 in the planner: probed, out of scope)",
			"no Jan-1 rows in 1D buckets and < 100 records per variable interval (defects of C08/C09, kept out so that they do not mask C11)",
		},
		Cases:        c11cases,
		Batch:        10,
		BatchTimeout: 60 * time.Minute,
		Run:          c11run,
		Need:         []string{"queries", "rows_compared", "queries_empty_expected", "queries_nonempty_expected"},
	})
}

var _ = gen.New
