package main

// Shared history generator and helpers for the metamorphic query monitors C11, C12, C13.
//
// A history is one bucket's worth of rows: a timeframe, fixed- or variable-length records, a random
// schema, 1-3 year files (possibly with a year without a file in between) and rows laid out in
// clusters at the places the query code treats specially: first/last slots of a year, a random place
// in the year, short gaps, and (optionally) a gap of about recordsPerRead = 8192 empty slots.
// Two known defects of other properties are kept out of the histories: no row on Jan 1 of a 1D bucket
// (F-JAN1) and well under 2000 records per variable-length interval (F-SNAPPY). Rows are written in
// ascending time order, one year per WriteCSM call (F-PREVYEAR is about unsorted multi-year requests).
//
// Nothing in this file is a model of the storage: it only produces inputs, the property's definition of
// "in range", and as-is descriptions of two known defects (F-TRIM, F-VARLIMIT) expressed on the rows
// the unrestricted real query returned.

import (
	"fmt"
	"reflect"
	"sort"
	"strings"
	"time"

	"github.com/alpacahq/marketstore/v4/utils/io"
	"github.com/alpacahq/marketstore/v4/verif/internal/gen"
	"github.com/alpacahq/marketstore/v4/verif/internal/ms"
)

type qTF struct {
	Name string
	D    time.Duration
}

// Every timeframe a bucket can be stored and queried at (utils.Timeframes). "4H" was unqueryable on the pinned
// tree (F-4H: the table listed 4H before 2H, so a 4H query was redirected to the 2H bucket; first seen here as
// "unrestricted query returns nothing"); it is included again since the repair cbfbaf2.
var qTFs = []qTF{
	{"1Sec", time.Second}, {"10Sec", 10 * time.Second}, {"30Sec", 30 * time.Second}, {"1Min", time.Minute},
	{"5Min", 5 * time.Minute}, {"15Min", 15 * time.Minute}, {"30Min", 30 * time.Minute}, {"1H", time.Hour},
	{"2H", 2 * time.Hour}, {"4H", 4 * time.Hour}, {"1D", 24 * time.Hour},
}

// pickTF draws a timeframe. 1Sec and 10Sec year files have 31.5M / 3.2M slots: a scan over a whole year costs
// ~1 s, so they get half the weight of the others (same code path, only slower to scan); 1D gets a little more
// (its index arithmetic is a special case).
func pickTF(r *gen.R) qTF {
	return qTFs[r.PickI(0, 1, 2, 2, 3, 3, 4, 4, 5, 5, 6, 6, 7, 7, 8, 8, 9, 9, 10, 10, 10)]
}

type qCol struct {
	Name string
	T    io.EnumElementType
}

var qColNames = []string{"Open", "High", "Low", "Close", "Volume", "Bid", "Ask", "Px", "Sz", "Flag"}

// qHist is one generated bucket history.
type qHist struct {
	Sym, TF, AG string
	D           time.Duration
	Variable    bool
	Cols        []qCol
	Years       []int
	T           []int64   // written timestamps, ns since the Unix epoch, ascending
	Vals        [][]int64 // [column][row] value seeds
	Layout      []string  // cluster kinds used (for signatures)
	BigGap      int64     // number of slots between the two rows of the big-gap pair (0 = none)
	MaxPerSlot  int
}

func (h *qHist) Key() string { return h.Sym + "/" + h.TF + "/" + h.AG }

type qOpts struct {
	Sym, AG  string
	TF       *qTF   // nil = random
	Variable *bool  // nil = random
	Cols     []qCol // nil = random schema
	Years    []int  // nil = random
	MaxYears int    // default 3
	Clusters int    // clusters per year upper bound (default 3)
	BigGap   bool   // place a pair of rows ~8192 slots apart (timeframes <= 15Min only)
	Dense    bool   // more records per variable slot
	SmallTF  bool   // prefer timeframes whose year files are cheap to scan completely
}

func yearStartNs(y int) int64 { return time.Date(y, 1, 1, 0, 0, 0, 0, time.UTC).UnixNano() }

func slotsInYear(y int, d time.Duration) int64 {
	return (yearStartNs(y+1) - yearStartNs(y)) / int64(d)
}

func genSchema(r *gen.R) []qCol {
	n := r.PickI(1, 2, 2, 3, 3, 4, 5)
	p := r.Perm(len(qColNames))
	cols := make([]qCol, n)
	for i := 0; i < n; i++ {
		cols[i] = qCol{qColNames[p[i]], ms.ElemTypes[r.Intn(len(ms.ElemTypes))].T}
	}
	return cols
}

func genYears(r *gen.R, max int) []int {
	if max <= 0 {
		max = 3
	}
	n := r.PickI(1, 1, 2, 2, 2, 3)
	if n > max {
		n = max
	}
	y := r.Range(2016, 2022)
	ys := []int{y}
	for len(ys) < n {
		if r.P(1, 4) {
			y += 2 // a year without a file in between
		} else {
			y++
		}
		ys = append(ys, y)
	}
	return ys
}

// genHist generates one bucket history.
func genHist(r *gen.R, o qOpts) *qHist {
	h := &qHist{Sym: o.Sym, AG: o.AG}
	if h.Sym == "" {
		h.Sym = "SYM"
	}
	if h.AG == "" {
		h.AG = "OHLC"
	}
	tf := o.TF
	if tf == nil {
		if o.BigGap {
			tf = &qTFs[r.Intn(6)] // <= 15Min: 8192-slot gaps fit in a year
		} else if o.SmallTF {
			tf = &qTFs[3+r.Intn(len(qTFs)-3)]
		} else {
			t := pickTF(r)
			tf = &t
		}
	}
	h.TF, h.D = tf.Name, tf.D
	if o.Variable != nil {
		h.Variable = *o.Variable
	} else {
		h.Variable = r.Bool()
	}
	h.Cols = o.Cols
	if h.Cols == nil {
		h.Cols = genSchema(r)
	}
	h.Years = o.Years
	if h.Years == nil {
		h.Years = genYears(r, o.MaxYears)
	}
	maxCl := o.Clusters
	if maxCl <= 0 {
		maxCl = 3
	}
	d := int64(h.D)
	isDay := h.D == 24*time.Hour
	type slot struct {
		y int
		s int64
	}
	seen := map[slot]bool{}
	var slots []slot
	add := func(y int, s int64) {
		n := slotsInYear(y, h.D)
		lo := int64(0)
		if isDay {
			lo = 1 // keep Jan 1 out of 1D buckets (F-JAN1 belongs to C08/C15)
		}
		if s < lo || s >= n {
			return
		}
		k := slot{y, s}
		if !seen[k] {
			seen[k] = true
			slots = append(slots, k)
		}
	}
	layout := map[string]bool{}
	for yi, y := range h.Years {
		n := slotsInYear(y, h.D)
		ncl := r.Range(1, maxCl)
		for c := 0; c < ncl; c++ {
			var kind string
			var at int64
			switch r.Intn(5) {
			case 0:
				kind, at = "ystart", int64(r.Intn(3))
			case 1:
				kind = "yend"
				at = n - 1 - int64(r.Intn(6))
			default:
				kind, at = "mid", r.I64n(n)
			}
			layout[kind] = true
			cnt := r.PickI(1, 2, 3, 4, 6, 8)
			for i := 0; i < cnt; i++ {
				add(y, at)
				step := int64(r.PickI(1, 1, 1, 2, 3, 7, 60))
				if step > 1 {
					layout["gap"] = true
				}
				at += step
			}
		}
		if o.BigGap && yi == 0 {
			g := r.PickI64(8191, 8192, 8193, 16384, 16385, 3*8192+1, 8192*2-1)
			if n > g+10 {
				a := r.I64n(n - g - 2)
				if isDay && a == 0 {
					a = 1
				}
				add(y, a)
				add(y, a+g)
				if r.Bool() {
					add(y, a+g+1)
				}
				if r.Bool() {
					add(y, a+2*g)
				}
				h.BigGap = g
				layout["biggap"] = true
			}
		}
	}
	if len(slots) == 0 {
		// every drawn slot was rejected (Jan 1 of a 1D bucket): a history has at least one row
		add(h.Years[0], slotsInYear(h.Years[0], h.D)/2)
		layout["mid"] = true
	}
	sort.Slice(slots, func(i, j int) bool {
		if slots[i].y != slots[j].y {
			return slots[i].y < slots[j].y
		}
		return slots[i].s < slots[j].s
	})
	for _, sl := range slots {
		base := yearStartNs(sl.y) + sl.s*d
		if !h.Variable {
			off := int64(0)
			if h.D > time.Second && r.P(1, 5) {
				off = r.I64n(d/1e9) * 1e9 // a whole second inside the interval: stored in the same slot
			}
			h.T = append(h.T, base+off)
			if h.MaxPerSlot < 1 {
				h.MaxPerSlot = 1
			}
			continue
		}
		k := r.PickI(1, 1, 2, 2, 3, 4, 5)
		if o.Dense && r.P(1, 6) {
			k = r.Range(20, 60)
		}
		if k > h.MaxPerSlot {
			h.MaxPerSlot = k
		}
		offs := make([]int64, k)
		for i := range offs {
			switch r.Intn(9) {
			case 0:
				offs[i] = 0
			case 1:
				offs[i] = d - 1
			case 2:
				offs[i] = d / 2
			case 3:
				offs[i] = r.I64n(d/1e9) * 1e9 // on a whole second
			case 4:
				offs[i] = r.I64n(d/1e9)*1e9 + 999999999
			default:
				offs[i] = r.I64n(d)
			}
		}
		sort.Slice(offs, func(i, j int) bool { return offs[i] < offs[j] })
		for _, of := range offs {
			h.T = append(h.T, base+of)
		}
	}
	h.Vals = make([][]int64, len(h.Cols))
	for c := range h.Cols {
		h.Vals[c] = make([]int64, len(h.T))
		for i := range h.T {
			switch r.Intn(4) {
			case 0:
				h.Vals[c][i] = int64(r.Intn(200)) - 100
			default:
				h.Vals[c][i] = int64(r.U64() >> uint(r.Intn(60)))
			}
		}
	}
	for k := range layout {
		h.Layout = append(h.Layout, k)
	}
	sort.Strings(h.Layout)
	return h
}

// cs builds the ColumnSeries for rows [a,b).
func (h *qHist) cs(a, b int) *io.ColumnSeries {
	ep := make([]int64, b-a)
	ns := make([]int32, b-a)
	for i := a; i < b; i++ {
		ep[i-a] = floorDiv(h.T[i], 1e9)
		ns[i-a] = int32(h.T[i] - ep[i-a]*1e9)
	}
	var cols []ms.Col
	for c, col := range h.Cols {
		cols = append(cols, ms.Col{Name: col.Name, Data: ms.MakeCol(col.T, h.Vals[c][a:b])})
	}
	if h.Variable {
		cols = append(cols, ms.Col{Name: "Nanoseconds", Data: ns})
	}
	return ms.CS(ep, cols...)
}

// store writes the history through the real writer: ascending, one year per call, a year possibly in
// several calls. Returns the number of write calls.
func (h *qHist) store(in *ms.Inst, r *gen.R) (int, error) {
	calls := 0
	i := 0
	for i < len(h.T) {
		y := time.Unix(0, h.T[i]).UTC().Year()
		j := i
		for j < len(h.T) && time.Unix(0, h.T[j]).UTC().Year() == y {
			j++
		}
		// split [i,j) into 1-3 chronological chunks
		cuts := []int{i, j}
		if j-i > 1 && r.Bool() {
			cuts = []int{i, i + 1 + r.Intn(j-i-1), j}
		}
		for k := 0; k+1 < len(cuts); k++ {
			if cuts[k] == cuts[k+1] {
				continue
			}
			var err error
			p := ms.Recover(func() { err = in.Write(h.Key(), h.cs(cuts[k], cuts[k+1]), h.Variable) })
			calls++
			if p != "" {
				return calls, fmt.Errorf("write panicked: %s", p)
			}
			if err != nil {
				return calls, err
			}
		}
		i = j
	}
	return calls, nil
}

func (h *qHist) describe() map[string]interface{} {
	var cols []string
	for _, c := range h.Cols {
		cols = append(cols, c.Name+":"+c.T.String())
	}
	var ts []string
	for i, t := range h.T {
		if i >= 60 {
			ts = append(ts, fmt.Sprintf("... %d rows", len(h.T)))
			break
		}
		ts = append(ts, fmtNs(t))
	}
	return map[string]interface{}{"bucket": h.Key(), "variable_length": h.Variable, "columns": cols, "years": h.Years, "row_times_written": ts}
}

// ---------------------------------------------------------------------------------------------

func floorDiv(a, b int64) int64 {
	q := a / b
	if (a%b != 0) && ((a < 0) != (b < 0)) {
		q--
	}
	return q
}

// floorNs = start of the interval (of length d, aligned to UTC midnight) containing t.
func floorNs(t int64, d time.Duration) int64 { return floorDiv(t, int64(d)) * int64(d) }

func fmtNs(t int64) string {
	return time.Unix(0, t).UTC().Format("2006-01-02T15:04:05.000000000Z")
}

func tm(ns int64) time.Time { return time.Unix(0, ns).UTC() }

func rowsBucket(n int) string {
	switch {
	case n == 0:
		return "0"
	case n <= 3:
		return "1-3"
	case n <= 10:
		return "4-10"
	case n <= 40:
		return "11-40"
	default:
		return ">40"
	}
}

// idealIdx: the property's definition of "in range", applied to the rows of the unrestricted query.
func idealIdx(all *ms.Table, variable bool, d time.Duration, s, e int64) []int {
	idx := []int{}
	fs := floorNs(s, d)
	for i := 0; i < all.N; i++ {
		if variable {
			t := all.TimeNs(i)
			if t >= s && t <= e {
				idx = append(idx, i)
			}
		} else {
			t := all.Epoch[i] * 1e9 // interval start as returned
			if t >= fs && t <= e {
				idx = append(idx, i)
			}
		}
	}
	return idx
}

// asIsVar describes what the pinned reader does for variable-length buckets, on the rows of the
// unrestricted query (which are in file order): candidate intervals = those between the interval
// containing s and the interval containing e; a row limit n (0 = none) is applied to *intervals* first
// (F-VARLIMIT); then the range trim, which (unless idealTrim) drops rows before s, and drops rows after e
// only if more than one row is left and some row is <= e (F-TRIM); then the row limit on records.
func asIsVar(all *ms.Table, d time.Duration, s, e int64, n int, fromStart, idealTrim bool) []int {
	fs, fe := floorNs(s, d), floorNs(e, d)
	var cand []int
	for i := 0; i < all.N; i++ {
		f := floorNs(all.TimeNs(i), d)
		if f >= fs && f <= fe {
			cand = append(cand, i)
		}
	}
	if n > 0 && len(cand) > 0 {
		// distinct intervals in order
		var starts []int // index into cand where a new interval starts
		last := int64(0)
		for k, i := range cand {
			f := floorNs(all.TimeNs(i), d)
			if k == 0 || f != last {
				starts = append(starts, k)
				last = f
			}
		}
		if len(starts) > n {
			if fromStart {
				cand = cand[:starts[n]]
			} else {
				cand = cand[starts[len(starts)-n]:]
			}
		}
	}
	var dest []int
	if idealTrim {
		for _, i := range cand {
			if t := all.TimeNs(i); t >= s && t <= e {
				dest = append(dest, i)
			}
		}
	} else {
		for k, i := range cand {
			if all.TimeNs(i) >= s {
				dest = cand[k:]
				break
			}
		}
		if len(dest) > 1 {
			for k := len(dest) - 1; k >= 0; k-- {
				if all.TimeNs(dest[k]) <= e {
					dest = dest[:k+1]
					break
				}
			}
		}
	}
	if n > 0 && len(dest) > n {
		if fromStart {
			dest = dest[:n]
		} else {
			dest = dest[len(dest)-n:]
		}
	}
	if dest == nil {
		dest = []int{}
	}
	return dest
}

// sameTable compares a query result with the expected rows. Zero rows equal zero rows whatever the
// column metadata of an empty result looks like.
func sameTable(act, exp *ms.Table) string {
	if exp.N == 0 && act.N == 0 {
		return ""
	}
	return ms.SameRows(act, exp)
}

// query runs the real query; "no rows" may be an empty table or the planner's no-data error.
// Returns (table, errText): errText != "" for any other error or a panic.
func query(in *ms.Inst, key string, s, e int64, limit int, fromStart bool) (*ms.Table, string) {
	var t *ms.Table
	var err error
	p := ms.Recover(func() { t, err = in.Query(key, tm(s), tm(e), limit, fromStart, nil) })
	if p != "" {
		return nil, "panic: " + p
	}
	if err != nil {
		if ms.QueryErrNoData(err) {
			return ms.FromCS(nil), ""
		}
		return nil, "error: " + err.Error()
	}
	return t, ""
}

func headTail(t *ms.Table, n int, fromStart bool) *ms.Table {
	idx := []int{}
	if n >= t.N {
		for i := 0; i < t.N; i++ {
			idx = append(idx, i)
		}
	} else if fromStart {
		for i := 0; i < n; i++ {
			idx = append(idx, i)
		}
	} else {
		for i := t.N - n; i < t.N; i++ {
			idx = append(idx, i)
		}
	}
	if t.N == 0 {
		return t
	}
	return t.Select(idx)
}

// boundCandidates builds the pool of range bounds around the stored rows (taken from the unrestricted
// result, i.e. the timestamps as the store returns them), interval edges, year edges and far away.
func boundCandidates(all *ms.Table, h *qHist, r *gen.R, maxRows int) []int64 {
	d := int64(h.D)
	set := map[int64]bool{}
	add := func(v int64) { set[v] = true }
	rows := make([]int, 0, all.N)
	for i := 0; i < all.N; i++ {
		rows = append(rows, i)
	}
	if len(rows) > maxRows {
		p := r.Perm(len(rows))
		sel := append([]int{0, len(rows) - 1}, p[:maxRows-2]...)
		rows = sel
	}
	for _, i := range rows {
		t := all.TimeNs(i)
		f := floorNs(t, h.D)
		for _, v := range []int64{t, t - 1, t + 1, t - 1e9, t + 1e9, t - d, t + d,
			f, f - 1, f + 1, f + d, f + d - 1, f + d + 1, f + d/2, f - d, f + 2*d} {
			add(v)
		}
	}
	ys := map[int]bool{}
	for _, y := range h.Years {
		ys[y], ys[y+1] = true, true
	}
	for y := range ys {
		b := yearStartNs(y)
		for _, v := range []int64{b, b - 1, b + 1, b - 1e9, b + 1e9, b - d, b + d, b + d - 1} {
			add(v)
		}
	}
	first, last := h.Years[0], h.Years[len(h.Years)-1]
	add(yearStartNs(first-2) + r.I64n(365*86400e9))
	add(yearStartNs(last+3) + r.I64n(365*86400e9))
	add(0)
	add(ms.FarFuture.UnixNano())
	out := make([]int64, 0, len(set))
	for v := range set {
		out = append(out, v)
	}
	sort.Slice(out, func(i, j int) bool { return out[i] < out[j] })
	return out
}

// cutsStart: the interval containing s holds stored records before s and none at or after s. Such an
// interval counts against an interval-based limit but contributes no row (trigger of F-VARLIMIT, first N).
func cutsStart(all *ms.Table, d time.Duration, s int64) bool {
	f := floorNs(s, d)
	before := false
	for i := 0; i < all.N; i++ {
		t := all.TimeNs(i)
		if t >= f && t < s {
			before = true
		}
		if t >= s && t < f+int64(d) {
			return false
		}
	}
	return before
}

// cutsEnd: the interval containing e holds stored records after e and none at or before e (F-VARLIMIT, last N).
func cutsEnd(all *ms.Table, d time.Duration, e int64) bool {
	f := floorNs(e, d)
	after := false
	for i := 0; i < all.N; i++ {
		t := all.TimeNs(i)
		if t > e && t < f+int64(d) {
			after = true
		}
		if t >= f && t <= e {
			return false
		}
	}
	return after
}

// lastYearTrigger is the input predicate of F-LASTYEAR (variable-length, limit counted from the end): the
// backward scan takes the last n non-empty intervals of the range file by file, newest year first, in
// windows of 8192 slots counted back from the end of each file's part of the range. When a file that is
// not the first one to contribute delivers more intervals than are still needed (the window that
// completes the count holds extra ones), the pinned reader attributes the index records of the newer
// files to this older file as well.
func lastYearTrigger(all *ms.Table, d time.Duration, s, e int64, n int) bool {
	fs, fe := floorNs(s, d), floorNs(e, d)
	type iv struct {
		year int
		slot int64
	}
	var ivs []iv // distinct candidate intervals, ascending
	for i := 0; i < all.N; i++ {
		f := floorNs(all.TimeNs(i), d)
		if f < fs || f > fe {
			continue
		}
		y := tm(f).Year()
		x := iv{y, (f - yearStartNs(y)) / int64(d)}
		if len(ivs) == 0 || ivs[len(ivs)-1] != x {
			ivs = append(ivs, x)
		}
	}
	endYear := tm(e).Year()
	need := int64(n)
	later := false
	k := len(ivs) - 1
	for k >= 0 && need > 0 {
		y := ivs[k].year
		endSlot := slotsInYear(y, d)
		if y == endYear {
			endSlot = (fe-yearStartNs(y))/int64(d) + 1
		}
		// walk this year's intervals backwards window by window
		cum := int64(0)
		for k >= 0 && ivs[k].year == y {
			w := (endSlot - 1 - ivs[k].slot) / 8192
			// take the whole window
			for k >= 0 && ivs[k].year == y && (endSlot-1-ivs[k].slot)/8192 == w {
				cum++
				k--
			}
			if cum >= need {
				break
			}
		}
		if cum > need && later {
			return true
		}
		if cum >= need {
			return false
		}
		need -= cum
		later = true
		// skip the rest of this year (none left: the loop above consumed the year unless it broke)
		for k >= 0 && ivs[k].year == y {
			k--
		}
	}
	return false
}

// costly: scanning a whole year of this bucket is expensive (>= 1M slots per year); monitors bound the
// number of ranges longer than wideSpan they issue against such a bucket.
func (h *qHist) costly() bool { return h.D <= 30*time.Second }

const wideSpan = int64(40 * 86400e9)

func typeName(v interface{}) string { return strings.TrimPrefix(reflect.TypeOf(v).String(), "[]") }
