package main

// C12 Row limits return the first or last N rows of the range.
//
// Metamorphic, both sides real: U = Query(range) without a limit, A = Query(range, N, direction);
// A must equal the first (last) N rows of U, or all of U when it has fewer, in the same order.
// Histories: fixed and variable length, gaps, 1-3 year files, and in one case out of four a pair of rows
// 8191..24577 empty slots apart (the reader buffers recordsPerRead = 8192 slots per read) so that the
// backward scan needs several buffers. N in {1..n+1, 10n} for small n, {1,2,3,n-1,n,n+1,10n,random} otherwise.
//
// Known finding F-VARLIMIT (variable-length only): the limit is applied to *intervals* before the records
// are trimmed to the range, so when the bound on the limit's side cuts an interval the result is short (or,
// together with F-TRIM, contains a record outside the range). Trigger on the input: counting from the start
// and the interval containing `start` holds stored records before `start` but none at or after it (the interval
// is counted and contributes nothing); or counting from the end and the interval containing `end` holds stored
// records after `end` but none at or before it. As-is:
// limit_N(trim(records of the first/last N non-empty intervals between the two bounds' intervals)), with the
// pinned range trim or with a correct one (so that a repair of F-TRIM alone changes nothing here).
//
// Known finding F-LASTYEAR (variable-length only, found by this monitor): counting from the end across year
// files. In Reader.read the slice of index records remembered for a file of the backward scan is
// resultBuffer[0:len(resultBuffer)] whenever the file delivered more than was still needed; if newer files had
// already contributed, their index records are looked up in the older file too (at the newer file's offsets):
// the query fails with "snappy: corrupt input"/"EOF", or returns foreign records in front of the correct
// records of the newer files. Trigger: lastYearTrigger (hist.go). As-is: such an error, or at most N rows
// whose tail equals the rows of the newer year files.
//
// Known finding F-LIMITOVF (found by this monitor): the scan budget is int32(record length) * int32(N). Trigger:
// N >= 2^31-1, or N * on-disk record length (8 + column bytes; 24 for variable-length index records) > 2^31-1.
// As-is: a panic "slice bounds out of range"/"makeslice: len out of range" (budget wrapped negative), the error
// "reverse scan only supported with a limited result set" (N = 2^31-1 is the "no limit" sentinel), or the
// result of some smaller limit: a proper prefix (suffix) of the unlimited result instead of all of it.
// Three cases in six keep away from all triggers (bounds re-drawn, limit/direction pairs skipped, N <= 10n+3);
// one in six aims at F-VARLIMIT, one at F-LASTYEAR and one adds limits beyond the int32 budget.

import (
	"fmt"
	"strings"
	"time"

	"github.com/alpacahq/marketstore/v4/verif/internal/gen"
	"github.com/alpacahq/marketstore/v4/verif/internal/ms"
	"github.com/alpacahq/marketstore/v4/verif/internal/runner"
)

func c12cases(tier string) int {
	if tier == "thorough" {
		return 240
	}
	return 96
}

func c12ranges(tier string) int {
	if tier == "thorough" {
		return 8
	}
	return 5
}

type c12range struct {
	s, e int64
	kind string
}

func c12drawRange(r *gen.R, all *ms.Table, B []int64, q int) c12range {
	n := len(B)
	if q == 0 {
		return c12range{0, ms.FarFuture.UnixNano(), "all"}
	}
	switch r.Intn(10) {
	case 0, 1, 2: // between two stored rows
		i, j := r.Intn(all.N), r.Intn(all.N)
		if j < i {
			i, j = j, i
		}
		return c12range{all.TimeNs(i), all.TimeNs(j), "row-row"}
	case 3, 4, 5:
		i, j := r.Intn(n), r.Intn(n)
		if j < i {
			i, j = j, i
		}
		return c12range{B[i], B[j], "bound-bound"}
	case 6:
		i := r.Intn(n)
		return c12range{B[i], ms.FarFuture.UnixNano(), "bound-open"}
	case 7:
		i := r.Intn(n)
		return c12range{0, B[i], "open-bound"}
	case 8:
		i := r.Intn(n)
		j := i + r.Intn(4)
		if j >= n {
			j = n - 1
		}
		return c12range{B[i], B[j], "narrow"}
	default:
		i := r.Intn(n)
		j := i - r.Intn(3)
		if j < 0 {
			j = 0
		}
		return c12range{B[i], B[j], "inverted"}
	}
}

// c12aim: a range whose bound on one side falls into an interval all of whose records lie outside the
// bound: start after the last record of a non-empty interval, or end before the first record of one.
func c12aim(r *gen.R, all *ms.Table, h *qHist) (c12range, bool) {
	d := int64(h.D)
	for try := 0; try < 80; try++ {
		k := r.Intn(all.N)
		t := all.TimeNs(k)
		f := floorNs(t, h.D)
		if r.Bool() {
			// k must be the last record of its interval and not sit on the interval's last nanosecond
			if (k+1 < all.N && all.TimeNs(k+1) < f+d) || t+1 >= f+d {
				continue
			}
			s := t + 1 + r.I64n(f+d-t-1)
			if r.P(1, 3) {
				s = t + 1
			}
			e := ms.FarFuture.UnixNano()
			if r.Bool() {
				e = all.TimeNs(k + r.Intn(all.N-k))
			}
			if cutsStart(all, h.D, s) {
				return c12range{s, e, "aim-start"}, true
			}
		} else {
			// k must be the first record of its interval and not sit on the interval start
			if (k > 0 && all.TimeNs(k-1) >= f) || t == f {
				continue
			}
			e := f + r.I64n(t-f)
			if r.P(1, 3) {
				e = t - 1
			}
			s := int64(0)
			if r.Bool() {
				s = all.TimeNs(r.Intn(k + 1))
			}
			if cutsEnd(all, h.D, e) {
				return c12range{s, e, "aim-end"}, true
			}
		}
	}
	return c12range{}, false
}

// c12newerRows: number of rows of u in the newest year present in u (they are read first by the backward scan).
func c12newerRows(u *ms.Table) int {
	if u.N == 0 {
		return 0
	}
	y := tm(u.TimeNs(u.N - 1)).Year()
	k := 0
	for i := u.N - 1; i >= 0 && tm(u.TimeNs(i)).Year() == y; i-- {
		k++
	}
	return k
}

func c12limits(r *gen.R, n int) []int {
	set := map[int]bool{}
	var out []int
	add := func(v int) {
		if v > 0 && !set[v] {
			set[v] = true
			out = append(out, v)
		}
	}
	if n <= 8 {
		for v := 1; v <= n+1; v++ {
			add(v)
		}
	} else {
		for _, v := range []int{1, 2, 3, n - 1, n, n + 1} {
			add(v)
		}
		add(4 + r.Intn(n-5))
		add(4 + r.Intn(n-5))
	}
	add(10 * n)
	add(3)
	return out
}

func c12run(c *runner.Ctx) runner.Result {
	var res runner.Result
	ms.Quiet()
	r := c.R("hist")
	aim := c.Case%6 == 0     // F-VARLIMIT
	aimYear := c.Case%6 == 3 // F-LASTYEAR
	aimOvf := c.Case%6 == 5  // F-LIMITOVF
	o := qOpts{Dense: c.Case%5 == 2, BigGap: c.Case%4 == 1}
	if aim || aimYear {
		v := true
		o.Variable = &v
	}
	if aimYear {
		y := 2016 + c.Case%5
		o.Years = []int{y, y + 1}
		if c.Case%12 == 3 {
			o.Years = []int{y, y + 1, y + 3}
		}
	}
	h := genHist(r, o)
	in := ms.Open(c.Scratch+"/root", ms.Opts{})
	calls, err := h.store(in, c.R("store"))
	res.Count("write_calls", int64(calls))
	if err != nil {
		res.Inconclusive("could not store the history: " + err.Error())
		return res
	}
	all, et := query(in, h.Key(), 0, ms.FarFuture.UnixNano(), 0, false)
	if et != "" {
		res.Violation("unrestricted query failed: "+et, h.describe())
		return res
	}
	res.Count("rows_unrestricted", int64(all.N))
	if all.N == 0 {
		res.Inconclusive("unrestricted query returned no rows for a non-empty history")
		return res
	}
	rq := c.R("ranges")
	B := boundCandidates(all, h, rq, 16)
	cutFirst, cutLast := 0, 0
	vf := map[bool]string{true: "variable", false: "fixed"}[h.Variable]
	for q := 0; q < c12ranges(c.Tier); q++ {
		var rg c12range
		aimed := false
		if aim && q%2 == 1 {
			rg, aimed = c12aim(rq, all, h)
		}
		if !aimed {
			for try := 0; ; try++ {
				rg = c12drawRange(rq, all, B, q)
				if h.costly() && q > 0 && rg.e-rg.s > wideSpan && try <= 60 {
					continue // on 1Sec..30Sec buckets only the first range ("all") scans whole years
				}
				if !h.Variable || try > 60 || (!cutsStart(all, h.D, rg.s) && !cutsEnd(all, h.D, rg.e)) {
					break
				}
			}
		}
		res.Set("range_kinds", rg.kind)
		U, et := query(in, h.Key(), rg.s, rg.e, 0, false)
		res.Count("queries_unlimited", 1)
		if et != "" {
			w := h.describe()
			w["start"], w["end"] = fmtNs(rg.s), fmtNs(rg.e)
			res.Violation(fmt.Sprintf("%s range [%s, %s] without limit failed: %s", h.Key(), fmtNs(rg.s), fmtNs(rg.e), et), w)
			continue
		}
		n := U.N
		for _, N := range c12limits(rq, n) {
			for _, fromStart := range []bool{true, false} {
				dir := map[bool]string{true: "first", false: "last"}[fromStart]
				trigYear := h.Variable && !fromStart && lastYearTrigger(all, h.D, rg.s, rg.e, N)
				if trigYear && !aimYear {
					res.Count("skipped_known_trigger", 1)
					continue
				}
				A, et := query(in, h.Key(), rg.s, rg.e, N, fromStart)
				res.Count("queries_limited", 1)
				res.Count("queries_"+dir, 1)
				exp := headTail(U, N, fromStart)
				wit := func() map[string]interface{} {
					w := h.describe()
					w["unrestricted_rows"] = all.Dump(80)
					w["start"], w["end"] = fmtNs(rg.s), fmtNs(rg.e)
					w["start_ns"], w["end_ns"] = rg.s, rg.e
					w["limit"], w["direction"] = N, dir
					w["same_query_without_limit"] = U.Dump(60)
					w["expected_rows"] = exp.Dump(40)
					if A != nil {
						w["actual_rows"] = A.Dump(40)
					}
					return w
				}
				if et != "" {
					detail := fmt.Sprintf("%s (%s) range [%s, %s] %s %d: query failed: %s", h.Key(), vf, fmtNs(rg.s), fmtNs(rg.e), dir, N, et)
					if trigYear && (strings.Contains(et, "snappy") || strings.Contains(et, "EOF")) {
						res.Count("known_lastyear", 1)
						res.Count("known_lastyear_error", 1)
						res.Known("F-LASTYEAR", detail+" [last N intervals span two year files; the newer file's index records are read from the older file]", wit())
						continue
					}
					res.Violation(detail, wit())
					continue
				}
				res.Count("rows_compared", int64(exp.N))
				if N < n {
					if fromStart {
						cutFirst++
					} else {
						cutLast++
					}
					res.Count("limit_cuts_result", 1)
				} else {
					res.Count("limit_not_binding", 1)
				}
				diff := sameTable(A, exp)
				if diff == "" {
					continue
				}
				detail := fmt.Sprintf("%s (%s) range [%s, %s] (%s) %s %d of %d rows: expected %d rows, got %d: %s", h.Key(), vf,
					fmtNs(rg.s), fmtNs(rg.e), rg.kind, dir, N, n, exp.N, A.N, diff)
				trig := h.Variable && ((fromStart && cutsStart(all, h.D, rg.s)) || (!fromStart && cutsEnd(all, h.D, rg.e)))
				if trig {
					a1 := all.Select(asIsVar(all, h.D, rg.s, rg.e, N, fromStart, false))
					a2 := all.Select(asIsVar(all, h.D, rg.s, rg.e, N, fromStart, true))
					if sameTable(A, a1) == "" || sameTable(A, a2) == "" {
						res.Count("known_varlimit", 1)
						res.Known("F-VARLIMIT", detail+" [limit counted in intervals before the range trim; the bound cuts an interval]", wit())
						continue
					}
				}
				if trigYear && A.N <= N {
					// rows of U that live in year files newer than the oldest file the scan needed are returned correctly at the tail
					k := c12newerRows(U)
					if k > A.N {
						k = A.N
					}
					if k == 0 || sameTable(headTail(A, k, false), headTail(exp, k, false)) == "" {
						res.Count("known_lastyear", 1)
						res.Count("known_lastyear_wrong_rows", 1)
						res.Known("F-LASTYEAR", detail+" [last N intervals span two year files; foreign records precede the newer file's rows]", wit())
						continue
					}
				}
				res.Violation(detail, wit())
			}
		}
	}
	if aimOvf {
		recLen := int64(24)
		if !h.Variable {
			recLen = 8
			for _, col := range h.Cols {
				recLen += int64(col.T.Size())
			}
		}
		s, e := int64(0), ms.FarFuture.UnixNano()
		U, et := query(in, h.Key(), s, e, 0, false)
		if et == "" {
			for _, N := range []int64{(1<<31-1)/recLen + 1, 1 << 28, 1 << 30, 1<<31 - 1, 1<<32 + 1} {
				if N < 1<<31-1 && N*recLen <= 1<<31-1 {
					continue // not beyond the budget for this record length
				}
				if b := int32(recLen) * int32(N); b > 64<<20 {
					res.Count("huge_limit_skipped_large_buffer", 1)
					continue // wraps to a large positive budget: the backward scan would allocate it; nothing to learn
				}
				for _, fromStart := range []bool{true, false} {
					dir := map[bool]string{true: "first", false: "last"}[fromStart]
					A, et := query(in, h.Key(), s, e, int(N), fromStart)
					res.Count("queries_limited", 1)
					res.Count("queries_huge_limit", 1)
					detail := fmt.Sprintf("%s (%s) all rows, %s %d (record length %d): ", h.Key(), vf, dir, N, recLen)
					w := h.describe()
					w["limit"], w["direction"], w["record_length"] = N, dir, recLen
					w["same_query_without_limit"] = U.Dump(40)
					if et == "" && sameTable(A, U) == "" {
						continue // all rows, as the property says
					}
					known := false
					if et != "" {
						detail += et
						known = strings.Contains(et, "slice bounds out of range") || strings.Contains(et, "makeslice: len out of range") ||
							strings.Contains(et, "reverse scan only supported with a limited result set")
					} else {
						detail += fmt.Sprintf("expected all %d rows, got %d", U.N, A.N)
						w["actual_rows"] = A.Dump(40)
						known = A.N < U.N && sameTable(A, headTail(U, A.N, fromStart)) == ""
					}
					if known {
						res.Count("known_limitovf", 1)
						res.Known("F-LIMITOVF", detail+" [limit * record length overflows the int32 scan budget]", w)
					} else {
						res.Violation(detail, w)
					}
				}
			}
		}
	}
	res.Set("timeframes", h.TF)
	if h.BigGap > 0 {
		res.Count("histories_with_big_gap", 1)
		res.Set("big_gaps", fmt.Sprint(h.BigGap))
	}
	if cutFirst > 0 && cutLast > 0 {
		res.Sig = fmt.Sprintf("%s/%s/years%d/rows%s/%v/aim=%v/%v/%v", h.TF, map[bool]string{true: "var", false: "fix"}[h.Variable], len(h.Years), rowsBucket(all.N), h.Layout, aim, aimYear, aimOvf)
	}
	if c.Case < 3 {
		res.Sample = h.describe()
	}
	return res
}

func init() {
	register(&runner.Monitor{
		ID:    "C12",
		Level: "exploration",
		Rule: "case = one generated bucket history (timeframe 1Sec..1D, fixed or variable, 1-3 year files, clusters and gaps; 1 case in 4 with a pair of rows 8191..24577 empty slots apart) stored through the real writer; " +
			"5 (quick) / 8 (thorough) ranges (all time, row-to-row, bound-to-bound, half-open, narrow, inverted); per range the unlimited query U and, for both directions, N in {1..n+1,10n} (n<=8) or {1,2,3,n-1,n,n+1,10n,2 random}. " +
			"Oracle: limited query == first/last N rows of U. A case is non-trivial if a limit smaller than the row count was tested in both directions; distinct = timeframe/record type/year files/row-count bucket/layout/stratum. " +
			"1 case in 6 aims at the F-VARLIMIT trigger, 1 in 6 at the F-LASTYEAR trigger, 1 in 6 adds limits whose byte budget overflows int32 (F-LIMITOVF); the others re-draw bounds / skip limit-direction pairs that hit a trigger.",
		Assumptions: []string{
			"UTC instance timezone; bounds between 1970 and 2100",
			"the queried timeframe is the stored one (a query for a timeframe that is not stored, e.g. 3Min, is served from 1Min with the limit multiplied: not part of this check)",
			"no Jan-1 rows in 1D buckets and < 100 records per variable interval (defects of C08/C09)",
		},
		Cases:        c12cases,
		Batch:        4,
		BatchTimeout: 60 * time.Minute,
		Run:          c12run,
		Need:         []string{"queries_limited", "queries_first", "queries_last", "rows_compared", "limit_cuts_result", "limit_not_binding", "histories_with_big_gap", "queries_huge_limit"},
	})
}
