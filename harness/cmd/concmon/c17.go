package main

import (
	"fmt"
	"os"
	"path/filepath"
	"sort"
	"strings"
	"sync"
	"sync/atomic"
	"time"

	"github.com/alpacahq/marketstore/v4/catalog"
	"github.com/alpacahq/marketstore/v4/frontend"
	"github.com/alpacahq/marketstore/v4/utils/verifhook"
	"github.com/alpacahq/marketstore/v4/verif/internal/gen"
	"github.com/alpacahq/marketstore/v4/verif/internal/ms"
	"github.com/alpacahq/marketstore/v4/verif/internal/runner"
)

// C17: the catalog stays consistent with disk.
// Operation sequences over a small key space (3 symbols x 2 timeframes x 2 attribute groups): create,
// write (also into new years), destroy, recreate with another schema, query, list - sequential (checked
// after every step) and concurrent (2-6 goroutines, checked at quiescence), -race build.
// Oracle: the set {(bucket, year)} the running catalog reports == the set found by an independent walk of
// the root directory == the set a fresh catalog load (what a restart does) reports; every listed bucket
// can be queried without error.

func diskView(root string) map[string]bool {
	out := map[string]bool{}
	filepath.Walk(root, func(p string, info os.FileInfo, err error) error {
		if err != nil || info.IsDir() || !strings.HasSuffix(p, ".bin") {
			return nil
		}
		rel, _ := filepath.Rel(root, p)
		parts := strings.Split(rel, "/")
		if len(parts) == 4 {
			out[strings.Join(parts[:3], "/")+"@"+strings.TrimSuffix(parts[3], ".bin")] = true
		}
		return nil
	})
	return out
}

func catalogView(d *catalog.Directory) (map[string]bool, error) {
	out := map[string]bool{}
	if d == nil {
		return out, nil
	}
	tbis, err := d.GatherTimeBucketInfo()
	if err != nil {
		return nil, err
	}
	root := d.GetPath()
	for _, t := range tbis {
		rel, _ := filepath.Rel(root, t.Path)
		parts := strings.Split(rel, "/")
		if len(parts) == 4 {
			out[strings.Join(parts[:3], "/")+"@"+strings.TrimSuffix(parts[3], ".bin")] = true
		}
	}
	return out, nil
}

func setDiff(a, b map[string]bool) string {
	var only []string
	for k := range a {
		if !b[k] {
			only = append(only, "+"+k)
		}
	}
	for k := range b {
		if !a[k] {
			only = append(only, "-"+k)
		}
	}
	sort.Strings(only)
	return strings.Join(only, " ")
}

func bucketsOf(v map[string]bool) []string {
	m := map[string]bool{}
	for k := range v {
		m[k[:strings.IndexByte(k, '@')]] = true
	}
	var o []string
	for k := range m {
		o = append(o, k)
	}
	sort.Strings(o)
	return o
}

type c17op struct {
	kind string // create | write | destroy | query | list
	key  string
	year int
	alt  bool // alternative schema
}

func (o c17op) String() string { return fmt.Sprintf("%s(%s y=%d alt=%v)", o.kind, o.key, o.year, o.alt) }

func c17apply(in *ms.Inst, o c17op, id int64) string {
	switch o.kind {
	case "create":
		names, types := []string{"A", "B"}, []string{"i8", "i8"}
		if o.alt {
			names, types = []string{"X", "Y", "Z"}, []string{"f4", "i4", "f8"}
		}
		var resp frontend.MultiServerResponse
		err := in.DS.Create(nil, &frontend.MultiCreateRequest{Requests: []frontend.CreateRequest{{Key: o.key + ":Symbol/Timeframe/AttributeGroup", ColumnNames: names, ColumnTypes: types, IsVariableLength: strings.HasSuffix(o.key, "/V")}}}, &resp)
		if err != nil {
			return err.Error()
		}
		if len(resp.Responses) > 0 {
			return resp.Responses[0].Error
		}
	case "write":
		ts := time.Date(o.year, 3, 1, 12, 0, 0, 0, time.UTC).Unix()
		variable := strings.HasSuffix(o.key, "/V")
		var cs = mkCS(variable, []int64{ts}, []int64{id}, []int32{5})
		if o.alt {
			cs = ms.CS([]int64{ts}, ms.Col{Name: "X", Data: []float32{1}}, ms.Col{Name: "Y", Data: []int32{2}}, ms.Col{Name: "Z", Data: []float64{3}})
			if variable {
				cs.AddColumn("Nanoseconds", []int32{5})
			}
		}
		if err := in.Write(o.key, cs, variable); err != nil {
			return err.Error()
		}
	case "destroy":
		var resp frontend.MultiServerResponse
		err := in.DS.Destroy(nil, &frontend.MultiKeyRequest{Requests: []frontend.KeyRequest{{Key: o.key}}}, &resp)
		if err != nil {
			return err.Error()
		}
		if len(resp.Responses) > 0 {
			return resp.Responses[0].Error
		}
	case "query":
		_, err := in.QueryAll(o.key)
		if err != nil && !ms.QueryErrNoData(err) {
			return err.Error()
		}
	case "list":
		in.ListTBK()
	}
	return ""
}

func c17check(in *ms.Inst, res *runner.Result, where string, hist []string) bool {
	disk := diskView(in.Root)
	cat, err := catalogView(in.Cat)
	ok := true
	wit := map[string]interface{}{"operations": hist}
	if err != nil {
		res.Violation(fmt.Sprintf("%s: the running catalog cannot enumerate its buckets: %v", where, err), wit)
		return false
	}
	if d := setDiff(cat, disk); d != "" {
		res.Violation(fmt.Sprintf("%s: buckets/years listed by the running server differ from those on disk (+ only listed, - only on disk): %s", where, d), wit)
		ok = false
	}
	var fresh *catalog.Directory
	p := ms.Recover(func() { fresh, err = catalog.NewDirectory(in.Root) })
	if p != "" {
		res.Violation(fmt.Sprintf("%s: a fresh catalog load (restart) panics: %s", where, p), wit)
		return false
	}
	if err != nil && len(disk) > 0 {
		res.Violation(fmt.Sprintf("%s: a fresh catalog load (restart) fails: %v", where, err), wit)
		return false
	}
	if err == nil {
		fv, err2 := catalogView(fresh)
		if err2 != nil {
			res.Violation(fmt.Sprintf("%s: fresh catalog cannot enumerate: %v", where, err2), wit)
			return false
		}
		if d := setDiff(fv, disk); d != "" {
			res.Violation(fmt.Sprintf("%s: a restart would list different buckets/years than are on disk: %s", where, d), wit)
			ok = false
		}
		lk := catalog.ListTimeBucketKeyNames(fresh)
		sort.Strings(lk)
		lr := in.ListTBK()
		if strings.Join(lk, ",") != strings.Join(lr, ",") {
			res.Violation(fmt.Sprintf("%s: bucket listing of the running server %v differs from a restart's %v", where, lr, lk), wit)
			ok = false
		}
	}
	for _, b := range bucketsOf(cat) {
		var qerr error
		p := ms.Recover(func() { _, qerr = in.QueryAll(b) })
		if p != "" {
			res.Violation(fmt.Sprintf("%s: query of listed bucket %s panics: %s", where, b, p), wit)
			ok = false
		} else if qerr != nil && !ms.QueryErrNoData(qerr) {
			res.Violation(fmt.Sprintf("%s: query of listed bucket %s fails: %v", where, b, qerr), wit)
			ok = false
		}
		res.Count("bucket_queries", 1)
	}
	res.Count("consistency_checks", 1)
	res.Set("catalog_shapes", strings.Join(sortedKeys(cat), ","))
	return ok
}

func sortedKeys(m map[string]bool) []string {
	var o []string
	for k := range m {
		o = append(o, k)
	}
	sort.Strings(o)
	return o
}

func c17genOp(g *gen.R) c17op { return c17genOpD(g, true) }

func c17genOpD(g *gen.R, allowDestroy bool) c17op {
	syms := []string{"AAA", "BBB", "CCC"}
	tfs := []string{"1H", "1D"}
	ags := []string{"F", "V"}
	key := syms[g.Intn(3)] + "/" + tfs[g.Intn(2)] + "/" + ags[g.Intn(2)]
	k := g.Intn(100)
	switch {
	case k < 20:
		return c17op{kind: "create", key: key, alt: g.P(1, 4)}
	case k < 55:
		return c17op{kind: "write", key: key, year: g.PickI(2019, 2020, 2021), alt: false}
	case k < 75:
		if !allowDestroy {
			return c17op{kind: "write", key: key, year: g.PickI(2019, 2020, 2021, 2022)}
		}
		return c17op{kind: "destroy", key: key}
	case k < 90:
		return c17op{kind: "query", key: key}
	}
	return c17op{kind: "list"}
}

func c17run(c *runner.Ctx) runner.Result {
	var res runner.Result
	ms.Quiet()
	r := c.R("ops")
	concurrent := c.Case%3 == 2
	hookSeed := int64(r.Intn(1<<30)) + 1
	var evn int64
	var cmu sync.Mutex
	catEvents := []string{}
	verifhook.Set(func(name string) {
		n := atomic.AddInt64(&evn, 1)
		if strings.HasPrefix(name, "catalog.") {
			cmu.Lock()
			if len(catEvents) < 5000 {
				catEvents = append(catEvents, strings.TrimPrefix(name, "catalog."))
			}
			cmu.Unlock()
			if concurrent {
				g := gen.New(hookSeed, name, int(n))
				if g.Intn(3) == 0 {
					time.Sleep(time.Duration(50+g.Intn(1200)) * time.Microsecond)
				}
			}
		}
	})
	defer verifhook.Set(nil)
	opts := ms.Opts{}
	if concurrent {
		// concurrent writers need the background WAL loop, as in the server (inline flushing from several
		// goroutines is not something the server does)
		opts = ms.Opts{WALRefresh: 4 * time.Millisecond, PrimaryRefresh: 40 * time.Millisecond, RotateInterval: 2}
	}
	in := ms.Open(c.Scratch+"/root", opts)
	defer in.Shutdown()
	var idc int64 = 1000
	if !concurrent {
		var hist []string
		n := 12
		for i := 0; i < n; i++ {
			op := c17genOp(r)
			hist = append(hist, op.String())
			p := ms.Recover(func() {
				if e := c17apply(in, op, atomic.AddInt64(&idc, 1)); e != "" {
					hist[len(hist)-1] += " -> " + trunc(e, 80)
				}
			})
			if p != "" {
				res.Violation(fmt.Sprintf("operation %s panics: %s", op, p), map[string]interface{}{"operations": hist})
				break
			}
			res.Count("operations", 1)
			if !c17check(in, &res, fmt.Sprintf("after step %d %s", i+1, op), hist) {
				break
			}
		}
		res.Sig = "seq/" + strings.Join(kinds(hist), "")
		if c.Case < 2 {
			res.Sample = map[string]interface{}{"mode": "sequential", "operations": hist}
		}
	} else {
		rounds := 6
		if c.Thorough() {
			rounds = 25
		}
		// stratum without destroy (judged strictly) / with destroy (listed defect F-CATRACE may apply)
		withDestroy := c17withDestroy(c.Case)
		destroyed := false
		var all []string
		for rd := 0; rd < rounds; rd++ {
			nw := 2 + r.Intn(5)
			var wg sync.WaitGroup
			var hmu sync.Mutex
			var hist []string
			for w := 0; w < nw; w++ {
				wg.Add(1)
				go func(w int) {
					defer wg.Done()
					g := gen.New(c.Seed, fmt.Sprintf("C17/r%d/w%d", rd, w), c.Case)
					for i := 0; i < 5; i++ {
						op := c17genOpD(g, withDestroy)
						var e string
						p := ms.Recover(func() { e = c17apply(in, op, atomic.AddInt64(&idc, 1)) })
						hmu.Lock()
						if op.kind == "destroy" {
							// whatever it returned: RemoveTimeBucket mutates the tree and the directory before it
							// fails (e.g. "failed to remove directory" when a concurrent writer has just put a file
							// there), so a failed Destroy overlaps the other catalog users just as well
							destroyed = true
						}
						s := fmt.Sprintf("g%d:%s", w, op)
						if p != "" {
							s += " -> PANIC " + trunc(p, 200)
							res.Violation(fmt.Sprintf("concurrent operation %s panics: %s", op, p), nil)
						} else if e != "" {
							s += " -> " + trunc(e, 60)
						}
						hist = append(hist, s)
						hmu.Unlock()
					}
				}(w)
			}
			wg.Wait()
			res.Count("operations", int64(len(hist)))
			res.Count("concurrent_rounds", 1)
			all = append(all, hist...)
			before := len(res.Issues)
			ok := c17check(in, &res, fmt.Sprintf("at quiescence after concurrent round %d (%d goroutines)", rd+1, nw), hist)
			if !ok && destroyed {
				// a destroy overlapped other catalog users in this case: divergence is the listed defect
				n := 0
				var ex string
				kept := res.Issues[:before]
				for _, is := range res.Issues[before:] {
					if is.Status == "violation" {
						n++
						if ex == "" {
							ex = is.Detail
						}
					} else {
						kept = append(kept, is)
					}
				}
				res.Issues = kept
				res.Known("F-CATRACE", fmt.Sprintf("%d inconsistencies after a Destroy ran concurrently with other catalog users; e.g. %s", n, ex), map[string]interface{}{"operations": hist})
			}
			if !ok {
				break
			}
		}
		reps := collectRaces(c.BatchDir)
		var strict []raceReport
		nk := 0
		for _, rp := range reps {
			if destroyed && (strings.Contains(rp.Text, "RemoveTimeBucket") || strings.Contains(rp.Text, "removeSubDir") || strings.Contains(rp.Text, "removeDirFiles")) {
				nk++
				res.Count("race_reports", 1)
				res.Set("race_signatures", rp.Sig)
				continue
			}
			strict = append(strict, rp)
		}
		if nk > 0 {
			res.Known("F-CATRACE", fmt.Sprintf("%d race reports between Directory.RemoveTimeBucket and concurrent catalog users", nk), nil)
		}
		classifyRaces(&res, strict)
		res.Count("concurrent_cases_with_destroy", b2i(withDestroy))
		res.Count("concurrent_cases_without_destroy", b2i(!withDestroy))
		res.Sig = fmt.Sprintf("conc/destroy%v/%d", withDestroy, len(all)%17)
		if c.Case < 3 {
			res.Sample = map[string]interface{}{"mode": "concurrent", "first_operations": firstStrs(all, 12)}
		}
	}
	cmu.Lock()
	for i := 0; i+1 < len(catEvents); i++ {
		res.Set("catalog_event_bigrams", catEvents[i]+">"+catEvents[i+1])
	}
	res.Count("catalog_hook_events", int64(len(catEvents)))
	cmu.Unlock()
	return res
}

func c17withDestroy(caseNo int) bool { return (caseNo/3)%2 == 1 }

func b2i(b bool) int64 {
	if b {
		return 1
	}
	return 0
}

// c17crash: the child died. In a concurrent case of the destroy stratum, a fatal "no such file or
// directory" on a year file is the listed defect (a reader holds a catalog entry of a file that a
// concurrent Destroy removed and the lazy header load is fatal); anything else is a violation.
func c17crash(c *runner.Ctx, text string) runner.Result {
	var res runner.Result
	if c.Case%3 == 2 && c17withDestroy(c.Case) && strings.Contains(text, "no such file or directory") && strings.Contains(text, ".bin") && strings.Contains(text, "fatal") {
		res.Known("F-CATRACE", "server process exits (log.Fatal) reading the header of a year file removed by a concurrent Destroy: "+firstN(text, 300), nil)
		return res
	}
	res.Violation("server process died during catalog operations: "+firstN(text, 1500), map[string]interface{}{"seed": c.Seed, "case": c.Case})
	return res
}

func trunc(s string, n int) string {
	if len(s) > n {
		return s[:n] + "..."
	}
	return s
}

func kinds(h []string) []string {
	var o []string
	for _, s := range h {
		o = append(o, s[:1])
	}
	return o
}

func firstStrs(a []string, n int) []string {
	if len(a) > n {
		return a[:n]
	}
	return a
}

func init() {
	register(&runner.Monitor{
		ID:    "C17",
		Level: "exploration",
		Rule: "case = operation sequence over 3 symbols x {1H,1D} x {fixed,variable}: create (default / alternative schema), write into 2019/2020/2021 (new year files), destroy, query, list; two thirds of the cases sequential with the oracle after every step (12 steps), one third concurrent (-race, 2-6 goroutines x 5 operations per round, 6 rounds (thorough 25), seeded delays at the catalog.* hook points) with the oracle at quiescence; non-trivial = at least one consistency check ran; distinct by the operation-kind sequence (sequential) / round count",
		Assumptions:  []string{"the directory walk that serves as ground truth considers <root>/<sym>/<tf>/<ag>/<year>.bin files only", "a restart is represented by a fresh catalog.NewDirectory on the same root"},
		Cases:        tierCases(36, 900),
		Batch:        4,
		Par:          12,
		BatchTimeout: 10 * time.Minute,
		RaceLog:      true,
		Crash:        c17crash,
		Need:         []string{"operations", "consistency_checks", "bucket_queries", "concurrent_rounds", "catalog_hook_events", "concurrent_cases_without_destroy"},
		Run:          c17run,
	})
}
