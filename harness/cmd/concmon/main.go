// concmon: stress drivers for -race builds of the real server code with the real background WAL
// writer; client-boundary histories are checked by porcupine / exactly-once / order checkers and the
// race detector's reports are collected, normalised and compared with the known list.
package main

import (
	"bufio"
	"os"
	"path/filepath"
	"regexp"
	"sort"
	"strings"

	"github.com/alpacahq/marketstore/v4/verif/internal/runner"
)

var monitors []*runner.Monitor

func register(m *runner.Monitor) { monitors = append(monitors, m) }

func main() { runner.Main(monitors...) }

// raceReport is one normalised race-detector report.
type raceReport struct {
	Sig   string // sorted pair of the top repository frames of both accesses, line numbers stripped
	Entry string // sorted pair of the outermost repository frames
	Text  string
}

var frameRe = regexp.MustCompile(`^\s+(github\.com/alpacahq/marketstore/v4/\S+)\(\)\s*$`)

func repoFrames(block []string) (top, outer string) {
	for _, l := range block {
		m := frameRe.FindStringSubmatch(l)
		if m == nil {
			continue
		}
		f := strings.TrimPrefix(m[1], "github.com/alpacahq/marketstore/v4/")
		if strings.HasPrefix(f, "verif/") {
			continue
		}
		if top == "" {
			top = f
		}
		outer = f
	}
	return
}

// collectRaces parses every race.* file of the batch directory (and truncates them so that the next
// case of the same child starts clean).
func collectRaces(batchDir string) []raceReport {
	files, _ := filepath.Glob(filepath.Join(batchDir, "race.*"))
	var out []raceReport
	for _, f := range files {
		fh, err := os.Open(f)
		if err != nil {
			continue
		}
		sc := bufio.NewScanner(fh)
		sc.Buffer(make([]byte, 1<<20), 1<<26)
		var cur []string
		in := false
		flush := func() {
			if len(cur) == 0 {
				return
			}
			// split the block into the stacks of the two accesses
			var parts [][]string
			var p []string
			for _, l := range cur {
				t := strings.TrimSpace(l)
				if strings.HasPrefix(t, "Write at") || strings.HasPrefix(t, "Read at") || strings.HasPrefix(t, "Previous write at") || strings.HasPrefix(t, "Previous read at") || strings.HasPrefix(t, "Goroutine ") {
					if p != nil {
						parts = append(parts, p)
					}
					p = []string{l}
					continue
				}
				if p != nil {
					p = append(p, l)
				}
			}
			if p != nil {
				parts = append(parts, p)
			}
			var tops, outers []string
			for i, pt := range parts {
				if i >= 2 {
					break
				}
				t, o := repoFrames(pt)
				tops = append(tops, t)
				outers = append(outers, o)
			}
			sort.Strings(tops)
			sort.Strings(outers)
			txt := strings.Join(cur, "\n")
			if len(txt) > 2500 {
				txt = txt[:2500]
			}
			out = append(out, raceReport{Sig: strings.Join(tops, " <-> "), Entry: strings.Join(outers, " <-> "), Text: txt})
			cur = nil
		}
		for sc.Scan() {
			l := sc.Text()
			if strings.Contains(l, "WARNING: DATA RACE") {
				flush()
				in = true
				cur = []string{l}
				continue
			}
			if in {
				if strings.HasPrefix(l, "==================") {
					flush()
					in = false
					continue
				}
				cur = append(cur, l)
			}
		}
		flush()
		fh.Close()
		os.Truncate(f, 0)
	}
	return out
}

// knownRaces maps a normalised report signature (substring match on both frames) to a finding id.
var knownRaces = []struct {
	a, b, finding string
}{}

func classifyRaces(res *runner.Result, reps []raceReport) {
	seen := map[string]bool{}
	for _, r := range reps {
		res.Count("race_reports", 1)
		if seen[r.Sig] {
			continue
		}
		seen[r.Sig] = true
		res.Count("race_reports_dedup_in_case", 1)
		res.Set("race_signatures", r.Sig)
		finding := ""
		for _, k := range knownRaces {
			if strings.Contains(r.Sig, k.a) && strings.Contains(r.Sig, k.b) {
				finding = k.finding
			}
		}
		if finding != "" {
			res.Known(finding, "data race "+r.Sig, nil)
		} else {
			res.Violation("data race reported by the race detector: "+r.Sig+"\n"+r.Text, map[string]interface{}{"signature": r.Sig, "entry_points": r.Entry})
		}
	}
}

func tierCases(quick, thorough int) func(string) int {
	return func(tier string) int {
		if tier == "thorough" {
			return thorough
		}
		return quick
	}
}
