package main

import (
	"context"
	"encoding/binary"
	"fmt"
	"sort"
	"sync"
	"sync/atomic"
	"time"

	"google.golang.org/grpc/peer"

	"github.com/alpacahq/marketstore/v4/executor"
	pb "github.com/alpacahq/marketstore/v4/proto"
	"github.com/alpacahq/marketstore/v4/replication"
	"github.com/alpacahq/marketstore/v4/verif/internal/ms"
	"github.com/alpacahq/marketstore/v4/verif/internal/runner"
)

// C26, real-master stratum: the transactions are not numbered dummies but the very buffers a real master
// (catalog, writer, background WAL loop) hands to the real replication.Sender after its WAL fsync, while
// the master goes on with its primary writes. The in-memory replica streams read every byte of a message
// (as gRPC marshalling does) whenever the fan-out reaches them. Oracles: no race report; every replica
// that stays connected receives, in commit order, transactions that together carry every written record
// exactly once (a message read while the master still works on its buffer would be torn).

type realStream struct {
	addr    fakeAddr
	ctx     context.Context
	delayUs int
	mu      sync.Mutex
	msgs    [][]byte
}

func (s *realStream) Send(resp *pb.GetWALStreamResponse) error {
	if s.delayUs > 0 {
		time.Sleep(time.Duration(s.delayUs) * time.Microsecond)
	}
	cp := make([]byte, len(resp.TransactionGroup))
	copy(cp, resp.TransactionGroup) // reads every byte, like proto.Marshal
	s.mu.Lock()
	s.msgs = append(s.msgs, cp)
	s.mu.Unlock()
	return nil
}
func (s *realStream) Context() context.Context { return s.ctx }

type countingSender struct {
	inner *replication.Sender
	n     int64
}

func (c *countingSender) Run(ctx context.Context) { c.inner.Run(ctx) }
func (c *countingSender) Send(tg []byte) {
	atomic.AddInt64(&c.n, 1)
	c.inner.Send(tg) // the same slice, un-copied: exactly what the WAL flush hands over
}

func c26realRun(c *runner.Ctx) runner.Result {
	var res runner.Result
	ms.Quiet()
	r := c.R("real")
	rs := replication.NewGRPCReplicationServer()
	cs := &countingSender{inner: replication.NewSender(rs)}
	ctx, cancel := context.WithCancel(context.Background())
	defer cancel()
	cs.Run(ctx)
	var in *ms.Inst
	if p := ms.Recover(func() {
		in = ms.Open(c.Scratch+"/master", ms.Opts{WALRefresh: 3 * time.Millisecond, PrimaryRefresh: 150 * time.Millisecond, RotateInterval: 3})
	}); p != "" {
		res.Inconclusive("cannot open the master: " + p)
		return res
	}
	in.WAL.ReplicationSender = cs
	nRep := 1 + r.Intn(3)
	var streams []*realStream
	for i := 0; i < nRep; i++ {
		s := &realStream{addr: fakeAddr(fmt.Sprintf("10.0.1.%d:%d", i+1, 5000+i)), delayUs: r.PickI(0, 0, 20, 100)}
		s.ctx = peer.NewContext(context.Background(), &peer.Peer{Addr: s.addr})
		streams = append(streams, s)
		go func(s *realStream) { _ = rs.GetWALStream(&pb.GetWALStreamRequest{}, &fullStream{s}) }(s)
	}
	// the writers start once every stream is registered with the server: 8-byte primer messages are sent
	// until each stream has received one (primers are skipped by the oracle)
	for tries := 0; ; tries++ {
		cs.inner.Send(make([]byte, 8))
		time.Sleep(time.Millisecond)
		all := true
		for _, s := range streams {
			s.mu.Lock()
			if len(s.msgs) == 0 {
				all = false
			}
			s.mu.Unlock()
		}
		if all {
			break
		}
		if tries > 20000 {
			res.Inconclusive("replica streams did not register within 20 s")
			return res
		}
	}
	// writers: variable-length records, each request fills fresh intervals with records in descending
	// time order (the primary writer has to sort them), one int64 column V with a unique value per record
	nW := 2 + r.Intn(2)
	perW := 12
	if c.Thorough() {
		perW = 40
	}
	base := time.Date(2021, 3, 1, 0, 0, 0, 0, time.UTC).Unix()
	written := map[int64]bool{}
	var wmu sync.Mutex
	var wg sync.WaitGroup
	var werrs int64
	for w := 0; w < nW; w++ {
		wg.Add(1)
		go func(w int) {
			defer wg.Done()
			key := fmt.Sprintf("RM%d/1Min/TICK", w)
			for q := 0; q < perW; q++ {
				n := 6 + (q*7+w)%20
				ep := make([]int64, n)
				ns := make([]int32, n)
				vs := make([]int64, n)
				for i := 0; i < n; i++ {
					ep[i] = base + int64(q)*60 + int64(59-i%50)
					ns[i] = int32((n - i) * 1000)
					vs[i] = int64(w)*1_000_000 + int64(q)*1000 + int64(i)
				}
				csr := ms.CS(ep, ms.Col{Name: "V", Data: vs})
				csr.AddColumn("Nanoseconds", ns)
				var err error
				if p := ms.Recover(func() { err = in.Write(key, csr, true) }); p != "" || err != nil {
					atomic.AddInt64(&werrs, 1)
					continue
				}
				wmu.Lock()
				for _, v := range vs {
					written[v] = true
				}
				wmu.Unlock()
			}
		}(w)
	}
	done := make(chan struct{})
	go func() { wg.Wait(); close(done) }()
	select {
	case <-done:
	case <-time.After(90 * time.Second):
		res.Issues = append(res.Issues, runner.Issue{Status: "hang", Detail: "writers of the real master blocked for 90 s with replicas connected"})
		return res
	}
	// drain: every stream has as many messages as Send calls
	deadline := time.Now().Add(20 * time.Second)
	for time.Now().Before(deadline) {
		ok := true
		want := int(atomic.LoadInt64(&cs.n))
		for _, s := range streams {
			s.mu.Lock()
			have := 0
			for _, m := range s.msgs {
				if len(m) != 8 {
					have++
				}
			}
			if have < want {
				ok = false
			}
			s.mu.Unlock()
		}
		if ok {
			break
		}
		time.Sleep(2 * time.Millisecond)
	}
	go func() { ms.Recover(func() { in.Shutdown() }) }()
	res.Count("real_master_cases", 1)
	res.Count("transactions_sent", atomic.LoadInt64(&cs.n))
	res.Count("replicas", int64(nRep))
	res.Count("records_written_by_real_master", int64(len(written)))
	if werrs > 0 {
		res.Inconclusive(fmt.Sprintf("%d writes to the master failed", werrs))
	}
	for i, s := range streams {
		s.mu.Lock()
		var msgs [][]byte
		for _, m := range s.msgs {
			if len(m) != 8 { // not a primer
				msgs = append(msgs, m)
			}
		}
		s.mu.Unlock()
		res.Count("messages_received", int64(len(msgs)))
		if int64(len(msgs)) != atomic.LoadInt64(&cs.n) {
			res.Violation(fmt.Sprintf("replica %d stayed connected but received %d of the %d transactions the master sent", i, len(msgs), cs.n), nil)
			continue
		}
		seen := map[int64]int{}
		var prevTG int64
		for k, m := range msgs {
			var tgid int64
			var problem string
			if p := ms.Recover(func() {
				id, sets := executor.ParseTGData(m, in.Root)
				tgid = id
				for _, set := range sets {
					pl := set.Buffer.Payload()
					rl := int(set.VarRecLen)
					if rl != 12 || len(pl)%rl != 0 {
						problem = fmt.Sprintf("write set with record length %d and %d payload bytes", rl, len(pl))
						return
					}
					for o := 0; o < len(pl); o += rl {
						seen[int64(binary.LittleEndian.Uint64(pl[o:]))]++
					}
				}
			}); p != "" {
				problem = "ParseTGData panicked: " + p
			}
			if problem != "" {
				res.Violation(fmt.Sprintf("replica %d: message %d does not decode: %s", i, k, problem), nil)
				break
			}
			if tgid <= prevTG {
				res.Violation(fmt.Sprintf("replica %d: transaction %d arrived after transaction %d: not in commit order", i, tgid, prevTG), nil)
				break
			}
			prevTG = tgid
		}
		var bad []string
		for v := range written {
			if seen[v] != 1 {
				bad = append(bad, fmt.Sprintf("V=%d x%d", v, seen[v]))
			}
		}
		for v, n := range seen {
			if !written[v] {
				bad = append(bad, fmt.Sprintf("V=%d x%d (never written)", v, n))
			}
		}
		if len(bad) > 0 {
			sort.Strings(bad)
			if len(bad) > 12 {
				bad = bad[:12]
			}
			res.Violation(fmt.Sprintf("replica %d received transactions whose records are not the written ones exactly once: %v", i, bad), nil)
		}
		res.Count("replica_sequences_checked", 1)
		res.Count("records_compared_on_replicas", int64(len(seen)))
	}
	res.Count("stream_closings", 0)
	classifyRaces(&res, collectRaces(c.BatchDir))
	res.Sig = fmt.Sprintf("realmaster/r%d/w%d", nRep, nW)
	return res
}
