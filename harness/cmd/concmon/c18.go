package main

import (
	"fmt"
	"sort"
	"strings"
	"sync"
	"sync/atomic"
	"time"

	"github.com/anishathalye/porcupine"

	"github.com/alpacahq/marketstore/v4/utils/io"
	"github.com/alpacahq/marketstore/v4/utils/verifhook"
	"github.com/alpacahq/marketstore/v4/verif/internal/gen"
	"github.com/alpacahq/marketstore/v4/verif/internal/ms"
	"github.com/alpacahq/marketstore/v4/verif/internal/runner"
)

// C18: concurrent writes and queries are safe and read-committed.
// 8 writers and 4 readers hammer 2 fixed + 2 variable buckets (few intervals, shared by all writers)
// while the real background WAL loop runs; built with -race. Every operation is recorded at the client
// boundary with call/return stamps from one atomic counter.
// Oracles: no race report, no panic, no query error; every returned row is whole (columns agree) and
// comes from a write invoked before the query returned; variable-length results contain every record
// acknowledged before the query was invoked, each at most once; per fixed interval the history of
// writes and reads is linearizable as a register (porcupine, partitioned per (bucket, interval)).

var clock int64

func stamp() int64 { return atomic.AddInt64(&clock, 1) }

type wop struct {
	id        int
	key       string
	variable  bool
	slots     []int64 // interval starts (unix s) per row
	vs        []int64
	call, ret int64 // ret = 0: never returned
	err       string
}

type rrow struct {
	epoch int64
	a, b  int64
}

type rop struct {
	key       string
	variable  bool
	call, ret int64
	rows      []rrow
	err       string
}

const c18base = 1577836800 // 2020-01-01T00:00:00Z

func mkCS(variable bool, slots []int64, vs []int64, nsOff []int32) *io.ColumnSeries {
	a := make([]int64, len(vs))
	b := make([]int64, len(vs))
	for i, v := range vs {
		a[i] = v
		b[i] = 3*v + 1
	}
	cs := io.NewColumnSeries()
	cs.AddColumn("Epoch", append([]int64{}, slots...))
	cs.AddColumn("A", a)
	cs.AddColumn("B", b)
	if variable {
		cs.AddColumn("Nanoseconds", nsOff)
	}
	return cs
}

type regIn struct {
	write bool
	v     int64
}

func c18run(c *runner.Ctx) runner.Result {
	var res runner.Result
	ms.Quiet()
	r := c.R("cfg")
	nWriters, nReaders := 8, 4
	perWriter := 25
	if c.Thorough() {
		perWriter = 120
	}
	walMs := r.PickI(2, 3, 5)
	primMs := r.PickI(10, 20, 40)
	hookSeed := int64(r.Intn(1<<30)) + 1
	var evn int64
	var tmu sync.Mutex
	var trace []string
	verifhook.Set(func(name string) {
		n := atomic.AddInt64(&evn, 1)
		tmu.Lock()
		if len(trace) < 20000 {
			trace = append(trace, name)
		}
		tmu.Unlock()
		g := gen.New(hookSeed, name, int(n))
		switch g.Intn(10) {
		case 0:
			time.Sleep(time.Duration(30+g.Intn(600)) * time.Microsecond)
		case 1, 2:
			time.Sleep(0)
		}
	})
	defer verifhook.Set(nil)
	in := ms.Open(c.Scratch+"/root", ms.Opts{WALRefresh: time.Duration(walMs) * time.Millisecond, PrimaryRefresh: time.Duration(primMs) * time.Millisecond, RotateInterval: 2})
	keys := []string{"FA/1H/F", "FB/1H/F", "VA/1H/V", "VB/1H/V"}
	isVar := func(k string) bool { return strings.HasSuffix(k, "/V") }
	nSlots := 5
	// create the buckets up front (single-threaded) so that bucket creation races are C17's business
	for i, k := range keys {
		v := int64(9000000000) + int64(i) // far above every id*1000+k of the writers
		if err := in.Write(k, mkCS(isVar(k), []int64{c18base + 100*3600}, []int64{v}, []int32{1}), isVar(k)); err != nil {
			res.Inconclusive("setup write failed: " + err.Error())
			return res
		}
	}
	var mu sync.Mutex
	var wops []*wop
	var rops []*rop
	var panics []string
	var freshIssues []string
	freshWrites := 0
	var wg sync.WaitGroup
	stop := int32(0)
	idc := int64(0)
	for w := 0; w < nWriters; w++ {
		wg.Add(1)
		go func(w int) {
			defer wg.Done()
			g := gen.New(c.Seed, fmt.Sprintf("C18/w%d", w), c.Case)
			for i := 0; i < perWriter; i++ {
				id := int(atomic.AddInt64(&idc, 1))
				if g.P(1, 6) {
					// first write to a brand-new bucket under a symbol that other writers create buckets under
					// at the same time, then read it back: it must be queryable as soon as the write returned
					fresh := fmt.Sprintf("NEW%d/1H/F%d", id%2, id)
					v := int64(id) * 1000
					var ferr error
					var ft *ms.Table
					p := ms.Recover(func() {
						ferr = in.Write(fresh, mkCS(false, []int64{c18base + 3600}, []int64{v}, nil), false)
						if ferr == nil {
							ft, ferr = in.QueryAll(fresh)
						}
					})
					mu.Lock()
					freshWrites++
					switch {
					case p != "":
						panics = append(panics, fmt.Sprintf("writer %d creating %s: %s", w, fresh, p))
					case ferr != nil:
						freshIssues = append(freshIssues, fmt.Sprintf("bucket %s, created by an acknowledged first write while other buckets of the symbol were being created, cannot be written/queried: %v", fresh, ferr))
					default:
						a, _ := ft.Cols["A"].([]int64)
						if len(a) != 1 || a[0] != v {
							freshIssues = append(freshIssues, fmt.Sprintf("bucket %s returns %v right after its acknowledged first write of %d", fresh, a, v))
						}
					}
					mu.Unlock()
					continue
				}
				key := keys[g.Intn(len(keys))]
				op := &wop{id: id, key: key, variable: isVar(key)}
				nr := 1 + g.Intn(2)
				var ns []int32
				for k := 0; k < nr; k++ {
					op.slots = append(op.slots, c18base+int64(g.Intn(nSlots))*3600)
					op.vs = append(op.vs, int64(id)*1000+int64(k))
					ns = append(ns, int32(id*10+k))
				}
				if !op.variable && nr == 2 && op.slots[0] == op.slots[1] {
					op.slots[1] += 3600 * int64(nSlots) // distinct slots inside one fixed request
				}
				cs := mkCS(op.variable, op.slots, op.vs, ns)
				mu.Lock()
				wops = append(wops, op)
				mu.Unlock()
				op.call = stamp()
				var err error
				p := ms.Recover(func() { err = in.Write(key, cs, op.variable) })
				ret := stamp()
				mu.Lock()
				if p != "" {
					op.err = "panic: " + p
					panics = append(panics, fmt.Sprintf("writer %d write %d: %s", w, id, p))
				} else if err != nil {
					op.err = err.Error()
				} else {
					op.ret = ret
				}
				mu.Unlock()
				if g.P(1, 4) {
					time.Sleep(time.Duration(g.Intn(800)) * time.Microsecond)
				}
			}
		}(w)
	}
	var rwg sync.WaitGroup
	for rd := 0; rd < nReaders; rd++ {
		rwg.Add(1)
		go func(rd int) {
			defer rwg.Done()
			g := gen.New(c.Seed, fmt.Sprintf("C18/r%d", rd), c.Case)
			for atomic.LoadInt32(&stop) == 0 {
				key := keys[g.Intn(len(keys))]
				op := &rop{key: key, variable: isVar(key)}
				op.call = stamp()
				var t *ms.Table
				var err error
				p := ms.Recover(func() { t, err = in.QueryAll(key) })
				op.ret = stamp()
				switch {
				case p != "":
					op.err = "panic: " + p
				case err != nil:
					op.err = err.Error()
				default:
					a, _ := t.Cols["A"].([]int64)
					b, _ := t.Cols["B"].([]int64)
					for i := 0; i < t.N; i++ {
						op.rows = append(op.rows, rrow{t.Epoch[i], a[i], b[i]})
					}
				}
				mu.Lock()
				rops = append(rops, op)
				if p != "" {
					panics = append(panics, fmt.Sprintf("reader %d: %s", rd, p))
				}
				mu.Unlock()
				time.Sleep(time.Duration(g.Intn(300)) * time.Microsecond)
			}
		}(rd)
	}
	done := make(chan struct{})
	go func() { wg.Wait(); close(done) }()
	select {
	case <-done:
	case <-time.After(8 * time.Minute):
		res.Inconclusive("writers did not finish within the watchdog")
		atomic.StoreInt32(&stop, 1)
		return res
	}
	atomic.StoreInt32(&stop, 1)
	rwg.Wait()
	in.Shutdown()
	// one final quiescent read per bucket (joins the histories as a last read)
	for _, key := range keys {
		op := &rop{key: key, variable: isVar(key)}
		op.call = stamp()
		t, err := in.QueryAll(key)
		op.ret = stamp()
		if err != nil {
			op.err = err.Error()
		} else {
			a, _ := t.Cols["A"].([]int64)
			b, _ := t.Cols["B"].([]int64)
			for i := 0; i < t.N; i++ {
				op.rows = append(op.rows, rrow{t.Epoch[i], a[i], b[i]})
			}
		}
		rops = append(rops, op)
	}
	// ---------------------------------------------------------------- judge
	res.Count("writes", int64(len(wops)))
	res.Count("reads", int64(len(rops)))
	for _, p := range panics {
		res.Violation("panic under concurrency: "+p, nil)
	}
	for _, f := range freshIssues {
		res.Violation(f, nil)
	}
	res.Count("concurrent_bucket_creations", int64(freshWrites))
	byV := map[int64]*wop{}
	for _, w := range wops {
		for _, v := range w.vs {
			byV[v] = w
		}
		if w.err != "" && !strings.HasPrefix(w.err, "panic") {
			res.Violation(fmt.Sprintf("write %d to %s failed: %s", w.id, w.key, w.err), nil)
		}
	}
	overlaps := 0
	contErrs := 0
	for _, rd := range rops {
		// how many writes overlapped this read
		for _, w := range wops {
			if w.key == rd.key && w.call < rd.ret && (w.ret == 0 || w.ret > rd.call) {
				overlaps++
			}
		}
		if rd.err != "" {
			if strings.HasPrefix(rd.err, "panic") {
				continue
			}
			openWrite := false
			for _, w := range wops {
				if w.key == rd.key && w.call < rd.ret && (w.ret == 0 || w.ret > rd.call) {
					openWrite = true
				}
			}
			if rd.variable && openWrite && (strings.Contains(rd.err, "snappy") || strings.Contains(rd.err, "corrupt")) {
				contErrs++
				continue
			}
			res.Violation(fmt.Sprintf("query of %s failed: %s", rd.key, rd.err), nil)
			continue
		}
		seen := map[int64]int{}
		for _, row := range rd.rows {
			if row.b != 3*row.a+1 {
				res.Violation(fmt.Sprintf("torn row returned from %s at %d: A=%d B=%d (columns of one write always satisfy B=3A+1)", rd.key, row.epoch, row.a, row.b), nil)
				continue
			}
			w := byV[row.a]
			if w == nil {
				if row.a >= 9000000000 && row.a < 9000000010 {
					continue // setup rows
				}
				res.Violation(fmt.Sprintf("row A=%d returned from %s was never written", row.a, rd.key), nil)
				continue
			}
			if w.call > rd.ret {
				res.Violation(fmt.Sprintf("row A=%d returned from %s by a query that returned (stamp %d) before the write was invoked (stamp %d)", row.a, rd.key, rd.ret, w.call), nil)
			}
			if w.key != rd.key {
				res.Violation(fmt.Sprintf("row A=%d written to %s returned from %s", row.a, w.key, rd.key), nil)
			}
			seen[row.a]++
		}
		res.Count("rows_checked", int64(len(rd.rows)))
		if rd.variable {
			for v, n := range seen {
				if n > 1 {
					res.Violation(fmt.Sprintf("record A=%d returned %d times by one query of %s", v, n, rd.key), nil)
				}
			}
			for _, w := range wops {
				if w.key == rd.key && w.ret != 0 && w.ret < rd.call {
					for _, v := range w.vs {
						if seen[v] == 0 {
							res.Violation(fmt.Sprintf("query of %s invoked (stamp %d) after write %d was acknowledged (stamp %d) does not return its record A=%d", rd.key, rd.call, w.id, w.ret, v), nil)
						}
					}
				}
			}
		}
	}
	res.Count("read_write_overlaps", int64(overlaps))
	if contErrs > 0 {
		res.Known("F-CONT", fmt.Sprintf("%d queries of a variable-length bucket failed with a Snappy decode error while a write to the same bucket was in progress (reader sees new data under the old index)", contErrs), nil)
	}
	// fixed slots as registers
	type part struct {
		key  string
		slot int64
	}
	parts := map[part][]porcupine.Operation{}
	for _, w := range wops {
		if w.variable || w.err != "" {
			continue
		}
		for i, s := range w.slots {
			ret := w.ret
			if ret == 0 {
				ret = 1 << 60 // never returned: stays open to the end of the history
			}
			p := part{w.key, s}
			parts[p] = append(parts[p], porcupine.Operation{ClientId: w.id % 64, Input: regIn{true, w.vs[i]}, Call: w.call, Output: int64(0), Return: ret})
		}
	}
	cid := 1000
	for _, rd := range rops {
		if rd.variable || rd.err != "" {
			continue
		}
		got := map[int64]int64{}
		for _, row := range rd.rows {
			got[row.epoch] = row.a
		}
		for p := range parts {
			if p.key != rd.key {
				continue
			}
			v, ok := got[p.slot]
			if !ok {
				v = -1
			}
			cid++
			parts[p] = append(parts[p], porcupine.Operation{ClientId: cid, Input: regIn{false, 0}, Call: rd.call, Output: v, Return: rd.ret})
		}
	}
	model := porcupine.Model{
		Init: func() interface{} { return int64(-1) },
		Step: func(st, in, out interface{}) (bool, interface{}) {
			i := in.(regIn)
			if i.write {
				return true, i.v
			}
			return out.(int64) == st.(int64), st
		},
	}
	var pks []part
	for p := range parts {
		pks = append(pks, p)
	}
	sort.Slice(pks, func(i, j int) bool {
		if pks[i].key != pks[j].key {
			return pks[i].key < pks[j].key
		}
		return pks[i].slot < pks[j].slot
	})
	for _, p := range pks {
		ops := parts[p]
		// porcupine's search is exponential in concurrency: cap the history per partition
		if len(ops) > 400 {
			sort.Slice(ops, func(i, j int) bool { return ops[i].Call < ops[j].Call })
			ops = ops[:400]
			// a truncated history is only checkable if no kept read can depend on a dropped write: drop
			// reads that return after the first dropped operation was invoked
			res.Count("porcupine_partitions_truncated", 1)
			continue
		}
		// ClientIds must be unique per concurrent op for porcupine's visualisation only; fine
		r, _ := porcupine.CheckOperationsVerbose(model, ops, 60*time.Second)
		switch r {
		case porcupine.Ok:
			res.Count("porcupine_partitions_ok", 1)
		case porcupine.Unknown:
			res.Count("porcupine_partitions_timeout", 1)
			res.Inconclusive(fmt.Sprintf("porcupine timed out on %s interval %d (%d operations)", p.key, p.slot, len(ops)))
		default:
			res.Violation(fmt.Sprintf("history of fixed interval %s @%d (%d writes and reads) is not linearizable as a last-writer-wins register: some query returned a value that no order of the overlapping writes explains", p.key, p.slot, len(ops)), histSample(ops))
		}
		res.Count("porcupine_operations", int64(len(ops)))
	}
	classifyRaces(&res, collectRaces(c.BatchDir))
	tmu.Lock()
	for i := 0; i+2 < len(trace); i++ {
		res.Set("hook_event_trigrams", trace[i]+">"+trace[i+1]+">"+trace[i+2])
	}
	res.Count("hook_events", int64(len(trace)))
	tmu.Unlock()
	res.Sig = fmt.Sprintf("wal%d/prim%d/overlap%d", walMs, primMs, bucket(overlaps))
	if c.Case < 2 {
		res.Sample = map[string]interface{}{"writers": nWriters, "readers": nReaders, "writes": len(wops), "reads": len(rops), "read_write_overlaps": overlaps, "wal_ms": walMs, "prim_ms": primMs}
	}
	return res
}

func bucket(n int) int {
	b := 0
	for n > 0 {
		n >>= 2
		b++
	}
	return b
}

func histSample(ops []porcupine.Operation) interface{} {
	var out []string
	sort.Slice(ops, func(i, j int) bool { return ops[i].Call < ops[j].Call })
	for i, o := range ops {
		if i >= 60 {
			break
		}
		in := o.Input.(regIn)
		if in.write {
			out = append(out, fmt.Sprintf("[%d,%d] write %d", o.Call, o.Return, in.v))
		} else {
			out = append(out, fmt.Sprintf("[%d,%d] read -> %d", o.Call, o.Return, o.Output.(int64)))
		}
	}
	return out
}

func init() {
	register(&runner.Monitor{
		ID:    "C18",
		Level: "exploration",
		Rule: "case = one -race run of the real server code: background WAL loop (WAL timer 2-5 ms, checkpoint timer 10-40 ms, rotation every 2), 8 writers x 25 (thorough 120) requests on 2 fixed + 2 variable buckets with 5 shared intervals each, 4 readers issuing unrestricted queries continuously, seeded delays at the hook points; every operation recorded at the client boundary with call/return stamps from one atomic counter; non-trivial = reads overlapped writes; distinct by (timers, overlap magnitude)",
		Assumptions:  []string{"race detector reports depend on the schedules that occurred; repeated runs (cases) widen the set", "porcupine partitions above 400 operations are skipped and counted"},
		Cases:        tierCases(4, 24),
		Batch:        1,
		Par:          4,
		BatchTimeout: 15 * time.Minute,
		RaceLog:      true,
		Need:         []string{"writes", "reads", "read_write_overlaps", "rows_checked", "porcupine_partitions_ok"},
		Run:          c18run,
	})
}
