package main

import (
	"encoding/binary"
	"fmt"
	"sort"
	"strings"
	"sync"
	"sync/atomic"
	"time"

	"github.com/alpacahq/marketstore/v4/plugins/trigger"
	"github.com/alpacahq/marketstore/v4/utils/verifhook"
	"github.com/alpacahq/marketstore/v4/verif/internal/gen"
	"github.com/alpacahq/marketstore/v4/verif/internal/ms"
	"github.com/alpacahq/marketstore/v4/verif/internal/runner"
)

// C32: every flushed write reaches matching triggers exactly once.
// Recording triggers with several patterns are injected the way plugins are; 1-8 concurrent writers
// write unique payloads into several buckets while the real background WAL loop runs; after the
// graceful shutdown (which drains the dispatcher) the deliveries are compared with the expectation
// computed independently: a pattern is a '/'-separated prefix of the record's file path in which '*'
// stands for exactly one path component.

type delivery struct {
	trig    string
	keyPath string
	index   int64
	vs      []int64
	torn    bool
}

type recTrigger struct {
	name string
	mu   *sync.Mutex
	out  *[]delivery
	recl int
}

type faultyTrigger struct{ fires, panics *int64 }

func (t *faultyTrigger) Fire(keyPath string, records []trigger.Record) {
	if n := atomic.AddInt64(t.fires, 1); n%3 != 0 {
		atomic.AddInt64(t.panics, 1)
		panic(fmt.Sprintf("faulty trigger plugin: cannot handle %d records of %s", len(records), keyPath))
	}
}

func (t *recTrigger) Fire(keyPath string, records []trigger.Record) {
	t.mu.Lock()
	defer t.mu.Unlock()
	for _, r := range records {
		d := delivery{trig: t.name, keyPath: keyPath, index: r.Index()}
		p := r.Payload()
		rl := 16
		if strings.Contains(keyPath, "/V/") {
			rl = 20
		}
		for o := 0; o+rl <= len(p); o += rl {
			a := int64(binary.LittleEndian.Uint64(p[o:]))
			b := int64(binary.LittleEndian.Uint64(p[o+8:]))
			if b != 3*a+1 {
				d.torn = true
			}
			d.vs = append(d.vs, a)
		}
		if len(p)%rl != 0 {
			d.torn = true
		}
		*t.out = append(*t.out, d)
	}
}

// globMatch: the documented meaning of a trigger pattern, written independently of the matcher.
func globMatch(pattern, keyPath string) bool {
	pp := strings.Split(pattern, "/")
	kp := strings.Split(keyPath, "/")
	if len(pp) > len(kp) {
		return false
	}
	for i, p := range pp {
		if p != "*" && p != kp[i] {
			return false
		}
	}
	return true
}

func c32run(c *runner.Ctx) runner.Result {
	var res runner.Result
	ms.Quiet()
	r := c.R("cfg")
	patterns := []string{"*/1H/F", "AAA/*/*", "*/*/*", "AAA/1H/F", "ZZZ/1H/F", "AA/*/*", "*/15Min/F", "AAA/1H/V"}
	// every case uses 3-5 of them
	np := 3 + r.Intn(3)
	perm := r.Perm(len(patterns))
	var mu sync.Mutex
	var got []delivery
	var matchers []*trigger.Matcher
	var used []string
	// every second case: a faulty plugin, configured first and matching every bucket, panics in two of
	// three Fire calls; what the other triggers are owed does not change (its own deliveries are not judged)
	var faultyFires, faultyPanics int64
	if c.Case%2 == 1 {
		matchers = append(matchers, trigger.NewMatcher(&faultyTrigger{fires: &faultyFires, panics: &faultyPanics}, "*/*/*"))
	}
	for i := 0; i < np; i++ {
		p := patterns[perm[i]]
		used = append(used, p)
		matchers = append(matchers, trigger.NewMatcher(&recTrigger{name: p, mu: &mu, out: &got}, p))
	}
	sort.Strings(used)
	hookSeed := int64(r.Intn(1<<30)) + 1
	var evn, dispatches int64
	verifhook.Set(func(name string) {
		n := atomic.AddInt64(&evn, 1)
		if name == "tpd.dispatch" {
			atomic.AddInt64(&dispatches, 1)
		}
		g := gen.New(hookSeed, name, int(n))
		if g.Intn(12) == 0 {
			time.Sleep(time.Duration(20+g.Intn(400)) * time.Microsecond)
		}
	})
	defer verifhook.Set(nil)
	in := ms.Open(c.Scratch+"/root", ms.Opts{Triggers: matchers, WALRefresh: time.Duration(r.PickI(2, 4, 8)) * time.Millisecond, PrimaryRefresh: 25 * time.Millisecond, RotateInterval: 2})
	buckets := []string{"AAA/1H/F", "XAAA/1H/F", "AAA/1H/V", "BBB/15Min/F", "AA/1H/F"}
	nWriters := 1 + r.Intn(8)
	per := 400 / nWriters / 4
	if c.Thorough() {
		per = 2000 / nWriters / 4
	}
	type exp struct {
		key   string
		index int64
		v     int64
	}
	var emu sync.Mutex
	var expected []exp
	var werrs []string
	var wg sync.WaitGroup
	var idc int64
	for w := 0; w < nWriters; w++ {
		wg.Add(1)
		go func(w int) {
			defer wg.Done()
			g := gen.New(c.Seed, fmt.Sprintf("C32/w%d", w), c.Case)
			for i := 0; i < per; i++ {
				id := int(atomic.AddInt64(&idc, 1))
				key := buckets[g.Intn(len(buckets))]
				variable := strings.HasSuffix(key, "/V")
				tfSec := int64(3600)
				if strings.Contains(key, "/15Min/") {
					tfSec = 900
				}
				nr := 1 + g.Intn(3)
				var slots, vs []int64
				var ns []int32
				usedSlot := map[int64]bool{}
				var mine []exp
				for k := 0; k < nr; k++ {
					slot := int64(g.Intn(200))
					if !variable && usedSlot[slot] {
						continue // one row per interval in a fixed request (merged rows are not "written records")
					}
					usedSlot[slot] = true
					v := int64(id)*1000 + int64(k)
					slots = append(slots, c18base+slot*tfSec)
					vs = append(vs, v)
					ns = append(ns, int32(id*10+k))
					mine = append(mine, exp{key, 1 + slot, v})
				}
				cs := mkCS(variable, slots, vs, ns)
				var err error
				p := ms.Recover(func() { err = in.Write(key, cs, variable) })
				emu.Lock()
				if p != "" || err != nil {
					werrs = append(werrs, fmt.Sprintf("write %d to %s: %v %s", id, key, err, p))
				} else {
					expected = append(expected, mine...)
				}
				emu.Unlock()
			}
		}(w)
	}
	wg.Wait()
	in.Shutdown() // flushes, checkpoints and waits for the trigger dispatcher to drain
	for _, e := range werrs {
		res.Violation("write failed: "+e, nil)
	}
	mu.Lock()
	defer mu.Unlock()
	// judge
	type tk struct {
		trig string
		v    int64
	}
	seen := map[tk]int{}
	idxOf := map[tk]int64{}
	pathOf := map[tk]string{}
	for _, d := range got {
		if d.torn {
			res.Violation(fmt.Sprintf("trigger %q received a malformed payload for %s index %d", d.trig, d.keyPath, d.index), nil)
		}
		for _, v := range d.vs {
			k := tk{d.trig, v}
			seen[k]++
			idxOf[k] = d.index
			pathOf[k] = d.keyPath
		}
	}
	res.Count("deliveries", int64(len(got)))
	res.Count("records_written", int64(len(expected)))
	res.Count("dispatch_events", atomic.LoadInt64(&dispatches))
	res.Count("faulty_trigger_fires", atomic.LoadInt64(&faultyFires))
	res.Count("faulty_trigger_panics", atomic.LoadInt64(&faultyPanics))
	known := 0
	knownEx := ""
	for _, e := range expected {
		path := e.key + "/2020.bin"
		for _, p := range used {
			k := tk{p, e.v}
			want := 0
			if globMatch(p, path) {
				want = 1
			}
			n := seen[k]
			res.Count("expectations_checked", 1)
			res.Set("trigger_bucket_pairs", p+" x "+e.key)
			switch {
			case n == want:
				if n == 1 && (idxOf[k] != e.index || pathOf[k] != path) {
					res.Violation(fmt.Sprintf("trigger %q received record %d with index %d path %s, written with index %d into %s", p, e.v, idxOf[k], pathOf[k], e.index, path), nil)
				}
			case want == 0 && n == 1 && unanchoredMatch(p, path):
				known++
				if knownEx == "" {
					knownEx = fmt.Sprintf("trigger registered on %q was fired for a record written to %s", p, path)
				}
			default:
				res.Violation(fmt.Sprintf("trigger %q received record %d (bucket %s) %d times, expected %d", p, e.v, e.key, n, want), map[string]interface{}{"patterns": used, "writers": nWriters})
			}
			delete(seen, k)
		}
	}
	for k, n := range seen {
		res.Violation(fmt.Sprintf("trigger %q received a record (payload %d, %d times) that no acknowledged request wrote", k.trig, k.v, n), nil)
	}
	if known > 0 {
		res.Known("F-TRIGANCHOR", fmt.Sprintf("%d deliveries to triggers whose pattern does not match the bucket; e.g. %s", known, knownEx), nil)
	}
	classifyRaces(&res, collectRaces(c.BatchDir))
	res.Sig = fmt.Sprintf("w%d/%s", nWriters, strings.Join(used, ","))
	if c.Case < 2 {
		res.Sample = map[string]interface{}{"patterns": used, "buckets": buckets, "writers": nWriters, "records_written": len(expected), "deliveries": len(got)}
	}
	return res
}

// unanchoredMatch: what an unanchored regular expression built from the pattern accepts (the as-is
// behaviour of the listed defect): the pattern's components match consecutive components of the path
// somewhere, the first as a suffix and the last as a prefix of their components.
func unanchoredMatch(pattern, keyPath string) bool {
	pp := strings.Split(pattern, "/")
	kp := strings.Split(keyPath, "/")
	for s := 0; s+len(pp) <= len(kp); s++ {
		ok := true
		for i, p := range pp {
			c := kp[s+i]
			switch {
			case p == "*":
			case i == 0 && i == len(pp)-1:
				ok = ok && strings.Contains(c, p)
			case i == 0:
				ok = ok && strings.HasSuffix(c, p)
			case i == len(pp)-1:
				ok = ok && strings.HasPrefix(c, p)
			default:
				ok = ok && c == p
			}
		}
		if ok {
			return true
		}
	}
	return false
}

func init() {
	register(&runner.Monitor{
		ID:    "C32",
		Level: "exploration",
		Rule: "case = one -race run: 3-5 recording triggers with patterns drawn from {*/1H/F, AAA/*/*, */*/*, AAA/1H/F, ZZZ/1H/F, AA/*/*, */15Min/F, AAA/1H/V} injected as plugins are, 1-8 concurrent writers sending ~400 (thorough ~2000) requests with unique payloads into 5 buckets (incl. XAAA and AA next to AAA, fixed and variable) with the real background WAL loop and seeded delays at tpd.dispatch; after graceful shutdown the multiset of deliveries is compared with the independently computed expectation; distinct by (writers, pattern set)",
		Assumptions:  []string{"a fixed-length request is generated with one row per interval (rows merged by the writer are not separate written records)"},
		Cases:        tierCases(6, 40),
		Batch:        1,
		Par:          4,
		BatchTimeout: 15 * time.Minute,
		RaceLog:      true,
		Need:         []string{"deliveries", "records_written", "expectations_checked", "dispatch_events"},
		Run:          c32run,
	})
}
