package main

import (
	"context"
	"encoding/binary"
	"errors"
	"fmt"
	"net"
	"sync"
	"sync/atomic"
	"time"

	"google.golang.org/grpc/metadata"
	"google.golang.org/grpc/peer"

	pb "github.com/alpacahq/marketstore/v4/proto"
	"github.com/alpacahq/marketstore/v4/replication"
	"github.com/alpacahq/marketstore/v4/utils/verifhook"
	"github.com/alpacahq/marketstore/v4/verif/internal/gen"
	"github.com/alpacahq/marketstore/v4/verif/internal/ms"
	"github.com/alpacahq/marketstore/v4/verif/internal/runner"
)

// C26: replication survives replicas connecting and disconnecting.
// The real GRPCReplicationServer and the real Sender are driven with in-memory streams (each with its
// own peer address): 1-6 replicas open and close at seeded points while a producer sends numbered
// transactions through Sender.Send (exactly what the WAL flush does).
// Oracles: no panic / fatal error of the master side (process-fatal: the runner attributes the death to
// the case), no race report, the producer finishes (bounded progress: a watchdog firing twice, the second
// time alone, is a violation), every replica's received sequence is gap-free, duplicate-free and in
// order from its first message up to the last transaction sent before its disconnect was requested.

type fakeAddr string

func (a fakeAddr) Network() string { return "tcp" }
func (a fakeAddr) String() string  { return string(a) }

type fakeStream struct {
	addr     fakeAddr
	mu       sync.Mutex
	got      []int64
	failNow  int32 // next Send returns an error (client went away)
	delayUs  int
	ctx      context.Context
	firstAt  int64
	sendErrs int
	stallOn  int32         // the next Send blocks until stall is closed, then fails (a client that has gone away while a message was on its way)
	stall    chan struct{}
	entered  chan struct{}
}

func (s *fakeStream) Send(resp *pb.GetWALStreamResponse) error {
	if atomic.LoadInt32(&s.stallOn) == 1 {
		select {
		case s.entered <- struct{}{}:
		default:
		}
		<-s.stall
		s.mu.Lock()
		s.sendErrs++
		s.mu.Unlock()
		return errors.New("transport is closing")
	}
	if atomic.LoadInt32(&s.failNow) == 1 {
		s.mu.Lock()
		s.sendErrs++
		s.mu.Unlock()
		time.Sleep(500 * time.Microsecond) // a transport error does not surface at once
		return errors.New("transport is closing")
	}
	if s.delayUs > 0 {
		time.Sleep(time.Duration(s.delayUs) * time.Microsecond)
	}
	k := int64(binary.LittleEndian.Uint64(resp.TransactionGroup))
	s.mu.Lock()
	s.got = append(s.got, k)
	s.mu.Unlock()
	return nil
}
func (s *fakeStream) Context() context.Context        { return s.ctx }
func (s *fakeStream) SetHeader(metadata.MD) error     { return nil }
func (s *fakeStream) SendHeader(metadata.MD) error    { return nil }
func (s *fakeStream) SetTrailer(metadata.MD)          {}
func (s *fakeStream) SendMsg(m interface{}) error     { return errors.New("not used") }
func (s *fakeStream) RecvMsg(m interface{}) error     { return errors.New("not used") }

var _ net.Addr = fakeAddr("")

// fullStream gives realStream the remaining methods of grpc.ServerStream.
type fullStream struct{ *realStream }

func (s *fullStream) SetHeader(metadata.MD) error  { return nil }
func (s *fullStream) SendHeader(metadata.MD) error { return nil }
func (s *fullStream) SetTrailer(metadata.MD)       {}
func (s *fullStream) SendMsg(m interface{}) error  { return errors.New("not used") }
func (s *fullStream) RecvMsg(m interface{}) error  { return errors.New("not used") }

func c26run(c *runner.Ctx) runner.Result {
	if c.Case%6 == 5 {
		return c26realRun(c)
	}
	var res runner.Result
	ms.Quiet()
	r := c.R("cfg")
	hookSeed := int64(r.Intn(1<<30)) + 1
	var evn, closings, fanouts int64
	verifhook.Set(func(name string) {
		n := atomic.AddInt64(&evn, 1)
		switch name {
		case "repl.stream.closing":
			atomic.AddInt64(&closings, 1)
		case "repl.fanout.send":
			atomic.AddInt64(&fanouts, 1)
		}
		g := gen.New(hookSeed, name, int(n))
		if g.Intn(6) == 0 {
			time.Sleep(time.Duration(20+g.Intn(300)) * time.Microsecond)
		}
	})
	defer verifhook.Set(nil)
	rs := replication.NewGRPCReplicationServer()
	sender := replication.NewSender(rs)
	ctx, cancel := context.WithCancel(context.Background())
	defer cancel()
	sender.Run(ctx)
	nTG := 50
	if c.Thorough() {
		nTG = 200
	}
	nRep := 1 + r.Intn(6)
	type repl struct {
		s        *fakeStream
		openAt   int // producer index before which the replica is started
		closeAt  int // producer index at which its disconnect is requested (-1: never)
		closedAt int64
		done     chan struct{}
	}
	var reps []*repl
	for i := 0; i < nRep; i++ {
		rp := &repl{openAt: r.Intn(nTG / 2), closeAt: -1, done: make(chan struct{})}
		if r.P(2, 3) {
			rp.closeAt = rp.openAt + 1 + r.Intn(nTG-rp.openAt-1)
		}
		rp.s = &fakeStream{addr: fakeAddr(fmt.Sprintf("10.0.0.%d:%d", i+1, 4000+i)), delayUs: r.PickI(0, 0, 50, 300)}
		rp.s.ctx = peer.NewContext(context.Background(), &peer.Peer{Addr: rp.s.addr})
		reps = append(reps, rp)
	}
	// a replica that reconnects from the same address after closing (same map key)
	reconnect := r.P(1, 2)
	lateNotice := reconnect && r.Bool()
	var sent, stalledReleases int64
	var nsMu sync.Mutex
	var reconnected []*fakeStream // streams re-opened from the address of a replica whose disconnect was requested
	prodDone := make(chan struct{})
	var lastBeforeClose sync.Map // *repl -> last k sent before its close was requested
	go func() {
		defer close(prodDone)
		type pending struct {
			rp *repl
			ns *fakeStream
		}
		var pend []pending
		release := func(all bool) {
			keep := pend[:0]
			for _, p := range pend {
				p.ns.mu.Lock()
				n := len(p.ns.got)
				p.ns.mu.Unlock()
				if n > 0 || all {
					atomic.StoreInt32(&p.rp.s.failNow, 1)
					close(p.rp.s.stall) // the blocked Send of the old stream now fails; its teardown follows
					atomic.AddInt64(&stalledReleases, 1)
				} else {
					keep = append(keep, p)
				}
			}
			pend = keep
		}
		defer release(true)
		for k := 1; k <= nTG; k++ {
			release(false)
			sentEarly := false
			for _, rp := range reps {
				if rp.openAt == k-1 {
					go func(rp *repl) {
						_ = rs.GetWALStream(&pb.GetWALStreamRequest{}, rp.s)
						close(rp.done)
					}(rp)
					time.Sleep(300 * time.Microsecond)
				}
				if rp.closeAt == k {
					lastBeforeClose.Store(rp, int64(k-1))
					rp.s.mu.Lock()
					oldSeen := len(rp.s.got) > 0
					rp.s.mu.Unlock()
					// (a client can only come back from the same address after its old connection is gone, and
					// the old stream's handler has been registered since that connection was accepted: re-open
					// only when the old stream is known to be registered, i.e. has received something)
					if reconnect && oldSeen && lateNotice && k > 1 && !sentEarly {
						// Deterministic schedule: the client goes away while transaction k is on its way to it.
						// The old stream's Send of k blocks; the client comes back from the same address and is
						// seen to receive; only then does the old Send fail and the old stream tear down.
						rp.s.stall, rp.s.entered = make(chan struct{}), make(chan struct{}, 1)
						atomic.StoreInt32(&rp.s.stallOn, 1)
						b := make([]byte, 8)
						binary.LittleEndian.PutUint64(b, uint64(k))
						sender.Send(b)
						atomic.StoreInt64(&sent, int64(k))
						sentEarly = true
						select {
						case <-rp.s.entered:
							ns := &fakeStream{addr: rp.s.addr, ctx: rp.s.ctx}
							nsMu.Lock()
							reconnected = append(reconnected, ns)
							nsMu.Unlock()
							go func() { _ = rs.GetWALStream(&pb.GetWALStreamRequest{}, ns) }()
							pend = append(pend, pending{rp, ns})
						case <-time.After(5 * time.Second):
							// transaction k never reached the old stream: plain disconnect
							atomic.StoreInt32(&rp.s.failNow, 1)
							atomic.StoreInt32(&rp.s.stallOn, 0)
							close(rp.s.stall)
						}
						continue
					}
					atomic.StoreInt32(&rp.s.failNow, 1)
					if reconnect && oldSeen {
						// new stream object, same peer address
						ns := &fakeStream{addr: rp.s.addr, ctx: rp.s.ctx}
						nsMu.Lock()
						reconnected = append(reconnected, ns)
						nsMu.Unlock()
						go func() { _ = rs.GetWALStream(&pb.GetWALStreamRequest{}, ns) }()
					}
				}
			}
			if !sentEarly {
				b := make([]byte, 8)
				binary.LittleEndian.PutUint64(b, uint64(k))
				sender.Send(b)
				atomic.StoreInt64(&sent, int64(k))
			}
			if r.P(1, 3) {
				time.Sleep(time.Duration(r.Intn(200)) * time.Microsecond)
			}
		}
	}()
	select {
	case <-prodDone:
	case <-time.After(90 * time.Second):
		// bounded progress failed: let the runner's watchdog logic decide (hang)
		res.Issues = append(res.Issues, runner.Issue{Status: "hang", Detail: fmt.Sprintf("producer blocked: %d of %d transactions sent after 90 s (replicas: %d)", atomic.LoadInt64(&sent), nTG, nRep)})
		return res
	}
	// let the fan-out drain: wait until every connected replica has seen the last transaction (or 20 s)
	drain := func() {
		deadline := time.Now().Add(20 * time.Second)
		for time.Now().Before(deadline) {
			all := true
			for _, rp := range reps {
				if rp.closeAt >= 0 {
					continue
				}
				rp.s.mu.Lock()
				n := len(rp.s.got)
				last := int64(0)
				if n > 0 {
					last = rp.s.got[n-1]
				}
				rp.s.mu.Unlock()
				if n > 0 && last != int64(nTG) {
					all = false
				}
			}
			if all {
				break
			}
			time.Sleep(2 * time.Millisecond)
		}
	}
	drain()
	// Streams re-opened from the same address stay connected to the end. Once the old streams have been
	// torn down, further transactions (numbered on from nTG+1) are committed until every re-opened stream
	// has received one: a stream whose registration was removed by the old stream's teardown never does.
	// Bounded progress, decided on transactions sent (2000), not on time.
	for _, rp := range reps {
		if rp.closeAt >= 0 && rp.closeAt < nTG { // the old stream notices its disconnect at the next message it is sent
			select {
			case <-rp.done:
			case <-time.After(5 * time.Second):
			}
		}
	}
	nsMu.Lock()
	recs := append([]*fakeStream{}, reconnected...)
	nsMu.Unlock()
	// every stream that is still connected: the replicas that never disconnect and the re-opened streams
	type live struct {
		s    *fakeStream
		what string
		base int // messages already received when the old stream of the address had been torn down
	}
	var lives []live
	for i, rp := range reps {
		if rp.closeAt < 0 {
			lives = append(lives, live{rp.s, fmt.Sprintf("replica %d (%s), which never disconnects,", i, rp.s.addr), 0})
		}
	}
	for i, ns := range recs {
		ns.mu.Lock()
		n0 := len(ns.got)
		ns.mu.Unlock()
		lives = append(lives, live{ns, fmt.Sprintf("re-opened stream %d from %s", i, ns.addr), n0})
	}
	if len(lives) > 0 {
		sends := 0
		for sends < 3000 {
			all := true
			for _, l := range lives {
				l.s.mu.Lock()
				n := len(l.s.got)
				l.s.mu.Unlock()
				if n <= l.base {
					all = false
				}
			}
			if all {
				break
			}
			b := make([]byte, 8)
			binary.LittleEndian.PutUint64(b, uint64(nTG+1+sends))
			sender.Send(b)
			sends++
			time.Sleep(time.Millisecond)
		}
		res.Count("reopened_streams_checked", int64(len(recs)))
		res.Count("old_streams_failing_after_the_client_came_back", atomic.LoadInt64(&stalledReleases))
		res.Count("further_transactions_committed", int64(sends))
		for _, l := range lives {
			l.s.mu.Lock()
			n := len(l.s.got)
			l.s.mu.Unlock()
			if n <= l.base {
				// decided on transactions committed (3000, each followed by a 1 ms pause of the committing
				// goroutine), not on a deadline
				res.Violation(fmt.Sprintf("%s stayed connected while %d further transactions were committed (after the old streams had been torn down) and received none of them", l.what, sends), map[string]interface{}{"received_before": l.base})
			}
		}
		nTG += sends
		drain()
	}
	res.Count("transactions_sent", int64(nTG))
	res.Count("replicas", int64(nRep))
	res.Count("stream_closings", atomic.LoadInt64(&closings))
	res.Count("fanout_sends", atomic.LoadInt64(&fanouts))
	for i, rp := range reps {
		rp.s.mu.Lock()
		got := append([]int64{}, rp.s.got...)
		rp.s.mu.Unlock()
		res.Count("messages_received", int64(len(got)))
		if len(got) == 0 {
			continue
		}
		// a replica that never disconnects must have everything up to the last transaction; one whose
		// disconnect was requested may legitimately miss transactions still in the pipeline at that moment
		until := int64(nTG)
		if rp.closeAt >= 0 {
			until = 0
		}
		// in order, no duplicates, no gaps from the first message to `until`
		for j := 1; j < len(got); j++ {
			if got[j] != got[j-1]+1 {
				res.Violation(fmt.Sprintf("replica %d (%s, connected before transaction %d, disconnect at %d) received %d after %d: the stream is not gap-free and in commit order", i, rp.s.addr, rp.openAt+1, rp.closeAt, got[j], got[j-1]), map[string]interface{}{"received": got})
				break
			}
		}
		if last := got[len(got)-1]; last < until {
			res.Violation(fmt.Sprintf("replica %d (%s) stayed connected until transaction %d was sent but its last received transaction is %d", i, rp.s.addr, until, last), map[string]interface{}{"received_tail": tailI64(got, 10), "first": got[0]})
		}
		res.Count("replica_sequences_checked", 1)
	}
	classifyRaces(&res, collectRaces(c.BatchDir))
	res.Sig = fmt.Sprintf("r%d/reconnect%v/closings%d", nRep, reconnect, bucket(int(atomic.LoadInt64(&closings))))
	if c.Case < 2 {
		var plan []string
		for i, rp := range reps {
			plan = append(plan, fmt.Sprintf("replica %d opens before tx %d, closes at %d, send delay %dus", i, rp.openAt+1, rp.closeAt, rp.s.delayUs))
		}
		res.Sample = map[string]interface{}{"transactions": nTG, "plan": plan, "reconnect_same_address": reconnect}
	}
	return res
}

func tailI64(a []int64, n int) []int64 {
	if len(a) > n {
		return a[len(a)-n:]
	}
	return a
}

func c26crash(c *runner.Ctx, text string) runner.Result {
	var res runner.Result
	res.Violation(fmt.Sprintf("the master side of replication died while replicas were connecting/disconnecting: %s", firstN(text, 1500)), map[string]interface{}{"seed": c.Seed, "case": c.Case})
	return res
}

func firstN(s string, n int) string {
	if len(s) > n {
		return s[:n]
	}
	return s
}

func init() {
	register(&runner.Monitor{
		ID:    "C26",
		Level: "exploration",
		Rule: "case = one -race run of the real GRPCReplicationServer + Sender with 1-6 in-memory replica streams (distinct peer addresses, Send that succeeds, delays or fails) opening and closing at seeded points (optionally reconnecting from the same address) while a producer sends 50 (thorough 200) numbered transactions through Sender.Send; seeded delays at repl.stream.closing / repl.fanout.send; in half of the reconnecting cases the old stream's Send blocks until the re-opened stream from the same address has received something and fails only then (teardown of the old stream after the client came back); afterwards further transactions are committed until every stream that is still connected (never-disconnecting replicas, re-opened streams) has received one committed after the old streams were torn down (bound: 3000 transactions); every sixth case is the real-master stratum: a real instance with the background WAL loop hands its serialized transaction groups to the real Sender while it goes on with its primary writes, the streams read every byte, and the received groups must carry every written record exactly once; distinct by (replicas, reconnect, number of closings)",
		Assumptions:     []string{"streams are in-memory fakes of grpc.ServerStream: transport behaviour of real gRPC (flow control, keepalive) is not exercised", "a disconnect is modelled as the next Send returning an error, which is how the server loop notices a vanished client"},
		Cases:           tierCases(24, 400),
		Batch:           1,
		Par:             8,
		BatchTimeout:    3 * time.Minute,
		RaceLog:         true,
		HangIsViolation: true,
		Crash:           c26crash,
		Need:            []string{"transactions_sent", "messages_received", "stream_closings", "replica_sequences_checked"},
		Run:             c26run,
	})
}
