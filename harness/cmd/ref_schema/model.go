package main

// Small reference model of a bucket's contents for the schema monitors: a bucket is a set of rows
// keyed by their Epoch (the monitors only write rows at distinct interval starts, so neither
// last-writer-wins nor ordering inside an interval - properties C08/C09 - come into play).

import (
	"fmt"
	"sort"
	"strings"
	"time"

	"github.com/alpacahq/marketstore/v4/frontend"
	"github.com/alpacahq/marketstore/v4/utils/io"
	"github.com/alpacahq/marketstore/v4/verif/internal/ms"
)

type scol struct {
	Name string
	T    et
}

func schemaString(cols []scol) string {
	var sb strings.Builder
	for i, c := range cols {
		if i > 0 {
			sb.WriteByte(',')
		}
		n := c.Name
		if len(n) > 40 {
			n = fmt.Sprintf("%s...(%dB)", n[:16], len(n))
		}
		fmt.Fprintf(&sb, "%s:%s", n, c.T.Str)
	}
	return sb.String()
}

// xcell is an expected cell. want==nil: implementation-defined conversion, not compared.
type xcell struct {
	want, alt interface{}
	conv      bool // a type conversion produced it (NaN payloads may differ)
}

type mtable struct {
	cols []scol
	rows map[int64][]xcell // by epoch, cells in cols order
}

func newMTable(cols []scol) *mtable { return &mtable{cols: cols, rows: map[int64][]xcell{}} }

func (m *mtable) clone() *mtable {
	o := newMTable(m.cols)
	for k, v := range m.rows {
		o.rows[k] = v
	}
	return o
}

func (m *mtable) epochs() []int64 {
	var es []int64
	for e := range m.rows {
		es = append(es, e)
	}
	sort.Slice(es, func(i, j int) bool { return es[i] < es[j] })
	return es
}

// diff compares a query result with the model; "" = equal. cells counts compared cells,
// amb counts cells where only the double-rounding alternative matched.
func (m *mtable) diff(t *ms.Table, cells, amb *int64) string {
	if t.N != len(m.rows) {
		return fmt.Sprintf("row count %d, expected %d (result epochs %v, expected %v)", t.N, len(m.rows), trimI64(t.Epoch, 12), trimI64(m.epochs(), 12))
	}
	seen := map[int64]bool{}
	for i := 0; i < t.N; i++ {
		e := t.Epoch[i]
		row, ok := m.rows[e]
		if !ok || seen[e] {
			return fmt.Sprintf("unexpected or repeated row with Epoch %d", e)
		}
		seen[e] = true
		for j, c := range m.cols {
			col, ok := t.Cols[c.Name]
			if !ok {
				return fmt.Sprintf("result has no column %q (columns %v)", c.Name, trimS(t.Names, 8))
			}
			x := row[j]
			if x.want == nil {
				continue
			}
			got := cellOf(col, i)
			if u, isU8 := got.(uint8); isU8 && c.T.T == io.BYTE {
				got = int8(u) // "i1" columns come back as Go bytes; the 8-bit pattern is what is stored
			}
			*cells++
			if sameCell(got, x.want, x.conv) {
				continue
			}
			if x.alt != nil && sameCell(got, x.alt, x.conv) {
				*amb++
				continue
			}
			return fmt.Sprintf("Epoch %d column %s (%s): stored %s, expected %s", e, c.Name, c.T.Str, fmtCell(got), fmtCell(x.want))
		}
	}
	return ""
}

func trimI64(x []int64, n int) []int64 {
	if len(x) > n {
		return x[:n]
	}
	return x
}

func trimS(x []string, n int) []string {
	if len(x) > n {
		return append(append([]string{}, x[:n]...), fmt.Sprintf("...(%d)", len(x)))
	}
	return x
}

// dedupRows drops rows that are bit-identical to the row before them (used after a restart for
// variable-length buckets: replay duplicating records is F-DUP / property C02, not judged here).
func dedupRows(t *ms.Table) *ms.Table {
	var idx []int
	for i := 0; i < t.N; i++ {
		same := i > 0
		if same {
			for _, n := range t.Names {
				if ms.Cell(t.Cols[n], i) != ms.Cell(t.Cols[n], i-1) {
					same = false
					break
				}
			}
		}
		if !same {
			idx = append(idx, i)
		}
	}
	if len(idx) == t.N {
		return t
	}
	return t.Select(idx)
}

// snapshot queries [from,to] of a bucket; a bucket without data is the empty table.
// A panic or an unexpected query error is returned as text.
func snapshot(in *ms.Inst, key string, from, to time.Time) (t *ms.Table, problem string) {
	var err error
	p := ms.Recover(func() { t, err = in.Query(key, from, to, 0, false, nil) })
	if p != "" {
		return ms.FromCS(nil), "query panicked: " + p
	}
	if err != nil {
		return ms.FromCS(nil), ""
	}
	return t, ""
}

// buildCS assembles a ColumnSeries: Epoch at position epochPos among the named columns
// (epochPos<0: no Epoch column), optional Nanoseconds (all zero) at the end.
func buildCS(epochs []int64, names []string, cols []interface{}, epochPos int, nanos bool) *io.ColumnSeries {
	cs := io.NewColumnSeries()
	for i := 0; i <= len(names); i++ {
		if i == epochPos {
			cs.AddColumn("Epoch", append([]int64{}, epochs...))
		}
		if i < len(names) {
			cs.AddColumn(names[i], cols[i])
		}
	}
	if epochPos > len(names) {
		cs.AddColumn("Epoch", append([]int64{}, epochs...))
	}
	if nanos {
		cs.AddColumn("Nanoseconds", make([]int32, len(epochs)))
	}
	return cs
}

// dsCreate creates a bucket through DataService.Create. Returns the response error text and a panic text.
func dsCreate(in *ms.Inst, key string, cols []scol, variable bool) (errText, panicText string) {
	var names, types []string
	for _, c := range cols {
		names = append(names, c.Name)
		types = append(types, c.T.Str)
	}
	var resp frontend.MultiServerResponse
	panicText = ms.Recover(func() {
		err := in.DS.Create(nil, &frontend.MultiCreateRequest{Requests: []frontend.CreateRequest{{
			Key: key + ":Symbol/Timeframe/AttributeGroup", ColumnNames: names, ColumnTypes: types, IsVariableLength: variable,
		}}}, &resp)
		if err != nil {
			errText = err.Error()
		}
	})
	if panicText == "" && errText == "" {
		if len(resp.Responses) != 1 {
			errText = fmt.Sprintf("%d responses", len(resp.Responses))
		} else {
			errText = resp.Responses[0].Error
		}
	}
	return errText, panicText
}

type tfSpec struct {
	Name string
	D    time.Duration
}

var allTFs = []tfSpec{
	{"1Sec", time.Second}, {"10Sec", 10 * time.Second}, {"1Min", time.Minute}, {"5Min", 5 * time.Minute},
	{"15Min", 15 * time.Minute}, {"30Min", 30 * time.Minute}, {"1H", time.Hour}, {"2H", 2 * time.Hour},
	{"4H", 4 * time.Hour}, {"1D", 24 * time.Hour},
}

// releaseInst lets the garbage collector reclaim a finished instance (its trigger dispatcher
// goroutine pins ~50 MB of channel buffers). Resource handling only: nothing is judged afterwards.
func releaseInst(in *ms.Inst) {
	if in == nil || in.WAL == nil {
		return
	}
	done := make(chan struct{})
	go func() {
		ms.Recover(func() { in.WAL.Shutdown() })
		close(done)
	}()
	select {
	case <-done:
	case <-time.After(50 * time.Millisecond):
	}
}
