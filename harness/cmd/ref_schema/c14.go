package main

// C14 Writes are validated against the bucket schema.
//
// Real code driven: frontend.Writer.WriteCSM (executor.Writer) on a real instance (catalog + WAL +
// inline flush), DataService.Create / first-write auto-creation for the buckets, the real query path
// for the snapshots, a second ms.Open on the same root as the restart.
//
// Oracle (from the property text only):
//   * the request names 1-3 buckets; for each, the input column names are compared with the bucket's
//     column names AS SETS (the statement says "by name"): a missing, extra or renamed column in any
//     bucket => the whole request must return an error and every bucket named in it must have exactly
//     the rows it had before - immediately, after a later unrelated successful write to another bucket
//     (which flushes whatever was left queued) and after a restart;
//   * names match (any order, any numeric types) => the request is stored (a request whose columns are
//     in another order than the bucket's may instead be rejected as a whole: the statement demands
//     storing only for "match by name but differ in numeric type"): every bucket holds its
//     previous rows plus the new rows, each cell equal to the Go conversion of the input cell of the
//     column WITH THE SAME NAME to the bucket's type. Where Go leaves the conversion implementation
//     defined (float -> integer with the truncated value out of range, NaN, Inf) the cell is not
//     compared and the request may also be rejected as a whole (then nothing may change); never a panic.
//     64-bit integer -> float32: the directly rounded value and the value rounded through float64 are
//     both accepted (counted in double_rounding_cells), the statement does not choose.
// Known findings (as-is models, see c14judge*):
//   F-QUEUED  trigger: the request names >= 2 buckets, at least one mismatching and at least one
//             matching. As-is: the error is returned, nothing changes immediately, but after the next
//             flush some of the matching buckets hold previous rows + the complete rows of the request.
//   F-REORDER trigger: same name set, different order (Epoch aside). As-is: accepted; the row bytes are
//             the converted-by-name cells laid out in INPUT order and read back in bucket order.

import (
	"fmt"
	"sort"
	"strings"
	"time"

	"github.com/alpacahq/marketstore/v4/utils/io"
	"github.com/alpacahq/marketstore/v4/verif/internal/gen"
	"github.com/alpacahq/marketstore/v4/verif/internal/ms"
	"github.com/alpacahq/marketstore/v4/verif/internal/runner"
)

func init() {
	register(&runner.Monitor{
		ID:    "C14",
		Level: "exploration",
		Rule: "case = 10 scenarios on one instance followed by one restart; scenario = (kind by scenario%12: same | missing | extra | renamed | retyped x3 (the 90 ordered type pairs are enumerated by case number, " +
			"the source column carries every boundary value of its type) | retyped+mismatch | multi-bucket request with a mismatching and a matching bucket " +
			"(repeated with fresh rows until both map orders were seen or 8 attempts) | reordered | multi-bucket all-valid / all-mismatching | subtle rename, Epoch not first, Epoch missing), " +
			"1-3 columns per bucket over the 10 element types, 5 timeframes, fixed and variable records, buckets made by first write or DataService.Create. " +
			"Non-trivial = at least one request was issued and its outcome compared with snapshots of every named bucket; signature = kind/edit/column counts/record type/timeframe/type pair/bucket roles.",
		Assumptions: []string{
			"rows are written at distinct interval starts inside March-November 2021 (no last-writer-wins, no January-1 slot: those belong to C08)",
			"snapshots are range queries over the window that contains every row the case writes",
			"after a restart, variable-length buckets are compared after dropping rows identical to their predecessor (replay duplication is F-DUP / C02)",
		},
		Cases: func(tier string) int {
			if tier == "thorough" {
				return 4800 / c14group
			}
			return 1200 / c14group
		},
		Batch: 5,
		// every instance carries ~50 MB of pointer-bearing channel buffers that each GC cycle scans
		ChildEnv:     []string{"GOGC=400"},
		BatchTimeout: 45 * time.Minute,
		Run:          c14run,
		MinDistinct:  40,
		Need:         []string{"scenarios_judged", "rejections_checked", "accepted_checked", "cells_compared", "restarts", "unchanged_snapshots"},
	})
}

var c14names = []string{"A", "B", "C", "Open", "High", "Low", "Close", "Volume", "Px", "Size", "Bid", "Ask", "aa", "Ab", "x1", "Qty"}

var c14tfs = []tfSpec{{"1Min", time.Minute}, {"1Sec", time.Second}, {"5Min", 5 * time.Minute}, {"1H", time.Hour}, {"1D", 24 * time.Hour}}

var c14base = time.Date(2021, 3, 1, 0, 0, 0, 0, time.UTC)

type c14bucket struct {
	Key       string
	Exists    bool
	ViaCreate bool
	Schema    []scol
	Input     []scol
	EpochPos  int // where Epoch goes among Input; -1 = no Epoch column
	Edit      string
	Match     bool
	Reordered bool
	Focus     int // index in Input of the column carrying the boundary values, -1 none
	Tame      bool
}

type c14plan struct {
	Kind        string
	TF          tfSpec
	Variable    bool
	Buckets     []*c14bucket
	MaxAttempts int
	Rows        int
	WantBoth    bool // repeat until both map orders were observed
}

func c14schema(r *gen.R, n int) []scol {
	p := r.Perm(len(c14names))
	out := make([]scol, n)
	for i := 0; i < n; i++ {
		out[i] = scol{c14names[p[i]], ets[r.Intn(len(ets))]}
	}
	return out
}

func cloneCols(c []scol) []scol { return append([]scol{}, c...) }

func hasName(cols []scol, n string) bool {
	for _, c := range cols {
		if c.Name == n {
			return true
		}
	}
	return false
}

func freshName(r *gen.R, cols []scol) string {
	for {
		n := c14names[r.Intn(len(c14names))]
		if r.P(1, 3) {
			n += fmt.Sprint(r.Intn(10))
		}
		if !hasName(cols, n) && !strings.EqualFold(n, "Epoch") {
			return n
		}
	}
}

func otherType(r *gen.R, t et) et {
	for {
		o := ets[r.Intn(len(ets))]
		if o.T != t.T {
			return o
		}
	}
}

// edits; each returns the input columns and a tag.
func editMissing(r *gen.R, s []scol) ([]scol, string) {
	i := r.Intn(len(s))
	in := append(cloneCols(s[:i]), s[i+1:]...)
	return in, "missing"
}

func editExtra(r *gen.R, s []scol) ([]scol, string) {
	in := cloneCols(s)
	x := scol{freshName(r, s), ets[r.Intn(len(ets))]}
	pos := len(in)
	if r.P(1, 3) {
		pos = r.Intn(len(in) + 1)
	}
	in = append(in[:pos], append([]scol{x}, in[pos:]...)...)
	return in, "extra"
}

func editRenamed(r *gen.R, s []scol, subtle bool) ([]scol, string) {
	in := cloneCols(s)
	i := r.Intn(len(in))
	old := in[i].Name
	var cands []string
	if subtle {
		if l := strings.ToLower(old); l != old {
			cands = append(cands, l)
		}
		if u := strings.ToUpper(old); u != old {
			cands = append(cands, u)
		}
		cands = append(cands, old+" ", " "+old, old+"1", old+old)
		if len(old) > 1 {
			cands = append(cands, old[:len(old)-1])
		}
	} else {
		cands = append(cands, freshName(r, s))
	}
	for _, k := range r.Perm(len(cands)) {
		if !hasName(s, cands[k]) {
			in[i].Name = cands[k]
			if subtle {
				return in, "renamed-subtle"
			}
			return in, "renamed"
		}
	}
	in[i].Name = freshName(r, s)
	return in, "renamed"
}

func editReorder(r *gen.R, s []scol) []scol {
	n := len(s)
	for {
		p := r.Perm(n)
		id := true
		for i, v := range p {
			if i != v {
				id = false
			}
		}
		if id {
			continue
		}
		in := make([]scol, n)
		for i, v := range p {
			in[i] = s[v]
		}
		return in
	}
}

func editMismatch(r *gen.R, s []scol) ([]scol, string) {
	switch r.Intn(3) {
	case 0:
		return editMissing(r, s)
	case 1:
		return editExtra(r, s)
	}
	return editRenamed(r, s, r.P(1, 3))
}

// c14pair maps an index to one of the 90 ordered pairs of distinct element types.
func c14pair(idx int) (from, to et) {
	idx %= 90
	f := idx / 9
	t := (f + 1 + idx%9) % 10
	return ets[f], ets[t]
}

func sameNameSet(a, b []scol) bool {
	if len(a) != len(b) {
		return false
	}
	for _, c := range a {
		if !hasName(b, c.Name) {
			return false
		}
	}
	return true
}

func sameOrder(a, b []scol) bool {
	for i := range a {
		if a[i].Name != b[i].Name {
			return false
		}
	}
	return true
}

func (b *c14bucket) finish() {
	b.Match = b.EpochPos >= 0 && sameNameSet(b.Schema, b.Input)
	b.Reordered = b.Match && !sameOrder(b.Schema, b.Input)
}

// c14makePlan: sidx = global scenario number (decides kind, timeframe, record type, type pair),
// scn = position inside the case (keeps the bucket names of the scenarios of one case apart).
func c14makePlan(r *gen.R, sidx, scn int) *c14plan {
	p := &c14plan{MaxAttempts: 1}
	kind := sidx % 12
	group := sidx / 12
	p.TF = c14tfs[group%len(c14tfs)]
	p.Variable = (group/len(c14tfs))%4 == 3
	p.Rows = r.Range(1, 6)
	mk := func(i int, n int) *c14bucket {
		return &c14bucket{Key: fmt.Sprintf("S%dX%d/%s/G", scn, i, p.TF.Name), Exists: true, ViaCreate: r.P(1, 3), Schema: c14schema(r, n), Focus: -1}
	}
	ncols := r.Range(1, 3)
	switch kind {
	case 0:
		p.Kind = "same"
		b := mk(0, ncols)
		b.Input, b.Edit = cloneCols(b.Schema), "same"
		p.Buckets = []*c14bucket{b}
	case 1, 2, 3:
		b := mk(0, ncols)
		switch kind {
		case 1:
			p.Kind = "missing"
			b.Input, b.Edit = editMissing(r, b.Schema)
		case 2:
			p.Kind = "extra"
			b.Input, b.Edit = editExtra(r, b.Schema)
		default:
			p.Kind = "renamed"
			b.Input, b.Edit = editRenamed(r, b.Schema, false)
		}
		p.Buckets = []*c14bucket{b}
	case 4, 5, 6:
		p.Kind = "retyped"
		from, to := c14pair(group*3 + kind - 4)
		b := mk(0, ncols)
		f := r.Intn(ncols)
		b.Schema[f].T = to
		b.Input = cloneCols(b.Schema)
		b.Input[f].T = from
		for i := range b.Input {
			if i != f && r.P(1, 3) {
				b.Input[i].T = otherType(r, b.Input[i].T)
			}
		}
		b.Focus = f
		b.Edit = "retyped:" + from.Str + ">" + to.Str
		p.Buckets = []*c14bucket{b}
	case 7:
		p.Kind = "retyped+mismatch"
		b := mk(0, ncols)
		b.Input, b.Edit = editMismatch(r, b.Schema)
		for i := range b.Input {
			if r.P(1, 2) {
				b.Input[i].T = otherType(r, b.Input[i].T)
			}
		}
		b.Edit = "retyped+" + b.Edit
		p.Buckets = []*c14bucket{b}
	case 8:
		// aimed at F-QUEUED: at least one mismatching and one matching bucket
		p.Kind = "multi-mismatch"
		nb := r.Range(2, 3)
		bad := r.Intn(nb)
		bad2 := -1
		if nb == 3 && r.P(1, 4) {
			bad2 = (bad + 1) % 3
		}
		for i := 0; i < nb; i++ {
			b := mk(i, r.Range(1, 3))
			if i == bad || i == bad2 {
				b.Input, b.Edit = editMismatch(r, b.Schema)
			} else {
				b.Input, b.Edit = cloneCols(b.Schema), "same"
				if r.P(1, 3) {
					j := r.Intn(len(b.Input))
					b.Input[j].T = otherType(r, b.Input[j].T)
					b.Edit = "retyped"
					b.Tame = true
				}
				if r.P(1, 4) {
					b.Exists = false // created by this very request
					b.Schema = cloneCols(b.Input)
					b.Edit = "new"
					b.Tame = false
				}
			}
			p.Buckets = append(p.Buckets, b)
		}
		p.MaxAttempts, p.WantBoth = 8, true
		p.Rows = r.Range(1, 4)
	case 9:
		// aimed at F-REORDER
		p.Kind = "reordered"
		b := mk(0, r.Range(2, 3))
		b.Input = editReorder(r, b.Schema)
		b.Edit = "reordered"
		if r.P(1, 2) {
			j := r.Intn(len(b.Input))
			b.Input[j].T = otherType(r, b.Input[j].T)
			b.Edit = "reordered+retyped"
		}
		b.Tame = true
		p.Buckets = []*c14bucket{b}
		p.Rows = r.Range(2, 5)
	case 10:
		nb := r.Range(2, 3)
		allBad := r.Bool()
		if allBad {
			p.Kind = "multi-all-mismatch"
			p.MaxAttempts = 2
		} else {
			p.Kind = "multi-all-valid"
		}
		for i := 0; i < nb; i++ {
			b := mk(i, r.Range(1, 3))
			if allBad {
				b.Input, b.Edit = editMismatch(r, b.Schema)
			} else {
				b.Input, b.Edit = cloneCols(b.Schema), "same"
				if r.P(1, 2) {
					j := r.Intn(len(b.Input))
					b.Input[j].T = otherType(r, b.Input[j].T)
					b.Edit = "retyped"
					b.Tame = true
				}
				if r.P(1, 4) {
					b.Exists = false
					b.Schema = cloneCols(b.Input)
					b.Edit = "new"
					b.Tame = false
				}
			}
			p.Buckets = append(p.Buckets, b)
		}
	default:
		b := mk(0, ncols)
		switch r.Intn(4) {
		case 0, 1:
			p.Kind = "renamed-subtle"
			b.Input, b.Edit = editRenamed(r, b.Schema, true)
		case 2:
			p.Kind = "epoch-not-first"
			b.Input, b.Edit = cloneCols(b.Schema), "epoch-not-first"
			b.EpochPos = r.Range(1, len(b.Input))
		default:
			p.Kind = "epoch-missing"
			b.Input, b.Edit = cloneCols(b.Schema), "epoch-missing"
			b.EpochPos = -1
		}
		p.Buckets = []*c14bucket{b}
	}
	for _, b := range p.Buckets {
		b.finish()
	}
	return p
}

func (p *c14plan) epoch(k int) int64 { return c14base.Unix() + int64(k)*int64(p.TF.D/time.Second) }

func tameCell(r *gen.R, t et) interface{} {
	v := r.Intn(100) + 1
	if t.Kind == 'f' {
		return floatOf(t, float64(v))
	}
	return intFromBits(t, uint64(v))
}

// c14rows builds, for one bucket and one attempt, the typed input columns and the epochs.
func c14rows(r *gen.R, p *c14plan, b *c14bucket, firstK int, specials bool) (epochs []int64, cols []interface{}) {
	n := p.Rows
	var sp []interface{}
	if specials && b.Focus >= 0 {
		sp = specialCells(b.Input[b.Focus].T)
		n = len(sp) + 6
	}
	for i := 0; i < n; i++ {
		epochs = append(epochs, p.epoch(firstK+i))
	}
	for j, c := range b.Input {
		cells := make([]interface{}, n)
		for i := range cells {
			switch {
			case j == b.Focus && i < len(sp):
				cells[i] = sp[i]
			case b.Tame:
				cells[i] = tameCell(r, c.T)
			default:
				cells[i] = randCell(r, c.T)
			}
		}
		cols = append(cols, newCol(c.T, cells))
	}
	return epochs, cols
}

// c14expect computes the ideal rows: every bucket column takes the converted cell of the input
// column with the same name. undefined reports whether some conversion is implementation-defined.
func c14expect(b *c14bucket, epochs []int64, cols []interface{}) (rows map[int64][]xcell, undefined bool) {
	rows = map[int64][]xcell{}
	for i, e := range epochs {
		row := make([]xcell, len(b.Schema))
		for j, sc := range b.Schema {
			for k, ic := range b.Input {
				if ic.Name != sc.Name {
					continue
				}
				cell := cellOf(cols[k], i)
				if ic.T.T == sc.T.T {
					row[j] = xcell{want: cell}
				} else {
					w, alt, def := convRef(cell, sc.T)
					if !def {
						undefined = true
					}
					row[j] = xcell{want: w, alt: alt, conv: true}
				}
			}
		}
		rows[e] = row
	}
	return rows, undefined
}

// c14asIsReorder: as-is model of F-REORDER. The cells, converted by name, are serialised in input
// order and read back in bucket order.
func c14asIsReorder(b *c14bucket, epochs []int64, cols []interface{}) (rows map[int64][]xcell, ok bool) {
	rows = map[int64][]xcell{}
	for i, e := range epochs {
		var buf []byte
		for k, ic := range b.Input {
			var target et
			for _, sc := range b.Schema {
				if sc.Name == ic.Name {
					target = sc.T
				}
			}
			cell := cellOf(cols[k], i)
			if ic.T.T != target.T {
				w, _, def := convRef(cell, target)
				if !def {
					return nil, false
				}
				cell = w
			}
			buf = append(buf, leBytes(cell)...)
		}
		row := make([]xcell, len(b.Schema))
		off := 0
		for j, sc := range b.Schema {
			row[j] = xcell{want: fromLE(buf[off:off+sc.T.Size], sc.T), conv: true}
			off += sc.T.Size
		}
		rows[e] = row
	}
	return rows, true
}

func c14describe(p *c14plan) map[string]interface{} {
	var bs []map[string]interface{}
	for _, b := range p.Buckets {
		bs = append(bs, map[string]interface{}{
			"key": b.Key, "exists_before": b.Exists, "created_via": map[bool]string{true: "DataService.Create", false: "first write"}[b.ViaCreate],
			"bucket_columns": schemaString(b.Schema), "input_columns": schemaString(b.Input), "edit": b.Edit,
			"epoch_position": b.EpochPos, "names_match": b.Match,
		})
	}
	return map[string]interface{}{"kind": p.Kind, "timeframe": p.TF.Name, "variable_length": p.Variable, "buckets": bs}
}

func dumpInput(b *c14bucket, epochs []int64, cols []interface{}, max int) []string {
	var out []string
	for i := range epochs {
		if i >= max {
			out = append(out, fmt.Sprintf("... %d rows", len(epochs)))
			break
		}
		s := fmt.Sprintf("Epoch=%d", epochs[i])
		for k, ic := range b.Input {
			s += fmt.Sprintf(" %s(%s)=%s", ic.Name, ic.T.Str, fmtCell(cellOf(cols[k], i)))
		}
		out = append(out, s)
	}
	return out
}

const c14group = 10 // scenarios per case (they share one instance and one restart)

// c14tracked is what the restart check needs about one bucket.
type c14tracked struct {
	key      string
	variable bool
	from, to time.Time
	last     *ms.Table
	plan     map[string]interface{}
}

func sameTables(a, b *ms.Table) string {
	if a.N == 0 && b.N == 0 {
		return ""
	}
	return ms.SameRows(a, b)
}

func c14run(c *runner.Ctx) (res runner.Result) {
	ms.Quiet()
	root := c.Scratch + "/root"
	var in *ms.Inst
	if pn := ms.Recover(func() { in = ms.Open(root, ms.Opts{}) }); pn != "" {
		res.Inconclusive("cannot open an empty instance: " + pn)
		return res
	}
	defer releaseInst(in)
	var cells, amb int64
	defer func() {
		res.Count("cells_compared", cells)
		res.Count("double_rounding_cells", amb)
	}()
	var tracked []c14tracked
	flushN := 0
	for scn := 0; scn < c14group; scn++ {
		sidx := c.Case*c14group + scn
		p := c14makePlan(c.R(fmt.Sprintf("plan%d", scn)), sidx, scn)
		tr, sig := c14scenario(c, in, p, scn, &res, &cells, &amb, &flushN)
		tracked = append(tracked, tr...)
		if sig != "" {
			res.Sigs = append(res.Sigs, sig)
			res.Count("scenarios_judged", 1)
		}
	}

	// one case in sixteen: the bulk-load variant of "a rejected request changes nothing"
	if c.Case%16 == 7 {
		c14big(c, in, &res)
	}

	// --- restart
	var in2 *ms.Inst
	if pn := ms.Recover(func() { in2 = ms.Open(root, ms.Opts{}) }); pn != "" {
		res.Violation("restart on the same root panicked: "+pn, map[string]interface{}{"seed": c.Seed, "case": c.Case})
		return res
	}
	defer releaseInst(in2)
	res.Count("restarts", 1)
	for _, tr := range tracked {
		t, prob := snapshot(in2, tr.key, tr.from, tr.to)
		if prob != "" {
			res.Violation("after restart: "+prob, map[string]interface{}{"plan": tr.plan, "bucket": tr.key})
			continue
		}
		want := tr.last
		if tr.variable {
			t, want = dedupRows(t), dedupRows(want)
		}
		if d := sameTables(want, t); d != "" {
			res.Violation(fmt.Sprintf("bucket %s differs after a restart from its state before: %s", tr.key, d),
				map[string]interface{}{"plan": tr.plan, "before_restart": want.Dump(12), "after_restart": t.Dump(12)})
			continue
		}
		res.Count("unchanged_snapshots", 1)
	}
	if len(res.Sigs) > 0 {
		res.Sig = res.Sigs[0]
	}
	res.Evals = int64(len(res.Sigs))
	return res
}

// c14scenario runs one plan on the shared instance; it reports issues into res and returns the
// buckets to re-check after the restart and the signature ("" = nothing was judged).
func c14scenario(c *runner.Ctx, in *ms.Inst, p *c14plan, scn int, res *runner.Result, cells, amb *int64, flushN *int) (tracked []c14tracked, sig string) {
	r := c.R(fmt.Sprintf("values%d", scn))
	desc := c14describe(p)
	if c.Case == 0 && (scn < 2 || scn == 4 || scn >= 8) {
		if res.Sample == nil {
			res.Sample = []interface{}{}
		}
		res.Sample = append(res.Sample.([]interface{}), desc)
	}
	from := c14base.Add(-p.TF.D)
	to := c14base.Add(300 * p.TF.D)
	fail := func(detail string, extra map[string]interface{}) {
		w := map[string]interface{}{"plan": desc}
		for k, v := range extra {
			w[k] = v
		}
		res.Violation(detail, w)
	}

	// --- set-up: buckets with their initial rows
	models := map[string]*mtable{}
	for _, b := range p.Buckets {
		models[b.Key] = newMTable(b.Schema)
		if !b.Exists {
			continue
		}
		if b.ViaCreate {
			if e, pn := dsCreate(in, b.Key, b.Schema, p.Variable); e != "" || pn != "" {
				res.Inconclusive(fmt.Sprintf("set-up: DataService.Create(%s %s) failed: %s %s", b.Key, schemaString(b.Schema), e, pn))
				return nil, ""
			}
		}
		n := r.Range(2, 4)
		var epochs []int64
		var names []string
		var cols []interface{}
		for i := 0; i < n; i++ {
			epochs = append(epochs, p.epoch(i*2))
		}
		for _, sc := range b.Schema {
			cs := make([]interface{}, n)
			for i := range cs {
				cs[i] = randCell(r, sc.T)
			}
			names = append(names, sc.Name)
			cols = append(cols, newCol(sc.T, cs))
		}
		var err error
		pn := ms.Recover(func() { err = in.Write(b.Key, buildCS(epochs, names, cols, 0, p.Variable), p.Variable) })
		if err != nil || pn != "" {
			fail(fmt.Sprintf("a write with exactly the bucket's columns was not stored: err=%v panic=%s", err, pn), nil)
			return nil, ""
		}
		for i, e := range epochs {
			row := make([]xcell, len(cols))
			for j := range cols {
				row[j] = xcell{want: cellOf(cols[j], i)}
			}
			models[b.Key].rows[e] = row
		}
	}
	last := map[string]*ms.Table{}
	for _, b := range p.Buckets {
		t, prob := snapshot(in, b.Key, from, to)
		if prob != "" {
			fail("set-up snapshot: "+prob, nil)
			return nil, ""
		}
		if d := models[b.Key].diff(t, cells, amb); d != "" {
			// plain round trip of exact-schema rows is C08's subject; without it nothing can be judged here
			res.Inconclusive(fmt.Sprintf("set-up rows of %s did not read back (%s)", b.Key, d))
			return nil, ""
		}
		last[b.Key] = t
	}
	track := func() []c14tracked {
		var out []c14tracked
		for _, b := range p.Buckets {
			out = append(out, c14tracked{b.Key, p.Variable, from, to, last[b.Key], desc})
		}
		return out
	}

	expectReject := false
	nValid := 0
	for _, b := range p.Buckets {
		if !b.Match {
			expectReject = true
		} else {
			nValid++
		}
	}
	queuedTrigger := expectReject && nValid > 0 && len(p.Buckets) >= 2

	sawQueued, sawClean := false, false
	var knownQueued, knownReorder string
	var knownQueuedW, knownReorderW interface{}
	attempts := 0
	for a := 0; a < p.MaxAttempts; a++ {
		attempts++
		csm := io.NewColumnSeriesMap()
		type reqB struct {
			epochs []int64
			cols   []interface{}
		}
		reqs := map[string]reqB{}
		for _, b := range p.Buckets {
			epochs, cols := c14rows(r, p, b, 20+a*25, p.Kind == "retyped")
			var names []string
			for _, ic := range b.Input {
				names = append(names, ic.Name)
			}
			csm.AddColumnSeries(*ms.TBK(b.Key), buildCS(epochs, names, cols, b.EpochPos, p.Variable))
			reqs[b.Key] = reqB{epochs, cols}
		}
		var err error
		pn := ms.Recover(func() { err = in.W.WriteCSM(csm, p.Variable) })
		inputs := map[string]interface{}{}
		for _, b := range p.Buckets {
			inputs[b.Key] = dumpInput(b, reqs[b.Key].epochs, reqs[b.Key].cols, 8)
		}
		if pn != "" {
			fail("WriteCSM panicked: "+pn, map[string]interface{}{"request_rows": inputs, "attempt": a})
			return track(), ""
		}
		imm := map[string]*ms.Table{}
		for _, b := range p.Buckets {
			t, prob := snapshot(in, b.Key, from, to)
			if prob != "" {
				fail("after the request: "+prob, map[string]interface{}{"request_rows": inputs})
				return track(), ""
			}
			imm[b.Key] = t
		}
		// unrelated successful write to another bucket: flushes anything left queued
		*flushN++
		var ferr error
		fpn := ms.Recover(func() {
			ferr = in.Write("ZFLUSH/1Min/F", ms.CS([]int64{c14base.Unix() + int64(*flushN)*60}, ms.Col{Name: "X", Data: []int32{int32(*flushN)}}), false)
		})
		if ferr != nil || fpn != "" {
			fail(fmt.Sprintf("the unrelated write after the request failed: err=%v panic=%s", ferr, fpn), map[string]interface{}{"request_rows": inputs})
			return track(), ""
		}
		aft := map[string]*ms.Table{}
		for _, b := range p.Buckets {
			t, prob := snapshot(in, b.Key, from, to)
			if prob != "" {
				fail("after the unrelated write: "+prob, map[string]interface{}{"request_rows": inputs})
				return track(), ""
			}
			aft[b.Key] = t
		}

		undefinedAny := false
		ideal := map[string]*mtable{}
		for _, b := range p.Buckets {
			if b.Match {
				rows, undef := c14expect(b, reqs[b.Key].epochs, reqs[b.Key].cols)
				undefinedAny = undefinedAny || undef
				m := models[b.Key].clone()
				for e, row := range rows {
					m.rows[e] = row
				}
				ideal[b.Key] = m
			}
		}

		anyReordered := false
		for _, b := range p.Buckets {
			anyReordered = anyReordered || b.Reordered
		}
		if err != nil && !expectReject && anyReordered {
			res.Count("reordered_rejected", 1)
		}
		if expectReject || (err != nil && (undefinedAny || anyReordered)) {
			// the request must have been rejected as a whole
			if err == nil {
				fail("a request with a bucket whose columns do not match by name returned no error", map[string]interface{}{"request_rows": inputs, "attempt": a})
				for _, b := range p.Buckets {
					last[b.Key] = aft[b.Key]
				}
				return track(), ""
			}
			res.Count("rejections_checked", 1)
			for _, b := range p.Buckets {
				if d := sameTables(last[b.Key], imm[b.Key]); d != "" {
					fail(fmt.Sprintf("rejected request (%v) changed bucket %s immediately: %s", err, b.Key, d),
						map[string]interface{}{"request_rows": inputs, "before": last[b.Key].Dump(12), "after": imm[b.Key].Dump(12), "attempt": a})
					for _, b := range p.Buckets {
						last[b.Key] = aft[b.Key]
					}
					return track(), ""
				}
				res.Count("unchanged_snapshots", 1)
			}
			var changed []string
			for _, b := range p.Buckets {
				if d := sameTables(last[b.Key], aft[b.Key]); d != "" {
					changed = append(changed, b.Key)
				} else {
					res.Count("unchanged_snapshots", 1)
				}
			}
			if len(changed) == 0 {
				sawClean = true
			} else {
				// as-is F-QUEUED: every changed bucket is a matching one and holds previous + complete new rows
				conform := queuedTrigger
				why := ""
				for _, k := range changed {
					m, ok := ideal[k]
					if !ok {
						conform, why = false, "the mismatching bucket "+k+" itself changed"
						break
					}
					if d := m.diff(aft[k], cells, amb); d != "" {
						conform, why = false, "bucket "+k+" holds neither its previous rows nor previous+request rows: "+d
						break
					}
				}
				detail := fmt.Sprintf("request rejected with %q, yet after the next unrelated write bucket(s) %v named in it contain its rows", err.Error(), changed)
				w := map[string]interface{}{"plan": desc, "request_rows": inputs, "attempt": a, "changed_buckets": changed}
				for _, k := range changed {
					w["before:"+k] = last[k].Dump(8)
					w["after:"+k] = aft[k].Dump(12)
				}
				if !conform {
					if why != "" {
						detail += "; " + why
					}
					res.Violation(detail, w)
					for _, b := range p.Buckets {
						last[b.Key] = aft[b.Key]
					}
					return track(), ""
				}
				sawQueued = true
				if knownQueued == "" {
					knownQueued, knownQueuedW = detail, w
				}
				for _, k := range changed {
					models[k] = ideal[k]
				}
			}
		} else {
			// must be stored
			if err != nil {
				fail(fmt.Sprintf("a request whose columns match every bucket by name was rejected: %v", err), map[string]interface{}{"request_rows": inputs})
				for _, b := range p.Buckets {
					last[b.Key] = aft[b.Key]
				}
				return track(), ""
			}
			res.Count("accepted_checked", 1)
			for _, b := range p.Buckets {
				d := ideal[b.Key].diff(aft[b.Key], cells, amb)
				if d == "" {
					models[b.Key] = ideal[b.Key]
					continue
				}
				w := map[string]interface{}{"plan": desc, "bucket": b.Key, "request_rows": inputs[b.Key], "stored": aft[b.Key].Dump(12)}
				if b.Reordered {
					if rows, ok := c14asIsReorder(b, reqs[b.Key].epochs, reqs[b.Key].cols); ok {
						m := models[b.Key].clone()
						for e, row := range rows {
							m.rows[e] = row
						}
						if d2 := m.diff(aft[b.Key], cells, amb); d2 == "" {
							if knownReorder == "" {
								knownReorder = fmt.Sprintf("columns matched by name but stored by position: input order (%s) into bucket (%s): %s", schemaString(b.Input), schemaString(b.Schema), d)
								knownReorderW = w
							}
							models[b.Key] = m
							continue
						}
					}
				}
				res.Violation(fmt.Sprintf("accepted write stored wrongly in %s: %s", b.Key, d), w)
				for _, b := range p.Buckets {
					last[b.Key] = aft[b.Key]
				}
				return track(), ""
			}
		}
		for _, b := range p.Buckets {
			last[b.Key] = aft[b.Key]
		}
		if p.WantBoth && sawQueued && sawClean {
			break
		}
	}
	res.Count("attempts", int64(attempts))
	if p.WantBoth && sawQueued && sawClean {
		res.Count("both_orders_seen", 1)
	}
	if knownQueued != "" {
		res.Known("F-QUEUED", knownQueued, knownQueuedW)
	}
	if knownReorder != "" {
		res.Known("F-REORDER", knownReorder, knownReorderW)
	}

	var roles []string
	for _, b := range p.Buckets {
		role := fmt.Sprintf("%s/%dc", b.Edit, len(b.Schema))
		if !b.Exists {
			role += "/new"
		} else if b.ViaCreate {
			role += "/ds"
		}
		roles = append(roles, role)
	}
	sort.Strings(roles)
	rt := "fixed"
	if p.Variable {
		rt = "variable"
	}
	res.Set("kinds", p.Kind)
	res.Set("timeframes", p.TF.Name)
	for _, b := range p.Buckets {
		if strings.HasPrefix(b.Edit, "retyped:") {
			res.Set("type_pairs", strings.TrimPrefix(b.Edit, "retyped:"))
		}
	}
	return track(), fmt.Sprintf("%s|%s|%s|%s", p.Kind, rt, p.TF.Name, strings.Join(roles, "+"))
}
