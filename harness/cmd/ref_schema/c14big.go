package main

import (
	"fmt"
	"time"

	"github.com/alpacahq/marketstore/v4/utils/io"
	"github.com/alpacahq/marketstore/v4/verif/internal/ms"
	"github.com/alpacahq/marketstore/v4/verif/internal/runner"
)

// c14big: the "rejected request changes nothing" clause for a bulk load. One request names a bucket with
// ~6 MB of rows and a bucket whose columns do not match; it must be rejected and, after an unrelated
// write (which flushes whatever is queued), no bucket it names may hold any of its rows. The request is
// repeated with fresh rows (the writer visits the buckets of a request in map order) up to four times.
func c14big(c *runner.Ctx, in *ms.Inst, res *runner.Result) {
	const nBig = 110000 // x (8 epoch + 6 x 8) bytes > 6 MB
	tf := time.Minute
	base := time.Date(2019, 2, 1, 0, 0, 0, 0, time.UTC)
	bigKey, badKey, otherKey := "BULK/1Min/B6", "BULKBAD/1Min/B2", "BULKOTHER/1Min/B1"
	names := []string{"A", "B", "C", "D", "E", "F"}
	mkBig := func(first int64, n int, seed int64) *io.ColumnSeries {
		ep := make([]int64, n)
		for i := range ep {
			ep[i] = base.Unix() + (first+int64(i))*60
		}
		cols := []ms.Col{}
		for k, nm := range names {
			v := make([]int64, n)
			for i := range v {
				v[i] = seed*1_000_000_000 + int64(k)*100_000_000 + first + int64(i)
			}
			cols = append(cols, ms.Col{Name: nm, Data: v})
		}
		return ms.CS(ep, cols...)
	}
	// set-up: three rows in each bucket
	setup := func(key string, cs *io.ColumnSeries) bool {
		var err error
		if pn := ms.Recover(func() { err = in.Write(key, cs, false) }); pn != "" || err != nil {
			res.Inconclusive(fmt.Sprintf("bulk scenario: set-up write to %s failed: %v %s", key, err, pn))
			return false
		}
		return true
	}
	if !setup(bigKey, mkBig(0, 3, 1)) ||
		!setup(badKey, ms.CS([]int64{base.Unix(), base.Unix() + 60}, ms.Col{Name: "Open", Data: []float32{1, 2}}, ms.Col{Name: "Close", Data: []float32{3, 4}})) ||
		!setup(otherKey, ms.CS([]int64{base.Unix()}, ms.Col{Name: "X", Data: []int32{1}})) {
		return
	}
	from, to := base.Add(-tf), base.Add(time.Duration(5*nBig)*tf)
	before := map[string]*ms.Table{}
	for _, k := range []string{bigKey, badKey} {
		t, prob := snapshot(in, k, from, to)
		if prob != "" || t.N == 0 {
			res.Inconclusive("bulk scenario: set-up rows did not read back: " + prob)
			return
		}
		before[k] = t
	}
	for attempt := 0; attempt < 4; attempt++ {
		first := int64(10 + attempt*(nBig+10))
		csm := io.NewColumnSeriesMap()
		csm.AddColumnSeries(*ms.TBK(bigKey), mkBig(first, nBig, int64(attempt+2)))
		// the other bucket of the request: column "Last" instead of "Close"
		csm.AddColumnSeries(*ms.TBK(badKey), ms.CS([]int64{base.Unix() + 600, base.Unix() + 660, base.Unix() + 720},
			ms.Col{Name: "Open", Data: []float32{5, 6, 7}}, ms.Col{Name: "Last", Data: []float32{8, 9, 10}}))
		var err error
		pn := ms.Recover(func() { err = in.W.WriteCSM(csm, false) })
		res.Count("bulk_requests", 1)
		if pn != "" {
			res.Violation("bulk request with a mismatching bucket panicked: "+pn, nil)
			return
		}
		if err == nil {
			res.Violation(fmt.Sprintf("a request naming %s (%d rows) and %s with column Last instead of Close was accepted", bigKey, nBig, badKey), nil)
			return
		}
		// an unrelated write flushes whatever the rejected request may have left queued
		var err2 error
		if pn := ms.Recover(func() {
			err2 = in.Write(otherKey, ms.CS([]int64{base.Unix() + int64(attempt+1)*60}, ms.Col{Name: "X", Data: []int32{int32(attempt)}}), false)
		}); pn != "" || err2 != nil {
			res.Inconclusive(fmt.Sprintf("bulk scenario: unrelated write failed: %v %s", err2, pn))
			return
		}
		for _, k := range []string{bigKey, badKey} {
			t, prob := snapshot(in, k, from, to)
			if prob != "" {
				res.Violation("bulk scenario: "+prob, nil)
				return
			}
			res.Count("bulk_rejected_request_bucket_checks", 1)
			if d := sameTables(before[k], t); d != "" {
				res.Violation(fmt.Sprintf("the request (%s: %d rows, %s: columns Open,Last) was rejected with %q, yet after the next unrelated write bucket %s changed: %d rows before, %d rows after (%s)",
					bigKey, nBig, badKey, err.Error(), k, before[k].N, t.N, d), map[string]interface{}{"attempt": attempt, "rows_after_head": t.Dump(6)})
				return
			}
		}
	}
}
