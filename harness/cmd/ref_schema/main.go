// ref_schema: differential monitors on the public API for the schema properties C14, C15 (see DESIGN.md 3.2).
// Real instances on scratch directories, generated schema pairs; built with checkptr (quick) / -race (thorough).
// One file per property; each registers its monitor in init().
package main

import (
	"github.com/alpacahq/marketstore/v4/verif/internal/runner"
)

var monitors []*runner.Monitor

func register(m *runner.Monitor) { monitors = append(monitors, m) }

func main() { runner.Main(monitors...) }
