package main

// C15 Bucket schema is preserved across restarts.
//
// Real code driven: DataService.Create, GRPCService.Create and first-write auto-creation
// (Writer.WriteCSM) on a real instance; later writes through Writer.WriteCSM; the restart is a second
// ms.Open on the same root (catalog load + replay of the old WAL, as cmd/start does); observers are
// DataService.GetInfo, catalog.GetLatestTimeBucketInfoFromKey and the column names of a query result.
//
// Oracle (from the property text only): a creation either is rejected (error, no panic, and the
// bucket does not exist with another schema afterwards) or, after every later restart - whatever was
// written in between - the reported column names, element types, timeframe and record type are exactly
// the requested ones, and the reloaded schema is the one enforced: a write with exactly the created
// columns is accepted, writes with a renamed / missing / extra column are rejected.
//
// Known findings (as-is models):
//   F-NAME32   trigger: some column name is longer than 32 bytes. As-is: creation succeeds; the
//              reported names are the first 32 bytes of the requested ones, everything else exact; a
//              write with the requested names is rejected, one with the truncated names accepted.
//              Second trigger: a name of >= 256 bytes went through the WAL (first-write creation):
//              as-is the restart panics in WAL replay (1-byte name length).
//   F-JAN1     trigger (large-record variant): 1D, fixed records, a row on January 1 was written and
//              Headersize - recordLength < offset of the last used element-type byte. As-is: the
//              record (8-byte index + fields, bucket order, little endian) is written at file offset
//              Headersize - recordLength, i.e. over the element names/types of the year file; the
//              schema reported after a restart is the header with exactly those bytes overlaid.
//   F-DSVLEN   trigger: a bucket with >= 255 data columns (>= 256 shapes with Epoch) was written
//              before the restart, with (shapes % 256 == 0) or a request that produced >= 2 write
//              commands. As-is: the restart panics in WAL replay (1-byte shape count).
//   F-COLS1025 trigger: more than 1024 data columns. As-is: creation panics with "index out of
//              range [1024]" instead of being rejected and leaves a zero-length year file, which makes
//              the server exit (log.Fatal) on the first catalog access to that bucket after a restart.

import (
	"bytes"
	"context"
	"fmt"
	"os"
	"path/filepath"
	"strings"
	"time"

	"github.com/alpacahq/marketstore/v4/catalog"
	"github.com/alpacahq/marketstore/v4/frontend"
	"github.com/alpacahq/marketstore/v4/proto"
	"github.com/alpacahq/marketstore/v4/utils/io"
	"github.com/alpacahq/marketstore/v4/verif/internal/gen"
	"github.com/alpacahq/marketstore/v4/verif/internal/ms"
	"github.com/alpacahq/marketstore/v4/verif/internal/runner"
)

func init() {
	register(&runner.Monitor{
		ID:    "C15",
		Level: "exploration",
		Rule: "case = one bucket: stratum by case%10 (0-4 small schemas within the format limits, 5 column counts 255/256/1024 and neighbours, 6-7 a name longer than 32 bytes, " +
			"8 large 1D record written on January 1 / many-column bucket written with several rows, 9 more than 1024 columns) x creation path (DataService.Create, GRPCService.Create, first write) " +
			"x 10 timeframes x fixed/variable x name lengths {1,31,32,33,64,255,256,300,random} ASCII and multi-byte x the 10 element types; then exact-schema writes (first, second and last interval of the year, random ones), " +
			"restart, report + enforcement checks, more writes, second restart, report check. Non-trivial = the creation was accepted (or hit a known defect) and at least one report after a restart was compared; " +
			"signature = stratum/path/timeframe/record type/column-count class/name-length class/outcome.",
		Assumptions: []string{
			"data years are 2040-2079 so that the year file written is the latest one whatever the wall-clock year used by Create",
			"instance timezone UTC",
			"buckets with >= 256 shapes are written one row per request outside the F-DSVLEN stratum (and not at all before the last restart when shapes % 256 == 0), so that WAL replay defects (C06/C28) do not mask the schema check",
		},
		Cases: func(tier string) int {
			if tier == "thorough" {
				return 2000
			}
			return 250
		},
		Batch:        5,
		BatchTimeout: 45 * time.Minute,
		ChildEnv:     []string{"GOGC=400"},
		Run:          c15run,
		MinDistinct:  30,
		Need:         []string{"creations_accepted", "reports_compared", "restarts", "enforcement_probes", "exact_writes_after_restart"},
	})
}

const (
	c15HeaderSize  = 37024
	c15NamesOff    = 312
	c15TypesOff    = 312 + 1024*32
	c15MaxElements = 1024
)

type c15plan struct {
	Stratum    string
	Path       string // ds | grpc | write
	TF         tfSpec
	Variable   bool
	Cols       []scol
	Year       int
	Multibyte  bool
	Pre        [][]int64 // write requests (epochs) before the first restart; Pre[0] is the creating write for Path=="write"
	Post       []int64   // exact-schema write after the first restart (nil: deferred to Final)
	Final      []int64   // exact-schema write after the last restart
	TwoRestart bool
	Key        string
}

func c15name(r *gen.R, i, n, length int, multibyte, distinctAtEnd bool) string {
	if length == 1 {
		return string("ABCDEFGHIJKLMNOPQRSTUVWXYZabcdfghijklmopqrstuvwxyz"[i%50])
	}
	tag := fmt.Sprintf("k%d", i)
	if n <= 10 && length < 4 {
		tag = fmt.Sprint(i)
	}
	fill := []string{"x"}
	if multibyte {
		fill = []string{"é", "漢", "😀", "ß", "q"}
	}
	var sb strings.Builder
	if !distinctAtEnd {
		sb.WriteString(tag)
		sb.WriteByte('_')
	}
	limit := length
	if distinctAtEnd {
		limit = length - len(tag) - 1
	}
	for sb.Len() < limit {
		f := fill[r.Intn(len(fill))]
		if distinctAtEnd {
			f = fill[sb.Len()%len(fill)] // identical prefix for every column
		}
		if sb.Len()+len(f) > limit {
			f = "y"
		}
		sb.WriteString(f)
	}
	s := sb.String()
	if distinctAtEnd {
		return s + "_" + tag
	}
	if len(s) > length {
		s = s[:length] // only possible when the tag alone exceeds the length
	}
	return s
}

func c15makePlan(c *runner.Ctx) *c15plan {
	r := c.R("plan")
	p := &c15plan{Key: "SYM"}
	s := c.Case % 10
	g := c.Case / 10
	p.TF = allTFs[(g+s*3)%10]
	p.Variable = r.P(1, 3)
	p.Path = []string{"ds", "write", "grpc"}[(g+s)%3]
	p.Year = 2040 + r.Intn(40)
	p.Multibyte = r.P(1, 3)
	p.TwoRestart = g%4 == 0
	var n int
	nameLen := func(i int) int { return r.PickI(1, 31, 32, 2+r.Intn(29), 5+r.Intn(20)) }
	distinctAtEnd := false
	switch {
	case s <= 4:
		p.Stratum = "ideal"
		n = r.PickI(1, 2, 2+r.Intn(7), 3+r.Intn(6), 9+r.Intn(60))
	case s == 5:
		p.Stratum = "ideal-wide"
		n = r.PickI(255, 256, 1024, 254, 257, 511, 512, 1023, 300+r.Intn(700))
	case s == 6 || s == 7:
		p.Stratum = "name32"
		n = r.PickI(1, 2, 3+r.Intn(6), 10+r.Intn(30))
		long := r.PickI(33, 64, 255, 256, 300, 33+r.Intn(200))
		which := r.Intn(n)
		all := r.P(1, 4)
		distinctAtEnd = r.P(1, 4) && n > 1
		nameLen = func(i int) int {
			if i == which || all || distinctAtEnd {
				return long
			}
			return r.PickI(1, 31, 32, 5+r.Intn(20))
		}
	case s == 8 && g%2 == 0:
		p.Stratum = "jan1-large"
		p.TF = allTFs[9]
		p.Variable = false
		n = r.PickI(1024, 600+r.Intn(400), 450+r.Intn(60))
		if (n+1)%256 == 0 {
			n++
		}
	case s == 8:
		p.Stratum = "dsvlen"
		n = r.PickI(255, 256, 300, 1024, 511)
	default:
		p.Stratum = "cols1025"
		n = r.PickI(1025, 1026, 1100, 2000)
	}
	if n > 20 {
		old := nameLen
		nameLen = func(i int) int {
			l := old(i)
			if l < 6 {
				l = 6 + r.Intn(10)
			}
			return l
		}
	}
	seen := map[string]bool{}
	for i := 0; i < n; i++ {
		t := ets[r.Intn(len(ets))]
		if p.Stratum == "jan1-large" && !r.P(1, 8) {
			t = ets[r.PickI(3, 7, 9)] // mostly 8-byte columns so that the record reaches the header
		}
		var name string
		for try := 0; ; try++ {
			name = c15name(r, i, n, nameLen(i), p.Multibyte, distinctAtEnd)
			if !seen[name] && !strings.EqualFold(name, "Epoch") && !strings.EqualFold(name, "Nanoseconds") {
				break
			}
			if try > 20 {
				name = fmt.Sprintf("k%d_%d", i, try)
			}
		}
		seen[name] = true
		p.Cols = append(p.Cols, scol{name, t})
	}
	if p.Stratum == "jan1-large" && !c15reachesHeader(p.Cols) {
		for i := range p.Cols {
			p.Cols[i].T = ets[3]
		}
	}

	// writes
	shapes := n + 1
	wide := shapes >= 256
	noWAL := wide && shapes%256 == 0 && p.Stratum != "dsvlen" // any accepted write would break the next restart
	if noWAL && p.Path == "write" {
		p.Path = "ds"
	}
	yearStart := time.Date(p.Year, 1, 1, 0, 0, 0, 0, time.UTC)
	yearEnd := time.Date(p.Year+1, 1, 1, 0, 0, 0, 0, time.UTC)
	nIv := int64(yearEnd.Sub(yearStart) / p.TF.D)
	used := map[int64]bool{}
	iv := func(k int64) int64 { used[k] = true; return yearStart.Unix() + k*int64(p.TF.D/time.Second) }
	randIv := func() int64 {
		for {
			k := 2 + r.I64n(nIv-4)
			if !used[k] {
				return iv(k)
			}
		}
	}
	jan1OK := !(p.TF.Name == "1D" && !p.Variable && c15reachesHeader(p.Cols))
	batch := func(maxRows int, allowJan1 bool) []int64 {
		var es []int64
		if allowJan1 && jan1OK && !used[0] && r.P(2, 3) {
			es = append(es, iv(0))
		}
		if maxRows > 1 && !used[1] && r.P(1, 2) {
			es = append(es, iv(1))
		}
		m := 1 + r.Intn(3)
		for i := 0; i < m && len(es) < maxRows; i++ {
			es = append(es, randIv())
		}
		if len(es) < maxRows && !used[nIv-1] && r.P(1, 2) {
			es = append(es, iv(nIv-1))
		}
		sortI64(es)
		return es
	}
	maxRows := 5
	if wide {
		maxRows = 1
	}
	switch p.Stratum {
	case "jan1-large":
		p.Pre = [][]int64{{iv(0)}}
	case "dsvlen":
		p.Pre = [][]int64{{randIv(), randIv(), randIv()}}
		sortI64(p.Pre[0])
	default:
		if !noWAL {
			nb := 1 + r.Intn(2)
			for i := 0; i < nb; i++ {
				p.Pre = append(p.Pre, batch(maxRows, true))
			}
			p.Post = batch(maxRows, true)
		}
		p.Final = batch(maxRows, true)
	}
	return p
}

func sortI64(x []int64) {
	for i := 1; i < len(x); i++ {
		for j := i; j > 0 && x[j] < x[j-1]; j-- {
			x[j], x[j-1] = x[j-1], x[j]
		}
	}
}

func c15fieldLen(cols []scol) int {
	l := 0
	for _, c := range cols {
		l += c.T.Size
	}
	return l
}

func c15recLen(cols []scol) int { return (c15fieldLen(cols)+7)/8*8 + 8 }

// c15reachesHeader: would a fixed record at slot 0 of a 1D file overlap a used name or type byte?
func c15reachesHeader(cols []scol) bool {
	return c15HeaderSize-c15recLen(cols) < c15TypesOff+len(cols)
}

// c15report is what an observer says about the bucket's schema.
type c15report struct {
	Names []string
	Types []io.EnumElementType
	TF    time.Duration
	RT    io.EnumRecordType
}

func (p *c15plan) ideal() c15report {
	rep := c15report{TF: p.TF.D, RT: io.FIXED}
	if p.Variable {
		rep.RT = io.VARIABLE
	}
	for _, c := range p.Cols {
		rep.Names = append(rep.Names, c.Name)
		rep.Types = append(rep.Types, c.T.T)
	}
	return rep
}

func (a c15report) diff(b c15report) string {
	if a.TF != b.TF {
		return fmt.Sprintf("timeframe %v, created with %v", a.TF, b.TF)
	}
	if a.RT != b.RT {
		return fmt.Sprintf("record type %v, created with %v", a.RT, b.RT)
	}
	if len(a.Names) != len(b.Names) {
		return fmt.Sprintf("%d columns, created with %d", len(a.Names), len(b.Names))
	}
	for i := range a.Names {
		if a.Names[i] != b.Names[i] {
			return fmt.Sprintf("column %d is named %q (%d bytes), created as %q (%d bytes)", i, clip(a.Names[i]), len(a.Names[i]), clip(b.Names[i]), len(b.Names[i]))
		}
		if a.Types[i] != b.Types[i] {
			return fmt.Sprintf("column %d (%q) has type %s, created as %s", i, clip(a.Names[i]), etOf(a.Types[i]).Str, etOf(b.Types[i]).Str)
		}
	}
	return ""
}

func clip(s string) string {
	if len(s) > 48 {
		return s[:40] + "..."
	}
	return s
}

func truncated(rep c15report) c15report {
	out := rep
	out.Names = nil
	for _, n := range rep.Names {
		if len(n) > 32 {
			n = n[:32]
		}
		out.Names = append(out.Names, n)
	}
	return out
}

// overlayJan1: as-is model of F-JAN1: lay the record written at slot 0 over the header image.
func overlayJan1(rep c15report, cols []scol, row []interface{}) c15report {
	img := make([]byte, c15HeaderSize)
	for i, n := range rep.Names {
		copy(img[c15NamesOff+32*i:c15NamesOff+32*i+32], n)
	}
	for i, t := range rep.Types {
		img[c15TypesOff+i] = byte(t)
	}
	rec := make([]byte, 8) // the slot index (0) replaces the Epoch
	for _, cell := range row {
		rec = append(rec, leBytes(cell)...)
	}
	copy(img[c15HeaderSize-c15recLen(cols):], rec)
	out := c15report{TF: rep.TF, RT: rep.RT}
	for i := range rep.Names {
		out.Names = append(out.Names, string(bytes.Trim(img[c15NamesOff+32*i:c15NamesOff+32*i+32], "\x00")))
		out.Types = append(out.Types, io.EnumElementType(img[c15TypesOff+i]))
	}
	return out
}

func stripEpoch(dsv []io.DataShape) (names []string, types []io.EnumElementType, ok bool) {
	if len(dsv) == 0 || dsv[0].Name != "Epoch" || dsv[0].Type != io.INT64 {
		return nil, nil, false
	}
	for _, d := range dsv[1:] {
		names = append(names, d.Name)
		types = append(types, d.Type)
	}
	return names, types, true
}

func c15getInfo(ds *frontend.DataService, key string) (rep c15report, errText, panicText string) {
	var resp frontend.MultiGetInfoResponse
	panicText = ms.Recover(func() {
		if err := ds.GetInfo(nil, &frontend.MultiKeyRequest{Requests: []frontend.KeyRequest{{Key: key}}}, &resp); err != nil {
			errText = err.Error()
		}
	})
	if panicText != "" || errText != "" {
		return
	}
	if len(resp.Responses) != 1 {
		return rep, fmt.Sprintf("%d responses", len(resp.Responses)), ""
	}
	x := resp.Responses[0]
	if x.ServerResp.Error != "" {
		return rep, x.ServerResp.Error, ""
	}
	names, types, ok := stripEpoch(x.DSV)
	if !ok {
		return rep, "GetInfo: first shape is not Epoch INT64", ""
	}
	return c15report{names, types, x.TimeFrame, x.RecordType}, "", ""
}

func c15catalogInfo(cat *catalog.Directory, key string) (rep c15report, errText, panicText string) {
	panicText = ms.Recover(func() {
		tbi, err := cat.GetLatestTimeBucketInfoFromKey(ms.TBK(key))
		if err != nil {
			errText = err.Error()
			return
		}
		rep = c15report{append([]string{}, tbi.GetElementNames()...), append([]io.EnumElementType{}, tbi.GetElementTypes()...), tbi.GetTimeframe(), tbi.GetRecordType()}
		names, types, ok := stripEpoch(tbi.GetDataShapesWithEpoch())
		if !ok || strings.Join(names, "\x00") != strings.Join(rep.Names, "\x00") || len(types) != len(rep.Types) {
			errText = "GetDataShapesWithEpoch disagrees with GetElementNames"
		}
	})
	return
}

// shortBinFiles lists year files smaller than a header: the catalog exits the process (log.Fatal)
// when it reads one, so the monitor must not touch them through the real code.
func shortBinFiles(root string) []string {
	var out []string
	filepath.Walk(root, func(path string, info os.FileInfo, err error) error {
		if err == nil && !info.IsDir() && strings.HasSuffix(path, ".bin") && info.Size() < c15HeaderSize {
			rel, _ := filepath.Rel(root, path)
			out = append(out, fmt.Sprintf("%s (%d bytes)", rel, info.Size()))
		}
		return nil
	})
	return out
}

type c15state struct {
	c       *runner.Ctx
	p       *c15plan
	res     *runner.Result
	r       *gen.R
	key     string
	desc    map[string]interface{}
	jan1Row []interface{} // cells of the row written at slot 0 of a 1D fixed bucket (last one)
	walWide bool          // an accepted write that trips F-DSVLEN went through the WAL
	wal256  bool          // a name of >= 256 bytes went through the WAL
	known   map[string]bool
	mid     int64 // an accepted mid-year epoch (for the query observer)
	log     []string
}

func (s *c15state) knownOnce(id, detail string, w map[string]interface{}) {
	if s.known[id] {
		return
	}
	s.known[id] = true
	w["plan"] = s.desc
	w["history"] = s.log
	s.res.Known(id, detail, w)
}

func (s *c15state) violation(detail string, w map[string]interface{}) {
	if w == nil {
		w = map[string]interface{}{}
	}
	w["plan"] = s.desc
	w["history"] = s.log
	s.res.Violation(detail, w)
}

// write sends one request with the given columns (names/types) and random cells.
func (s *c15state) write(in *ms.Inst, cols []scol, epochs []int64) (err error, panicText string, cells [][]interface{}) {
	names := make([]string, len(cols))
	data := make([]interface{}, len(cols))
	cells = make([][]interface{}, len(epochs))
	for i := range cells {
		cells[i] = make([]interface{}, len(cols))
	}
	for j, c := range cols {
		cs := make([]interface{}, len(epochs))
		for i := range cs {
			cs[i] = randCell(s.r, c.T)
			cells[i][j] = cs[i]
		}
		names[j] = c.Name
		data[j] = newCol(c.T, cs)
	}
	panicText = ms.Recover(func() { err = in.Write(s.key, buildCS(epochs, names, data, 0, s.p.Variable), s.p.Variable) })
	return err, panicText, cells
}

// noteAccepted records the side conditions of an accepted exact-schema write.
func (s *c15state) noteAccepted(cols []scol, epochs []int64, cells [][]interface{}) {
	p := s.p
	yearStart := time.Date(p.Year, 1, 1, 0, 0, 0, 0, time.UTC).Unix()
	for i, e := range epochs {
		if e == yearStart && p.TF.Name == "1D" && !p.Variable {
			s.jan1Row = cells[i]
		} else if e != yearStart {
			s.mid = e
		}
	}
	shapes := len(cols) + 1
	if shapes >= 256 && (shapes%256 == 0 || len(epochs) >= 2) {
		s.walWide = true
	}
	for _, c := range cols {
		if len(c.Name) >= 256 {
			s.wal256 = true
		}
	}
}

func (p *c15plan) trigName32() bool {
	for _, c := range p.Cols {
		if len(c.Name) > 32 {
			return true
		}
	}
	return false
}

// judgeReport compares one observer's report with the ideal and the as-is models.
// Returns "ideal", "known" or "violation".
func (s *c15state) judgeReport(who string, rep c15report) string {
	p := s.p
	ideal := p.ideal()
	s.res.Count("reports_compared", 1)
	d := rep.diff(ideal)
	if d == "" {
		return "ideal"
	}
	trigJan := s.jan1Row != nil && c15reachesHeader(p.Cols)
	w := map[string]interface{}{"observer": who, "difference": d}
	if p.trigName32() {
		if rep.diff(truncated(ideal)) == "" {
			s.knownOnce("F-NAME32", fmt.Sprintf("%s after restart: %s (names cut to 32 bytes in the file header)", who, d), w)
			return "known"
		}
	}
	if trigJan {
		if rep.diff(overlayJan1(ideal, p.Cols, s.jan1Row)) == "" {
			s.knownOnce("F-JAN1", fmt.Sprintf("%s after restart: %s (the %d-byte record written for January 1 lies over the header of the 1D year file)", who, d, c15recLen(p.Cols)), w)
			return "known"
		}
		if p.trigName32() && rep.diff(overlayJan1(truncated(ideal), p.Cols, s.jan1Row)) == "" {
			s.knownOnce("F-NAME32", fmt.Sprintf("%s after restart: %s", who, d), w)
			s.knownOnce("F-JAN1", fmt.Sprintf("%s after restart: %s", who, d), w)
			return "known"
		}
	}
	s.violation(fmt.Sprintf("%s after restart reports a schema other than the one created: %s", who, d), w)
	return "violation"
}

func c15describe(p *c15plan) map[string]interface{} {
	maxLen, minLen := 0, 1<<30
	for _, c := range p.Cols {
		if len(c.Name) > maxLen {
			maxLen = len(c.Name)
		}
		if len(c.Name) < minLen {
			minLen = len(c.Name)
		}
	}
	cols := p.Cols
	if len(cols) > 12 {
		cols = cols[:12]
	}
	return map[string]interface{}{
		"stratum": p.Stratum, "creation_path": p.Path, "timeframe": p.TF.Name, "variable_length": p.Variable,
		"columns": len(p.Cols), "first_columns": schemaString(cols), "name_bytes_min_max": []int{minLen, maxLen}, "multibyte_names": p.Multibyte,
		"record_length": c15recLen(p.Cols), "data_year": p.Year, "writes_before_restart": p.Pre, "write_after_restart": p.Post, "final_write": p.Final,
	}
}

func c15run(c *runner.Ctx) (res runner.Result) {
	ms.Quiet()
	p := c15makePlan(c)
	s := &c15state{c: c, p: p, res: &res, r: c.R("values"), known: map[string]bool{}}
	s.key = fmt.Sprintf("%s/%s/G", p.Key, p.TF.Name)
	s.desc = c15describe(p)
	if c.Case < 10 && (c.Case == 0 || c.Case == 5 || c.Case == 6 || c.Case == 8) {
		res.Sample = s.desc
	}
	root := c.Scratch + "/root"
	var in *ms.Inst
	if pn := ms.Recover(func() { in = ms.Open(root, ms.Opts{}) }); pn != "" {
		res.Inconclusive("cannot open an empty instance: " + pn)
		return res
	}
	insts := []*ms.Inst{in}
	defer func() {
		for _, x := range insts {
			releaseInst(x)
		}
	}()
	outcome := "ideal"
	defer func() {
		if res.Sig != "" {
			res.Sig += "|" + outcome
		}
	}()
	setSig := func() {
		rt := "fixed"
		if p.Variable {
			rt = "variable"
		}
		n := len(p.Cols)
		var nc string
		switch {
		case n <= 2:
			nc = fmt.Sprint(n)
		case n <= 8:
			nc = "3-8"
		case n < 255:
			nc = "9-254"
		case n <= 257:
			nc = fmt.Sprint(n)
		case n < 1024:
			nc = "258-1023"
		case n == 1024:
			nc = "1024"
		default:
			nc = ">1024"
		}
		maxLen := 0
		for _, col := range p.Cols {
			if len(col.Name) > maxLen {
				maxLen = len(col.Name)
			}
		}
		var nl string
		switch {
		case maxLen < 31:
			nl = "<31"
		case maxLen <= 33:
			nl = fmt.Sprint(maxLen)
		case maxLen < 255:
			nl = "34-254"
		case maxLen <= 256:
			nl = fmt.Sprint(maxLen)
		default:
			nl = ">256"
		}
		if p.Multibyte {
			nl += "mb"
		}
		res.Sig = fmt.Sprintf("%s|%s|%s|%s|n%s|len%s", p.Stratum, p.Path, p.TF.Name, rt, nc, nl)
		res.Set("timeframes", p.TF.Name)
		res.Set("paths", p.Path)
		res.Set("column_counts", nc)
		res.Set("name_lengths", nl)
		for _, col := range p.Cols {
			res.Set("types", col.T.Str)
		}
	}

	// ---- creation
	var cerr, cpanic string
	pre := p.Pre
	switch p.Path {
	case "ds":
		cerr, cpanic = dsCreate(in, s.key, p.Cols, p.Variable)
		s.log = append(s.log, fmt.Sprintf("DataService.Create -> err=%q panic=%q", cerr, cpanic))
	case "grpc":
		var shapes []*proto.DataShape
		for _, col := range p.Cols {
			shapes = append(shapes, &proto.DataShape{Name: col.Name, Type: col.T.Str})
		}
		rowType := "fixed"
		if p.Variable {
			rowType = "variable"
		}
		cpanic = ms.Recover(func() {
			resp, err := in.C.GetGRPCService().Create(context.Background(), &proto.MultiCreateRequest{Requests: []*proto.CreateRequest{{Key: s.key, DataShapes: shapes, RowType: rowType}}})
			if err != nil {
				cerr = err.Error()
			} else if len(resp.Responses) != 1 {
				cerr = fmt.Sprintf("%d responses", len(resp.Responses))
			} else {
				cerr = resp.Responses[0].Error
			}
		})
		s.log = append(s.log, fmt.Sprintf("GRPCService.Create -> err=%q panic=%q", cerr, cpanic))
	default:
		if len(pre) == 0 {
			pre = [][]int64{p.Final}
		}
		err, pn, cells := s.write(in, p.Cols, pre[0])
		if err != nil {
			cerr = err.Error()
		}
		cpanic = pn
		s.log = append(s.log, fmt.Sprintf("first write %v -> err=%q panic=%q", pre[0], cerr, cpanic))
		if err == nil && pn == "" {
			s.noteAccepted(p.Cols, pre[0], cells)
		}
		pre = pre[1:]
	}
	if cpanic != "" {
		short := shortBinFiles(root)
		if len(p.Cols) > c15MaxElements && strings.Contains(cpanic, "index out of range [1024]") {
			setSig()
			outcome = "F-COLS1025"
			d := fmt.Sprintf("creating a bucket with %d columns panics (%s) instead of being rejected", len(p.Cols), cpanic)
			if len(short) > 0 {
				d += fmt.Sprintf("; it leaves %v behind, which makes the server exit on the first catalog access to the bucket after a restart", short)
			}
			s.knownOnce("F-COLS1025", d, map[string]interface{}{"panic": cpanic, "files_left": short})
			return res
		}
		s.violation("creation panicked: "+cpanic, map[string]interface{}{"files_left": short})
		return res
	}
	if cerr != "" {
		// rejected: the bucket must not exist with another schema after a restart
		res.Count("creations_rejected", 1)
		if short := shortBinFiles(root); len(short) > 0 {
			s.violation("a rejected creation left a truncated year file behind: "+strings.Join(short, ", "), nil)
			return res
		}
		cat, err := catalog.NewDirectory(root)
		if err == nil {
			if rep, e, pn := c15catalogInfo(cat, s.key); e == "" && pn == "" {
				if d := rep.diff(p.ideal()); d != "" {
					s.violation(fmt.Sprintf("creation was rejected (%s) but after a catalog reload the bucket exists with a different schema: %s", cerr, d), nil)
				}
			}
		}
		return res
	}
	res.Count("creations_accepted", 1)
	setSig()

	// ---- writes before the first restart (outcomes are history, the property speaks about the restart)
	for _, b := range pre {
		err, pn, cells := s.write(in, p.Cols, b)
		s.log = append(s.log, fmt.Sprintf("write %v -> err=%v panic=%q", b, err, pn))
		if pn != "" {
			s.violation("an exact-schema write panicked: "+pn, nil)
			return res
		}
		if err == nil {
			s.noteAccepted(p.Cols, b, cells)
			res.Count("writes_before_restart", 1)
		} else {
			res.Count("writes_before_restart_rejected", 1)
		}
	}

	// ---- restart + checks, up to twice
	rounds := 1
	if p.TwoRestart && p.Post != nil {
		rounds = 2
	}
	cur := in
	for round := 1; round <= rounds; round++ {
		if short := shortBinFiles(root); len(short) > 0 {
			s.violation("year file shorter than a header after accepted operations: "+strings.Join(short, ", "), nil)
			return res
		}
		var in2 *ms.Inst
		pn := ms.Recover(func() { in2 = ms.Open(root, ms.Opts{}) })
		s.log = append(s.log, fmt.Sprintf("restart %d -> panic=%q", round, pn))
		res.Count("restarts", 1)
		if pn != "" {
			switch {
			case s.walWide:
				outcome = "F-DSVLEN"
				s.knownOnce("F-DSVLEN", fmt.Sprintf("restart panics in WAL replay after writes to a bucket with %d shapes: %s", len(p.Cols)+1, pn), map[string]interface{}{"panic": pn})
			case s.wal256:
				outcome = "F-NAME32"
				s.knownOnce("F-NAME32", "restart panics in WAL replay after a first write with a column name of >= 256 bytes: "+pn, map[string]interface{}{"panic": pn})
			default:
				s.violation("restart (ms.Open on the same root) panicked: "+pn, nil)
				return res
			}
			// the server cannot come up; still look at what the files say through a fresh catalog
			cat, err := catalog.NewDirectory(root)
			if err != nil {
				s.violation("catalog reload failed: "+err.Error(), nil)
				return res
			}
			rep, e, cp := c15catalogInfo(cat, s.key)
			if e != "" || cp != "" {
				s.violation(fmt.Sprintf("catalog reload cannot describe the bucket: %s %s", e, cp), nil)
				return res
			}
			s.judgeReport("catalog (fresh NewDirectory)", rep)
			return res
		}
		cur = in2
		insts = append(insts, in2)

		// report
		verdicts := map[string]bool{}
		rep, e, cp := c15getInfo(in2.DS, s.key)
		if e != "" || cp != "" {
			s.violation(fmt.Sprintf("GetInfo after restart failed: %s %s", e, cp), nil)
			return res
		}
		verdicts[s.judgeReport("GetInfo", rep)] = true
		rep, e, cp = c15catalogInfo(in2.Cat, s.key)
		if e != "" || cp != "" {
			s.violation(fmt.Sprintf("catalog after restart failed: %s %s", e, cp), nil)
			return res
		}
		verdicts[s.judgeReport("catalog", rep)] = true
		if verdicts["violation"] {
			outcome = "violation"
			return res
		}
		if s.known["F-JAN1"] {
			outcome = "F-JAN1"
			return res // the header is damaged; nothing further can be attributed
		}
		if s.mid != 0 && !verdicts["known"] {
			t := time.Unix(s.mid, 0).UTC()
			var tb *ms.Table
			var qerr error
			qp := ms.Recover(func() { tb, qerr = in2.Query(s.key, t, t, 0, false, nil) })
			if qp != "" {
				s.violation("query after restart panicked: "+qp, nil)
				return res
			}
			if qerr == nil && tb.N > 0 {
				var names []string
				for _, n := range tb.Names {
					if n != "Epoch" && n != "Nanoseconds" {
						names = append(names, n)
					}
				}
				res.Count("reports_compared", 1)
				if strings.Join(names, "\x00") != strings.Join(p.ideal().Names, "\x00") {
					s.violation(fmt.Sprintf("a query after restart returns columns %v, created as %v", trimS(names, 6), trimS(p.ideal().Names, 6)), nil)
					return res
				}
			}
		}
		if round == rounds && rounds == 2 {
			break // second restart: report only, the final write follows
		}

		// enforcement
		name32 := verdicts["known"] && s.known["F-NAME32"]
		probe := func(what string, cols []scol, wantAccept bool) (accepted bool, ok bool) {
			e := s.probeEpoch()
			err, pn, cells := s.write(in2, cols, []int64{e})
			s.log = append(s.log, fmt.Sprintf("after restart %d: write with %s -> err=%v panic=%q", round, what, err, pn))
			res.Count("enforcement_probes", 1)
			if pn != "" {
				s.violation(fmt.Sprintf("a write with %s panicked after restart: %s", what, pn), nil)
				return false, false
			}
			if err == nil {
				s.noteAccepted(cols, []int64{e}, cells)
			}
			if (err == nil) != wantAccept {
				return err == nil, false
			}
			return err == nil, true
		}
		bad := cloneCols(p.Cols)
		bad[s.r.Intn(len(bad))].Name += "_"
		if _, ok := probe("a renamed column", bad, false); !ok {
			s.violation("after restart a write with a renamed column was accepted by the reloaded schema", nil)
			return res
		}
		i := s.r.Intn(len(p.Cols))
		if _, ok := probe("a missing column", append(cloneCols(p.Cols[:i]), p.Cols[i+1:]...), false); !ok {
			s.violation("after restart a write with a missing column was accepted by the reloaded schema", nil)
			return res
		}
		if _, ok := probe("an extra column", append(cloneCols(p.Cols), scol{"zz_extra", ets[s.r.Intn(len(ets))]}), false); !ok {
			s.violation("after restart a write with an extra column was accepted by the reloaded schema", nil)
			return res
		}
		if p.Post != nil && round == 1 {
			err, pn, cells := s.write(in2, p.Cols, p.Post)
			s.log = append(s.log, fmt.Sprintf("after restart %d: exact-schema write %v -> err=%v panic=%q", round, p.Post, err, pn))
			res.Count("exact_writes_after_restart", 1)
			switch {
			case pn != "":
				s.violation("an exact-schema write panicked after restart: "+pn, nil)
				return res
			case err == nil:
				s.noteAccepted(p.Cols, p.Post, cells)
			case name32:
				// as-is: the requested names no longer match; the truncated ones must
				tr := cloneCols(p.Cols)
				dup := map[string]bool{}
				distinct := true
				for k := range tr {
					if len(tr[k].Name) > 32 {
						tr[k].Name = tr[k].Name[:32]
					}
					if dup[tr[k].Name] {
						distinct = false
					}
					dup[tr[k].Name] = true
				}
				s.knownOnce("F-NAME32", "after restart a write with exactly the created column names is rejected: "+err.Error(), map[string]interface{}{})
				if distinct {
					if acc, _ := probe("the names cut to 32 bytes", tr, true); !acc {
						s.violation("bucket with truncated names accepts neither the created names nor the truncated ones", nil)
						return res
					}
				}
			default:
				s.violation("after restart a write with exactly the created columns is rejected: "+err.Error(), nil)
				return res
			}
		}
		if name32 {
			outcome = "F-NAME32"
		}
	}

	// ---- final exact-schema write on the last instance
	if p.Final != nil && !s.known["F-NAME32"] {
		err, pn, _ := s.write(cur, p.Cols, p.Final)
		s.log = append(s.log, fmt.Sprintf("final exact-schema write %v -> err=%v panic=%q", p.Final, err, pn))
		res.Count("exact_writes_after_restart", 1)
		if pn != "" {
			s.violation("an exact-schema write panicked after restart: "+pn, nil)
		} else if err != nil {
			s.violation("after restart a write with exactly the created columns is rejected: "+err.Error(), nil)
		}
	}
	return res
}

// probeEpoch returns a fresh mid-year interval start for enforcement probes.
func (s *c15state) probeEpoch() int64 {
	p := s.p
	yearStart := time.Date(p.Year, 1, 1, 0, 0, 0, 0, time.UTC)
	yearEnd := time.Date(p.Year+1, 1, 1, 0, 0, 0, 0, time.UTC)
	nIv := int64(yearEnd.Sub(yearStart) / p.TF.D)
	k := 2 + s.r.I64n(nIv-4)
	return yearStart.Unix() + k*int64(p.TF.D/time.Second)
}
