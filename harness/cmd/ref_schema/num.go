package main

// Numeric helpers shared by C14 and C15: typed column construction, the reference model of
// "standard numeric conversion" (Go's conversion rules, written from the Go specification, not
// from utils/io/coercecolumn.go), little-endian cell encoding for the as-is models.

import (
	"encoding/binary"
	"fmt"
	"math"
	"reflect"

	"github.com/alpacahq/marketstore/v4/utils/io"
	"github.com/alpacahq/marketstore/v4/verif/internal/gen"
)

// et is one of the ten element types usable in a bucket schema.
type et struct {
	T    io.EnumElementType
	Str  string // numpy type string used by the create APIs
	Size int
	Kind byte // 'i' signed, 'u' unsigned, 'f' float
}

var ets = []et{
	{io.BYTE, "i1", 1, 'i'}, {io.INT16, "i2", 2, 'i'}, {io.INT32, "i4", 4, 'i'}, {io.INT64, "i8", 8, 'i'},
	{io.UINT8, "u1", 1, 'u'}, {io.UINT16, "u2", 2, 'u'}, {io.UINT32, "u4", 4, 'u'}, {io.UINT64, "u8", 8, 'u'},
	{io.FLOAT32, "f4", 4, 'f'}, {io.FLOAT64, "f8", 8, 'f'},
}

func etOf(t io.EnumElementType) et {
	for _, e := range ets {
		if e.T == t {
			return e
		}
	}
	return et{T: t, Str: fmt.Sprintf("?%d", byte(t))}
}

// numv is a widened cell: exactly one of I/U/F is meaningful, by K.
type numv struct {
	K byte
	I int64
	U uint64
	F float64
}

// cellOf reads cell i of a typed slice.
func cellOf(col interface{}, i int) interface{} { return reflect.ValueOf(col).Index(i).Interface() }

func colLen(col interface{}) int { return reflect.ValueOf(col).Len() }

// widen converts a typed scalar to numv without loss.
func widen(x interface{}) numv {
	switch v := x.(type) {
	case int8:
		return numv{K: 'i', I: int64(v)}
	case int16:
		return numv{K: 'i', I: int64(v)}
	case int32:
		return numv{K: 'i', I: int64(v)}
	case int64:
		return numv{K: 'i', I: v}
	case uint8:
		return numv{K: 'u', U: uint64(v)}
	case uint16:
		return numv{K: 'u', U: uint64(v)}
	case uint32:
		return numv{K: 'u', U: uint64(v)}
	case uint64:
		return numv{K: 'u', U: v}
	case float32:
		return numv{K: 'f', F: float64(v)}
	case float64:
		return numv{K: 'f', F: v}
	}
	panic(fmt.Sprintf("widen: unsupported %T", x))
}

// floatToIntDefined: Go defines a float->integer conversion only when the truncated value is
// representable in the target type ("if the value cannot be represented by the type the result is
// implementation-dependent").
func floatToIntDefined(f float64, dst et) bool {
	if math.IsNaN(f) || math.IsInf(f, 0) {
		return false
	}
	t := math.Trunc(f)
	bits := uint(dst.Size * 8)
	if dst.Kind == 'i' {
		lim := math.Ldexp(1, int(bits-1)) // 2^(bits-1)
		return t >= -lim && t < lim
	}
	lim := math.Ldexp(1, int(bits))
	return t >= 0 && t < lim
}

// convRef is the reference conversion of a cell to the element type dst.
// defined=false: Go leaves the result implementation-dependent (only "no panic" is checked).
// alt (non-nil only for 64-bit integer -> float32): the value obtained by converting through float64
// first; both are compositions of standard conversions and the property does not choose between them.
func convRef(x interface{}, dst et) (want interface{}, alt interface{}, defined bool) {
	v := widen(x)
	defined = true
	if v.K == 'f' && dst.Kind != 'f' {
		if !floatToIntDefined(v.F, dst) {
			return nil, nil, false
		}
	}
	switch dst.T {
	case io.BYTE:
		switch v.K {
		case 'i':
			want = int8(v.I)
		case 'u':
			want = int8(v.U)
		default:
			want = int8(v.F)
		}
	case io.INT16:
		switch v.K {
		case 'i':
			want = int16(v.I)
		case 'u':
			want = int16(v.U)
		default:
			want = int16(v.F)
		}
	case io.INT32:
		switch v.K {
		case 'i':
			want = int32(v.I)
		case 'u':
			want = int32(v.U)
		default:
			want = int32(v.F)
		}
	case io.INT64:
		switch v.K {
		case 'i':
			want = v.I
		case 'u':
			want = int64(v.U)
		default:
			want = int64(v.F)
		}
	case io.UINT8:
		switch v.K {
		case 'i':
			want = uint8(v.I)
		case 'u':
			want = uint8(v.U)
		default:
			want = uint8(v.F)
		}
	case io.UINT16:
		switch v.K {
		case 'i':
			want = uint16(v.I)
		case 'u':
			want = uint16(v.U)
		default:
			want = uint16(v.F)
		}
	case io.UINT32:
		switch v.K {
		case 'i':
			want = uint32(v.I)
		case 'u':
			want = uint32(v.U)
		default:
			want = uint32(v.F)
		}
	case io.UINT64:
		switch v.K {
		case 'i':
			want = uint64(v.I)
		case 'u':
			want = v.U
		default:
			want = uint64(v.F)
		}
	case io.FLOAT32:
		switch v.K {
		case 'i':
			want = float32(v.I)
			if a := float32(float64(v.I)); a != want.(float32) {
				alt = a
			}
		case 'u':
			want = float32(v.U)
			if a := float32(float64(v.U)); a != want.(float32) {
				alt = a
			}
		default:
			want = float32(v.F)
		}
	case io.FLOAT64:
		switch v.K {
		case 'i':
			want = float64(v.I)
		case 'u':
			want = float64(v.U)
		default:
			want = v.F
		}
	default:
		panic("convRef: bad type")
	}
	return want, alt, true
}

// sameCell compares two typed scalars of the same Go type: integers by value, floats by bit
// pattern, except that two NaNs are equal when nanAny is set (a conversion may change the payload).
func sameCell(a, b interface{}, nanAny bool) bool {
	if reflect.TypeOf(a) != reflect.TypeOf(b) {
		return false
	}
	switch x := a.(type) {
	case float32:
		y := b.(float32)
		if nanAny && x != x && y != y {
			return true
		}
		return math.Float32bits(x) == math.Float32bits(y)
	case float64:
		y := b.(float64)
		if nanAny && x != x && y != y {
			return true
		}
		return math.Float64bits(x) == math.Float64bits(y)
	}
	return a == b
}

// leBytes is the on-disk (little endian) encoding of a typed scalar.
func leBytes(x interface{}) []byte {
	switch v := x.(type) {
	case int8:
		return []byte{byte(v)}
	case uint8:
		return []byte{v}
	case int16:
		return binary.LittleEndian.AppendUint16(nil, uint16(v))
	case uint16:
		return binary.LittleEndian.AppendUint16(nil, v)
	case int32:
		return binary.LittleEndian.AppendUint32(nil, uint32(v))
	case uint32:
		return binary.LittleEndian.AppendUint32(nil, v)
	case float32:
		return binary.LittleEndian.AppendUint32(nil, math.Float32bits(v))
	case int64:
		return binary.LittleEndian.AppendUint64(nil, uint64(v))
	case uint64:
		return binary.LittleEndian.AppendUint64(nil, v)
	case float64:
		return binary.LittleEndian.AppendUint64(nil, math.Float64bits(v))
	}
	panic(fmt.Sprintf("leBytes: unsupported %T", x))
}

// fromLE decodes one cell of element type t.
func fromLE(b []byte, t et) interface{} {
	switch t.T {
	case io.BYTE:
		return int8(b[0])
	case io.UINT8:
		return b[0]
	case io.INT16:
		return int16(binary.LittleEndian.Uint16(b))
	case io.UINT16:
		return binary.LittleEndian.Uint16(b)
	case io.INT32:
		return int32(binary.LittleEndian.Uint32(b))
	case io.UINT32:
		return binary.LittleEndian.Uint32(b)
	case io.FLOAT32:
		return math.Float32frombits(binary.LittleEndian.Uint32(b))
	case io.INT64:
		return int64(binary.LittleEndian.Uint64(b))
	case io.UINT64:
		return binary.LittleEndian.Uint64(b)
	case io.FLOAT64:
		return math.Float64frombits(binary.LittleEndian.Uint64(b))
	}
	panic("fromLE: bad type")
}

// newCol makes a typed slice of element type t from scalars of the matching Go type.
func newCol(t et, cells []interface{}) interface{} {
	var proto interface{}
	switch t.T {
	case io.BYTE:
		proto = int8(0)
	case io.INT16:
		proto = int16(0)
	case io.INT32:
		proto = int32(0)
	case io.INT64:
		proto = int64(0)
	case io.UINT8:
		proto = uint8(0)
	case io.UINT16:
		proto = uint16(0)
	case io.UINT32:
		proto = uint32(0)
	case io.UINT64:
		proto = uint64(0)
	case io.FLOAT32:
		proto = float32(0)
	case io.FLOAT64:
		proto = float64(0)
	default:
		panic("newCol: bad type")
	}
	s := reflect.MakeSlice(reflect.SliceOf(reflect.TypeOf(proto)), len(cells), len(cells))
	for i, c := range cells {
		s.Index(i).Set(reflect.ValueOf(c))
	}
	return s.Interface()
}

// fromBits makes a scalar of type t from 64 random bits (integers: truncation; floats: see randCell).
func intFromBits(t et, u uint64) interface{} {
	switch t.T {
	case io.BYTE:
		return int8(u)
	case io.INT16:
		return int16(u)
	case io.INT32:
		return int32(u)
	case io.INT64:
		return int64(u)
	case io.UINT8:
		return uint8(u)
	case io.UINT16:
		return uint16(u)
	case io.UINT32:
		return uint32(u)
	case io.UINT64:
		return u
	}
	panic("intFromBits: not an integer type")
}

func floatOf(t et, f float64) interface{} {
	if t.T == io.FLOAT32 {
		return float32(f)
	}
	return f
}

// randCell draws a value of type t: integers over the whole range with a bias to small magnitudes,
// floats among small decimals, integral values of every magnitude and raw bit patterns.
func randCell(r *gen.R, t et) interface{} {
	if t.Kind != 'f' {
		u := r.U64()
		switch r.Intn(4) {
		case 0:
			u %= 200
		case 1:
			u = uint64(-int64(u % 200))
		}
		return intFromBits(t, u)
	}
	switch r.Intn(5) {
	case 0:
		return floatOf(t, float64(r.Intn(2000)-1000)/8)
	case 1:
		return floatOf(t, math.Ldexp(float64(int64(r.U64()>>11))-float64(1<<52), r.Intn(40)-60))
	case 2:
		if t.T == io.FLOAT32 {
			return math.Float32frombits(uint32(r.U64()))
		}
		return math.Float64frombits(r.U64())
	case 3:
		return floatOf(t, float64(int64(r.U64()>>uint(r.Intn(64)))))
	}
	return floatOf(t, (r.F64()-0.5)*1e6)
}

var intSpecials = []uint64{
	0, 1, 2, 127, 128, 129, 255, 256, 257, 32767, 32768, 65535, 65536,
	1<<24 + 1, 1<<31 - 1, 1 << 31, 1<<31 + 1, 1<<32 - 1, 1 << 32, 1<<53 - 1, 1 << 53, 1<<53 + 1,
	1<<60 + 1<<36 + 1, // float32 double-rounding witness
	1<<63 - 1, 1 << 63, 1<<63 + 1, 1<<64 - 1,
	uint64(1<<64 - 2), ^uint64(127), ^uint64(128), ^uint64(32767), ^uint64(32768), // -2, -128, -129, -32768, -32769
	^uint64(1<<31 - 1), ^uint64(1 << 31), ^uint64(1 << 53), ^uint64(1<<53 + 1),
}

var floatSpecials = []float64{
	0, math.Copysign(0, -1), 0.5, -0.5, 0.99999, -0.99999, 1, -1, 1.5, -1.5, 2.5, 0.1,
	127, 127.9, 128, -128, -128.9, -129, 255, 255.9, 256, 32767.5, 32768, -32768.5, -32769, 65535.9, 65536,
	16777216, 16777217, 2147483647, 2147483647.5, 2147483648, -2147483648, -2147483648.5, -2147483649,
	4294967295, 4294967295.5, 4294967296, 9007199254740992, 9007199254740994, -9007199254740994,
	9223372036854774784, 9223372036854775808, -9223372036854775808, -9223372036854777856,
	18446744073709549568, 18446744073709551616, 1e19, -1e19, 1e30, -1e30,
	3.4028234663852886e38, 3.5e38, 1e39, -1e39, 1e300, 5e-324, 1e-45, 1.1754943508222875e-38,
	math.NaN(), math.Inf(1), math.Inf(-1),
}

// specialCells returns the boundary values of a source type (as cells of that type).
func specialCells(t et) []interface{} {
	var out []interface{}
	if t.Kind != 'f' {
		seen := map[interface{}]bool{}
		for _, u := range intSpecials {
			c := intFromBits(t, u)
			if !seen[c] {
				seen[c] = true
				out = append(out, c)
			}
		}
		return out
	}
	for _, f := range floatSpecials {
		out = append(out, floatOf(t, f))
	}
	return out
}

func fmtCell(x interface{}) string {
	switch v := x.(type) {
	case float32:
		return fmt.Sprintf("%v(bits %#x)", v, math.Float32bits(v))
	case float64:
		return fmt.Sprintf("%v(bits %#x)", v, math.Float64bits(v))
	case nil:
		return "<impl-defined>"
	}
	return fmt.Sprintf("%v", x)
}
