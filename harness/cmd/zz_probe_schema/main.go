package main

import (
	"fmt"
	"os"
	"runtime"
	"runtime/pprof"
	"time"

	"github.com/alpacahq/marketstore/v4/verif/internal/ms"
)

func main() {
	ms.Quiet()
	base, _ := os.MkdirTemp("/dev/shm", "zzprobe-")
	defer os.RemoveAll(base)
	f, _ := os.Create("/dev/shm/zzprobe.prof")
	pprof.StartCPUProfile(f)
	for i := 0; i < 40; i++ {
		t0 := time.Now()
		in := ms.Open(fmt.Sprintf("%s/r%d", base, i), ms.Opts{})
		d1 := time.Since(t0)
		in.Write("A/1Min/G", ms.CS([]int64{1614556800}, ms.Col{Name: "X", Data: []int32{1}}), false)
		t0 = time.Now()
		in2 := ms.Open(fmt.Sprintf("%s/r%d", base, i), ms.Opts{})
		d2 := time.Since(t0)
		for _, x := range []*ms.Inst{in, in2} {
			x := x
			done := make(chan struct{})
			go func() { ms.Recover(func() { x.WAL.Shutdown() }); close(done) }()
			select {
			case <-done:
			case <-time.After(200 * time.Millisecond):
				fmt.Println("shutdown timeout")
			}
		}
		var m runtime.MemStats
		runtime.ReadMemStats(&m)
		if i%5 == 0 {
			fmt.Println(i, d1, d2, m.HeapAlloc>>20, m.Sys>>20, runtime.NumGoroutine())
		}
	}
	pprof.StopCPUProfile()
}
