// ref_store: differential monitors on the public write/query API (see DESIGN.md 3.2): real
// Writer.WriteCSM / QueryService.ExecuteQuery on a fresh data root per case, judged by an executable
// reference model written from the property text. Built with checkptr (quick) or -race (thorough).
// One file per property; each registers its monitor in init().
package main

import (
	"github.com/alpacahq/marketstore/v4/verif/internal/runner"
)

var monitors []*runner.Monitor

func register(m *runner.Monitor) { monitors = append(monitors, m) }

func main() { runner.Main(monitors...) }
