package main

// C08 Fixed-length buckets behave like last-writer-wins interval maps.
//
// Real code driven: one fresh instance per case (ms.Open on c.Scratch/root, UTC), one fixed-length
// bucket, 1-8 requests through Writer.WriteCSM (WriteRecords, WAL, writeFixedBuffer/WriteBufferToFile,
// new year files through the catalog), unrestricted queries through QueryService.ExecuteQuery.
//
// Oracle (written from the property text only): reference model = map interval-start -> values of the
// last written row whose timestamp falls into that interval (row order inside a request, request order
// across requests); the interval containing Unix second s of a timeframe of T seconds starts at
// s - s mod T (UTC). After a request the unrestricted query must return exactly the model's rows:
// one row per written interval, strictly ascending Epoch, Epoch == interval start, every value column
// present with the written element type and bit-identical values.
//
// Known findings (as-is models, applied only when the trigger predicate on the INPUT holds):
//   F-JAN1     trigger: timeframe 1D and some written row falls on January 1.
//              as-is: rows of January-1 intervals are never returned (slot 0 is written into the header).
//   F-4H       trigger: timeframe 4H. as-is: ExecuteQuery answers "no files returned from query parse" (it
//              looks for the 2H bucket). The stored data are then read through planner+reader on the
//              unmodified key (queryDirect) and judged by the same oracle.
//   F-PREVYEAR trigger: a request contains a row k>=1 with year(k) == year(row 0), slot(k) == slot(k-1)
//              and the write command of row k-1 belongs to another year.
//              as-is: row k is folded into the command of row k-1, i.e. it overwrites the same slot of
//              that other year and is not written to its own year.

import (
	"fmt"
	"sort"
	"strings"
	"time"

	"github.com/alpacahq/marketstore/v4/verif/internal/gen"
	"github.com/alpacahq/marketstore/v4/verif/internal/ms"
	"github.com/alpacahq/marketstore/v4/verif/internal/runner"
)

type c08row struct {
	t     int64 // written Epoch (seconds)
	start int64 // model: start of the interval containing t
	year  int
	slot  int64 // 0-based position of the interval within its year
	vals  []uint64
	what  string
}

type c08case struct {
	tf      storeTF
	years   []int
	cols    []colSpec
	reqs    [][]c08row
	stratum string
	queryAt []bool
}

const c08period = 25 // cases per stratum cycle: 0 jan1, 1 prevyear, 2 jan1+prevyear, others avoid

func c08cases(tier string) int {
	if tier == "thorough" {
		return 3000
	}
	return 400
}

func c08mkRow(r *gen.R, cs *c08case, start int64, what string) c08row {
	tf := cs.tf.sec
	off := int64(0)
	if tf > 1 {
		switch r.Intn(5) {
		case 0, 1:
		case 2:
			off = 1
		case 3:
			off = tf - 1
		default:
			off = r.I64n(tf)
		}
	}
	y := yearOf(start)
	row := c08row{t: start + off, start: start, year: y, slot: (start - yearStart(y)) / tf, what: what}
	row.vals = make([]uint64, len(cs.cols))
	for i, col := range cs.cols {
		row.vals[i] = genBits(r, col.T)
	}
	return row
}

func c08gen(c *runner.Ctx) *c08case {
	r := c.R("gen")
	cs := &c08case{}
	k := c.Case % c08period
	switch k {
	case 0:
		cs.stratum = "jan1"
	case 1:
		cs.stratum = "prevyear"
	case 2:
		cs.stratum = "jan1+prevyear"
	default:
		cs.stratum = "avoid"
	}
	wantJan1 := k == 0 || k == 2
	wantPrev := k == 1 || k == 2
	cs.tf = storeTFs[(c.Case+c.Case/c08period)%len(storeTFs)]
	if wantJan1 {
		cs.tf = storeTFs[len(storeTFs)-1]
	}
	tf := cs.tf.sec
	// years: 2-3, adjacent or with gaps, half of the time anchored at a leap year
	base := r.Range(1970, 2088)
	if r.Bool() {
		base = 4*r.Range(493, 521) - r.Intn(2)
	}
	cs.years = []int{base, base + r.PickI(1, 1, 1, 2, 5)}
	if r.Bool() {
		cs.years = append(cs.years, cs.years[1]+r.PickI(1, 1, 3))
	}
	cs.cols = genColumns(r, r.Range(1, 6), c.Case)
	// pool of intervals (small pools => duplicates within and across requests)
	type ent struct {
		start int64
		what  string
	}
	var pool []ent
	fix := func(e ent) ent {
		// the avoid strata keep January 1 out of daily buckets
		if tf == 86400 && !wantJan1 && e.start == yearStart(yearOf(e.start)) {
			e.start += tf
			e.what = "year-second"
		}
		return e
	}
	randEnt := func() ent {
		y := cs.years[r.Intn(len(cs.years))]
		ys, ye := yearStart(y), yearStart(y+1)
		return fix(ent{floorTo(ys+r.I64n(ye-ys), tf), "random"})
	}
	poolN := r.Range(2, 40)
	for i := 0; i < poolN; i++ {
		if r.P(3, 5) {
			y := cs.years[r.Intn(len(cs.years))]
			bs := boundaryStarts(y, tf)
			b := bs[r.Intn(len(bs))]
			pool = append(pool, fix(ent{floorTo(b.start, tf), b.what}))
		} else {
			pool = append(pool, randEnt())
		}
	}
	if wantJan1 {
		pool = append(pool, ent{yearStart(cs.years[r.Intn(len(cs.years))]), "year-first"})
	}
	nReq := r.Range(1, 8)
	for q := 0; q < nReq; q++ {
		n := r.Range(1, 50)
		focus := 0
		if r.P(1, 10) {
			// >= 100 write commands for one year file take the buffered-file path of writeFixedBuffer
			n = r.Range(130, 400)
			if r.P(2, 3) {
				focus = cs.years[r.Intn(len(cs.years))]
			}
		}
		var rows []c08row
		last := ent{}
		for i := 0; i < n; i++ {
			var e ent
			switch {
			case i > 0 && r.P(1, 6):
				e = last // adjacent duplicate: folded into one write command
			case focus != 0 && r.P(3, 4):
				ys, ye := yearStart(focus), yearStart(focus+1)
				e = fix(ent{floorTo(ys+r.I64n(ye-ys), tf), "random"})
			case r.P(1, 8):
				e = randEnt()
			default:
				e = pool[r.Intn(len(pool))]
			}
			last = e
			rows = append(rows, c08mkRow(r, cs, e.start, e.what))
		}
		if wantJan1 && q == 0 {
			rows = append(rows, c08mkRow(r, cs, pool[len(pool)-1].start, "year-first"))
			j := r.Intn(len(rows))
			rows[j], rows[len(rows)-1] = rows[len(rows)-1], rows[j]
		}
		if r.P(1, 4) {
			sort.SliceStable(rows, func(i, j int) bool { return rows[i].t < rows[j].t })
		}
		// remove every accidental F-PREVYEAR pattern
		for {
			ys := make([]yearSlot, len(rows))
			for i, rw := range rows {
				ys[i] = yearSlot{rw.year, rw.slot}
			}
			cy, trig := prevYearCmdYears(ys)
			if !trig {
				break
			}
			for i := range rows {
				if cy[i] != rows[i].year {
					rows = append(rows[:i], rows[i+1:]...)
					break
				}
			}
		}
		if wantPrev && (q == 0 || r.P(1, 3)) {
			// aim: (Y1, i) ... (Y2, j) (Y1, j) ...
			y1 := rows[0].year
			var others []int
			for _, y := range cs.years {
				if y != y1 {
					others = append(others, y)
				}
			}
			y2 := others[r.Intn(len(others))]
			slots := int64(365) * 86400 / tf
			var j int64
			switch r.Intn(4) {
			case 0:
				j = slots - 1
			case 1:
				j = 1
			case 2:
				if tf == 86400 && !wantJan1 {
					j = 58
				} else {
					j = 0
				}
			default:
				j = 1 + r.I64n(slots-1)
			}
			a := c08mkRow(r, cs, yearStart(y2)+j*tf, "prevyear-A")
			b := c08mkRow(r, cs, yearStart(y1)+j*tf, "prevyear-B")
			p := 1 + r.Intn(len(rows))
			rows = append(rows[:p], append([]c08row{a, b}, rows[p:]...)...)
		}
		cs.reqs = append(cs.reqs, rows)
	}
	// query points: always after the last request, after earlier ones with a probability that keeps the
	// expensive (fine-grained, large file) timeframes affordable
	cs.queryAt = make([]bool, len(cs.reqs))
	for q := range cs.reqs {
		num := 2
		if tf <= 10 {
			num = 1
		}
		cs.queryAt[q] = q == len(cs.reqs)-1 || r.P(num, 4)
	}
	return cs
}

// c08model applies requests [0,upto] to the reference model. asP / asJ switch the as-is models on.
func c08model(cs *c08case, upto int, asP, asJ bool) map[int64][]uint64 {
	m := map[int64][]uint64{}
	tf := cs.tf.sec
	for q := 0; q <= upto; q++ {
		rows := cs.reqs[q]
		var cy []int
		if asP {
			ys := make([]yearSlot, len(rows))
			for i, rw := range rows {
				ys[i] = yearSlot{rw.year, rw.slot}
			}
			cy, _ = prevYearCmdYears(ys)
		}
		for i, rw := range rows {
			key := rw.start
			if asP {
				key = yearStart(cy[i]) + rw.slot*tf
			}
			if asJ && tf == 86400 && rw.slot == 0 {
				continue
			}
			m[key] = rw.vals
		}
	}
	return m
}

func c08triggers(cs *c08case, upto int) (trigP, trigJ bool) {
	for q := 0; q <= upto; q++ {
		rows := cs.reqs[q]
		ys := make([]yearSlot, len(rows))
		for i, rw := range rows {
			ys[i] = yearSlot{rw.year, rw.slot}
			if cs.tf.sec == 86400 && rw.slot == 0 {
				trigJ = true
			}
		}
		if _, t := prevYearCmdYears(ys); t {
			trigP = true
		}
	}
	return
}

// c08diff compares a query result with a model state; returns "" when they agree, else a description,
// plus the interval starts involved in the disagreement.
func c08diff(cs *c08case, tbl *ms.Table, m map[int64][]uint64) (string, map[int64]struct{}) {
	keys := make([]int64, 0, len(m))
	for k := range m {
		keys = append(keys, k)
	}
	sort.Slice(keys, func(i, j int) bool { return keys[i] < keys[j] })
	bad := map[int64]struct{}{}
	var msgs []string
	add := func(k int64, f string, a ...interface{}) {
		bad[k] = struct{}{}
		if len(msgs) < 6 {
			msgs = append(msgs, fmt.Sprintf(f, a...))
		}
	}
	if tbl.N > 0 && tbl.Epoch == nil {
		return "result has no int64 Epoch column", bad
	}
	seen := map[int64]int{}
	for i := 0; i < tbl.N; i++ {
		e := tbl.Epoch[i]
		if i > 0 && e <= tbl.Epoch[i-1] {
			add(e, "rows %d,%d not in strictly ascending time order: %s then %s", i-1, i, fmtSec(tbl.Epoch[i-1]), fmtSec(e))
		}
		if _, dup := seen[e]; dup {
			add(e, "interval %s returned more than once", fmtSec(e))
		}
		seen[e] = i
		if _, ok := m[e]; !ok {
			add(e, "returned row %d Epoch=%s (%d) is not the start of a written interval", i, fmtSec(e), e)
		}
	}
	for _, k := range keys {
		if _, ok := seen[k]; !ok {
			add(k, "written interval %s (%d) is missing from the result", fmtSec(k), k)
		}
	}
	for ci, col := range cs.cols {
		data, ok := tbl.Cols[col.Name]
		if !ok {
			if tbl.N > 0 || len(keys) > 0 {
				msgs = append(msgs, fmt.Sprintf("column %s missing from the result (have %v)", col.Name, tbl.Names))
			}
			continue
		}
		if !sameColType(col.T, data) {
			msgs = append(msgs, fmt.Sprintf("column %s returned as %T, written as %s", col.Name, data, col.Str))
			continue
		}
		if colLen(data) != tbl.N {
			msgs = append(msgs, fmt.Sprintf("column %s has %d values for %d rows", col.Name, colLen(data), tbl.N))
			continue
		}
		for i := 0; i < tbl.N; i++ {
			want, ok := m[tbl.Epoch[i]]
			if !ok {
				continue
			}
			got, _ := cellBits(data, i)
			if got != want[ci] {
				add(tbl.Epoch[i], "interval %s column %s: got bits %#x, last write was %#x", fmtSec(tbl.Epoch[i]), col.Name, got, want[ci])
			}
		}
	}
	if tbl.N != len(keys) {
		msgs = append([]string{fmt.Sprintf("%d rows returned, %d intervals written", tbl.N, len(keys))}, msgs...)
	}
	if len(msgs) == 0 {
		return "", bad
	}
	return strings.Join(msgs, "; "), bad
}

func c08witness(cs *c08case, upto int, bad map[int64]struct{}, tbl *ms.Table) map[string]interface{} {
	tf := cs.tf.sec
	cols := []string{}
	for _, c := range cs.cols {
		cols = append(cols, c.Name)
	}
	total := 0
	for q := 0; q <= upto; q++ {
		total += len(cs.reqs[q])
	}
	var reqs []interface{}
	for q := 0; q <= upto; q++ {
		var rows []string
		for i, rw := range cs.reqs[q] {
			_, isBad := bad[rw.start]
			// also show rows that share the slot of a disputed interval in another year, and their neighbours
			if !isBad {
				for b := range bad {
					if (b-yearStart(yearOf(b)))/tf == rw.slot {
						isBad = true
					}
				}
			}
			if total <= 40 || isBad {
				rows = append(rows, fmt.Sprintf("row %d: Epoch=%d (%s) interval=%s year=%d slot=%d vals=%#x", i, rw.t, fmtSec(rw.t), fmtSec(rw.start), rw.year, rw.slot, rw.vals))
			}
		}
		reqs = append(reqs, map[string]interface{}{"request": q, "rows_total": len(cs.reqs[q]), "rows_shown": rows})
	}
	var got []string
	for i := 0; i < tbl.N; i++ {
		if _, isBad := bad[tbl.Epoch[i]]; isBad || tbl.N <= 20 {
			got = append(got, fmt.Sprintf("%s %s", fmtSec(tbl.Epoch[i]), tbl.RowString(i)))
		}
	}
	var disputed []string
	for _, k := range sortedKeysI64(bad) {
		disputed = append(disputed, fmtSec(k))
	}
	return map[string]interface{}{
		"bucket": "C08/" + cs.tf.name + "/V", "timeframe": cs.tf.name, "columns": cols, "years": cs.years,
		"requests": reqs, "query": "all time, after request " + fmt.Sprint(upto),
		"disputed_intervals": disputed, "returned_rows_shown": got, "returned_row_count": tbl.N,
	}
}

func c08run(c *runner.Ctx) runner.Result {
	var res runner.Result
	ms.Quiet()
	cs := c08gen(c)
	key := "C08/" + cs.tf.name + "/V"
	var inst *ms.Inst
	if p := ms.Recover(func() { inst = ms.Open(c.Scratch+"/root", ms.Opts{}) }); p != "" {
		res.Inconclusive("cannot open instance: " + p)
		return res
	}
	reported := map[string]bool{}
	nRows, dupWithin, dupAcross, boundaryRows, jan1Rows, leapRows, flooredRows := 0, 0, 0, 0, 0, 0, 0
	everWritten := map[int64]struct{}{}
	for q, rows := range cs.reqs {
		epochs := make([]int64, len(rows))
		inReq := map[int64]struct{}{}
		for i, rw := range rows {
			epochs[i] = rw.t
			if _, ok := inReq[rw.start]; ok {
				dupWithin++
			} else if _, ok := everWritten[rw.start]; ok {
				dupAcross++
			}
			inReq[rw.start] = struct{}{}
			if rw.what != "random" {
				boundaryRows++
			}
			if rw.slot == 0 {
				jan1Rows++
			}
			if isLeap(rw.year) && rw.start >= yearStart(rw.year)+59*86400 && rw.start < yearStart(rw.year)+60*86400 {
				leapRows++
			}
			if rw.t != rw.start {
				flooredRows++
			}
		}
		for s := range inReq {
			everWritten[s] = struct{}{}
		}
		cmds := map[int]int{}
		for i, rw := range rows {
			if i == 0 || rw.start != rows[i-1].start {
				cmds[rw.year]++
			}
		}
		for _, n := range cmds {
			if n >= 100 {
				res.Count("year_files_written_with_100plus_commands", 1)
			}
		}
		var mcols []ms.Col
		for ci, col := range cs.cols {
			bits := make([]uint64, len(rows))
			for i, rw := range rows {
				bits[i] = rw.vals[ci]
			}
			mcols = append(mcols, ms.Col{Name: col.Name, Data: mkColBits(col.T, bits)})
		}
		var werr error
		if p, st := recoverStack(func() { werr = inst.Write(key, ms.CS(epochs, mcols...), false) }); p != "" {
			res.Violation(fmt.Sprintf("write request %d panicked: %s", q, p), map[string]interface{}{"witness": c08witness(cs, q, nil, &ms.Table{}), "stack": firstN(st, 3000)})
			return res
		}
		if werr != nil {
			// the property speaks about successful writes only
			res.Inconclusive(fmt.Sprintf("write request %d of a valid fixed-length request failed: %v", q, werr))
			return res
		}
		nRows += len(rows)
		res.Count("requests", 1)
		if !cs.queryAt[q] {
			continue
		}
		var tbl *ms.Table
		var qerr error
		fourH := false
		if p, st := recoverStack(func() { tbl, fourH, qerr = queryAllObserved(inst, key, cs.tf.name) }); p != "" {
			res.Violation(fmt.Sprintf("unrestricted query after request %d panicked: %s", q, p), map[string]interface{}{"witness": c08witness(cs, q, nil, &ms.Table{}), "stack": firstN(st, 3000)})
			return res
		}
		if qerr != nil {
			if !ms.QueryErrNoData(qerr) {
				res.Violation(fmt.Sprintf("unrestricted query after request %d failed: %v", q, qerr), c08witness(cs, q, nil, &ms.Table{}))
				return res
			}
			tbl = &ms.Table{Cols: map[string]interface{}{}}
		}
		if fourH && !reported["F-4H"] {
			reported["F-4H"] = true
			res.Known("F-4H", fmt.Sprintf("QueryService.ExecuteQuery on bucket %s after %d written rows: 'no files returned from query parse' (the key's timeframe is rewritten to 2H); the same query through planner+reader on the unmodified key returns %d rows", key, nRows, tbl.N),
				map[string]interface{}{"bucket": key, "written_epochs_first_request": epochs, "query": "ExecuteQuery(all time)", "returned": "error: no files returned from query parse"})
		}
		res.Count("queries", 1)
		res.Count("rows_compared", int64(tbl.N))
		ideal := c08model(cs, q, false, false)
		res.Count("intervals_expected", int64(len(ideal)))
		d, bad := c08diff(cs, tbl, ideal)
		if d == "" {
			continue
		}
		trigP, trigJ := c08triggers(cs, q)
		type combo struct {
			p, j bool
			ids  []string
		}
		var combos []combo
		if trigJ {
			combos = append(combos, combo{false, true, []string{"F-JAN1"}})
		}
		if trigP {
			combos = append(combos, combo{true, false, []string{"F-PREVYEAR"}})
		}
		if trigP && trigJ {
			combos = append(combos, combo{true, true, []string{"F-JAN1", "F-PREVYEAR"}})
		}
		matched := false
		for _, cb := range combos {
			if dd, _ := c08diff(cs, tbl, c08model(cs, q, cb.p, cb.j)); dd == "" {
				matched = true
				for _, id := range cb.ids {
					if !reported[id] {
						reported[id] = true
						res.Known(id, fmt.Sprintf("%s bucket, after request %d: %s (result equals the as-is model of %v)", cs.tf.name, q, d, cb.ids), c08witness(cs, q, bad, tbl))
					}
				}
				break
			}
		}
		if !matched {
			res.Violation(fmt.Sprintf("%s bucket, unrestricted query after request %d differs from the last-writer-wins model: %s", cs.tf.name, q, d), c08witness(cs, q, bad, tbl))
			return res
		}
	}
	res.Count("rows_written", int64(nRows))
	res.Count("dup_within_request", int64(dupWithin))
	res.Count("dup_across_requests", int64(dupAcross))
	res.Count("boundary_rows", int64(boundaryRows))
	res.Count("year_first_interval_rows", int64(jan1Rows))
	res.Count("feb29_rows", int64(leapRows))
	res.Count("rows_floored_inside_interval", int64(flooredRows))
	res.Set("timeframes", cs.tf.name)
	for _, col := range cs.cols {
		res.Set("types", col.Str)
	}
	res.Set("strata", cs.stratum)
	rb := "r<=20"
	switch {
	case nRows > 150:
		rb = "r>150"
	case nRows > 60:
		rb = "r<=150"
	case nRows > 20:
		rb = "r<=60"
	}
	// non-trivial: at least one row written and one query compared
	res.Sig = fmt.Sprintf("%s/%s/y%d/c%d/%s/dw%v/da%v", cs.tf.name, cs.stratum, len(cs.years), len(cs.cols), rb, dupWithin > 0, dupAcross > 0)
	if c.Case < 3 {
		res.Sample = c08witness(cs, 0, nil, &ms.Table{})
	}
	return res
}

func firstN(s string, n int) string {
	if len(s) > n {
		return s[:n]
	}
	return s
}

func init() {
	register(&runner.Monitor{
		ID:    "C08",
		Level: "exploration",
		Rule: "case = one fixed-length bucket on a fresh instance: timeframe (all ten, rotating with the case number), 1-6 value columns over the ten fixed-width types (values = special bit patterns incl. NaN/-0/extremes or random bits), 2-3 years (1970..2093, half anchored at a leap year, with gaps), 1-8 requests of 1-50 (one in ten: 130-400, mostly in one year, for the buffered write path) rows drawn from a small pool of intervals (first/second/last interval of a year, Feb 28/29, Mar 1, random) with in-interval second offsets, unsorted, adjacent and non-adjacent duplicates; after requests the unrestricted query is compared with the last-writer-wins model. " +
			"22 of 25 cases avoid the triggers of F-JAN1 and F-PREVYEAR by construction, 3 of 25 aim at them. A case is non-trivial when it wrote rows and compared a query; distinct by (timeframe, stratum, #years, #columns, row-count bucket, duplicates within/across requests)",
		Assumptions: []string{
			"instance configured with the UTC time zone (other zones: C30)",
			"inline flush: WriteCSM returns after the WAL and the primary write (no background SyncWAL goroutine)",
		},
		Cases:        c08cases,
		Batch:        20,
		Run:          c08run,
		BatchTimeout: 90 * time.Minute,
		Need:         []string{"rows_written", "queries", "rows_compared", "dup_within_request", "dup_across_requests", "year_first_interval_rows", "feb29_rows", "year_files_written_with_100plus_commands"},
	})
}
