package main

// Helpers shared by the C08 and C09 monitors: calendar arithmetic of the reference models (UTC, plain
// integer arithmetic on Unix seconds, nothing taken from /repo), typed columns built from raw bit
// patterns, panic capture with stack, and the model of finding F-PREVYEAR's command merging.

import (
	"fmt"
	"math"
	"runtime/debug"
	"sort"
	"time"

	"github.com/alpacahq/marketstore/v4/executor"
	"github.com/alpacahq/marketstore/v4/planner"
	"github.com/alpacahq/marketstore/v4/utils/io"
	"github.com/alpacahq/marketstore/v4/verif/internal/gen"
	"github.com/alpacahq/marketstore/v4/verif/internal/ms"
)

type storeTF struct {
	name string
	sec  int64
}

var storeTFs = []storeTF{
	{"1Sec", 1}, {"10Sec", 10}, {"1Min", 60}, {"5Min", 300}, {"15Min", 900}, {"30Min", 1800},
	{"1H", 3600}, {"2H", 7200}, {"4H", 14400}, {"1D", 86400},
}

func isLeap(y int) bool { return y%4 == 0 && (y%100 != 0 || y%400 == 0) }

// yearStart returns the Unix second of January 1 00:00:00 UTC of year y (proleptic Gregorian, y >= 1970).
func yearStart(y int) int64 {
	days := int64(0)
	for k := 1970; k < y; k++ {
		days += 365
		if isLeap(k) {
			days++
		}
	}
	return days * 86400
}

// yearOf returns the UTC calendar year containing Unix second s (s >= 0).
func yearOf(s int64) int {
	y := 1970 + int(s/(366*86400))
	for yearStart(y+1) <= s {
		y++
	}
	return y
}

func fmtSec(s int64) string { return time.Unix(s, 0).UTC().Format("2006-01-02T15:04:05Z") }

func fmtNs(ns int64) string {
	return time.Unix(ns/1e9, ns%1e9).UTC().Format("2006-01-02T15:04:05.000000000Z")
}

// floorTo floors Unix second s to a multiple of tf seconds. All supported timeframes divide a day and the
// Unix epoch is a day boundary in UTC, so this is the start of the interval containing s.
func floorTo(s, tf int64) int64 { return s - s%tf }

type namedStart struct {
	what  string
	start int64
}

// boundaryStarts lists the interval starts of year y that the properties name: first/second/last
// intervals of the year, around Feb 28 / Feb 29 / Mar 1.
func boundaryStarts(y int, tf int64) []namedStart {
	ys, ye := yearStart(y), yearStart(y+1)
	mar1 := ys + (31+28)*86400
	if isLeap(y) {
		mar1 += 86400
	}
	out := []namedStart{
		{"year-first", ys}, {"year-second", ys + tf}, {"year-last", ye - tf}, {"year-lastbutone", ye - 2*tf},
		{"feb28-first", ys + (31+27)*86400}, {"feb-last", mar1 - tf}, {"mar1-first", mar1},
	}
	if isLeap(y) {
		out = append(out, namedStart{"feb29-first", mar1 - 86400}, namedStart{"feb28-last", mar1 - 86400 - tf},
			namedStart{"dec31-first", ye - 86400})
	}
	return out
}

// ---------------------------------------------------------------------------------------------
// typed columns from bit patterns

func typeWidth(t io.EnumElementType) int {
	switch t {
	case io.BYTE, io.UINT8:
		return 1
	case io.INT16, io.UINT16:
		return 2
	case io.INT32, io.UINT32, io.FLOAT32:
		return 4
	}
	return 8
}

func maskBits(t io.EnumElementType, b uint64) uint64 {
	w := typeWidth(t)
	if w == 8 {
		return b
	}
	return b & (uint64(1)<<(8*uint(w)) - 1)
}

// mkColBits builds a typed column whose element i has the (little-endian) bit pattern bits[i] truncated
// to the type's width.
func mkColBits(t io.EnumElementType, bits []uint64) interface{} {
	n := len(bits)
	switch t {
	case io.BYTE:
		c := make([]int8, n)
		for i, v := range bits {
			c[i] = int8(v)
		}
		return c
	case io.INT16:
		c := make([]int16, n)
		for i, v := range bits {
			c[i] = int16(v)
		}
		return c
	case io.INT32:
		c := make([]int32, n)
		for i, v := range bits {
			c[i] = int32(v)
		}
		return c
	case io.INT64:
		c := make([]int64, n)
		for i, v := range bits {
			c[i] = int64(v)
		}
		return c
	case io.UINT8:
		c := make([]uint8, n)
		for i, v := range bits {
			c[i] = uint8(v)
		}
		return c
	case io.UINT16:
		c := make([]uint16, n)
		for i, v := range bits {
			c[i] = uint16(v)
		}
		return c
	case io.UINT32:
		c := make([]uint32, n)
		for i, v := range bits {
			c[i] = uint32(v)
		}
		return c
	case io.UINT64:
		c := make([]uint64, n)
		copy(c, bits)
		return c
	case io.FLOAT32:
		c := make([]float32, n)
		for i, v := range bits {
			c[i] = math.Float32frombits(uint32(v))
		}
		return c
	case io.FLOAT64:
		c := make([]float64, n)
		for i, v := range bits {
			c[i] = math.Float64frombits(v)
		}
		return c
	}
	panic("unsupported element type")
}

// cellBits returns the zero-extended bit pattern of element i of a typed column; ok=false for an
// unexpected column type.
func cellBits(col interface{}, i int) (uint64, bool) {
	switch c := col.(type) {
	case []int8:
		return uint64(uint8(c[i])), true
	case []int16:
		return uint64(uint16(c[i])), true
	case []int32:
		return uint64(uint32(c[i])), true
	case []int64:
		return uint64(c[i]), true
	case []uint8:
		return uint64(c[i]), true
	case []uint16:
		return uint64(c[i]), true
	case []uint32:
		return uint64(c[i]), true
	case []uint64:
		return c[i], true
	case []float32:
		return uint64(math.Float32bits(c[i])), true
	case []float64:
		return math.Float64bits(c[i]), true
	}
	return 0, false
}

func colLen(col interface{}) int {
	switch c := col.(type) {
	case []int8:
		return len(c)
	case []int16:
		return len(c)
	case []int32:
		return len(c)
	case []int64:
		return len(c)
	case []uint8:
		return len(c)
	case []uint16:
		return len(c)
	case []uint32:
		return len(c)
	case []uint64:
		return len(c)
	case []float32:
		return len(c)
	case []float64:
		return len(c)
	}
	return -1
}

// sameColType reports whether the returned column has the Go slice type of element type t. The
// repository's in-memory representation of element type BYTE ("i1") is Go's byte: an []int8 column comes
// back as []uint8 with the same bit patterns; that is accepted (values are compared as bit patterns).
func sameColType(t io.EnumElementType, col interface{}) bool {
	want := mkColBits(t, nil)
	if fmt.Sprintf("%T", want) == fmt.Sprintf("%T", col) {
		return true
	}
	if t == io.BYTE {
		_, ok := col.([]uint8)
		return ok
	}
	return false
}

// genBits draws a value for a column of type t: special patterns (zero, all ones, sign bit, extremes,
// NaN/Inf/-0/denormals for floats) or random bits.
func genBits(r *gen.R, t io.EnumElementType) uint64 {
	w := uint(typeWidth(t)) * 8
	if r.P(1, 3) {
		switch t {
		case io.FLOAT32:
			// 0, -0, 1, +Inf, -Inf, quiet NaN, NaN with payload, signalling NaN, smallest denormal, max
			sp := []uint64{0, 0x80000000, 0x3f800000, 0x7f800000, 0xff800000, 0x7fc00000, 0xffc12345, 0x7f800001, 1, 0x7f7fffff}
			return sp[r.Intn(len(sp))]
		case io.FLOAT64:
			sp := []uint64{0, 0x8000000000000000, 0x3ff0000000000000, 0x7ff0000000000000, 0xfff0000000000000,
				0x7ff8000000000000, 0xfff8000000012345, 0x7ff0000000000001, 1, 0x7fefffffffffffff}
			return sp[r.Intn(len(sp))]
		}
		sp := []uint64{0, 1, ^uint64(0), uint64(1) << (w - 1), uint64(1)<<(w-1) - 1, 0x0102030405060708, 0x8000000000000001}
		return maskBits(t, sp[r.Intn(len(sp))])
	}
	return maskBits(t, r.U64())
}

type colSpec struct {
	Name string
	T    io.EnumElementType
	Str  string
}

// genColumns draws n value columns over the ten fixed-width types; startAt rotates the type list so that
// every type is used within a few cases.
func genColumns(r *gen.R, n, startAt int) []colSpec {
	out := make([]colSpec, n)
	for i := range out {
		var e = ms.ElemTypes[(startAt+i*3+r.Intn(2))%len(ms.ElemTypes)]
		out[i] = colSpec{Name: fmt.Sprintf("V%d%s", i, e.Str), T: e.T, Str: e.Str}
	}
	return out
}

// ---------------------------------------------------------------------------------------------

// recoverStack runs f and returns the panic value and the goroutine stack at the panic ("" if none).
func recoverStack(f func()) (p, stack string) {
	defer func() {
		if r := recover(); r != nil {
			p = fmt.Sprint(r)
			stack = string(debug.Stack())
		}
	}()
	f()
	return "", ""
}

// ---------------------------------------------------------------------------------------------
// F-PREVYEAR: WriteRecords compares every row's year with the year of the request's FIRST row instead of
// the previous row's year. A row k >= 1 is therefore folded into the write command of row k-1 exactly
// when slot(k) == slot(k-1) and year(k) == year(0). The fold is wrong (and the row ends up in the file
// of the command's year) when year(k-1)'s command belongs to another year.

type yearSlot struct {
	year int
	slot int64 // 0-based position of the interval in its year
}

// prevYearCmdYears returns, for each row of one request, the year of the write command the pinned code
// puts the row into, and whether the defect's trigger holds for the request (some row lands in a
// command of a different year).
func prevYearCmdYears(rows []yearSlot) (cmdYear []int, trigger bool) {
	cmdYear = make([]int, len(rows))
	cur := 0
	for k, rw := range rows {
		if k > 0 && rw.slot == rows[k-1].slot && rw.year == rows[0].year {
			cmdYear[k] = cur
		} else {
			cur = rw.year
			cmdYear[k] = cur
		}
		if cmdYear[k] != rw.year {
			trigger = true
		}
	}
	return cmdYear, trigger
}

func sortedKeysI64(m map[int64]struct{}) []int64 {
	out := make([]int64, 0, len(m))
	for k := range m {
		out = append(out, k)
	}
	sort.Slice(out, func(i, j int) bool { return out[i] < out[j] })
	return out
}

// ---------------------------------------------------------------------------------------------
// F-4H: QueryService.ExecuteQuery replaces the key's timeframe by CandleDuration.QueryableTimeframe,
// which scans utils.Timeframes from the end for a divisor; the table lists "4H" before "2H", so a query on
// a 4H bucket is redirected to the symbol's 2H bucket. queryDirect runs exactly what ExecuteQuery runs
// after that rewrite (planner.Query.Parse, executor.NewReader, Reader.Read) on the unmodified key, so the
// storage behaviour of 4H buckets is still observed.

func queryDirect(in *ms.Inst, key string) (*ms.Table, error) {
	q := planner.NewQuery(in.Cat)
	tbk := ms.TBK(key)
	q.AddTargetKey(tbk)
	q.SetRange(time.Unix(0, 0).UTC(), ms.FarFuture)
	pr, err := q.Parse()
	if err != nil {
		return nil, err
	}
	rd, err := executor.NewReader(pr)
	if err != nil {
		return nil, err
	}
	csm, err := rd.Read()
	if err != nil {
		return nil, err
	}
	for k, cs := range csm {
		if k.GetItemKey() == key {
			return ms.FromCS(cs), nil
		}
	}
	return ms.FromCS(nil), nil
}

// queryAllObserved runs the unrestricted query through QueryService.ExecuteQuery. When the timeframe is 4H
// (trigger of F-4H) and the service reports "no files" although data was written, fourH is set and the
// table is obtained through queryDirect instead.
func queryAllObserved(in *ms.Inst, key, tfName string) (tbl *ms.Table, fourH bool, err error) {
	tbl, err = in.QueryAll(key)
	if err != nil && ms.QueryErrNoData(err) && tfName == "4H" {
		tbl, err = queryDirect(in, key)
		return tbl, true, err
	}
	return tbl, false, err
}
