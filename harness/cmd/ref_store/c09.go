package main

// C09 Variable-length buckets keep every record in time order.
//
// Real code driven: one fresh instance per case (ms.Open on c.Scratch/root, UTC, Snappy compression on as
// in the default configuration), one variable-length bucket, 1-5 requests through Writer.WriteCSM
// (WriteRecords, WAL, WriteBufferToFileIndirect: append + sort + compress), unrestricted queries
// through QueryService.ExecuteQuery (scanner, readSecondStage, RewriteBuffer).
//
// Oracle (from the property text only): the result must be a permutation of the multiset of written
// records. Records are grouped by their complete value tuple (every record normally carries a unique id
// in column 0 and the same id, scaled, in the other columns, so a torn record forms a group that was
// never written); inside a group the written times and the returned times are matched in sorted order
// (optimal for equal-width windows). For every pair (t written, t' returned): t' lies in the interval of
// t (floor to the timeframe, UTC) and 0 <= t - t' <= ceil(interval/2^32 ns) (resolution rounded up to
// 1 ns, +1 ns for the decoder's round-to-nearest); for 1Sec buckets (resolution 0.23 ns) t' == t.
// Returned times must be non-decreasing over the whole result. The order of records with equal returned
// time is not asserted.
//
// Known findings (as-is models, applied only when the trigger predicate on the INPUT holds):
//   F-SNAPPY   as-is: the query panics "slice bounds out of range" inside readSecondStage.
//              trigger: for some year file, replaying the reader's buffer arithmetic (capacity = 4 x sum of
//              the compressed interval sizes, doubled at most once per interval) over the model's
//              intervals overflows; compressed sizes are obtained by Snappy-compressing the model's
//              record bytes (payload little-endian + 32-bit tick); the replay is done for every capacity within
//              +-10 % of the model's (the outcome is not monotone in the capacity).
//   F-PREVYEAR trigger as in C08; as-is: the record is appended to the same slot of the other year, i.e.
//              comes back shifted by the distance between the two interval starts.
//   F-JAN1     trigger: timeframe 1D and a record on January 1; as-is: those records are never returned.
//   F-4H       trigger: timeframe 4H; as-is: ExecuteQuery answers "no files returned from query parse";
//              the stored data are then read through planner+reader on the unmodified key.

import (
	"encoding/binary"
	"fmt"
	"math"
	"math/bits"
	"sort"
	"strings"
	"time"

	"github.com/klauspost/compress/snappy"

	"github.com/alpacahq/marketstore/v4/utils/io"
	"github.com/alpacahq/marketstore/v4/verif/internal/gen"
	"github.com/alpacahq/marketstore/v4/verif/internal/ms"
	"github.com/alpacahq/marketstore/v4/verif/internal/runner"
)

type c09rec struct {
	t     int64 // written time, ns since the Unix epoch
	start int64 // model: start (s) of the interval containing t
	year  int
	slot  int64
	vals  []uint64
}

type c09case struct {
	tf         storeTF
	years      []int
	cols       []colSpec
	reqs       [][]c09rec
	stratum    string
	shape      string
	tmodes     map[string]struct{}
	nanosFirst bool
	queryAt    []bool
	degraded   bool // avoid stratum: payload re-drawn as random to stay clear of F-SNAPPY
}

const c09period = 25 // 0 snappy-identical, 1 snappy-shape, 2 prevyear, 3 jan1, others avoid

func c09cases(tier string) int {
	if tier == "thorough" {
		return 2500
	}
	return 400
}

func c09res(tf int64) int64 { // ceil(interval ns / 2^32)
	iv := tf * 1e9
	return (iv + (1 << 32) - 1) >> 32
}

func c09conv(t io.EnumElementType, v int64) uint64 {
	switch t {
	case io.FLOAT32:
		return uint64(math.Float32bits(float32(v)))
	case io.FLOAT64:
		return math.Float64bits(float64(v))
	}
	return maskBits(t, uint64(v))
}

var c09idTypes = []int{1, 2, 3, 5, 6, 7, 8, 9} // indexes into ms.ElemTypes: i2 i4 i8 u2 u4 u8 f4 f8

func c09pickOff(r *gen.R, tf int64) int64 {
	iv := tf * 1e9
	res := c09res(tf)
	var o int64
	switch r.Intn(12) {
	case 0:
		o = 0
	case 1:
		o = 1
	case 2:
		o = res - 1
	case 3:
		o = res
	case 4:
		o = iv - 1
	case 5, 6: // whole seconds
		o = r.I64n(tf) * 1e9
	case 7: // just below / above a whole second
		o = r.I64n(tf)*1e9 + r.PickI64(-6, -5, -4, -1, 1, 4, 5, 6)
	case 8: // last second of the interval
		o = iv - 1e9 + r.I64n(1e9)
	default:
		o = r.I64n(iv)
	}
	if o < 0 {
		o = 0
	}
	if o >= iv {
		o = iv - 1
	}
	return o
}

func c09pickCount(r *gen.R) int {
	switch r.Intn(6) {
	case 0:
		return 1
	case 1:
		return r.Range(2, 5)
	case 2:
		return r.Range(6, 30)
	case 3:
		return r.Range(31, 120)
	case 4:
		return r.Range(121, 300)
	}
	return r.Range(1, 300)
}

func c09build(c *runner.Ctx, forceRandom bool) *c09case {
	r := c.R("gen")
	cs := &c09case{tmodes: map[string]struct{}{}}
	k := c.Case % c09period
	switch k {
	case 0:
		cs.stratum = "snappy-identical"
	case 1:
		cs.stratum = "snappy-shape"
	case 2:
		cs.stratum = "prevyear"
	case 3:
		cs.stratum = "jan1"
	default:
		cs.stratum = "avoid"
	}
	wantJan1 := k == 3
	wantPrev := k == 2
	cs.tf = storeTFs[(c.Case+c.Case/c09period)%len(storeTFs)]
	if wantJan1 {
		cs.tf = storeTFs[len(storeTFs)-1]
	}
	tf := cs.tf.sec
	iv := tf * 1e9
	base := r.Range(1970, 2088)
	if r.Bool() {
		base = 4*r.Range(493, 521) - r.Intn(2)
	}
	cs.years = []int{base, base + r.PickI(1, 1, 1, 2, 5)}
	if r.P(1, 4) {
		cs.years = append(cs.years, cs.years[1]+r.PickI(1, 1, 3))
	}
	cs.nanosFirst = r.Bool()
	// columns: column 0 holds the id
	nCols := r.Range(1, 6)
	if k == 1 {
		nCols = r.Range(4, 6)
	}
	cs.cols = genColumns(r, nCols, c.Case)
	idT := ms.ElemTypes[c09idTypes[r.Intn(len(c09idTypes))]]
	cs.cols[0] = colSpec{Name: "ID" + idT.Str, T: idT.T, Str: idT.Str}
	if k == 1 {
		// wide records compress best
		for j := 1; j < nCols; j++ {
			e := ms.ElemTypes[r.PickI(3, 7, 9)]
			cs.cols[j] = colSpec{Name: fmt.Sprintf("V%d%s", j, e.Str), T: e.T, Str: e.Str}
		}
	}
	switch k {
	case 0:
		cs.shape = "identical"
	case 1:
		cs.shape = r.PickS("constant", "zero")
	default:
		cs.shape = r.PickS("scaled", "scaled", "random", "ramp", "constant", "zero")
	}
	if forceRandom {
		cs.shape = "random"
		cs.degraded = true
	}
	consts := make([]uint64, nCols)
	steps := make([]int64, nCols)
	for j := range consts {
		consts[j] = genBits(r, cs.cols[j].T)
		steps[j] = r.PickI64(1, 1, 2, 10, 1000, -1)
	}
	nextID := int64(r.Range(0, 100))
	mkVals := func() []uint64 {
		id := nextID
		nextID++
		v := make([]uint64, nCols)
		v[0] = c09conv(cs.cols[0].T, id)
		for j := 1; j < nCols; j++ {
			switch cs.shape {
			case "scaled":
				v[j] = c09conv(cs.cols[j].T, id*int64(j+1))
			case "random":
				v[j] = genBits(r, cs.cols[j].T)
			case "ramp":
				v[j] = c09conv(cs.cols[j].T, int64(consts[j]&0xffff)+id*steps[j])
			case "constant", "identical":
				v[j] = consts[j]
			case "zero":
				v[j] = 0
			}
		}
		if cs.shape == "identical" {
			v[0] = c09conv(cs.cols[0].T, 7)
		}
		return v
	}
	mkRec := func(start, off int64) c09rec {
		y := yearOf(start)
		return c09rec{t: start*1e9 + off, start: start, year: y, slot: (start - yearStart(y)) / tf, vals: mkVals()}
	}
	// intervals
	fix := func(s int64) int64 {
		if tf == 86400 && !wantJan1 && s == yearStart(yearOf(s)) {
			s += tf
		}
		return s
	}
	var ivs []int64
	nI := r.Range(1, 5)
	for i := 0; i < nI; i++ {
		y := cs.years[r.Intn(len(cs.years))]
		if i < len(cs.years) {
			y = cs.years[i] // both years are used when there are at least two intervals
		}
		if r.P(3, 5) {
			bs := boundaryStarts(y, tf)
			ivs = append(ivs, fix(floorTo(bs[r.Intn(len(bs))].start, tf)))
		} else {
			ys, ye := yearStart(y), yearStart(y+1)
			ivs = append(ivs, fix(floorTo(ys+r.I64n(ye-ys), tf)))
		}
	}
	if wantJan1 {
		ivs = append(ivs, yearStart(cs.years[r.Intn(len(cs.years))]))
	}
	nReq := r.Range(1, 5)
	if k == 0 {
		nReq = r.Range(1, 3)
	}
	bigLeft := 0
	if k == 0 {
		bigLeft = r.Range(3000, 6000)
	}
	for q := 0; q < nReq; q++ {
		var recs []c09rec
		for ii, s := range ivs {
			must := (wantJan1 && q == 0 && ii == len(ivs)-1) || (k == 0 && ii == 0)
			if !must && !r.P(2, 3) {
				continue
			}
			n := c09pickCount(r)
			if k == 1 {
				n = r.Range(150, 300)
			}
			if k == 0 && ii == 0 {
				n = bigLeft / (nReq - q)
				bigLeft -= n
			}
			tmode := r.PickS("mixed", "mixed", "same", "ramp", "random")
			if k == 0 && ii == 0 {
				tmode = "same"
			}
			if k == 1 {
				tmode = r.PickS("same", "same", "ramp")
			}
			cs.tmodes[tmode] = struct{}{}
			same := c09pickOff(r, tf)
			step := r.PickI64(0, 1, c09res(tf), 1000, iv/int64(n+1))
			for i := 0; i < n; i++ {
				var off int64
				switch tmode {
				case "mixed":
					off = c09pickOff(r, tf)
				case "same":
					off = same
				case "ramp":
					off = (same + int64(i)*step) % iv
				default:
					off = r.I64n(iv)
				}
				recs = append(recs, mkRec(s, off))
			}
		}
		if len(recs) == 0 {
			recs = append(recs, mkRec(ivs[0], c09pickOff(r, tf)))
		}
		// order inside the request: shuffled, sorted, or interval by interval as generated
		switch r.Intn(4) {
		case 0:
			sort.SliceStable(recs, func(i, j int) bool { return recs[i].t < recs[j].t })
		case 1:
		default:
			p := r.Perm(len(recs))
			sh := make([]c09rec, len(recs))
			for i, j := range p {
				sh[i] = recs[j]
			}
			recs = sh
		}
		// remove every accidental F-PREVYEAR pattern
		for {
			ys := make([]yearSlot, len(recs))
			for i, rc := range recs {
				ys[i] = yearSlot{rc.year, rc.slot}
			}
			cy, trig := prevYearCmdYears(ys)
			if !trig {
				break
			}
			keep := recs[:0:0]
			for i := range recs {
				if cy[i] == recs[i].year {
					keep = append(keep, recs[i])
				}
			}
			recs = keep
		}
		if wantPrev && (q == 0 || r.P(1, 3)) {
			y1 := recs[0].year
			var others []int
			for _, y := range cs.years {
				if y != y1 {
					others = append(others, y)
				}
			}
			y2 := others[r.Intn(len(others))]
			slots := int64(365) * 86400 / tf
			j := 1 + r.I64n(slots-1)
			if r.P(1, 3) {
				j = slots - 1
			}
			off := c09pickOff(r, tf)
			a := mkRec(yearStart(y2)+j*tf, c09pickOff(r, tf))
			b := mkRec(yearStart(y1)+j*tf, off)
			p := 1 + r.Intn(len(recs))
			recs = append(recs[:p:p], append([]c09rec{a, b}, recs[p:]...)...)
		}
		cs.reqs = append(cs.reqs, recs)
	}
	cs.queryAt = make([]bool, len(cs.reqs))
	for q := range cs.reqs {
		num := 2
		if tf <= 10 {
			num = 1
		}
		cs.queryAt[q] = q == len(cs.reqs)-1 || r.P(num, 4)
	}
	return cs
}

// ---------------------------------------------------------------------------------------------
// F-SNAPPY trigger predicate

func c09ticks(offNs, ivNs int64) uint32 { // floor(off * 2^32 / interval)
	hi, lo := bits.Mul64(uint64(offNs), 1<<32)
	q, _ := bits.Div64(hi, lo, uint64(ivNs))
	if q > math.MaxUint32 {
		q = math.MaxUint32
	}
	return uint32(q)
}

func c09payloadLen(cs *c09case) int {
	n := 0
	for _, col := range cs.cols {
		n += typeWidth(col.T)
	}
	return n
}

type c09blobStat struct {
	year       int
	slot       int64
	n          int
	raw, compr int
}

// c09blobs builds, for requests [0,upto], the record bytes the model expects in every interval (append order,
// then stable sort by tick) and their Snappy-compressed size.
func c09blobs(cs *c09case, upto int) []c09blobStat {
	L := c09payloadLen(cs)
	iv := cs.tf.sec * 1e9
	type key struct {
		year int
		slot int64
	}
	type recb struct {
		tick uint32
		b    []byte
	}
	m := map[key][]recb{}
	for q := 0; q <= upto; q++ {
		for _, rc := range cs.reqs[q] {
			b := make([]byte, 0, L+4)
			for j, col := range cs.cols {
				var w [8]byte
				binary.LittleEndian.PutUint64(w[:], rc.vals[j])
				b = append(b, w[:typeWidth(col.T)]...)
			}
			tk := c09ticks(rc.t-rc.start*1e9, iv)
			var w [4]byte
			binary.LittleEndian.PutUint32(w[:], tk)
			b = append(b, w[:]...)
			k := key{rc.year, rc.slot}
			m[k] = append(m[k], recb{tk, b})
		}
	}
	var out []c09blobStat
	for k, rs := range m {
		sort.SliceStable(rs, func(i, j int) bool { return rs[i].tick < rs[j].tick })
		blob := make([]byte, 0, len(rs)*(L+4))
		for _, x := range rs {
			blob = append(blob, x.b...)
		}
		out = append(out, c09blobStat{k.year, k.slot, len(rs), len(blob), len(snappy.Encode(nil, blob))})
	}
	sort.Slice(out, func(i, j int) bool {
		if out[i].year != out[j].year {
			return out[i].year < out[j].year
		}
		return out[i].slot < out[j].slot
	})
	return out
}

// c09overflow replays the reader's buffer arithmetic per year file: capacity = 4 x (sum of the compressed
// interval sizes), doubled at most once per interval when the next interval does not fit, overflow when it
// still does not fit. The model's compressed sizes may differ a little from the real ones, and the
// outcome is not monotone in the capacity (a smaller capacity doubles earlier), so the replay is done for
// every scale factor f in [lo,hi] applied to the sum at once, splitting the range at each comparison.
// It reports whether an overflow is possible for some f in the range.
func c09overflow(cs *c09case, blobs []c09blobStat, lo, hi float64) bool {
	outLen := c09payloadLen(cs) + 4 + 8
	for i := 0; i < len(blobs); {
		j := i
		sum := 0.0
		var us []float64
		for j < len(blobs) && blobs[j].year == blobs[i].year {
			sum += float64(blobs[j].compr)
			us = append(us, float64(blobs[j].n*outLen))
			j++
		}
		if c09ovf(us, 0, 0, 4*sum, lo, hi) {
			return true
		}
		i = j
	}
	return false
}

// c09ovf: base = capacity for f = 1; the real capacity is f*base for an unknown f in [lo,hi].
func c09ovf(us []float64, i int, cursor, base, lo, hi float64) bool {
	if lo > hi || base <= 0 {
		return base <= 0 && len(us) > 0
	}
	for ; i < len(us); i++ {
		need := cursor + us[i]
		th := need / base // f < th: the interval does not fit, the capacity is doubled
		if th <= lo {
			cursor = need
			continue
		}
		if th <= hi {
			// f in [th,hi] continues without doubling
			if c09ovf(us, i+1, need, base, th, hi) {
				return true
			}
			hi = th
		}
		base *= 2
		if need/base > lo {
			return true // for the smallest f of the range the doubled capacity is still too small
		}
		cursor = need
	}
	return false
}

func c09gen(c *runner.Ctx) *c09case {
	cs := c09build(c, false)
	if cs.stratum == "snappy-identical" || cs.stratum == "snappy-shape" {
		return cs
	}
	for q := range cs.reqs {
		if c09overflow(cs, c09blobs(cs, q), 0.7, 1.3) {
			return c09build(c, true)
		}
	}
	return cs
}

// ---------------------------------------------------------------------------------------------
// oracle

type c09exp struct {
	t    int64
	vals []uint64
}

// c09expected lists the records the query must return after requests [0,upto].
func c09expected(cs *c09case, upto int, asP, asJ bool) []c09exp {
	var out []c09exp
	tf := cs.tf.sec
	for q := 0; q <= upto; q++ {
		recs := cs.reqs[q]
		var cy []int
		if asP {
			ys := make([]yearSlot, len(recs))
			for i, rc := range recs {
				ys[i] = yearSlot{rc.year, rc.slot}
			}
			cy, _ = prevYearCmdYears(ys)
		}
		for i, rc := range recs {
			if asJ && tf == 86400 && rc.slot == 0 {
				continue
			}
			t := rc.t
			if asP && cy[i] != rc.year {
				t += (yearStart(cy[i]) - yearStart(rc.year)) * 1e9
			}
			out = append(out, c09exp{t, rc.vals})
		}
	}
	return out
}

func c09triggers(cs *c09case, upto int) (trigP, trigJ bool) {
	for q := 0; q <= upto; q++ {
		recs := cs.reqs[q]
		ys := make([]yearSlot, len(recs))
		for i, rc := range recs {
			ys[i] = yearSlot{rc.year, rc.slot}
			if cs.tf.sec == 86400 && rc.slot == 0 {
				trigJ = true
			}
		}
		if _, t := prevYearCmdYears(ys); t {
			trigP = true
		}
	}
	return
}

func c09key(vals []uint64) string {
	b := make([]byte, 8*len(vals))
	for i, v := range vals {
		binary.LittleEndian.PutUint64(b[8*i:], v)
	}
	return string(b)
}

// c09diff compares the result with the expected multiset; "" when the property holds.
func c09diff(cs *c09case, tbl *ms.Table, exp []c09exp) (string, []string) {
	var msgs, ex []string
	add := func(f string, a ...interface{}) {
		if len(msgs) < 6 {
			msgs = append(msgs, fmt.Sprintf(f, a...))
		}
	}
	if tbl.N != len(exp) {
		add("%d records returned, %d written", tbl.N, len(exp))
	}
	if tbl.N > 0 && (tbl.Epoch == nil || tbl.Nanos == nil) {
		return fmt.Sprintf("result lacks the Epoch/Nanoseconds columns (have %v)", tbl.Names), nil
	}
	for i := 1; i < tbl.N; i++ {
		if tbl.TimeNs(i) < tbl.TimeNs(i-1) {
			add("times decrease between result rows %d and %d: %s then %s", i-1, i, fmtNs(tbl.TimeNs(i-1)), fmtNs(tbl.TimeNs(i)))
			break
		}
	}
	cols := make([]interface{}, len(cs.cols))
	for j, col := range cs.cols {
		data, ok := tbl.Cols[col.Name]
		if !ok {
			if tbl.N == 0 && len(exp) == 0 {
				continue
			}
			if tbl.N == 0 {
				return strings.Join(msgs, "; "), nil
			}
			return fmt.Sprintf("column %s missing from the result (have %v)", col.Name, tbl.Names), nil
		}
		if !sameColType(col.T, data) {
			return fmt.Sprintf("column %s returned as %T, written as %s", col.Name, data, col.Str), nil
		}
		if colLen(data) != tbl.N {
			return fmt.Sprintf("column %s has %d values for %d rows", col.Name, colLen(data), tbl.N), nil
		}
		cols[j] = data
	}
	want := map[string][]int64{}
	for _, e := range exp {
		k := c09key(e.vals)
		want[k] = append(want[k], e.t)
	}
	got := map[string][]int64{}
	vals := make([]uint64, len(cs.cols))
	for i := 0; i < tbl.N; i++ {
		for j := range cs.cols {
			vals[j], _ = cellBits(cols[j], i)
		}
		k := c09key(vals)
		got[k] = append(got[k], tbl.TimeNs(i))
		if _, ok := want[k]; !ok && len(ex) < 5 {
			add("result row %d has a value tuple that was never written (torn or invented record): %s", i, tbl.RowString(i))
			ex = append(ex, "returned: "+tbl.RowString(i))
		}
	}
	tf := cs.tf.sec
	iv := tf * 1e9
	res := c09res(tf)
	keys := make([]string, 0, len(want))
	for k := range want {
		keys = append(keys, k)
	}
	sort.Strings(keys)
	for _, k := range keys {
		w, g := want[k], got[k]
		if len(w) != len(g) {
			add("record with values %#x written %d times (first at %s), returned %d times", exampleVals(k), len(w), fmtNs(w[0]), len(g))
			if len(ex) < 5 {
				ex = append(ex, fmt.Sprintf("written %dx at %s, returned %dx: values %#x", len(w), fmtNs(w[0]), len(g), exampleVals(k)))
			}
			continue
		}
		sort.Slice(w, func(i, j int) bool { return w[i] < w[j] })
		sort.Slice(g, func(i, j int) bool { return g[i] < g[j] })
		for i := range w {
			t, tr := w[i], g[i]
			d := t - tr
			okIv := tr >= 0 && tr/iv == t/iv
			okD := d >= 0 && d <= res
			if tf == 1 {
				okD = d == 0
			}
			if !okIv || !okD {
				add("record values %#x written at %s (interval %s, resolution %d ns) returned at %s: t-t' = %d ns", exampleVals(k), fmtNs(t), fmtSec(t/iv*tf), res, fmtNs(tr), d)
				if len(ex) < 5 {
					ex = append(ex, fmt.Sprintf("written %s returned %s values %#x", fmtNs(t), fmtNs(tr), exampleVals(k)))
				}
				break
			}
		}
	}
	return strings.Join(msgs, "; "), ex
}

func exampleVals(k string) []uint64 {
	out := make([]uint64, len(k)/8)
	for i := range out {
		out[i] = binary.LittleEndian.Uint64([]byte(k[8*i:]))
	}
	return out
}

func c09witness(cs *c09case, upto int, ex []string, blobs []c09blobStat) map[string]interface{} {
	cols := []string{}
	for _, c := range cs.cols {
		cols = append(cols, c.Name)
	}
	var reqs []interface{}
	for q := 0; q <= upto; q++ {
		recs := cs.reqs[q]
		var first []string
		for i, rc := range recs {
			if i >= 6 {
				break
			}
			first = append(first, fmt.Sprintf("Epoch=%d Nanoseconds=%d (%s) vals=%#x", rc.t/1e9, rc.t%1e9, fmtNs(rc.t), rc.vals))
		}
		perIv := map[string]int{}
		for _, rc := range recs {
			perIv[fmtSec(rc.start)]++
		}
		reqs = append(reqs, map[string]interface{}{"request": q, "records": len(recs), "records_per_interval": perIv, "first_records": first})
	}
	w := map[string]interface{}{
		"bucket": "C09/" + cs.tf.name + "/TICK", "timeframe": cs.tf.name, "columns": cols, "payload_shape": cs.shape,
		"requests": reqs, "query": fmt.Sprintf("all time, after request %d", upto), "examples": ex,
	}
	if blobs != nil {
		var bs []string
		for _, b := range blobs {
			bs = append(bs, fmt.Sprintf("year %d slot %d: %d records, %d bytes, Snappy %d bytes", b.year, b.slot, b.n, b.raw, b.compr))
		}
		w["model_intervals"] = bs
	}
	return w
}

func c09run(c *runner.Ctx) runner.Result {
	var res runner.Result
	ms.Quiet()
	cs := c09gen(c)
	key := "C09/" + cs.tf.name + "/TICK"
	var inst *ms.Inst
	if p := ms.Recover(func() { inst = ms.Open(c.Scratch+"/root", ms.Opts{}) }); p != "" {
		res.Inconclusive("cannot open instance: " + p)
		return res
	}
	reported := map[string]bool{}
	nRecs, appends, wholeSec, edgeOff, maxPerIv := 0, 0, 0, 0, 0
	perIv := map[int64]int{}
	iv := cs.tf.sec * 1e9
	rsl := c09res(cs.tf.sec)
	for q, recs := range cs.reqs {
		epochs := make([]int64, len(recs))
		nanos := make([]int32, len(recs))
		inReq := map[int64]struct{}{}
		for i, rc := range recs {
			epochs[i] = rc.t / 1e9
			nanos[i] = int32(rc.t % 1e9)
			if _, ok := inReq[rc.start]; !ok {
				inReq[rc.start] = struct{}{}
				if perIv[rc.start] > 0 {
					appends++
				}
			}
			off := rc.t - rc.start*1e9
			if off%1e9 == 0 {
				wholeSec++
			}
			if off == 0 || off == 1 || off == rsl-1 || off == rsl || off == iv-1 {
				edgeOff++
			}
		}
		for _, rc := range recs {
			perIv[rc.start]++
			if perIv[rc.start] > maxPerIv {
				maxPerIv = perIv[rc.start]
			}
		}
		var mcols []ms.Col
		if cs.nanosFirst {
			mcols = append(mcols, ms.Col{Name: "Nanoseconds", Data: nanos})
		}
		for ci, col := range cs.cols {
			b := make([]uint64, len(recs))
			for i, rc := range recs {
				b[i] = rc.vals[ci]
			}
			mcols = append(mcols, ms.Col{Name: col.Name, Data: mkColBits(col.T, b)})
		}
		if !cs.nanosFirst {
			mcols = append(mcols, ms.Col{Name: "Nanoseconds", Data: nanos})
		}
		var werr error
		if p, st := recoverStack(func() { werr = inst.Write(key, ms.CS(epochs, mcols...), true) }); p != "" {
			res.Violation(fmt.Sprintf("write request %d panicked: %s", q, p), map[string]interface{}{"witness": c09witness(cs, q, nil, nil), "stack": firstN(st, 3000)})
			return res
		}
		if werr != nil {
			res.Inconclusive(fmt.Sprintf("write request %d of a valid variable-length request failed: %v", q, werr))
			return res
		}
		nRecs += len(recs)
		res.Count("requests", 1)
		if !cs.queryAt[q] {
			continue
		}
		blobs := c09blobs(cs, q)
		raw, compr := 0, 0
		var ratios []string
		for _, b := range blobs {
			raw += b.raw
			compr += b.compr
			if b.compr > 0 {
				ratio := float64(b.raw) / float64(b.compr)
				switch {
				case ratio >= 20:
					ratios = append(ratios, ">=20")
				case ratio >= 8:
					ratios = append(ratios, "8..20")
				case ratio >= 3:
					ratios = append(ratios, "3..8")
				case ratio >= 1.5:
					ratios = append(ratios, "1.5..3")
				default:
					ratios = append(ratios, "<1.5")
				}
			}
		}
		var tbl *ms.Table
		var qerr error
		fourH := false
		p, st := recoverStack(func() { tbl, fourH, qerr = queryAllObserved(inst, key, cs.tf.name) })
		res.Count("queries", 1)
		if p != "" {
			trigS := c09overflow(cs, blobs, 0.9, 1.1)
			if trigS && strings.Contains(p, "slice bounds out of range") && strings.Contains(st, "readSecondStage") {
				res.Count("snappy_panics", 1)
				res.Known("F-SNAPPY", fmt.Sprintf("%s bucket, unrestricted query after request %d (%d records, %d bytes on disk compressed to about %d) panicked: %s", cs.tf.name, q, nRecs, raw, compr, p), c09witness(cs, q, nil, blobs))
			} else {
				res.Violation(fmt.Sprintf("%s bucket, unrestricted query after request %d panicked: %s", cs.tf.name, q, p), map[string]interface{}{"witness": c09witness(cs, q, nil, blobs), "stack": firstN(st, 3000)})
			}
			break
		}
		if qerr != nil {
			if !ms.QueryErrNoData(qerr) {
				res.Violation(fmt.Sprintf("unrestricted query after request %d failed: %v", q, qerr), c09witness(cs, q, nil, blobs))
				return res
			}
			tbl = &ms.Table{Cols: map[string]interface{}{}}
		}
		if fourH && !reported["F-4H"] {
			reported["F-4H"] = true
			res.Known("F-4H", fmt.Sprintf("QueryService.ExecuteQuery on bucket %s after %d written records: 'no files returned from query parse' (the key's timeframe is rewritten to 2H); the same query through planner+reader on the unmodified key returns %d records", key, nRecs, tbl.N),
				map[string]interface{}{"bucket": key, "query": "ExecuteQuery(all time)", "returned": "error: no files returned from query parse"})
		}
		res.Count("records_compared", int64(tbl.N))
		for _, rt := range ratios {
			res.Set("interval_compression_ratio_in_judged_results", rt)
		}
		d, ex := c09diff(cs, tbl, c09expected(cs, q, false, false))
		if d == "" {
			continue
		}
		trigP, trigJ := c09triggers(cs, q)
		type combo struct {
			p, j bool
			ids  []string
		}
		var combos []combo
		if trigJ {
			combos = append(combos, combo{false, true, []string{"F-JAN1"}})
		}
		if trigP {
			combos = append(combos, combo{true, false, []string{"F-PREVYEAR"}})
		}
		if trigP && trigJ {
			combos = append(combos, combo{true, true, []string{"F-JAN1", "F-PREVYEAR"}})
		}
		matched := false
		for _, cb := range combos {
			if dd, _ := c09diff(cs, tbl, c09expected(cs, q, cb.p, cb.j)); dd == "" {
				matched = true
				for _, id := range cb.ids {
					if !reported[id] {
						reported[id] = true
						res.Known(id, fmt.Sprintf("%s bucket, after request %d: %s (result equals the as-is model of %v)", cs.tf.name, q, d, cb.ids), c09witness(cs, q, ex, nil))
					}
				}
				break
			}
		}
		if !matched {
			res.Violation(fmt.Sprintf("%s bucket, unrestricted query after request %d is not a time-ordered permutation of the written records: %s", cs.tf.name, q, d), c09witness(cs, q, ex, blobs))
			return res
		}
	}
	res.Count("records_written", int64(nRecs))
	res.Count("appends_to_existing_interval", int64(appends))
	res.Count("whole_second_records", int64(wholeSec))
	res.Count("edge_offset_records", int64(edgeOff))
	res.Count("intervals", int64(len(perIv)))
	if cs.degraded {
		res.Count("avoid_cases_redrawn_random", 1)
	}
	res.Set("timeframes", cs.tf.name)
	for _, col := range cs.cols {
		res.Set("types", col.Str)
	}
	res.Set("strata", cs.stratum)
	res.Set("payload_shapes", cs.shape)
	for k := range cs.tmodes {
		res.Set("time_modes", k)
	}
	mb := "n<=10"
	switch {
	case maxPerIv > 1000:
		mb = "n>1000"
	case maxPerIv > 300:
		mb = "n<=1000"
	case maxPerIv > 100:
		mb = "n<=300"
	case maxPerIv > 10:
		mb = "n<=100"
	}
	// non-trivial: records written and at least one query judged
	res.Sig = fmt.Sprintf("%s/%s/%s/i%d/%s/app%v", cs.tf.name, cs.stratum, cs.shape, len(perIv), mb, appends > 0)
	if c.Case < 3 {
		res.Sample = c09witness(cs, 0, nil, nil)
	}
	return res
}

func init() {
	register(&runner.Monitor{
		ID:    "C09",
		Level: "exploration",
		Rule: "case = one variable-length bucket on a fresh instance: timeframe (all ten, rotating), 1-6 value columns (column 0 = record id, others by payload shape scaled-id / random / ramp / constant / all-zero / identical records), 2-3 years, 1-6 intervals (first/second/last interval of a year, Feb 28/29, Mar 1, random), 1-5 requests each appending 1-300 records to a subset of the intervals (3000-6000 identical records in the F-SNAPPY stratum), nanosecond offsets 0, 1, res-1, res, interval-1, whole seconds (+-1..6 ns), last second, random, per-interval time modes mixed/same/ramp/random, request order shuffled/sorted/grouped; after requests the unrestricted query is judged against the multiset/time oracle. " +
			"21 of 25 cases stay clear of every known trigger (payload re-drawn as random when the F-SNAPPY condition could hold with compressed sizes within +-30 % of the model's), 4 of 25 aim at F-SNAPPY (two kinds), F-PREVYEAR, F-JAN1. Non-trivial: records written and a query judged; distinct by (timeframe, stratum, payload shape, #intervals, max records per interval bucket, repeated appends)",
		Assumptions: []string{
			"instance configured with the UTC time zone and the default Snappy compression of variable-length data",
			"inline flush: WriteCSM returns after the WAL and the primary write (no background SyncWAL goroutine)",
		},
		Cases:        c09cases,
		Batch:        20,
		Run:          c09run,
		BatchTimeout: 90 * time.Minute,
		Need:         []string{"records_written", "queries", "records_compared", "appends_to_existing_interval", "whole_second_records", "edge_offset_records"},
	})
}
