package main

import (
	"fmt"
	"os"
	"time"

	"github.com/alpacahq/marketstore/v4/sqlparser"
	"github.com/alpacahq/marketstore/v4/verif/internal/gen"
	"github.com/alpacahq/marketstore/v4/verif/internal/ms"
)

func main() {
	ms.Quiet()
	dir, _ := os.MkdirTemp("/dev/shm", "sqlprobe-")
	defer os.RemoveAll(dir)
	for _, c := range []int{0, 1, 5, 6} {
		t0 := time.Now()
		inst := ms.Open(fmt.Sprintf("%s/root%d", dir, c), ms.Opts{SetGlobalInstance: true})
		tOpen := time.Since(t0)
		t := genTable(gen.New(1, "C19/table", c), tableOpt{Variable: c%5 == 4, Odd: c%2 == 1})
		t0 = time.Now()
		err := t.store(inst)
		tStore := time.Since(t0)
		var tParse, tExec, tMat, tGen time.Duration
		for s := 0; s < 32; s++ {
			r := gen.New(1, fmt.Sprintf("C19/stmt%d", s), c)
			t0 = time.Now()
			w := t.genWhereMain(r, 3, nil)
			t.evalIdeal(w)
			tGen += time.Since(t0)
			stmt := "SELECT * FROM `" + t.Key + "` WHERE " + w.render(false, false) + ";"
			t0 = time.Now()
			tree, e := sqlparser.BuildQueryTree(stmt)
			tParse += time.Since(t0)
			if e != nil {
				panic(e)
			}
			t0 = time.Now()
			es, e := sqlparser.NewExecutableStatement(tree)
			tExec += time.Since(t0)
			t0 = time.Now()
			es.Materialize(inst.Agg, inst.Cat)
			tMat += time.Since(t0)
		}
		fmt.Fprintln(os.Stderr, t.Key, err, "open", tOpen, "store", tStore, "gen", tGen, "parse", tParse, "exec", tExec, "mat", tMat)
	}
}
