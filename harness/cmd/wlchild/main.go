// wlchild: executes a write history against a real instance (same wiring as cmd/start) and writes
// S/A/E markers to a marker file; run under strace by crashlab.
// usage: wlchild <root> <history.json> <markerfile> <outdir>
package main

import (
	"fmt"
	"os"
	"path/filepath"
	"sync"
	"sync/atomic"
	"time"

	"github.com/alpacahq/marketstore/v4/frontend"
	"github.com/alpacahq/marketstore/v4/utils/io"
	"github.com/alpacahq/marketstore/v4/utils/verifhook"
	"github.com/alpacahq/marketstore/v4/verif/internal/dump"
	"github.com/alpacahq/marketstore/v4/verif/internal/gen"
	"github.com/alpacahq/marketstore/v4/verif/internal/hist"
	"github.com/alpacahq/marketstore/v4/verif/internal/ms"
)

var mf *os.File
var mmu sync.Mutex
var lateActive int32
var lateQueued = make(chan struct{})
var lateQueuedOnce sync.Once

// syncHold, when non-nil, holds the late request at the entry of RequestFlush (its records are queued,
// its flush not yet requested) until Shutdown() has returned
var syncHold chan struct{}

func mark(s string) {
	mmu.Lock()
	mf.Write([]byte(s + "\n"))
	mmu.Unlock()
}

func buildCSM(s hist.Step) io.ColumnSeriesMap {
	csm := io.NewColumnSeriesMap()
	for _, b := range s.Buckets {
		n := len(b.Rows)
		ep := make([]int64, n)
		ns := make([]int32, n)
		a := make([]int64, n)
		bb := make([]int64, n)
		for i, r := range b.Rows {
			ep[i] = r.T / 1e9
			ns[i] = int32(r.T % 1e9)
			a[i] = r.V
			bb[i] = hist.ColB(r.V)
		}
		cs := io.NewColumnSeries()
		cs.AddColumn("Epoch", ep)
		cs.AddColumn("A", a)
		cs.AddColumn("B", bb)
		if s.Variable {
			cs.AddColumn("Nanoseconds", ns)
		}
		csm.AddColumnSeries(*ms.TBK(b.Key), cs)
	}
	return csm
}

// readBack queries every interval the (already acknowledged) request wrote and reports whether the
// request's own data is there. The caller owns these intervals, so the expected content is exactly its
// last write (fixed) / includes all its records (variable).
func readBack(in *ms.Inst, s hist.Step) string {
	for _, b := range s.Buckets {
		last := map[int64]int64{}
		for _, r := range b.Rows {
			last[hist.IntervalStart(b.Key, r.T)] = r.V
		}
		d := int64(hist.TFDur(hist.KeyTF(b.Key)) / time.Second)
		for start := range last {
			var t *ms.Table
			var err error
			p := ms.Recover(func() {
				t, err = in.Query(b.Key, time.Unix(start, 0).UTC(), time.Unix(start+d-1, 999999999).UTC(), 0, false, nil)
			})
			if p != "" {
				return "error panic:" + p
			}
			if err != nil {
				if ms.QueryErrNoData(err) {
					return fmt.Sprintf("stale %s@%d: no data", b.Key, start)
				}
				return "error " + err.Error()
			}
			a, _ := t.Cols["A"].([]int64)
			have := map[int64]bool{}
			for _, v := range a {
				have[v] = true
			}
			if s.Variable {
				for _, r := range b.Rows {
					if hist.IntervalStart(b.Key, r.T) == start && !have[r.V] {
						return fmt.Sprintf("stale %s@%d: record %d not returned (%d rows)", b.Key, start, r.V, len(a))
					}
				}
			} else if !have[last[start]] {
				return fmt.Sprintf("stale %s@%d: expected %d, got %v", b.Key, start, last[start], a)
			}
		}
	}
	return "ok"
}

func main() {
	if len(os.Args) < 5 {
		fmt.Fprintln(os.Stderr, "usage: wlchild <root> <history.json> <markerfile> <outdir>")
		os.Exit(64)
	}
	root, hpath, mpath, outdir := os.Args[1], os.Args[2], os.Args[3], os.Args[4]
	var h hist.History
	if err := hist.ReadJSON(hpath, &h); err != nil {
		fmt.Fprintln(os.Stderr, err)
		os.Exit(64)
	}
	var err error
	mf, err = os.OpenFile(mpath, os.O_CREATE|os.O_WRONLY|os.O_APPEND, 0o644)
	if err != nil {
		fmt.Fprintln(os.Stderr, err)
		os.Exit(64)
	}
	ms.Quiet()
	// seeded scheduling perturbation at the hook points (no oracle depends on it)
	var evn int64
	var sigmu sync.Mutex
	var trace []string
	if h.HookSeed != 0 {
		verifhook.Set(func(name string) {
			n := atomic.AddInt64(&evn, 1)
			sigmu.Lock()
			if len(trace) < 4000 {
				trace = append(trace, name)
			}
			sigmu.Unlock()
			r := gen.New(h.HookSeed, name, int(n))
			if name == "wal.reqflush.enter" && atomic.LoadInt32(&lateActive) == 1 {
				lateQueuedOnce.Do(func() { close(lateQueued) })
				// the request that races with Shutdown(): widen the window between "commands queued" and
				// "flush requested", then leave a marker so the judge can tell a transaction written before
				// this point (by the WAL loop) from one written after it (by the request's own flush)
				if syncHold != nil {
					select {
					case <-syncHold:
					case <-time.After(20 * time.Second):
						mark("HOLDTIMEOUT")
					}
				} else {
					time.Sleep(time.Duration(r.Intn(3000)) * time.Microsecond)
				}
				mark("HRF")
				return
			}
			if name == "wal.reqflush.queued" && atomic.LoadInt32(&lateActive) == 1 {
				mark("HRQ") // the late request handed its flush to the WAL loop (it did not flush by itself)
			}
			switch r.Intn(8) {
			case 0:
				time.Sleep(time.Duration(50+r.Intn(1500)) * time.Microsecond)
			case 1, 2:
				for i := 0; i < 3; i++ {
					// yield
					time.Sleep(0)
				}
			}
		})
	}
	opts := ms.Opts{}
	if h.Mode == "background" {
		opts.WALRefresh = time.Duration(h.WalMs) * time.Millisecond
		opts.PrimaryRefresh = time.Duration(h.PrimMs) * time.Millisecond
		opts.RotateInterval = h.Rotate
	}
	in := ms.Open(root, opts)
	mark("O")
	runThread := func(steps []hist.Step) {
		for _, s := range steps {
			switch s.Op {
			case "write":
				csm := buildCSM(s)
				mark(fmt.Sprintf("S %d", s.ID))
				var werr error
				p := ms.Recover(func() { werr = in.W.WriteCSM(csm, s.Variable) })
				switch {
				case p != "":
					mark(fmt.Sprintf("P %d %s", s.ID, p))
				case werr != nil:
					mark(fmt.Sprintf("E %d %s", s.ID, werr.Error()))
				default:
					mark(fmt.Sprintf("A %d", s.ID))
					if s.ReadBack {
						mark(fmt.Sprintf("R %d %s", s.ID, readBack(in, s)))
					}
				}
			case "destroy":
				// Destroy request for one bucket through the real handler
				key := s.Buckets[0].Key
				mark(fmt.Sprintf("DS %d %s", s.ID, key))
				var resp frontend.MultiServerResponse
				p := ms.Recover(func() {
					in.DS.Destroy(nil, &frontend.MultiKeyRequest{Requests: []frontend.KeyRequest{{Key: key}}}, &resp)
				})
				if p == "" && len(resp.Responses) > 0 && resp.Responses[0].Error == "" {
					mark(fmt.Sprintf("DA %d %s", s.ID, key))
				} else {
					mark(fmt.Sprintf("DE %d %s", s.ID, key))
				}
			case "checkpoint":
				if h.Mode == "inline" {
					if err := in.WAL.CreateCheckpoint(); err != nil {
						mark("CKERR " + err.Error())
					} else {
						mark("CK")
					}
				}
			case "sleep":
				time.Sleep(time.Duration(s.Us) * time.Microsecond)
			}
		}
	}
	var wg sync.WaitGroup
	inflight := (h.End == "shutdown_inflight" || h.End == "shutdown_inflight_sync") && len(h.Threads) > 0 && len(h.Threads[0]) > 0
	var lastStep []hist.Step
	for ti, th := range h.Threads {
		steps := th
		if ti == 0 && inflight {
			lastStep = steps[len(steps)-1:]
			steps = steps[:len(steps)-1]
		}
		wg.Add(1)
		go func(st []hist.Step) { defer wg.Done(); runThread(st) }(steps)
	}
	wg.Wait()
	switch h.End {
	case "shutdown", "shutdown_inflight", "shutdown_inflight_sync":
		if h.PreShutdownUs > 0 {
			time.Sleep(time.Duration(h.PreShutdownUs) * time.Microsecond)
		}
		mark("Q")
		d1 := dump.All(in, true)
		d1.Stage = "before_shutdown"
		hist.WriteJSON(filepath.Join(outdir, "dump_before.json"), d1)
		lateDone := make(chan struct{})
		if inflight {
			if h.End == "shutdown_inflight_sync" {
				syncHold = make(chan struct{})
			}
			atomic.StoreInt32(&lateActive, 1)
			go func() { runThread(lastStep); close(lateDone) }()
			if h.End == "shutdown_inflight_sync" {
				// request the shutdown exactly when the late request has queued its records and is about to
				// ask for its flush
				select {
				case <-lateQueued:
				case <-time.After(time.Second):
				}
			} else {
				time.Sleep(time.Duration(h.HookSeed%7) * 300 * time.Microsecond)
			}
		} else {
			close(lateDone)
		}
		mark("SD")
		sdDone := make(chan struct{})
		go func() { in.Shutdown(); close(sdDone) }()
		select {
		case <-sdDone:
		case <-time.After(15 * time.Second):
			// Shutdown() polls the write channel until it is empty; a request that queued records after
			// the WAL loop had gone leaves it non-empty for good
			mark("SDHANG")
			mark("END")
			os.Exit(0)
		}
		mark("X")
		if syncHold != nil {
			close(syncHold)
		}
		// give the request that raced with the shutdown time to return (it may be blocked for good when
		// its flush request was never served): its A marker tells the judge whether it flushed by itself
		select {
		case <-lateDone:
		case <-time.After(2 * time.Second):
			mark("LATEBLOCKED")
		}
		d2 := dump.All(in, true)
		d2.Stage = "after_shutdown"
		hist.WriteJSON(filepath.Join(outdir, "dump_after.json"), d2)
		mark("D2")
	}
	sigmu.Lock()
	hist.WriteJSON(filepath.Join(outdir, "hooktrace.json"), trace)
	sigmu.Unlock()
	mark("END")
	os.Exit(0)
}
