package main

// C31 Timeframe and candle-window arithmetic is consistent.
//
// Real code driven (utils/timeframe.go): CandleDurationFromString, CandleDuration.Truncate / Ceil / IsWithin /
// QueryableTimeframe / QueryableNrecords / Duration, TimeframeFromString, TimeframeFromDuration.
//
// Oracle (property text): for every candle duration cd and timestamp ts
//   (W1) Truncate(ts) <= ts                       window start at or before the timestamp
//   (W2) Ceil(ts) > ts                            window end after it
//   (W3) IsWithin(ts, Truncate(ts))               the timestamp is inside its own window
//   (W4) the window of ts is one window: its start belongs to it, so Truncate(Truncate(ts)) == Truncate(ts),
//        Ceil(Truncate(ts)) == Ceil(ts) and IsWithin(Truncate(ts), Truncate(ts))
//   (P)  for a timeframe string s that parses to p: q = TimeframeFromDuration(p.Duration) exists,
//        TimeframeFromString(q.String).Duration == p.Duration, and printing that again gives q.String
//   (Q)  the duration of QueryableTimeframe() is one of the on-disk timeframes and divides cd's duration
//        (for month candles, which have no fixed duration: divides one day)
// Nothing is asserted about the length of a window, about IsWithin for timestamps outside the window, or
// about QueryableNrecords (it is executed and a panic is counted, not judged).
//
// Known findings (as-is models):
//   F-WEEK     trigger: suffix W and (multiplier > 1 or the timestamp's zone is not at UTC offset 0 at ts or at
//              the window start). As-is: IsWithin is false exactly when the ISO week of ts (in its location)
//              differs from the ISO week of the window start (windows are cut at multiples of 7 d from the
//              zero time = Monday 00:00 UTC, membership compares ISO weeks).
//   F-DAYCEIL  trigger: suffix D and ts + 24 h does not fall on the calendar day after ts's day: ts in the first
//              (L - 24 h) of a local day of length L > 24 h (the day daylight saving ends), or in the last
//              (24 h - L) of the day before a day of length L < 24 h. As-is: Ceil(ts) == midnight of the date
//              of ts + 24 h: in the first case the "end" is the day's own midnight (<= ts, breaks W2), in the
//              second it is two midnights ahead (breaks W4: the day's start has a different window end).
//   F-TFPRINT  trigger: the duration d is not a whole multiple of the largest unit u <= d of {1s,1m,1h,1d,7d,365d},
//              as-is: it prints as floor(d/u) units (90Sec -> 1Min, 36H -> 1D); or d > 365 d, as-is: no
//              printed form at all (TimeframeFromDuration returns nil).

import (
	"fmt"
	"math"
	"time"

	"github.com/alpacahq/marketstore/v4/utils"
	"github.com/alpacahq/marketstore/v4/verif/internal/ms"
	"github.com/alpacahq/marketstore/v4/verif/internal/runner"
)

var c31zones = []string{"UTC", "America/New_York", "Europe/London", "Asia/Kolkata", "Australia/Lord_Howe"}

type c31suffix struct {
	s       string
	unit    time.Duration // 0: calendar month
	parser1 bool          // accepted by TimeframeFromString
	parser2 bool          // accepted by CandleDurationFromString
}

var c31suffixes = []c31suffix{
	{"S", time.Second, true, false},
	{"Sec", time.Second, true, true},
	{"T", time.Minute, true, false},
	{"Min", time.Minute, true, true},
	{"H", time.Hour, true, true},
	{"D", 24 * time.Hour, true, true},
	{"W", 7 * 24 * time.Hour, true, true},
	{"M", 0, false, true},
	{"Y", 365 * 24 * time.Hour, true, true},
}

// the on-disk timeframes (AGENT_BRIEF / DESIGN list), independent of utils.Timeframes
var c31disk = map[string]time.Duration{
	"1Sec": time.Second, "10Sec": 10 * time.Second, "30Sec": 30 * time.Second, "1Min": time.Minute, "5Min": 5 * time.Minute,
	"15Min": 15 * time.Minute, "30Min": 30 * time.Minute, "1H": time.Hour, "2H": 2 * time.Hour, "4H": 4 * time.Hour, "1D": 24 * time.Hour,
}

const c31block = 20

func c31blocks(tier string) int {
	if tier == "thorough" {
		return 20 // n <= 400
	}
	return 3 // n <= 60
}

func c31cases(tier string) int { return len(c31zones) * len(c31suffixes) * c31blocks(tier) }

var c31stampCache = map[string][]time.Time{}

// c31stamps: every (quick: every 11th) day of 2019-2021 at four times of day, the neighbourhood of every
// UTC-offset transition, Monday 00:00 UTC +-1 s, year edges; all in loc.
func c31stamps(loc *time.Location, thorough bool) ([]time.Time, int) {
	key := fmt.Sprint(loc, thorough)
	trans := tzTransitions(loc, time.Date(2019, 1, 1, 0, 0, 0, 0, loc), time.Date(2022, 1, 1, 0, 0, 0, 0, loc))
	if s, ok := c31stampCache[key]; ok {
		return s, len(trans)
	}
	var out []time.Time
	step := 11
	if thorough {
		step = 1
	}
	for d := 0; ; d += step {
		day := time.Date(2019, 1, 1+d, 0, 0, 0, 0, loc)
		if day.Year() > 2021 {
			break
		}
		y, m, dd := day.Date()
		out = append(out, day, time.Date(y, m, dd, 9, 31, 17, 123456789, loc), time.Date(y, m, dd, 17, 0, 0, 0, loc),
			time.Date(y, m, dd, 23, 59, 59, 999999999, loc))
	}
	h, mi, s := time.Hour, time.Minute, time.Second
	for _, T := range trans {
		for _, off := range []time.Duration{-25 * h, -24*h - s, -24 * h, -2 * h, -h - s, -h, -30 * mi, -s, 0, s, 30*mi - s, 30 * mi, h - s, h, 2 * h, 23 * h, 24 * h, 25 * h} {
			out = append(out, T.Add(off).In(loc))
		}
		for _, ref := range []time.Time{T.Add(-s).In(loc), T.In(loc)} {
			y, m, dd := ref.Date()
			mid := time.Date(y, m, dd, 0, 0, 0, 0, loc)
			for _, off := range []time.Duration{0, 1, s, 30*mi - s, 30 * mi, h - s, h, h + s} {
				out = append(out, mid.Add(off))
			}
		}
	}
	wstep := 5
	if thorough {
		wstep = 1
	}
	for w := 0; ; w += wstep {
		mon := time.Date(2018, 12, 31+7*w, 0, 0, 0, 0, time.UTC) // 2018-12-31 is a Monday
		if mon.Year() > 2021 {
			break
		}
		out = append(out, mon.Add(-s).In(loc), mon.In(loc), mon.Add(s).In(loc))
	}
	for y := 2019; y <= 2022; y++ {
		e := time.Date(y, 1, 1, 0, 0, 0, 0, loc)
		out = append(out, e.Add(-1), e, e.Add(1))
	}
	c31stampCache[key] = out
	return out, len(trans)
}

type c31out struct {
	n, bad                      int64
	firstBad                    string
	week, dayceil, tfprint      int64
	firstWeek, firstDC, firstTP string
	dstDayStamps                int64
}

func (o *c31out) fail(format string, a ...interface{}) {
	o.bad++
	if o.firstBad == "" {
		o.firstBad = fmt.Sprintf(format, a...)
	}
}

func c31fmt(t time.Time) string { return t.Format("2006-01-02T15:04:05.999999999Z07:00 Mon") }

// c31dayCeilAsIs: F-DAYCEIL trigger and as-is value for one Ceil argument. The trigger holds when arg + 24 h does
// not fall on the calendar day after arg's (arg in the first L-24h of a day longer than 24 h, or in the last
// 24h-L of the day before a day shorter than 24 h); the as-is result is the midnight of the date of arg + 24 h.
func c31dayCeilAsIs(arg time.Time) (bool, time.Time) {
	y, m, d := arg.Date()
	ny, nm, nd := time.Date(y, m, d+1, 12, 0, 0, 0, time.UTC).Date()
	ay, am, ad := arg.Add(24 * time.Hour).Date()
	return ay != ny || am != nm || ad != nd, time.Date(ay, am, ad, 0, 0, 0, 0, arg.Location())
}

func (o *c31out) knownDayCeil(name string, arg, ce time.Time, what string) {
	o.dayceil++
	if o.firstDC == "" {
		o.firstDC = fmt.Sprintf("%s: Ceil(%s) = %s: %s", name, c31fmt(arg), c31fmt(ce), what)
	}
}

// ceil judges W2 for one call; returns the result and whether it is free of a reported defect.
func (o *c31out) ceil(cd *utils.CandleDuration, sfx c31suffix, name string, arg time.Time) (time.Time, bool) {
	ce := cd.Ceil(arg)
	if ce.After(arg) {
		return ce, true
	}
	if sfx.s == "D" {
		if trig, asis := c31dayCeilAsIs(arg); trig && ce.Equal(asis) {
			o.knownDayCeil(name, arg, ce, "not after the timestamp")
			return ce, false
		}
	}
	o.fail("%s: Ceil(%s) = %s is not after the timestamp", name, c31fmt(arg), c31fmt(ce))
	return ce, false
}

// within judges W3 for one call.
func (o *c31out) within(cd *utils.CandleDuration, sfx c31suffix, mult int, name string, ts, start time.Time) {
	if cd.IsWithin(ts, start) {
		return
	}
	if sfx.s == "W" {
		_, o1 := ts.Zone()
		_, o2 := start.Zone()
		y1, w1 := ts.ISOWeek()
		y2, w2 := start.ISOWeek()
		if (mult > 1 || o1 != 0 || o2 != 0) && (y1 != y2 || w1 != w2) {
			o.week++
			if o.firstWeek == "" {
				o.firstWeek = fmt.Sprintf("%s: IsWithin(%s, Truncate = %s) = false", name, c31fmt(ts), c31fmt(start))
			}
			return
		}
	}
	o.fail("%s: IsWithin(%s, Truncate(ts) = %s) = false", name, c31fmt(ts), c31fmt(start))
}

func (o *c31out) window(cd *utils.CandleDuration, sfx c31suffix, mult int, name string, ts time.Time) {
	o.n++
	tr := cd.Truncate(ts)
	if tr.After(ts) {
		o.fail("%s: Truncate(%s) = %s is after the timestamp", name, c31fmt(ts), c31fmt(tr))
	}
	ce, ok1 := o.ceil(cd, sfx, name, ts)
	o.within(cd, sfx, mult, name, ts, tr)
	// W4
	if tr2 := cd.Truncate(tr); !tr2.Equal(tr) {
		o.fail("%s: Truncate(%s) = %s but Truncate of that = %s", name, c31fmt(ts), c31fmt(tr), c31fmt(tr2))
	}
	if !tr.Equal(ts) {
		ce2, ok2 := o.ceil(cd, sfx, name, tr)
		if ok1 && ok2 && !ce2.Equal(ce) && sfx.s == "D" {
			// which of the two calls is the defective one?
			t1, a1 := c31dayCeilAsIs(ts)
			t2, a2 := c31dayCeilAsIs(tr)
			if t1 && ce.Equal(a1) && !t2 {
				o.knownDayCeil(name, ts, ce, fmt.Sprintf("but the window of its start %s ends %s", c31fmt(tr), c31fmt(ce2)))
				ok1 = false
			} else if t2 && ce2.Equal(a2) && !t1 {
				o.knownDayCeil(name, tr, ce2, fmt.Sprintf("but the window of %s, which starts there, ends %s", c31fmt(ts), c31fmt(ce)))
				ok1 = false
			}
		}
		if ok1 && ok2 && !ce2.Equal(ce) {
			o.fail("%s: ts=%s has window start %s and end %s, but the end of the start's window is %s", name, c31fmt(ts), c31fmt(tr), c31fmt(ce), c31fmt(ce2))
		}
		o.within(cd, sfx, mult, name, tr, tr)
	}
}

// c31units: the units of TimeframeFromDuration's printed form, for the F-TFPRINT trigger.
var c31units = []time.Duration{time.Second, time.Minute, time.Hour, 24 * time.Hour, 7 * 24 * time.Hour, 365 * 24 * time.Hour}

func (o *c31out) parsePrint(name string, res *runner.Result) {
	p := utils.TimeframeFromString(name)
	if p == nil {
		o.fail("TimeframeFromString(%q) = nil", name)
		return
	}
	res.Count("parse_print_round_trips", 1)
	d := p.Duration
	u := time.Second
	for _, x := range c31units {
		if x <= d {
			u = x
		}
	}
	q := utils.TimeframeFromDuration(d)
	if q == nil {
		if d > 365*24*time.Hour {
			o.tfprint++
			if o.firstTP == "" {
				o.firstTP = fmt.Sprintf("%q parses to %s which has no printed form (TimeframeFromDuration = nil)", name, d)
			}
			return
		}
		o.fail("%q parses to %s; TimeframeFromDuration(%s) = nil", name, d, d)
		return
	}
	p2 := utils.TimeframeFromString(q.String)
	if p2 != nil && p2.Duration == d {
		if q2 := utils.TimeframeFromDuration(p2.Duration); q2 == nil || q2.String != q.String {
			o.fail("%q prints as %q, which parses and prints again as %v", name, q.String, q2)
		}
		return
	}
	if p2 != nil && d%u != 0 && p2.Duration == (d/u)*u {
		o.tfprint++
		if o.firstTP == "" {
			o.firstTP = fmt.Sprintf("%q parses to %s, prints as %q, which parses to %s", name, d, q.String, p2.Duration)
		}
		return
	}
	if p2 == nil {
		o.fail("%q parses to %s and prints as %q, which does not parse", name, d, q.String)
		return
	}
	o.fail("%q parses to %s and prints as %q, which parses to %s", name, d, q.String, p2.Duration)
}

func c31run(c *runner.Ctx) runner.Result {
	var res runner.Result
	ms.Quiet()
	nb := c31blocks(c.Tier)
	perZone := len(c31suffixes) * nb
	zname := c31zones[c.Case/perZone]
	sfx := c31suffixes[(c.Case%perZone)/nb]
	block := c.Case % nb
	loc := tzLoad(zname)
	if loc == nil {
		res.Count("cases_skipped_zone_missing", 1)
		res.Set("zones_missing", zname)
		return res
	}
	utils.InstanceConfig.Timezone = loc
	stamps, ntrans := c31stamps(loc, c.Thorough())
	var o c31out
	var windows, queryable int64
	for n := block*c31block + 1; n <= (block+1)*c31block; n++ {
		name := fmt.Sprintf("%d%s", n, sfx.s)
		if sfx.unit > 0 && int64(n) > math.MaxInt64/int64(sfx.unit) {
			res.Count("strings_skipped_duration_overflows_int64", 1)
			continue
		}
		res.Count("duration_strings", 1)
		if sfx.parser1 {
			o.parsePrint(name, &res)
		} else if p := utils.TimeframeFromString(name); p != nil {
			res.Count("parser1_accepts_month_suffix", 1)
		}
		cd, err := utils.CandleDurationFromString(name)
		if !sfx.parser2 {
			if err == nil {
				res.Count("parser2_accepts_short_suffix", 1)
			}
			continue
		}
		if err != nil || cd == nil {
			o.fail("CandleDurationFromString(%q): %v", name, err)
			continue
		}
		// parse / print for the candle parser: its printed form is the String field
		if cd2, err2 := utils.CandleDurationFromString(cd.String); err2 != nil || cd2.Duration() != cd.Duration() || cd2.String != cd.String {
			o.fail("CandleDurationFromString(%q).String = %q does not parse back to the same duration", name, cd.String)
		}
		// Q
		qtf := cd.QueryableTimeframe()
		qd, ok := c31disk[qtf]
		queryable++
		switch {
		case !ok:
			o.fail("%s: QueryableTimeframe() = %q is not an on-disk timeframe", name, qtf)
		case sfx.unit == 0 && (24*time.Hour)%qd != 0:
			o.fail("%s: QueryableTimeframe() = %q does not divide a day", name, qtf)
		case sfx.unit != 0 && (cd.Duration() <= 0 || cd.Duration()%qd != 0):
			o.fail("%s: QueryableTimeframe() = %q (%s) does not divide the duration %s", name, qtf, qd, cd.Duration())
		}
		if ok {
			if p := ms.Recover(func() { _ = cd.QueryableNrecords(qtf, 7) }); p != "" {
				res.Count("queryable_nrecords_panics", 1)
			}
		}
		for _, ts := range stamps {
			o.window(cd, sfx, n, name, ts)
		}
		windows += int64(len(stamps))
	}
	res.Evals = o.n + res.Counts["parse_print_round_trips"]
	res.Count("windows_checked", windows)
	res.Count("queryable_timeframes_checked", queryable)
	res.Count("offset_transitions_in_stamp_set", int64(ntrans))
	res.Set("zones", zname)
	res.Set("suffixes", sfx.s)
	if res.Counts["duration_strings"] > 0 {
		res.Sig = fmt.Sprintf("%s/%s/n%d-%d", zname, sfx.s, block*c31block+1, (block+1)*c31block)
	}
	if c.Case == 4*nb || c.Case == perZone+5*nb {
		ex := []string{}
		for i := 0; i < len(stamps) && len(ex) < 6; i += len(stamps)/6 + 1 {
			ex = append(ex, c31fmt(stamps[i]))
		}
		res.Sample = map[string]interface{}{"zone": zname, "strings": fmt.Sprintf("%d%s .. %d%s", block*c31block+1, sfx.s, (block+1)*c31block, sfx.s),
			"timestamps": len(stamps), "example_timestamps": ex}
	}
	w := map[string]interface{}{"zone": zname, "suffix": sfx.s, "n_from": block*c31block + 1, "n_to": (block + 1) * c31block}
	if o.bad > 0 {
		w["first"] = o.firstBad
		res.Violation(fmt.Sprintf("%d checks failed; first: %s", o.bad, o.firstBad), w)
	}
	if o.week > 0 {
		res.Known("F-WEEK", fmt.Sprintf("%d (duration, timestamp) pairs: timestamp not inside its own weekly window; first: %s", o.week, o.firstWeek), w)
	}
	if o.dayceil > 0 {
		res.Known("F-DAYCEIL", fmt.Sprintf("%d Ceil calls return a window end at or before the timestamp; first: %s", o.dayceil, o.firstDC), w)
	}
	if o.tfprint > 0 {
		res.Known("F-TFPRINT", fmt.Sprintf("%d strings do not survive parse/print; first: %s", o.tfprint, o.firstTP), w)
	}
	return res
}

func init() {
	register(&runner.Monitor{
		ID:    "C31",
		Level: "exploration",
		Rule: "case = (zone of the timestamps, suffix of {S,Sec,T,Min,H,D,W,M,Y}, block of 20 multipliers; quick n<=60, thorough n<=400); every string <n><suffix> goes through both parsers, " +
			"the parse/print law, QueryableTimeframe, and (candle parser) Truncate/Ceil/IsWithin on every timestamp of the zone's set: every (quick: every 11th) day of 2019-2021 at 4 times of day, " +
			"18 offsets around every UTC-offset transition plus the first hour of the transition days, Monday 00:00 UTC +-1 s, year edges +-1 ns; " +
			"non-trivial = at least one duration string processed, distinct by (zone, suffix, block)",
		Assumptions: []string{
			"multipliers whose duration overflows int64 nanoseconds (Y with n > 292) are skipped and counted",
			"a window is one set: the window end of the window's start is the window end of the timestamp (W4)",
			"the printed form of a Timeframe is TimeframeFromDuration(d).String, of a CandleDuration its String field",
		},
		Cases:        c31cases,
		Batch:        len(c31suffixes),
		Run:          c31run,
		Need:         []string{"windows_checked", "parse_print_round_trips", "queryable_timeframes_checked", "offset_transitions_in_stamp_set"},
		ChildEnv:     []string{"GOMAXPROCS=2"}, // single-goroutine children
		BatchTimeout: 30 * time.Minute,
	})
}
