package main

// C33 CSV import loads every row or reports an error.
//
// Real code driven: loader.ReadMetadata (with a real control file and data file on tmpfs) and the chunk loop of
// cmd/connect/session/load.go replicated verbatim around loader.CSVtoNumpyMulti; instead of sending a chunk over
// RPC the returned NumpyMultiDataset is converted back with the real ToColumnSeriesMap and its rows accumulated.
//
// Oracle (property text). A generated file has N data rows; every row is either well-formed (right field
// count, every mapped value is decimal text of the bucket column's type, the timestamp parses with an
// independent time.ParseInLocation in the configured format and zone) or not. Outcomes:
//   * an error from ReadMetadata / CSVtoNumpyMulti / ToColumnSeriesMap: always acceptable ("or reports an error");
//   * a clean end of the loop: the multiset of loaded rows must equal the N data rows with parse-equal values
//     (Epoch seconds, Nanoseconds for variable-length buckets, every bucket column with the bucket's Go type and
//     the bit pattern of the expected value). A row that cannot have values (unparsable field, missing field)
//     can therefore never be part of a clean end;
//   * a panic is neither.
// Nothing is asserted about column order, row order, extra columns, or whether well-formed input may be refused
// (an error on well-formed input is counted, not judged).
//
// Known findings (as-is models; csvSim below reproduces the loop's defective behaviour from the generated rows):
//   F-CSVEOF    trigger: some line makes encoding/csv report an error (field count differs from the first
//               record's, bare quote, unterminated quote). As-is: the loop ends cleanly there; exactly the rows
//               before that line are loaded.
//   F-CSVNIL    trigger: a chunk that is reached contains a timestamp that does not parse, or the configured zone
//               name is unknown. As-is: readTimeColumns returns nil, convertCSVtoCSM returns (nil, nil) and
//               CSVtoNumpyMulti dereferences the nil map entry: panic "nil pointer dereference".
//   F-CSVSHORT  trigger: no header row and the first data row has fewer fields than a mapped column's position
//               (it sets the reader's field count). As-is: panic "index out of range".
//   F-CSVTSZONE trigger: timeFormat "timestamp" with an empty timeZone. As-is: panic "missing Location in call to Time.In".

import (
	"errors"
	"fmt"
	"math"
	"os"
	"path/filepath"
	"reflect"
	"sort"
	"strconv"
	"strings"
	"time"

	"github.com/alpacahq/marketstore/v4/cmd/connect/loader"
	"github.com/alpacahq/marketstore/v4/utils"
	"github.com/alpacahq/marketstore/v4/utils/io"
	"github.com/alpacahq/marketstore/v4/utils/log"
	"github.com/alpacahq/marketstore/v4/verif/internal/gen"
	"github.com/alpacahq/marketstore/v4/verif/internal/ms"
	"github.com/alpacahq/marketstore/v4/verif/internal/runner"
)

const (
	c33good = iota
	c33badValue
	c33badTS
	c33extraField
	c33missingField
	c33bareQuote
	c33openQuote
)

var c33kindNames = []string{"good", "badvalue", "badts", "extrafield", "missingfield", "barequote", "openquote"}

type c33col struct {
	name string
	typ  io.EnumElementType
}

type c33row struct {
	kind   int
	fields []string // field texts in file order
	raw    string   // non-empty: the line is written verbatim (quote errors)
	expect string   // canonical expected row; "" when the row cannot have values
	vals   []string // canonical expected values of the bucket columns
}

type c33spec struct {
	stratum  string
	cols     []c33col
	variable bool
	format   string
	zone     string
	header   bool
	hdr      []string // header row texts
	cmap     []string // columnNameMap (nil: none)
	csvCols  []int    // file column -> -1 Epoch, -2 unmapped extra, k>=0 bucket column k
	rows     []c33row
	badPos   string
}

var c33formats = []string{
	"2006-01-02 15:04:05",
	"20060102 15:04:05",
	"1/2/2006 3:04:05 PM",
	"2006-01-02T15:04:05.000000",
	"2006-01-02 15:04:05.000000000",
	"2006-01-02T15:04:05Z07:00",
	"timestamp",
}

var c33zones = []string{"UTC", "America/New_York", "Europe/London", "Asia/Kolkata", "Australia/Lord_Howe"}

var c33names = []string{"Open", "High", "Low", "Close", "Volume", "Bid", "Ask", "Px", "Qty", "Cnt", "Flag", "Venue", "Seq", "Trades", "VWAP", "OI"}

var c33types = []io.EnumElementType{io.BYTE, io.INT16, io.INT32, io.INT64, io.UINT8, io.UINT16, io.UINT32, io.UINT64, io.FLOAT32, io.FLOAT64, io.STRING16}

// ---------------------------------------------------------------------------------------------
// value generation: text plus the canonical form of the expected typed value

func c33intRange(t io.EnumElementType) (lo int64, hi uint64, signed bool) {
	switch t {
	case io.BYTE:
		return math.MinInt8, math.MaxInt8, true
	case io.INT16:
		return math.MinInt16, math.MaxInt16, true
	case io.INT32:
		return math.MinInt32, math.MaxInt32, true
	case io.INT64:
		return math.MinInt64, math.MaxInt64, true
	case io.UINT8:
		return 0, math.MaxUint8, false
	case io.UINT16:
		return 0, math.MaxUint16, false
	case io.UINT32:
		return 0, math.MaxUint32, false
	default:
		return 0, math.MaxUint64, false
	}
}

func c33canonInt(t io.EnumElementType, sv int64, uv uint64, signed bool) string {
	if signed {
		return fmt.Sprintf("%s:%d", t, sv)
	}
	return fmt.Sprintf("%s:%d", t, uv)
}

func c33goodValue(r *gen.R, t io.EnumElementType) (text, canon string) {
	switch t {
	case io.FLOAT32, io.FLOAT64:
		bits := 64
		if t == io.FLOAT32 {
			bits = 32
		}
		switch r.Intn(6) {
		case 0: // shortest round-trip text of a random finite value of the type
			var v float64
			for {
				if bits == 32 {
					v = float64(math.Float32frombits(uint32(r.U64())))
				} else {
					v = math.Float64frombits(r.U64())
				}
				if !math.IsNaN(v) && !math.IsInf(v, 0) {
					break
				}
			}
			text = strconv.FormatFloat(v, byte(r.PickS("g", "e")[0]), -1, bits)
		case 1:
			text = r.PickS("0", "-0", "1", "-1", "0.1", "1e-45", "3.4028235e38", "1.17549435e-38", "5e-324", "1.7976931348623157e308", "16777217", "0.30000000000000004")
			if bits == 32 && (text == "5e-324" || text == "1.7976931348623157e308") {
				text = "1e-45"
			}
		case 2:
			text = fmt.Sprintf("%d.%0*d", r.Intn(100000), r.Range(1, 6), r.Intn(10))
		case 3:
			text = fmt.Sprintf("%d", r.I64n(1<<40)-(1<<39))
		case 4:
			text = fmt.Sprintf("%d.%02de%d", r.Intn(10), r.Intn(100), r.Range(-20, 20))
		default:
			text = fmt.Sprintf("-%d.%04d", r.Intn(1000), r.Intn(10000))
		}
		v, err := strconv.ParseFloat(text, bits) // reference conversion of decimal text (Go library, correctly rounded)
		if err != nil {
			panic("generator produced bad float text " + text)
		}
		if bits == 32 {
			return text, fmt.Sprintf("%s:%08x", t, math.Float32bits(float32(v)))
		}
		return text, fmt.Sprintf("%s:%016x", t, math.Float64bits(v))
	case io.STRING16:
		const alpha = "ABCDEFGHIJKLMNOPQRSTUVWXYZabcdefghijklmnopqrstuvwxyz0123456789 _.-,"
		n := r.PickI(0, 1, 3, 8, 15, 16, 17, 30)
		b := make([]byte, n)
		for i := range b {
			b[i] = alpha[r.Intn(len(alpha))]
		}
		var want [16]rune
		for i := 0; i < n && i < 16; i++ {
			want[i] = rune(b[i])
		}
		return string(b), fmt.Sprintf("%s:%v", t, want)
	}
	lo, hi, signed := c33intRange(t)
	var sv int64
	var uv uint64
	if signed {
		switch r.Intn(5) {
		case 0:
			sv = lo
		case 1:
			sv = int64(hi)
		case 2:
			sv = int64(r.Intn(3)) - 1
		default:
			span := hi - uint64(lo) // fits uint64
			if span == math.MaxUint64 {
				sv = int64(r.U64())
			} else {
				sv = lo + int64(r.U64()%(span+1))
			}
		}
		text = strconv.FormatInt(sv, 10)
		if sv >= 0 && r.P(1, 8) {
			text = "+" + text
		} else if sv >= 0 && r.P(1, 8) {
			text = "00" + text
		}
	} else {
		switch r.Intn(4) {
		case 0:
			uv = 0
		case 1:
			uv = hi
		default:
			if hi == math.MaxUint64 {
				uv = r.U64()
			} else {
				uv = r.U64() % (hi + 1)
			}
		}
		text = strconv.FormatUint(uv, 10)
		if r.P(1, 8) {
			text = "0" + text
		}
	}
	return text, c33canonInt(t, sv, uv, signed)
}

// c33badValueText returns text that is not a decimal literal of type t.
func c33badValueText(r *gen.R, t io.EnumElementType) string {
	switch t {
	case io.FLOAT32:
		return r.PickS("abc", "", "1.2.3", "1e39", "--1", "1,5", " 1.5", "12a")
	case io.FLOAT64:
		return r.PickS("abc", "", "1.2.3", "1e999", "--1", "1,5", "1.5 ", "e5")
	}
	lo, hi, signed := c33intRange(t)
	over := new(strings.Builder)
	if signed {
		if r.Bool() {
			// one below the minimum
			fmt.Fprintf(over, "-%d", uint64(-(lo+1))+2)
		} else {
			fmt.Fprintf(over, "%d", hi+1)
		}
		return r.PickS("abc", "", "1.5", over.String(), "1e3", " 5", "0x10", "5-")
	}
	if hi == math.MaxUint64 {
		over.WriteString("18446744073709551616")
	} else {
		fmt.Fprintf(over, "%d", hi+1)
	}
	return r.PickS("abc", "", "1.5", over.String(), "-1", "1e3", "5 ", "0x10")
}

// ---------------------------------------------------------------------------------------------
// timestamps

type c33ts struct {
	text  string
	epoch int64
	nanos int32
}

var c33epoch0 = time.Date(1990, 1, 1, 0, 0, 0, 0, time.UTC)

func c33goodTS(r *gen.R, format string, loc *time.Location, trans []time.Time) c33ts {
	var t time.Time
	if len(trans) > 0 && r.P(1, 4) { // near a UTC-offset transition of the configured zone (gaps and overlaps of local time)
		t = trans[r.Intn(len(trans))].Add(time.Duration(r.I64n(int64(4*time.Hour))) - 2*time.Hour)
	} else {
		t = c33epoch0.Add(time.Duration(r.I64n(int64(47 * 365 * 24 * time.Hour))))
	}
	if r.P(1, 3) {
		t = t.Truncate(time.Second)
	}
	if format == "timestamp" {
		sec := t.Unix()
		if r.Bool() {
			return c33ts{strconv.FormatInt(sec, 10), sec, 0}
		}
		nd := r.Range(1, 9)
		frac := r.I64n(int64(math.Pow10(nd)))
		fs := fmt.Sprintf("%0*d", nd, frac)
		ns := frac * int64(math.Pow10(9-nd))
		return c33ts{fmt.Sprintf("%d.%s", sec, fs), sec, int32(ns)}
	}
	text := t.In(loc).Format(format)
	// the expected value is what an independent parse of the text in the configured format and zone gives
	p, err := time.ParseInLocation(format, text, loc)
	if err != nil {
		panic("generator produced bad timestamp " + text + ": " + err.Error())
	}
	return c33ts{text, p.Unix(), int32(p.Nanosecond())}
}

// c33badTSText: not a timestamp in the format, and no prefix of it is one either.
func c33badTSText(r *gen.R, format string, loc *time.Location) string {
	if format == "timestamp" {
		return r.PickS("12x45", "", "abc", "1546439400.5x", "2019-01-02")
	}
	if r.P(1, 3) {
		return r.PickS("not-a-time", "", "0")
	}
	// a valid rendering with month 13
	t := time.Date(2019, 12, 1+r.Intn(28), r.Intn(24), r.Intn(60), r.Intn(60), 0, loc)
	text := t.Format(format)
	switch {
	case strings.HasPrefix(format, "2006-01"):
		text = text[:5] + "13" + text[7:]
	case strings.HasPrefix(format, "200601"):
		text = text[:4] + "13" + text[6:]
	default: // "1/2/2006 ..."
		text = "13" + text[2:]
	}
	if _, err := time.ParseInLocation(format, text, loc); err == nil {
		panic("generator: bad timestamp parses: " + text)
	}
	return text
}

// ---------------------------------------------------------------------------------------------
// file generation

func c33csvField(r *gen.R, s string) string {
	need := strings.ContainsAny(s, ",\"\n\r") || (len(s) > 0 && (s[0] == ' ' || s[len(s)-1] == ' '))
	if need || (r != nil && r.P(1, 10)) {
		return `"` + strings.ReplaceAll(s, `"`, `""`) + `"`
	}
	return s
}

func c33randCase(r *gen.R, s string) string {
	switch r.Intn(4) {
	case 0:
		return strings.ToUpper(s)
	case 1:
		return strings.ToLower(s)
	}
	return s
}

func c33gen(c *runner.Ctx) *c33spec {
	r := c.R("file")
	sp := &c33spec{}
	k := c.Case % 20
	exotic := -1
	switch {
	case k <= 10:
		sp.stratum = "good"
	case k <= 13:
		sp.stratum = "badvalue"
	case k <= 16:
		sp.stratum = "csvmalformed"
	case k <= 18:
		sp.stratum = "badts"
	default:
		exotic = (c.Case / 20) % 3
		sp.stratum = []string{"shortfirst", "tsnozone", "badzone"}[exotic]
	}
	// bucket schema
	nc := r.Range(1, 6)
	perm := r.Perm(len(c33names))
	for i := 0; i < nc; i++ {
		sp.cols = append(sp.cols, c33col{c33names[perm[i]], c33types[r.Intn(len(c33types))]})
	}
	if sp.stratum == "badvalue" || sp.stratum == "shortfirst" {
		// needs a column that can hold a bad value / a numeric last column
		if sp.cols[nc-1].typ == io.STRING16 {
			sp.cols[nc-1].typ = c33types[r.Intn(len(c33types)-1)]
		}
	}
	sp.variable = r.P(1, 3)
	sp.format = c33formats[r.Intn(len(c33formats))]
	sp.zone = c33zones[r.Intn(len(c33zones))]
	loc := tzLoad(sp.zone)
	if loc == nil {
		sp.zone, loc = "UTC", time.UTC
	}
	// file columns: Epoch first, then the bucket columns in a seeded order with 0-2 unmapped columns in between
	sp.csvCols = []int{-1}
	order := r.Perm(nc)
	for _, o := range order {
		sp.csvCols = append(sp.csvCols, o)
	}
	for e := r.PickI(0, 0, 1, 2); e > 0; e-- {
		at := r.Range(1, len(sp.csvCols))
		sp.csvCols = append(sp.csvCols[:at], append([]int{-2}, sp.csvCols[at:]...)...)
	}
	mode := r.Intn(3) // 0: header, no map; 1: header + renaming map; 2: no header, map names every column
	if exotic == 0 {
		mode = 2
		// the last file column must be a mapped numeric column
		last := len(sp.csvCols) - 1
		for i, cc := range sp.csvCols {
			if cc == nc-1 {
				sp.csvCols[i], sp.csvCols[last] = sp.csvCols[last], sp.csvCols[i]
			}
		}
	}
	realName := func(i int) string {
		switch cc := sp.csvCols[i]; {
		case cc == -1:
			return "Epoch"
		case cc == -2:
			return fmt.Sprintf("ignored%d", i)
		default:
			return sp.cols[cc].name
		}
	}
	switch mode {
	case 0:
		sp.header = true
		for i := range sp.csvCols {
			n := c33randCase(r, realName(i))
			if r.P(1, 6) {
				n = " " + n + " " // ReadMetadata trims header names
			}
			sp.hdr = append(sp.hdr, n)
		}
	case 1:
		sp.header = true
		keepFrom := r.Range(1, len(sp.csvCols)) // positions >= keepFrom keep their header name (map is shorter)
		for i := range sp.csvCols {
			if i < keepFrom && r.P(2, 3) {
				sp.hdr = append(sp.hdr, fmt.Sprintf("c%d", i))
				sp.cmap = append(sp.cmap, c33randCase(r, realName(i)))
			} else {
				sp.hdr = append(sp.hdr, realName(i))
				if i < keepFrom {
					sp.cmap = append(sp.cmap, "")
				}
			}
		}
		if sp.cmap == nil {
			sp.cmap = []string{""}
		}
	default:
		for i := range sp.csvCols {
			sp.cmap = append(sp.cmap, c33randCase(r, realName(i)))
		}
	}
	// rows
	n := r.PickI(0, 1, 2, 3, 4, 5, 6, 8, 12, 12, 20, 60)
	if sp.stratum != "good" && n == 0 {
		n = r.Range(1, 6)
	}
	trans := tzTransitions(loc, time.Date(2018, 1, 1, 0, 0, 0, 0, loc), time.Date(2020, 1, 1, 0, 0, 0, 0, loc))
	for i := 0; i < n; i++ {
		ts := c33goodTS(r, sp.format, loc, trans)
		row := c33row{kind: c33good, fields: make([]string, len(sp.csvCols))}
		canon := make([]string, nc)
		for fi, cc := range sp.csvCols {
			switch {
			case cc == -1:
				row.fields[fi] = ts.text
			case cc == -2:
				row.fields[fi] = r.PickS("", "x", "note, with comma", "7", "say \"hi\"")
			default:
				row.fields[fi], canon[cc] = c33goodValue(r, sp.cols[cc].typ)
			}
		}
		row.vals = canon
		row.expect = c33canon(ts.epoch, ts.nanos, sp.variable, sp.cols, canon)
		sp.rows = append(sp.rows, row)
	}
	// damage
	pos := 0
	switch r.Intn(3) {
	case 0:
		pos, sp.badPos = 0, "first"
	case 1:
		pos, sp.badPos = n/2, "middle"
	default:
		pos, sp.badPos = n-1, "last"
	}
	nbad := 1
	if r.P(1, 4) {
		nbad = 2
	}
	for b := 0; b < nbad && n > 0; b++ {
		if b == 1 {
			pos = r.Intn(n)
		}
		row := &sp.rows[pos]
		if row.kind != c33good {
			continue
		}
		switch sp.stratum {
		case "badvalue":
			var cand []int
			for fi, cc := range sp.csvCols {
				if cc >= 0 && sp.cols[cc].typ != io.STRING16 {
					cand = append(cand, fi)
				}
			}
			fi := cand[r.Intn(len(cand))]
			row.fields[fi] = c33badValueText(r, sp.cols[sp.csvCols[fi]].typ)
			row.kind, row.expect = c33badValue, ""
		case "badts":
			row.fields[0] = c33badTSText(r, sp.format, loc)
			row.kind, row.expect = c33badTS, ""
		case "csvmalformed":
			if !sp.header && pos == 0 { // the first record defines the field count: keep it intact
				if n == 1 {
					continue
				}
				pos = r.Range(1, n-1)
				row = &sp.rows[pos]
				if row.kind != c33good {
					continue
				}
				sp.badPos = "moved"
			}
			switch r.Intn(4) {
			case 0:
				row.fields = append(row.fields, r.PickS("9", "", "extra"))
				row.kind = c33extraField // values by position are intact: the row is loadable
			case 1:
				row.fields = row.fields[:len(row.fields)-1]
				row.kind, row.expect = c33missingField, ""
				if len(row.fields) == 0 {
					row.fields = []string{""}
				}
			case 2:
				row.kind, row.expect = c33bareQuote, ""
				fi := r.Range(1, len(row.fields)-1)
				row.fields[fi] = `2"5`
				row.raw = strings.Join(row.fields, ",")
			default:
				row.kind, row.expect = c33openQuote, ""
				fi := r.Range(1, len(row.fields)-1)
				row.fields[fi] = `"unterminated`
				row.raw = strings.Join(row.fields, ",")
			}
		}
	}
	switch exotic {
	case 0: // first data row of a header-less file lacks its last (mapped) field
		sp.rows[0].fields = sp.rows[0].fields[:len(sp.rows[0].fields)-1]
		sp.rows[0].kind, sp.rows[0].expect = c33missingField, ""
		sp.badPos = "first"
	case 1:
		sp.format, sp.zone = "timestamp", ""
		for i := range sp.rows {
			ts := c33goodTS(r, sp.format, time.UTC, nil)
			sp.rows[i].fields[0] = ts.text
			// epoch seconds do not depend on a zone: the rows stay well-formed
			sp.rows[i].expect = c33canon(ts.epoch, ts.nanos, sp.variable, sp.cols, sp.rows[i].vals)
		}
	case 2: // a zone-dependent layout with a zone name that does not exist: no row can have a timestamp
		sp.zone = r.PickS("Mars/Olympus_Mons", "America/New_Yrok", "Not/AZone")
		sp.format = c33formats[r.Intn(3)]
		for i := range sp.rows {
			sp.rows[i].fields[0] = time.Date(2019, 5, 1+i%28, 10, i%60, 0, 0, time.UTC).Format(sp.format)
			sp.rows[i].expect = ""
		}
	}
	return sp
}

func c33canon(epoch int64, nanos int32, variable bool, cols []c33col, vals []string) string {
	var b strings.Builder
	fmt.Fprintf(&b, "Epoch=%d", epoch)
	if variable {
		fmt.Fprintf(&b, "|Nanoseconds=%d", nanos)
	}
	for i, c := range cols {
		fmt.Fprintf(&b, "|%s=%s", c.name, vals[i])
	}
	return b.String()
}

func (sp *c33spec) line(r *c33row) string {
	if r.raw != "" {
		return r.raw
	}
	fs := make([]string, len(r.fields))
	for i, f := range r.fields {
		fs[i] = c33csvField(nil, f)
	}
	return strings.Join(fs, ",")
}

func (sp *c33spec) csvText() string {
	var b strings.Builder
	if sp.header {
		fs := make([]string, len(sp.hdr))
		for i, f := range sp.hdr {
			fs[i] = c33csvField(nil, f)
		}
		b.WriteString(strings.Join(fs, ",") + "\n")
	}
	for i := range sp.rows {
		b.WriteString(sp.line(&sp.rows[i]) + "\n")
	}
	return b.String()
}

func (sp *c33spec) yamlText() string {
	var b strings.Builder
	fmt.Fprintf(&b, "firstRowHasColumnNames: %v\n", sp.header)
	fmt.Fprintf(&b, "timeFormat: %q\n", sp.format)
	fmt.Fprintf(&b, "timeZone: %q\n", sp.zone)
	if sp.cmap != nil {
		qs := make([]string, len(sp.cmap))
		for i, s := range sp.cmap {
			qs[i] = strconv.Quote(s)
		}
		fmt.Fprintf(&b, "columnNameMap: [%s]\n", strings.Join(qs, ", "))
	}
	return b.String()
}

// ---------------------------------------------------------------------------------------------
// the as-is model of the chunk loop (used only to classify deviations from the ideal outcome)

type c33outcome struct {
	panicText string
	err       error
	loaded    []string // canonical rows in load order
}

// csvSim predicts what the pinned loader does: which rows it loads before it stops, and how it stops
// ("clean", "error", "nilpanic", "indexpanic", "locpanic").
func (sp *c33spec) csvSim(chunk int) (loadedIdx []int, end string) {
	if sp.format == "timestamp" && sp.zone == "" && len(sp.rows) > 0 {
		return nil, "locpanic"
	}
	want := len(sp.csvCols)
	if !sp.header && len(sp.rows) > 0 {
		want = len(sp.rows[0].fields)
	}
	maxIdx := 0
	for fi, cc := range sp.csvCols {
		if cc >= 0 {
			maxIdx = fi
		}
	}
	pos := 0
	for {
		var ch []int
		ended := false
		for i := 0; i < chunk; i++ {
			if pos >= len(sp.rows) {
				ended = true
				break
			}
			rw := &sp.rows[pos]
			if rw.kind == c33bareQuote || rw.kind == c33openQuote || len(rw.fields) != want {
				ended = true
				break
			}
			ch = append(ch, pos)
			pos++
		}
		if len(ch) == 0 {
			return loadedIdx, "clean"
		}
		if tzLoad(sp.zone) == nil && sp.zone != "" {
			return loadedIdx, "nilpanic"
		}
		for _, p := range ch {
			if sp.rows[p].kind == c33badTS {
				return loadedIdx, "nilpanic"
			}
		}
		for _, p := range ch {
			if len(sp.rows[p].fields) <= maxIdx {
				return loadedIdx, "indexpanic"
			}
		}
		for _, p := range ch {
			if sp.rows[p].kind == c33badValue {
				return loadedIdx, "error"
			}
		}
		loadedIdx = append(loadedIdx, ch...)
		if ended {
			return loadedIdx, "clean"
		}
	}
}

// ---------------------------------------------------------------------------------------------
// driving the real loader

func c33cell(col interface{}, i int) string {
	v := reflect.ValueOf(col)
	if v.Kind() != reflect.Slice || i >= v.Len() {
		return "?"
	}
	e := v.Index(i).Interface()
	switch x := e.(type) {
	case int8:
		return fmt.Sprintf("%s:%d", io.BYTE, x)
	case int16:
		return fmt.Sprintf("%s:%d", io.INT16, x)
	case int32:
		return fmt.Sprintf("%s:%d", io.INT32, x)
	case int64:
		return fmt.Sprintf("%s:%d", io.INT64, x)
	case uint8:
		return fmt.Sprintf("%s:%d", io.UINT8, x)
	case uint16:
		return fmt.Sprintf("%s:%d", io.UINT16, x)
	case uint32:
		return fmt.Sprintf("%s:%d", io.UINT32, x)
	case uint64:
		return fmt.Sprintf("%s:%d", io.UINT64, x)
	case float32:
		return fmt.Sprintf("%s:%08x", io.FLOAT32, math.Float32bits(x))
	case float64:
		return fmt.Sprintf("%s:%016x", io.FLOAT64, math.Float64bits(x))
	case [16]rune:
		return fmt.Sprintf("%s:%v", io.STRING16, x)
	}
	return fmt.Sprintf("%T:%v", e, e)
}

// c33load is the loop of session/load.go with the RPC replaced by ToColumnSeriesMap + accumulation.
func c33load(sp *c33spec, dataPath, ctlPath string, chunkSize int) (out c33outcome) {
	dsv := []io.DataShape{{Name: "Epoch", Type: io.INT64}}
	for _, c := range sp.cols {
		dsv = append(dsv, io.DataShape{Name: c.name, Type: c.typ})
	}
	tbk := io.NewTimeBucketKey("SYM/1Min/OHLC")
	dataFD, err := os.Open(dataPath)
	if err != nil {
		out.err = err
		return out
	}
	defer dataFD.Close()
	ctlFD, err := os.Open(ctlPath)
	if err != nil {
		out.err = err
		return out
	}
	defer ctlFD.Close()
	out.panicText = ms.Recover(func() {
		csvReader, cvm, err := loader.ReadMetadata(dataFD, ctlFD, dsv)
		if err != nil {
			out.err = err
			return
		}
		for {
			npm, endReached, err := loader.CSVtoNumpyMulti(csvReader, *tbk, cvm, chunkSize, sp.variable)
			if err != nil {
				out.err = err
				return
			}
			if npm != nil {
				csm, err := npm.ToColumnSeriesMap()
				if err != nil {
					out.err = err
					return
				}
				if len(csm) != 1 {
					out.err = fmt.Errorf("monitor: dataset holds %d buckets", len(csm))
					return
				}
				for key, cs := range csm {
					if key.GetItemKey() != tbk.GetItemKey() {
						out.err = errors.New("monitor: dataset is for bucket " + key.GetItemKey())
						return
					}
					ep := cs.GetEpoch()
					for i := range ep {
						vals := make([]string, len(sp.cols))
						for ci, c := range sp.cols {
							col := cs.GetColumn(c.name)
							if col == nil {
								vals[ci] = "MISSING"
							} else {
								vals[ci] = c33cell(col, i)
							}
						}
						var ns int32
						if sp.variable {
							if nc, ok := cs.GetColumn("Nanoseconds").([]int32); ok && i < len(nc) {
								ns = nc[i]
							} else {
								ns = -1
							}
						}
						out.loaded = append(out.loaded, c33canon(ep[i], ns, sp.variable, sp.cols, vals))
					}
				}
			}
			if endReached {
				break
			}
		}
	})
	return out
}

func c33sameMultiset(a, b []string) bool {
	if len(a) != len(b) {
		return false
	}
	x := append([]string(nil), a...)
	y := append([]string(nil), b...)
	sort.Strings(x)
	sort.Strings(y)
	for i := range x {
		if x[i] != y[i] {
			return false
		}
	}
	return true
}

func c33chunks(r *gen.R, n int, thorough bool) []int {
	cand := []int{1, 2, 3, n - 1, n, n + 1, 1000000}
	var out []int
	seen := map[int]bool{}
	for _, c := range cand {
		if c > 0 && !seen[c] {
			seen[c] = true
			out = append(out, c)
		}
	}
	if thorough || len(out) <= 3 {
		return out
	}
	p := r.Perm(len(out))
	return []int{out[p[0]], out[p[1]], out[p[2]]}
}

func c33bucket(n int) string {
	switch {
	case n == 0:
		return "0"
	case n <= 3:
		return "1-3"
	case n <= 12:
		return "4-12"
	}
	return "13+"
}

func c33run(c *runner.Ctx) runner.Result {
	var res runner.Result
	log.SetLevel(log.FATAL)
	if z := tzLoad(c33zones[(c.Case/500)%len(c33zones)]); z != nil {
		utils.InstanceConfig.Timezone = z // not read by the loader; kept constant within a batch
	}
	sp := c33gen(c)
	dataPath := filepath.Join(c.Scratch, "data.csv")
	ctlPath := filepath.Join(c.Scratch, "load.yaml")
	csvText, yamlText := sp.csvText(), sp.yamlText()
	if err := os.WriteFile(dataPath, []byte(csvText), 0o644); err != nil {
		res.Inconclusive("cannot write data file: " + err.Error())
		return res
	}
	if err := os.WriteFile(ctlPath, []byte(yamlText), 0o644); err != nil {
		res.Inconclusive("cannot write control file: " + err.Error())
		return res
	}
	allGood := true
	loadable := true
	var expectAll []string
	kinds := map[string]bool{}
	for i := range sp.rows {
		if sp.rows[i].kind != c33good {
			allGood = false
			kinds[c33kindNames[sp.rows[i].kind]] = true
		}
		if sp.rows[i].expect == "" {
			loadable = false
		}
		expectAll = append(expectAll, sp.rows[i].expect)
	}
	if sp.stratum == "badzone" {
		allGood = false
	}
	types := []string{}
	for _, col := range sp.cols {
		res.Set("column_types", col.typ.String())
		types = append(types, col.name+":"+col.typ.String())
	}
	res.Set("time_formats", sp.format)
	res.Set("time_zones", sp.zone)
	witness := func(chunk int, o c33outcome) map[string]interface{} {
		w := map[string]interface{}{"control_file": yamlText, "chunk_size": chunk, "variable_length": sp.variable}
		ct := csvText
		if len(ct) > 3000 {
			ct = ct[:3000] + "...(truncated)"
		}
		w["data_file"] = ct
		sc := []string{}
		for _, col := range sp.cols {
			sc = append(sc, col.name+":"+col.typ.String())
		}
		w["bucket_columns"] = sc
		w["data_rows"] = len(sp.rows)
		w["rows_loaded"] = len(o.loaded)
		if o.err != nil {
			w["error"] = o.err.Error()
		}
		if o.panicText != "" {
			w["panic"] = o.panicText
		}
		return w
	}
	// one Known issue per finding and case (the first load that showed it); the witness only for early cases
	type knownAgg struct {
		n    int
		desc string
		w    map[string]interface{}
	}
	known := map[string]*knownAgg{}
	addKnown := func(id, desc string, w map[string]interface{}) {
		k := known[id]
		if k == nil {
			k = &knownAgg{desc: desc}
			if c.Case < 400 {
				k.w = w
			}
			known[id] = k
		}
		k.n++
	}
	for _, chunk := range c33chunks(c.R("chunks"), len(sp.rows), c.Thorough()) {
		o := c33load(sp, dataPath, ctlPath, chunk)
		res.Evals++
		res.Count("loads_run", 1)
		res.Count("data_rows_offered", int64(len(sp.rows)))
		simIdx, simEnd := sp.csvSim(chunk)
		simRows := make([]string, 0, len(simIdx))
		for _, p := range simIdx {
			simRows = append(simRows, sp.rows[p].expect)
		}
		switch {
		case o.panicText != "":
			res.Count("loads_ending_in_panic", 1)
			desc := fmt.Sprintf("panic %q during the load (stratum %s, %d data rows, chunk size %d, rows loaded before: %d)", o.panicText, sp.stratum, len(sp.rows), chunk, len(o.loaded))
			// rows loaded before the panic must be rows of the file (how many depends on the chunking, which the property leaves open)
			clean := c33common(o.loaded, expectAll) == len(o.loaded)
			switch {
			case simEnd == "nilpanic" && strings.Contains(o.panicText, "nil pointer dereference") && clean:
				addKnown("F-CSVNIL", desc, witness(chunk, o))
			case simEnd == "indexpanic" && strings.Contains(o.panicText, "index out of range") && clean:
				addKnown("F-CSVSHORT", desc, witness(chunk, o))
			case simEnd == "locpanic" && strings.Contains(o.panicText, "missing Location"):
				addKnown("F-CSVTSZONE", desc, witness(chunk, o))
			default:
				res.Violation(desc, witness(chunk, o))
			}
		case o.err != nil:
			res.Count("loads_ending_in_error", 1)
			if allGood {
				res.Count("errors_on_wellformed_files", 1)
			}
		default:
			res.Count("loads_ending_cleanly", 1)
			res.Count("rows_loaded", int64(len(o.loaded)))
			if loadable && c33sameMultiset(o.loaded, expectAll) {
				res.Count("rows_compared_equal", int64(len(o.loaded)))
				if len(sp.rows) > 0 {
					res.Count("clean_loads_with_rows", 1)
				}
				break
			}
			desc := fmt.Sprintf("the load ended without an error but %d of %d data rows were loaded with the expected values (stratum %s, chunk size %d)", c33common(o.loaded, expectAll), len(sp.rows), sp.stratum, chunk)
			w := witness(chunk, o)
			w["expected_rows"] = c33head(expectAll, 8)
			w["loaded_rows"] = c33head(o.loaded, 8)
			trigger := false
			for _, rw := range sp.rows {
				if rw.kind >= c33extraField {
					trigger = true
				}
			}
			if trigger && simEnd == "clean" && c33sameMultiset(o.loaded, simRows) {
				addKnown("F-CSVEOF", desc+fmt.Sprintf("; the rows from data line %d on were dropped silently", len(simRows)+1), w)
			} else {
				res.Violation(desc, w)
			}
		}
	}
	for _, id := range []string{"F-CSVEOF", "F-CSVNIL", "F-CSVSHORT", "F-CSVTSZONE"} {
		if k := known[id]; k != nil {
			res.Count("loads_showing_"+id, int64(k.n))
			if k.w != nil {
				res.Known(id, fmt.Sprintf("%d loads of this file; first: %s", k.n, k.desc), k.w)
			} else {
				res.Known(id, fmt.Sprintf("%d loads of this file; first: %s", k.n, k.desc), nil)
			}
		}
	}
	mode := "hdr"
	if sp.header && sp.cmap != nil {
		mode = "hdr+map"
	} else if !sp.header {
		mode = "map"
	}
	ks := []string{}
	for kname := range kinds {
		ks = append(ks, kname)
	}
	sort.Strings(ks)
	fi := 0
	for i, f := range c33formats {
		if f == sp.format {
			fi = i
		}
	}
	res.Sig = fmt.Sprintf("%s/%s/%s/fmt%d/var=%v/rows%s/%s", sp.stratum, strings.Join(ks, "+"), mode, fi, sp.variable, c33bucket(len(sp.rows)), sp.badPos)
	if allGood {
		res.Sig = fmt.Sprintf("good/%s/fmt%d/var=%v/rows%s/cols%d", mode, fi, sp.variable, c33bucket(len(sp.rows)), len(sp.cols))
	}
	res.Set("strata", sp.stratum)
	if c.Case == 1 || c.Case == 14 || c.Case == 17 {
		res.Sample = map[string]interface{}{"stratum": sp.stratum, "control_file": yamlText, "data_file": c33head(strings.Split(csvText, "\n"), 6), "types": types}
	}
	return res
}

func c33head(xs []string, n int) []string {
	if len(xs) > n {
		return xs[:n]
	}
	return xs
}

// c33common: size of the multiset intersection.
func c33common(a, b []string) int {
	m := map[string]int{}
	for _, x := range b {
		if x != "" {
			m[x]++
		}
	}
	n := 0
	for _, x := range a {
		if m[x] > 0 {
			m[x]--
			n++
		}
	}
	return n
}

func c33cases(tier string) int {
	if tier == "thorough" {
		return 100000
	}
	return 4000
}

func init() {
	register(&runner.Monitor{
		ID:    "C33",
		Level: "exploration",
		Rule: "case = one generated (bucket schema of 1-6 columns over 11 element types, fixed/variable length, control file: 3 header/columnNameMap modes, 7 time formats, 5 zones, unmapped columns, quoted fields) CSV file of 0-60 rows, " +
			"loaded with 3 (thorough: all) of the chunk sizes {1,2,3,n-1,n,n+1,10^6} through the real ReadMetadata + CSVtoNumpyMulti loop; strata by case%20: 0-10 all rows well-formed, 11-13 an unparsable value, " +
			"14-16 a line encoding/csv rejects (extra / missing field, bare quote, open quote), 17-18 an unparsable timestamp, 19 header-less short first row / 'timestamp' format without zone / unknown zone; bad rows at first/middle/last position; " +
			"non-trivial = at least one load executed; distinct by (stratum, damage kinds, header mode, time format, variable, row-count bucket, position | column count)",
		Assumptions: []string{
			"the chunk loop of cmd/connect/session/load.go is replicated in the monitor (the RPC write is replaced by ToColumnSeriesMap); load.go itself always uses chunk size 10^6",
			"an error on a well-formed file satisfies the property as stated and is only counted (errors_on_wellformed_files)",
			"the Epoch column is the first file column, as the loader requires; time-format 'tuning' suffixes (milli/microsecond tails) are not generated",
		},
		Cases:        c33cases,
		Batch:        500,
		Run:          c33run,
		MinDistinct:  20,
		Need:         []string{"loads_run", "rows_compared_equal", "clean_loads_with_rows", "loads_ending_in_error"},
		ChildEnv:     []string{"GOMAXPROCS=2"}, // single-goroutine children
		BatchTimeout: 30 * time.Minute,
	})
}
