package main

// Time-zone helpers shared by C30, C31 and C33. No code from /repo is used here.

import (
	"sync"
	"time"
)

var (
	tzMu    sync.Mutex
	tzCache = map[string]*time.Location{}
)

// tzLoad returns the location, or nil when the zone database does not have it.
func tzLoad(name string) *time.Location {
	tzMu.Lock()
	defer tzMu.Unlock()
	if l, ok := tzCache[name]; ok {
		return l
	}
	l, err := time.LoadLocation(name)
	if err != nil {
		l = nil
	}
	tzCache[name] = l
	return l
}

func tzOffset(t time.Time, loc *time.Location) int {
	_, off := t.In(loc).Zone()
	return off
}

// tzTransitions returns the instants in [from, to) at which the UTC offset of loc changes
// (the first second that has the new offset), found by an hourly scan and bisection to 1 s.
func tzTransitions(loc *time.Location, from, to time.Time) []time.Time {
	var out []time.Time
	prev := from
	po := tzOffset(prev, loc)
	for t := from.Add(time.Hour); !t.After(to); t = t.Add(time.Hour) {
		o := tzOffset(t, loc)
		if o != po {
			lo, hi := prev, t // offset(lo) == po, offset(hi) != po
			for hi.Sub(lo) > time.Second {
				mid := lo.Add(hi.Sub(lo) / 2).Truncate(time.Second)
				if !mid.After(lo) {
					mid = lo.Add(time.Second)
				}
				if tzOffset(mid, loc) == po {
					lo = mid
				} else {
					hi = mid
				}
			}
			if hi.Before(to) {
				out = append(out, hi)
			}
		}
		prev, po = t, o
	}
	return out
}

// bitset is a plain bit vector.
type bitset []uint64

func newBitset(n int64) bitset { return make(bitset, (n+63)/64+1) }

func (b bitset) get(i int64) bool { return b[i>>6]&(1<<(uint(i)&63)) != 0 }
func (b bitset) set(i int64)      { b[i>>6] |= 1 << (uint(i) & 63) }
