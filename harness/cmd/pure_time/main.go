// pure_time: assertion monitors on the pure time / timeframe / CSV-loader functions (see DESIGN.md 3.3):
// C30 interval indexing, C31 timeframe and candle-window arithmetic, C33 CSV import.
// Exhaustive / boundary / seeded inputs, built with checkptr.
// One file per property; each registers its monitor in init().
package main

import (
	"github.com/alpacahq/marketstore/v4/verif/internal/runner"
)

var monitors []*runner.Monitor

func register(m *runner.Monitor) { monitors = append(monitors, m) }

func main() { runner.Main(monitors...) }
