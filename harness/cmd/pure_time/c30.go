package main

// C30 Interval indexing is a bijection onto a year's slots.
//
// Real code driven: io.TimeToIndex, io.IndexToTime, io.IndexToOffset, io.TimeToOffset, io.EpochToIndex
// (utils/io/timeindex.go) and io.FileSize (utils/io/metadata.go), with utils.InstanceConfig.Timezone and
// time.Local set per case.
//
// Oracle (from the property text only). The year's file of a timestamp t is the file of t's calendar year
// in the configured zone. The first interval of a year starts at the year's first instant and intervals
// are one timeframe long, so the interval starts of a sub-day timeframe are forced:
//   g_k = yearStart + k*tf   (k = 0 .. while g_k < yearEnd).
// For 1D two anchorings tile the year and both are accepted (local calendar days, or 24 h steps); which one
// the code uses is detected per (zone, year) and must then hold for every day.
// For every grid interval [g_k, g_k+1) and for t = g_k, t = g_k+1 - 1ns and seeded t inside:
//   (1) IndexToTime(TimeToIndex(t)) == g_k          (start <= t < start + timeframe, both directions agree)
//   (2) all of an interval's timestamps get one slot, distinct intervals get distinct slots
//   (3) Headersize <= IndexToOffset(slot) <= FileSize - recordSize, TimeToOffset agrees with
//       IndexToOffset(TimeToIndex), EpochToIndex(t.Unix()) agrees with TimeToIndex(t), and the result does not
//       depend on the Location the timestamp value is expressed in.
// DST: nothing is relaxed for sub-day timeframes (the grid is in elapsed time); for 1D the calendar-day
// grid has 23 h / 25 h (23.5 / 24.5 h) days at the transitions, which the property allows ("one interval
// slot", "bijection") as long as (1)-(3) hold with g_k+1 the next day's start.
//
// Known findings (as-is models):
//   F-JAN1    trigger: tf == 1D and t is on January 1 (configured zone). As-is: offset == Headersize - recordSize
//             (1D slots are numbered from 0, so day 1 lies one record below the data area).
//   F-YEARLEN trigger: the configured zone's year needs more slots than the file has, i.e.
//             ceil(len(year in configured zone)/tf) > floor(len(year in time.Local)/tf)  (FileSize takes
//             the year's length from time.Local and rounds down). As-is: slot == k+1 > file slots, offset
//             beyond FileSize - recordSize. (For 1D the year needs one slot per calendar day; on the pinned tree
//             the F-JAN1 numbering from 0 happens to keep December 31 inside a file that is one slot short.)

import (
	"fmt"
	"time"

	"github.com/alpacahq/marketstore/v4/utils"
	"github.com/alpacahq/marketstore/v4/utils/io"
	"github.com/alpacahq/marketstore/v4/verif/internal/ms"
	"github.com/alpacahq/marketstore/v4/verif/internal/runner"
)

type c30zone struct {
	cfg, local string
	yearlen    bool // stratum aimed at years whose length differs between zones / is not a multiple of tf
}

var c30zones = []c30zone{
	{"UTC", "UTC", false},
	{"America/New_York", "America/New_York", false},
	{"Europe/London", "Europe/London", false},
	{"Asia/Kolkata", "Asia/Kolkata", false},
	{"Australia/Lord_Howe", "Australia/Lord_Howe", false},
	// time.Local differs from the configured zone (FileSize uses time.Local)
	{"America/New_York", "UTC", false},
	{"UTC", "America/New_York", false},
	{"Australia/Lord_Howe", "Asia/Kolkata", false},
	// zones with a permanent offset change: 2011 is 1 h shorter, 2014 is 1 h longer in Europe/Moscow
	{"UTC", "Europe/Moscow", true},
	{"Europe/Moscow", "UTC", true},
	{"Europe/Moscow", "Europe/Moscow", true},
}

type c30tf struct {
	name string
	d    time.Duration
}

var c30tfs = []c30tf{
	{"1Sec", time.Second}, {"10Sec", 10 * time.Second}, {"30Sec", 30 * time.Second}, {"1Min", time.Minute},
	{"5Min", 5 * time.Minute}, {"15Min", 15 * time.Minute}, {"30Min", 30 * time.Minute},
	{"1H", time.Hour}, {"2H", 2 * time.Hour}, {"4H", 4 * time.Hour}, {"1D", 24 * time.Hour},
}

const (
	c30parts = 3 // 0: timeframes >= 1Min incl. 1D without Jan 1; 1: sub-minute timeframes; 2: 1D on Jan 1
	c30day   = 24 * time.Hour
)

func c30years(tier string, z c30zone) []int {
	if tier == "thorough" {
		ys := make([]int, 0, 32)
		for y := 1999; y <= 2030; y++ {
			ys = append(ys, y)
		}
		return ys
	}
	if z.yearlen {
		return []int{2010, 2011, 2014, 2020}
	}
	return []int{1999, 2016, 2019, 2030}
}

func c30cases(tier string) int {
	return len(c30zones) * len(c30years(tier, c30zones[0])) * c30parts
}

type c30chk struct {
	tf         c30tf
	year       int
	cfg        *time.Location
	other      *time.Location // a Location the timestamp value is sometimes expressed in
	ys, ye     time.Time
	rs         [2]int32
	fs         [2]int64
	needSlots  int64 // ceil(len(year in configured zone)/tf)   (independent)
	localSlots int64 // floor(len(year in time.Local)/tf)        (independent, as-is model only)
	visited    bitset
	used       bitset
	n          int64
	intervals  int64
	altLoc     int64
	wrappers   int64
	bad        int64
	jan1       int64
	yearlen    int64
	firstBad   string
	firstJan1  string
	firstYL    string
}

func (k *c30chk) fail(format string, a ...interface{}) {
	k.bad++
	if k.firstBad == "" {
		k.firstBad = fmt.Sprintf("%s year %d: ", k.tf.name, k.year) + fmt.Sprintf(format, a...)
	}
}

func c30fmt(t time.Time) string { return t.Format("2006-01-02T15:04:05.999999999Z07:00") }

// point checks one timestamp t whose interval (by the reference grid) starts at g and has ordinal ord.
func (k *c30chk) point(t, g time.Time, ord int64) int64 {
	k.n++
	arg := t
	if k.n%5 == 0 { // the same instant expressed in another Location must index identically
		if k.n%10 == 0 {
			arg = t.UTC()
		} else {
			arg = t.In(k.other)
		}
		k.altLoc++
	}
	i := io.TimeToIndex(arg, k.tf.d)
	s := io.IndexToTime(i, k.tf.d, int16(k.year))
	if !s.Equal(g) {
		k.fail("t=%s (interval start %s, ordinal %d): TimeToIndex=%d, IndexToTime(%d)=%s: slot and interval start do not convert back and forth",
			c30fmt(arg), c30fmt(g), ord, i, i, c30fmt(s))
		return i
	}
	if k.n%3 == 1 || k.tf.d >= time.Minute { // the wrappers: every timestamp for >= 1Min, every third below
		k.wrappers++
		if e := io.EpochToIndex(t.Unix(), k.tf.d); e != i {
			k.fail("t=%s: EpochToIndex(%d)=%d but TimeToIndex=%d", c30fmt(arg), t.Unix(), e, i)
		}
		if o2 := io.TimeToOffset(arg, k.tf.d, k.rs[0]); o2 != io.IndexToOffset(i, k.rs[0]) {
			k.fail("t=%s: TimeToOffset=%d but IndexToOffset(TimeToIndex)=%d", c30fmt(arg), o2, io.IndexToOffset(i, k.rs[0]))
		}
	}
	for j, rs := range k.rs {
		o := io.IndexToOffset(i, rs)
		if o >= io.Headersize && o <= k.fs[j]-int64(rs) {
			continue
		}
		lt := t.In(k.cfg)
		switch {
		case k.tf.d == c30day && lt.Month() == time.January && lt.Day() == 1 && o == io.Headersize-int64(rs):
			k.jan1++
			if k.firstJan1 == "" {
				k.firstJan1 = fmt.Sprintf("1D year %d zone %s: t=%s -> slot %d -> offset %d < Headersize %d (recordSize %d)",
					k.year, k.cfg, c30fmt(t), i, o, io.Headersize, rs)
			}
		case k.needSlots > k.localSlots && i == ord+1 && i > k.localSlots && o > k.fs[j]-int64(rs):
			k.yearlen++
			if k.firstYL == "" {
				k.firstYL = fmt.Sprintf("%s year %d configured zone %s, time.Local %s: t=%s -> slot %d -> offset %d > FileSize-recordSize = %d (file has %d slots, the year needs %d; recordSize %d)",
					k.tf.name, k.year, k.cfg, time.Local, c30fmt(t), i, o, k.fs[j]-int64(rs), k.localSlots, k.needSlots, rs)
			}
		default:
			k.fail("t=%s: slot %d -> offset %d outside the data area [%d, %d] (recordSize %d, FileSize %d)",
				c30fmt(arg), i, o, io.Headersize, k.fs[j]-int64(rs), rs, k.fs[j])
		}
		break // one report per timestamp
	}
	return i
}

// interval checks the interval with ordinal ord = [g, gn): first and last instant, slot uniqueness.
func (k *c30chk) interval(ord int64, g, gn time.Time) {
	i1 := k.point(g, g, ord)
	i2 := k.point(gn.Add(-1), g, ord)
	if i1 != i2 {
		k.fail("interval %s..%s: first instant in slot %d, last instant in slot %d", c30fmt(g), c30fmt(gn), i1, i2)
	}
	if ord >= 0 && ord < int64(len(k.visited))*64-64 && !k.visited.get(ord) {
		k.visited.set(ord)
		k.intervals++
		if i1 >= 0 && i1 < int64(len(k.used))*64-64 {
			if k.used.get(i1) {
				k.fail("interval starting %s (ordinal %d) gets slot %d which another interval already has", c30fmt(g), ord, i1)
			}
			k.used.set(i1)
		}
	}
}

// sub-day grid
func (k *c30chk) gridInterval(ord int64) {
	g := k.ys.Add(time.Duration(ord) * k.tf.d)
	gn := g.Add(k.tf.d)
	if gn.After(k.ye) {
		gn = k.ye
	}
	k.interval(ord, g, gn)
}

func (k *c30chk) randomPoint(r interface{ I64n(int64) int64 }, lo time.Time) {
	span := k.ye.Sub(lo).Nanoseconds()
	t := lo.Add(time.Duration(r.I64n(span)))
	ord := int64(t.Sub(k.ys) / k.tf.d)
	k.point(t, k.ys.Add(time.Duration(ord)*k.tf.d), ord)
}

func newC30chk(tf c30tf, year int, cfg, local, other *time.Location, rs2 int32) *c30chk {
	k := &c30chk{tf: tf, year: year, cfg: cfg, other: other}
	k.ys = time.Date(year, 1, 1, 0, 0, 0, 0, cfg)
	k.ye = time.Date(year+1, 1, 1, 0, 0, 0, 0, cfg)
	k.rs = [2]int32{8, rs2}
	for j, rs := range k.rs {
		k.fs[j] = io.FileSize(tf.d, year, int(rs)) // the real size of the year's file
	}
	yl := k.ye.Sub(k.ys)
	k.needSlots = int64((yl + tf.d - 1) / tf.d)
	if tf.d == c30day {
		k.needSlots = int64(time.Date(year+1, 1, 1, 12, 0, 0, 0, time.UTC).Sub(time.Date(year, 1, 1, 12, 0, 0, 0, time.UTC)) / c30day) // calendar days
	}
	ll := time.Date(year+1, 1, 1, 0, 0, 0, 0, local).Sub(time.Date(year, 1, 1, 0, 0, 0, 0, local))
	k.localSlots = int64(ll / tf.d)
	k.visited = newBitset(k.needSlots + 2)
	k.used = newBitset(k.needSlots + 2)
	return k
}

// day grid: calendar (local midnights) or elapsed (24 h steps); from..to are day ordinals
func (k *c30chk) dayGrid(calendar bool, from, to int, r interface{ I64n(int64) int64 }, nrand int) {
	start := func(d int) time.Time {
		if calendar {
			return time.Date(k.year, 1, 1+d, 0, 0, 0, 0, k.cfg)
		}
		return k.ys.Add(time.Duration(d) * c30day)
	}
	for d := from; d < to; d++ {
		g, gn := start(d), start(d+1)
		if gn.After(k.ye) {
			gn = k.ye
		}
		if !g.Before(k.ye) {
			break
		}
		k.interval(int64(d), g, gn)
		for j := 0; j < nrand; j++ {
			k.point(g.Add(time.Duration(r.I64n(gn.Sub(g).Nanoseconds()))), g, int64(d))
		}
	}
}

func c30run(c *runner.Ctx) runner.Result {
	var res runner.Result
	ms.Quiet()
	years := c30years(c.Tier, c30zones[0])
	per := len(years) * c30parts
	z := c30zones[c.Case/per]
	years = c30years(c.Tier, z)
	year := years[(c.Case%per)/c30parts]
	part := c.Case % c30parts
	cfg, local := tzLoad(z.cfg), tzLoad(z.local)
	if cfg == nil || local == nil {
		res.Count("cases_skipped_zone_missing", 1)
		res.Set("zones_missing", z.cfg+"|"+z.local)
		return res
	}
	utils.InstanceConfig.Timezone = cfg
	time.Local = local
	other := tzLoad("Asia/Kolkata")
	if other == nil {
		other = time.UTC
	}
	r := c.R("points")
	rs2 := int32(8 * r.Range(2, 64))
	trans := tzTransitions(cfg, time.Date(year, 1, 1, 0, 0, 0, 0, cfg), time.Date(year+1, 1, 1, 0, 0, 0, 0, cfg))
	var chks []*c30chk
	var transPts int64
	switch part {
	case 0:
		for _, tf := range c30tfs[3:] {
			k := newC30chk(tf, year, cfg, local, other, rs2)
			chks = append(chks, k)
			if tf.d == c30day {
				// detect the anchoring on a dry run, then check the whole year except day 0 (January 1: part 2)
				dry := newC30chk(tf, year, cfg, local, other, rs2)
				dry.dayGrid(true, 1, 367, r, 0)
				calendar := true
				if dry.bad > 0 {
					dry2 := newC30chk(tf, year, cfg, local, other, rs2)
					dry2.dayGrid(false, 1, 367, r, 0)
					if dry2.bad == 0 {
						calendar = false
					}
				}
				if calendar {
					res.Set("day_anchoring", "calendar")
				} else {
					res.Set("day_anchoring", "elapsed24h")
				}
				k.dayGrid(calendar, 1, 367, r, 40)
				continue
			}
			for ord := int64(0); ord < k.needSlots; ord++ {
				k.gridInterval(ord)
			}
			for j := 0; j < 20000; j++ {
				k.randomPoint(r, k.ys)
			}
			transPts += int64(len(trans))
		}
	case 1:
		for _, tf := range c30tfs[:3] {
			k := newC30chk(tf, year, cfg, local, other, rs2)
			chks = append(chks, k)
			// thorough: every interval of the year for 30Sec; for 10Sec in leap years, 2011, 2014 and 2019; for 1Sec in 2019
			// (zone configs with time.Local == configured zone) and 2011 (Europe/Moscow configs)
			var exhaustive bool
			switch {
			case !c.Thorough():
			case tf.d == 30*time.Second:
				exhaustive = true
			case tf.d == 10*time.Second:
				exhaustive = year%4 == 0 || year == 2011 || year == 2014 || year == 2019
			default:
				exhaustive = (year == 2019 && z.cfg == z.local && !z.yearlen) || (year == 2011 && z.yearlen)
			}
			if exhaustive {
				for ord := int64(0); ord < k.needSlots; ord++ {
					k.gridInterval(ord)
				}
				transPts += int64(len(trans))
				res.Count("subminute_years_exhaustive", 1)
			} else {
				w := int64(2 * time.Hour / tf.d)
				win := func(center int64) {
					for ord := center - w; ord < center+w; ord++ {
						if ord >= 0 && ord < k.needSlots {
							k.gridInterval(ord)
						}
					}
				}
				win(0)
				win(k.needSlots)
				win(int64(time.Date(year, 3, 1, 0, 0, 0, 0, cfg).Sub(k.ys) / tf.d)) // leap day edge
				for _, T := range trans {
					win(int64(T.Sub(k.ys) / tf.d))
					transPts++
				}
				n := 150000
				if c.Thorough() {
					n = 400000
				}
				for j := 0; j < n; j++ {
					k.gridInterval(r.I64n(k.needSlots))
				}
			}
			n := 100000
			if c.Thorough() {
				n = 400000
			}
			for j := 0; j < n; j++ {
				k.randomPoint(r, k.ys)
			}
		}
	case 2:
		k := newC30chk(c30tfs[10], year, cfg, local, other, rs2)
		chks = append(chks, k)
		k.dayGrid(true, 0, 1, r, 200)
		res.Count("jan1_days_checked", 1)
	}
	var tot c30chk
	for _, k := range chks {
		tot.n += k.n
		tot.intervals += k.intervals
		tot.altLoc += k.altLoc
		tot.wrappers += k.wrappers
		tot.bad += k.bad
		tot.jan1 += k.jan1
		tot.yearlen += k.yearlen
		if tot.firstBad == "" {
			tot.firstBad = k.firstBad
		}
		if tot.firstJan1 == "" {
			tot.firstJan1 = k.firstJan1
		}
		if tot.firstYL == "" {
			tot.firstYL = k.firstYL
		}
		res.Set("timeframes", k.tf.name)
	}
	res.Evals = tot.n
	res.Count("timestamps_checked", tot.n)
	res.Count("intervals_enumerated", tot.intervals)
	res.Count("timestamps_in_other_location", tot.altLoc)
	res.Count("wrapper_cross_checks", tot.wrappers)
	res.Count("dst_transitions_enumerated", transPts)
	res.Set("zone_configs", z.cfg+"|local="+z.local)
	res.Set("years", fmt.Sprint(year))
	if tot.n > 0 {
		res.Sig = fmt.Sprintf("%s|local=%s/%d/part%d", z.cfg, z.local, year, part)
	}
	if c.Case%per < 3 && c.Case/per == 1 {
		tr := []string{}
		for _, T := range trans {
			tr = append(tr, c30fmt(T.In(cfg)))
		}
		res.Sample = map[string]interface{}{"configured_zone": z.cfg, "time_local": z.local, "year": year, "part": part,
			"offset_transitions": tr, "timestamps_checked": tot.n, "record_sizes": []int32{8, rs2}}
	}
	w := map[string]interface{}{"configured_zone": z.cfg, "time_local": z.local, "year": year}
	if tot.bad > 0 {
		w["first"] = tot.firstBad
		res.Violation(fmt.Sprintf("%d checks failed (zone %s, time.Local %s); first: %s", tot.bad, z.cfg, z.local, tot.firstBad), w)
	}
	if tot.jan1 > 0 {
		res.Known("F-JAN1", fmt.Sprintf("%d timestamps on January 1 map below the data area; first: %s", tot.jan1, tot.firstJan1), w)
	}
	if tot.yearlen > 0 {
		res.Known("F-YEARLEN", fmt.Sprintf("%d timestamps map beyond the end of the year's file; first: %s", tot.yearlen, tot.firstYL), w)
	}
	return res
}

func init() {
	register(&runner.Monitor{
		ID:    "C30",
		Level: "exploration",
		Rule: "case = (configured zone, time.Local, year, part); part 0 enumerates every interval of the year for 1Min..4H and every day but January 1 for 1D, " +
			"part 1 covers 1Sec/10Sec/30Sec (2 h of consecutive intervals around every UTC-offset transition, both year edges and the leap-day edge, plus seeded intervals; thorough: every interval for 30Sec, for 10Sec in 11 of the 32 years and for 1Sec in one year per zone config with time.Local == configured zone), " +
			"part 2 is 1D on January 1 (aims at F-JAN1); each interval is probed at its first and last nanosecond and at seeded instants, every fifth timestamp expressed in a different Location; " +
			"zone configs 9-11 (Europe/Moscow) aim at years whose length differs from 365/366 days; a case is non-trivial when it checked > 0 timestamps, distinct by (zone config, year, part)",
		Assumptions: []string{
			"the year's file has the size the real io.FileSize returns for (timeframe, year, record size); record sizes 8 and one seeded multiple of 8",
			"for 1D both anchorings that tile the year (local calendar days / 24 h steps) are accepted, whichever the code uses consistently",
			"zones: UTC, America/New_York, Europe/London, Asia/Kolkata, Australia/Lord_Howe, Europe/Moscow from the system zone database",
		},
		Cases:        c30cases,
		Batch:        len(c30years("quick", c30zones[0])) * c30parts,
		Run:          c30run,
		Need:         []string{"timestamps_checked", "intervals_enumerated", "dst_transitions_enumerated", "jan1_days_checked"},
		ChildEnv:     []string{"GOMAXPROCS=2"}, // single-goroutine children
		BatchTimeout: 60 * time.Minute,
	})
}
