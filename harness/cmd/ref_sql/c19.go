package main

// C19 SQL WHERE predicates select exactly the matching rows.
//
// Real code driven: a generated table is written through the real writer (ms.Open wires catalog, WAL
// and writer the way cmd/start does); each generated `SELECT * FROM `sym/tf/ag` WHERE ...;` goes through
// sqlparser.BuildQueryTree -> NewExecutableStatement -> Materialize, i.e. what DataService.executeSQL runs.
//
// Oracle (from the property text only): the reference relational filter over the rows the unrestricted
// non-SQL query returns: a row is selected iff every comparison of the conjunction holds for it, where
// <, <=, >, >=, = have their usual meaning, BETWEEN a AND b means strictly between, an Epoch literal
// (datetime string, epoch seconds, epoch nanoseconds) denotes an instant and is compared with the row's
// time (Epoch, plus Nanoseconds for variable-length rows), and a value literal is converted to the
// column's type and compared in that type (float32 as float32 ...). Result = those rows, all columns,
// bit for bit, in time order. A statement that returns an error where rows were expected is a violation
// (the generator stays inside the supported grammar); an error or an empty result both mean "no rows".
//
// Known findings (as-is model + trigger on the input; see sqlmodel.go evalAsIs/triggers):
//   F-SQL1 an Epoch upper bound written in epoch seconds is pushed down to the time range as if it were
//          nanoseconds (=> 1970): nothing is returned. Trigger: an upper bound (<, <=, BETWEEN's upper)
//          on Epoch whose literal is an integer <= 32503680000.
//   F-SQL2 the inclusive/exclusive adjustment of the pushed-down range is inverted: with `Epoch <= X`
//          rows at exactly X are dropped (end = X-1ns); with `Epoch >= X` the start is X+1ns, which
//          drops rows at exactly X in variable-length buckets (fixed-length reads truncate the start
//          to the bar). Trigger: an inclusive Epoch bound and a stored row exactly on a bound literal.
//   F-SQL3 several comparisons on one column are not intersected: AddComparison keeps the looser of
//          two lower (upper) bounds, the inclusive flag sticks once set, a later `=` replaces an
//          earlier one. Trigger: two lower bounds, two upper bounds or two equalities on one column
//          (BETWEEN counts as one of each).
//   F-SQL4 the row filter only knows float32, float64, int32 and int64 columns: a predicate on an
//          int8/int16/uint8/uint16/uint32/uint64 column is silently ignored (all rows pass).
//          Trigger: a comparison on a column of one of those types.
//   F-SQL5 the early "always false" test (StaticPredicate.IsFalse) compares a column's lower and upper
//          bound as float64 literals, not in the column's precision: on a float32 column
//          `C >= 0.20000000318 AND C <= 0.2` returns nothing although both literals convert to the
//          stored float32 0.2. Trigger: a float32 column with a lower bound literal greater than an
//          upper bound literal as float64 but not after conversion to float32. As-is: empty result.
// A case is judged: actual == ideal -> held; else, for the triggered findings, the smallest set whose
// as-is model reproduces the actual result exactly -> known finding(s); anything else -> violation.

import (
	"fmt"
	"sort"
	"strconv"
	"strings"
	"time"

	"github.com/alpacahq/marketstore/v4/verif/internal/gen"
	"github.com/alpacahq/marketstore/v4/verif/internal/ms"
	"github.com/alpacahq/marketstore/v4/verif/internal/runner"
)

func c19cases(tier string) int {
	if tier == "thorough" {
		return 200
	}
	return 48
}

func c19stmts(tier string) int {
	if tier == "thorough" {
		return 40
	}
	return 32
}

// c19stratum: which fragment statement s of a case is drawn from.
func c19stratum(s int, t *sqlTable) string {
	if s == 0 {
		return "nowhere"
	}
	switch s % 16 {
	case 3:
		return "aimSQL1"
	case 7:
		return "aimSQL2"
	case 11:
		return "aimSQL3"
	case 13:
		if t.sql5Col() != nil {
			return "aimSQL5"
		}
		return "main"
	case 15:
		if len(t.valueCols(false)) > 0 {
			return "aimSQL4"
		}
		return "aimSQL3"
	}
	return "main"
}

func insertAt(r *gen.R, w sqlWhere, cs ...sqlCmp) sqlWhere {
	for _, c := range cs {
		p := r.Intn(len(w) + 1)
		w = append(w, sqlCmp{})
		copy(w[p+1:], w[p:])
		w[p] = c
	}
	return w
}

// genAimed: statements aimed at one finding's trigger (they are still judged against the ideal model first).
func (t *sqlTable) genAimed(r *gen.R, stratum string, k int) sqlWhere {
	switch stratum {
	case "aimSQL1":
		rest := t.genWhereMain(r, k-1, map[string]bool{"Epoch": true})
		var c sqlCmp
		if r.P(1, 4) {
			a := t.genEpochLit(r, epochOpt{})
			b := t.genEpochLit(r, epochOpt{Form: "sec"})
			if a.Ns > b.Ns && b.Form == "sec" && r.P(4, 5) {
				a = t.genEpochLit(r, epochOpt{Form: "sec"})
				if a.Ns > b.Ns {
					a, b = b, a
				}
			}
			c = sqlCmp{Col: "Epoch", Epoch: true, Op: "between", A: a, B: b}
		} else {
			c = sqlCmp{Col: "Epoch", Epoch: true, Op: r.PickS("<", "<="), A: t.genEpochLit(r, epochOpt{Form: "sec"})}
		}
		return insertAt(r, rest, c)
	case "aimSQL2":
		rest := t.genWhereMain(r, k-1, map[string]bool{"Epoch": true})
		op := "<="
		if t.Variable && r.P(2, 5) {
			op = ">="
		}
		form := r.PickS("str", "ns")
		c := sqlCmp{Col: "Epoch", Epoch: true, Op: op, A: t.genEpochLit(r, epochOpt{OnStored: true, NoSec: true, Form: form})}
		return insertAt(r, rest, c)
	case "aimSQL3":
		var col *sqlCol
		sup := t.valueCols(true)
		if len(sup) > 0 && !r.P(1, 3) {
			col = sup[r.Intn(len(sup))]
		}
		name := "Epoch"
		if col != nil {
			name = col.Name
		}
		lit := func() sqlLit {
			if col != nil {
				return t.genValLit(r, col)
			}
			return t.genEpochLit(r, epochOpt{NoSec: true})
		}
		mk := func(op string) sqlCmp { return sqlCmp{Col: name, Epoch: col == nil, Op: op, A: lit()} }
		var cs []sqlCmp
		switch r.Intn(6) {
		case 0:
			cs = []sqlCmp{mk(r.PickS("<", "<=")), mk(r.PickS("<", "<="))}
		case 1:
			cs = []sqlCmp{mk(r.PickS(">", ">=")), mk(r.PickS(">", ">="))}
		case 2:
			b := sqlCmp{Col: name, Epoch: col == nil, Op: "between", A: lit(), B: lit()}
			if (col == nil && b.A.Ns > b.B.Ns) || (col != nil && b.A.asF64() > b.B.asF64()) {
				b.A, b.B = b.B, b.A
			}
			cs = []sqlCmp{b, mk(sqlOps[r.Intn(4)])}
			if r.Bool() {
				cs[0], cs[1] = cs[1], cs[0]
			}
		case 3:
			cs = []sqlCmp{mk("="), mk("=")}
		case 4:
			cs = []sqlCmp{mk(r.PickS("<", "<=")), mk(r.PickS(">", ">=")), mk(sqlOps[r.Intn(4)])}
		default:
			op := sqlOps[r.Intn(4)]
			cs = []sqlCmp{mk(op), mk(op)}
		}
		if len(cs) > k {
			cs = cs[:k]
		}
		rest := t.genWhereMain(r, k-len(cs), map[string]bool{name: true})
		return insertAt(r, rest, cs...)
	case "aimSQL5":
		col := t.sql5Col()
		data := t.Ref.Cols[col.Name].([]float32)
		var pos []float32
		for _, v := range data {
			if v > 0 {
				pos = append(pos, v)
			}
		}
		v := float64(pos[r.Intn(len(pos))])
		// both literals convert to the stored float32 value; as float64 the lower one is the larger
		lo := valLit(fmtF(v * (1 + 1e-9)))
		hi := valLit(fmtF(v * (1 - 1e-9)))
		if r.P(1, 3) {
			hi = valLit(strconv.FormatFloat(v, 'f', -1, 32))
			if !strings.Contains(hi.Text, ".") {
				hi = valLit(hi.Text + ".0")
			}
		}
		cs := []sqlCmp{{Col: col.Name, Op: ">=", A: lo}, {Col: col.Name, Op: "<=", A: hi}}
		if r.P(1, 4) {
			cs = []sqlCmp{{Col: col.Name, Op: r.PickS(">", ">="), A: lo}, {Col: col.Name, Op: r.PickS("<", "<="), A: hi}}
		}
		if r.Bool() {
			cs[0], cs[1] = cs[1], cs[0]
		}
		if k < 2 {
			k = 2
		}
		rest := t.genWhereMain(r, k-2, map[string]bool{col.Name: true})
		return insertAt(r, rest, cs...)
	case "aimSQL4":
		odd := t.valueCols(false)
		col := odd[r.Intn(len(odd))]
		n := 1
		if k >= 3 && r.P(1, 3) {
			n = 2
		}
		var cs []sqlCmp
		if n == 2 {
			a, b := t.genValLit(r, col), t.genValLit(r, col)
			if a.asF64() > b.asF64() {
				a, b = b, a
			}
			cs = []sqlCmp{{Col: col.Name, Op: r.PickS(">", ">="), A: a}, {Col: col.Name, Op: r.PickS("<", "<="), A: b}}
		} else if r.P(1, 4) {
			a, b := t.genValLit(r, col), t.genValLit(r, col)
			if a.asF64() > b.asF64() {
				a, b = b, a
			}
			cs = []sqlCmp{{Col: col.Name, Op: "between", A: a, B: b}}
		} else {
			cs = []sqlCmp{{Col: col.Name, Op: sqlOps[r.Intn(len(sqlOps))], A: t.genValLit(r, col)}}
		}
		rest := t.genWhereMain(r, k-len(cs), map[string]bool{col.Name: true})
		return insertAt(r, rest, cs...)
	}
	panic(stratum)
}

// sql5Col: a float32 column holding a positive value (needed to aim at F-SQL5), or nil.
func (t *sqlTable) sql5Col() *sqlCol {
	for i := range t.Cols {
		if t.Cols[i].TS != "f4" {
			continue
		}
		if data, ok := t.Ref.Cols[t.Cols[i].Name].([]float32); ok {
			for _, v := range data {
				if v > 0 && v < 1e6 {
					return &t.Cols[i]
				}
			}
		}
	}
	return nil
}

// shapeSig: the shape of a statement (column class and operator of each comparison), not its values.
func (t *sqlTable) shapeSig(stratum string, w sqlWhere) string {
	var p []string
	for _, c := range w {
		cl := "E" + c.A.Form
		if !c.Epoch {
			cl = t.col(c.Col).TS
		}
		p = append(p, cl+c.Op)
	}
	sort.Strings(p)
	v := "F"
	if t.Variable {
		v = "V"
	}
	return stratum + "|" + v + "|" + strings.Join(p, ",")
}

func sameIdx(a, b []int) bool {
	if len(a) != len(b) {
		return false
	}
	for i := range a {
		if a[i] != b[i] {
			return false
		}
	}
	return true
}

type sqlVerdict struct {
	Status   string   // "ok" | "known" | "violation"
	Findings []string // for known
	Detail   string
	Ideal    []int
	AsIs     []int
}

// judgeSelectAll applies the ideal model and then the as-is models of the triggered findings.
func (t *sqlTable) judgeSelectAll(w sqlWhere, o sqlOut) sqlVerdict {
	ideal := t.evalIdeal(w)
	diff := matchSelectAll(t, ideal, o)
	if diff == "" {
		return sqlVerdict{Status: "ok", Ideal: ideal}
	}
	for _, sub := range defectSubsets(t.triggers(w)) {
		as := t.evalAsIs(w, sub)
		if sameIdx(as, ideal) {
			continue
		}
		if matchSelectAll(t, as, o) == "" {
			return sqlVerdict{Status: "known", Findings: sub.names(), Ideal: ideal, AsIs: as,
				Detail: fmt.Sprintf("expected %d rows, got the %d rows of the as-is model of %v (%s)", len(ideal), len(as), sub.names(), diff)}
		}
	}
	return sqlVerdict{Status: "violation", Ideal: ideal, Detail: diff}
}

func c19run(c *runner.Ctx) runner.Result {
	var res runner.Result
	ms.Quiet()
	rt := c.R("table")
	opt := tableOpt{Variable: c.Case%5 == 4, Odd: c.Case%2 == 1}
	t := genTable(rt, opt)
	var inst *ms.Inst
	if p := ms.Recover(func() { inst = ms.Open(c.Scratch+"/root", ms.Opts{SetGlobalInstance: true}) }); p != "" {
		res.Inconclusive("cannot open instance: " + p)
		return res
	}
	var serr error
	if p := ms.Recover(func() { serr = t.store(inst) }); p != "" || serr != nil {
		res.Inconclusive(fmt.Sprintf("cannot store the table (not a C19 observation): %v %s", serr, p))
		return res
	}
	if t.Ref.N == 0 {
		res.Inconclusive("reference query returned no rows")
		return res
	}
	res.Set("timeframes", t.TF.Name)
	for _, cc := range t.Cols {
		res.Set("column_types", cc.TS)
	}
	vl := "fixed"
	if t.Variable {
		vl = "variable"
	}
	res.Set("record_kinds", vl)
	res.Sig = fmt.Sprintf("table|%s|%s|rows%s|odd=%v", t.TF.Name, vl, rowBucket(t.Ref.N), opt.Odd)

	nst := c19stmts(c.Tier)
	nviol := 0
	known := map[string]int{}
	knownFirst := map[string]interface{}{}
	knownDetail := map[string]string{}
	var sample []string
	for s := 0; s < nst; s++ {
		r := c.R(fmt.Sprintf("stmt%d", s))
		stratum := c19stratum(s, t)
		k := r.PickI(1, 1, 2, 2, 2, 3, 3, 4)
		var w sqlWhere
		// most statements select something: up to 4 draws, the first with a non-empty expected result
		// is kept (1 in 6 statements keeps its first draw whatever it selects)
		keepFirst := r.P(1, 6)
		for try := 0; try < 4; try++ {
			switch stratum {
			case "nowhere":
			case "main":
				w = t.genWhereMain(r, k, nil)
			default:
				w = t.genAimed(r, stratum, k)
			}
			if keepFirst || stratum == "nowhere" || len(t.evalIdeal(w)) > 0 {
				break
			}
		}
		lower := r.P(1, 6)
		stmt := "SELECT * FROM `" + t.Key + "`"
		if lower {
			stmt = "select * from `" + t.Key + "`"
		}
		if len(w) > 0 {
			if lower {
				stmt += " where "
			} else {
				stmt += " WHERE "
			}
			stmt += w.render(lower, r.P(1, 5))
		}
		stmt += ";"
		if stratum == "main" {
			// the main fragment must avoid every trigger: a generator slip would mask regressions
			if tr := t.triggers(w); tr != (sqlDefects{}) {
				res.Inconclusive(fmt.Sprintf("generator produced a triggering statement in the main fragment (%v): %s", tr.names(), stmt))
				continue
			}
		}
		o := runSQL(inst, stmt)
		v := t.judgeSelectAll(w, o)
		res.Count("statements", 1)
		res.Count("statements_"+stratum, 1)
		res.Count("comparisons", int64(len(w)))
		res.Count("rows_compared", int64(len(v.Ideal)))
		switch {
		case len(v.Ideal) == 0:
			res.Count("expected_empty", 1)
		case len(v.Ideal) == t.Ref.N:
			res.Count("expected_all_rows", 1)
		default:
			res.Count("expected_proper_subset", 1)
		}
		if o.Err != nil {
			res.Count("statements_returning_error", 1)
		}
		onStored := false
		for _, cm := range w {
			res.Set("operators", cm.Op)
			lits := []sqlLit{cm.A}
			if cm.Op == "between" {
				lits = append(lits, cm.B)
			}
			for _, l := range lits {
				if cm.Epoch {
					res.Set("epoch_literal_forms", l.Form)
					if t.isStoredNs(l.Ns) {
						onStored = true
					}
				} else {
					for i := 0; i < t.Ref.N; i++ {
						if cmpCell(t.Ref.Cols[cm.Col], i, l) == 0 {
							onStored = true
							break
						}
					}
				}
			}
		}
		if onStored {
			res.Count("statements_with_literal_on_stored_value", 1)
		}
		if t.Ref.N >= 2 && len(w) > 0 && (onStored || (len(v.Ideal) > 0 && len(v.Ideal) < t.Ref.N)) {
			res.Sigs = append(res.Sigs, t.shapeSig(stratum, w))
		}
		if len(sample) < 4 && c.Case < 3 && len(w) > 0 {
			sample = append(sample, fmt.Sprintf("%s -> %d of %d rows", stmt, len(v.Ideal), t.Ref.N))
		}
		switch v.Status {
		case "known":
			for _, f := range v.Findings {
				known[f]++
				if _, ok := knownFirst[f]; !ok {
					knownDetail[f] = stmt + ": " + v.Detail
					knownFirst[f] = map[string]interface{}{"table": t.describe(), "statement": stmt, "expected_rows": idxDump(t, v.Ideal), "actual": o.describe()}
				}
			}
		case "violation":
			nviol++
			if nviol <= 3 {
				res.Violation(fmt.Sprintf("%s: %s", stmt, v.Detail), map[string]interface{}{
					"table": t.describe(), "statement": stmt, "stratum": stratum, "expected_rows": idxDump(t, v.Ideal), "actual": o.describe()})
			}
		}
	}
	res.Evals = int64(nst)
	if nviol > 3 {
		res.Violation(fmt.Sprintf("%d further statements of this case violate the property", nviol-3), nil)
	}
	var ks []string
	for f := range known {
		ks = append(ks, f)
	}
	sort.Strings(ks)
	for _, f := range ks {
		res.Count("known_"+f+"_statements", int64(known[f]))
		res.Known(f, fmt.Sprintf("%d statements; first: %s", known[f], knownDetail[f]), knownFirst[f])
	}
	if len(sample) > 0 {
		res.Sample = map[string]interface{}{"table": t.Key, "columns": t.typeSig(), "rows": t.Ref.N, "statements": sample}
	}
	return res
}

func init() {
	register(&runner.Monitor{
		ID:    "C19",
		Level: "exploration",
		Rule: "case = one generated table (timeframe 1Sec..1D, fixed or variable-length, 2-7 columns of types i4 i8 f4 f8 and, in every second case, i1 i2 u1 u2 u4 u8, 1-60 rows, every fifth table crossing a year boundary) written through the real writer, plus 32 (quick) / 40 (thorough) statements `SELECT * FROM t WHERE c1 AND .. AND ck` (k<=4, `col op literal` with op in < <= > >= = and `col BETWEEN a AND b`, literals on / one step off / between / outside the stored values, Epoch literals as datetime string, epoch seconds and epoch nanoseconds) run through BuildQueryTree/NewExecutableStatement/Materialize and compared with the reference filter over the rows of the unrestricted non-SQL query; " +
			"3 of 4 statements come from the fragment that avoids every known trigger (checked by the trigger predicates), the others aim at F-SQL1..5; a statement is non-trivial when the table has >=2 rows and either a literal sits on a stored value or the expected result is a non-empty proper subset; distinct = distinct (stratum, record kind, multiset of column-class+operator) shapes plus distinct table shapes",
		Assumptions: []string{
			"the row time an Epoch predicate is compared with is Epoch*1e9+Nanoseconds for variable-length rows (for fixed-length rows Nanoseconds is 0, where every reading of the property agrees)",
			"a value literal is converted to the column's Go type (decimal literal -> float64 -> float32 for f4 columns; only integral decimals are used against integer columns; literals stay inside the column type's range and are non-negative because the grammar has no signed literals)",
			"datetime strings are UTC (the instance runs with the default UTC timezone)",
			"the statement is executed through the calls DataService.executeSQL makes, without the msgpack/numpy encoding of the response (C27-C29)",
		},
		Cases:        c19cases,
		Batch:        3,
		BatchTimeout: 45 * time.Minute,
		Run:          c19run,
		Need:         []string{"statements", "rows_compared", "expected_proper_subset", "statements_with_literal_on_stored_value", "statements_main"},
		MinDistinct:  20,
	})
}
