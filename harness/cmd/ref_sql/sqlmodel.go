package main

// Shared helpers of the SQL monitors (C19, C20): table generator, statement generator inside the
// grammar the server supports, the reference relational model (written from the property text),
// the as-is models of the demonstrated defects, and the driver that sends a statement through
// exactly what DataService.executeSQL does.
//
// Supported grammar (worked out from sqlparser/*.go and verified by probes; everything else either
// errors or is outside C19/C20): statements end with ';'; table names are back-quoted; WHERE is a
// flat (or right-nested parenthesised) chain of AND over `col op literal` (op in < <= > >= =) and
// `col BETWEEN a AND b`; literals are unsigned integers, unsigned decimals (no exponent) and, for
// Epoch, quoted datetime strings 'YYYY-MM-DD[-HH:MM[:SS[.fffffffff]]]' (UTC) or 'YYYY-MM-DD-HH:MM:SS UTC';
// an integer Epoch literal <= 32503680000 is epoch seconds, a larger one epoch nanoseconds;
// a negative literal, `lit op col`, NOT, OR, != are not supported (error or not part of the property).

import (
	"fmt"
	"math"
	"reflect"
	"sort"
	"strconv"
	"strings"
	"time"

	"github.com/alpacahq/marketstore/v4/sqlparser"
	"github.com/alpacahq/marketstore/v4/utils/io"
	"github.com/alpacahq/marketstore/v4/verif/internal/gen"
	"github.com/alpacahq/marketstore/v4/verif/internal/ms"
)

// ---------------------------------------------------------------------------------------------
// tables

type tfSpec struct {
	Name string
	D    time.Duration
}

var sqlTFs = []tfSpec{
	{"1Sec", time.Second}, {"1Min", time.Minute}, {"5Min", 5 * time.Minute}, {"15Min", 15 * time.Minute},
	{"30Min", 30 * time.Minute}, {"1H", time.Hour}, {"2H", 2 * time.Hour}, {"1D", 24 * time.Hour},
} // 4H is left out: ExecuteQuery maps a 4H key to the 2H bucket (utils.Timeframes order), so there is no reference query for it

func tfIndex(name string) int {
	for i, t := range sqlTFs {
		if t.Name == name {
			return i
		}
	}
	return -1
}

type sqlCol struct {
	Name string
	TS   string // numpy type string (i4, f8, ...)
	Data interface{}
}

// supportedType: the column types whose predicates the SQL layer evaluates (F-SQL4 is about the others).
func supportedType(ts string) bool { return ts == "i4" || ts == "i8" || ts == "f4" || ts == "f8" }

type sqlTable struct {
	Key      string
	TF       tfSpec
	Variable bool
	Cols     []sqlCol
	Epoch    []int64
	Nanos    []int32
	Ref      *ms.Table // rows as the unrestricted non-SQL query returns them
	RefNs    []int64   // full-precision time of each reference row
}

var sqlNamePool = []string{"Open", "High", "Low", "Close", "Volume", "Bid", "Ask", "Px", "Qty", "Va", "Vb", "Vc", "Cnt", "Sz", "Price", "Amt", "BidSz", "AskSz", "Tick", "Flag", "X1", "y_2"}
var sqlSyms = []string{"AAPL", "TSLA", "EURUSD", "SYM", "BTC", "ZN", "ES", "X"}

type tableOpt struct {
	Variable bool
	Odd      bool // include one or two columns of types the SQL layer does not filter (i1 i2 u1 u2 u4 u8)
	MinCols  int
	TF       string // "" = random
	MaxRows  int
}

func elemType(ts string) io.EnumElementType {
	for _, e := range ms.ElemTypes {
		if e.Str == ts {
			return e.T
		}
	}
	panic("type " + ts)
}

func genColumn(r *gen.R, ts string, n int) interface{} {
	mode := r.Intn(4)
	switch ts {
	case "f4":
		c := make([]float32, n)
		for i := range c {
			switch mode {
			case 0:
				c[i] = float32(float64(r.Range(-20, 60)) / 10)
			case 1:
				c[i] = float32(r.Range(-6, 30)) * 0.5
			case 2:
				c[i] = float32(16777216 + r.Range(0, 12))
			default:
				c[i] = float32(float64(r.Range(0, 3000)) / 100)
			}
		}
		return c
	case "f8":
		c := make([]float64, n)
		for i := range c {
			switch mode {
			case 0:
				c[i] = float64(r.Range(-20, 60)) / 10
			case 1:
				c[i] = float64(r.Range(-8, 40)) * 0.25
			case 2:
				c[i] = 1e6 + float64(r.Range(0, 500))/100
			default:
				c[i] = float64(r.Range(0, 100000)) / 1000
			}
		}
		return c
	}
	vals := make([]int64, n)
	var lo, hi int64
	switch ts {
	case "i1":
		lo, hi = -128, 127
	case "i2":
		lo, hi = -32768, 32767
	case "i4":
		lo, hi = -2147483648, 2147483647
	case "i8":
		lo, hi = -(1 << 40), 1<<40
	case "u1":
		lo, hi = 0, 255
	case "u2":
		lo, hi = 0, 65535
	case "u4":
		lo, hi = 0, 4294967295
	case "u8":
		lo, hi = 0, 1<<62
	}
	for i := range vals {
		var v int64
		switch mode {
		case 0:
			v = int64(r.Range(-3, 12))
		case 1:
			v = int64(r.Range(0, 1000))
		case 2:
			v = lo + r.I64n(hi-lo) // wide
		default:
			v = int64(r.Range(0, 6)) * 1000003
		}
		if v < lo {
			v = lo
		}
		if v > hi {
			v = hi
		}
		vals[i] = v
	}
	return ms.MakeCol(elemType(ts), vals)
}

func genTable(r *gen.R, o tableOpt) *sqlTable {
	t := &sqlTable{Variable: o.Variable}
	if o.TF != "" {
		t.TF = sqlTFs[tfIndex(o.TF)]
	} else if o.Variable {
		t.TF = sqlTFs[tfIndex(r.PickS("1Sec", "1Min", "1Min", "5Min", "1H"))]
	} else {
		t.TF = sqlTFs[r.Intn(len(sqlTFs))]
	}
	ag := r.PickS("OHLCV", "T", "BARS")
	if o.Variable {
		ag = r.PickS("TICK", "TRADE")
	}
	t.Key = sqlSyms[r.Intn(len(sqlSyms))] + "/" + t.TF.Name + "/" + ag
	maxRows := o.MaxRows
	if maxRows <= 0 {
		maxRows = 60
	}
	n := r.PickI(1, 2, 3, 5, 8, 13, 21, 30, 45, 60)
	if n > maxRows {
		n = maxRows
	}
	// columns
	nc := r.Range(2, 5)
	if nc < o.MinCols {
		nc = o.MinCols
	}
	names := r.Perm(len(sqlNamePool))
	types := []string{"i4", "i8", "f4", "f8"}
	for i := 0; i < nc; i++ {
		ts := types[r.Intn(len(types))]
		t.Cols = append(t.Cols, sqlCol{Name: sqlNamePool[names[i]], TS: ts})
	}
	if o.Odd {
		no := r.Range(1, 2)
		for i := 0; i < no; i++ {
			ts := r.PickS("i1", "i2", "u1", "u2", "u4", "u8")
			t.Cols = append(t.Cols, sqlCol{Name: sqlNamePool[names[nc+i]], TS: ts})
		}
		// odd columns are not always last
		p := r.Perm(len(t.Cols))
		cs := make([]sqlCol, len(t.Cols))
		for i, j := range p {
			cs[i] = t.Cols[j]
		}
		t.Cols = cs
	}
	// times
	step := int64(t.TF.D / time.Second)
	var base time.Time
	if r.P(1, 5) { // rows that cross a year boundary
		y := r.PickI(2019, 2020)
		base = time.Date(y+1, 1, 1, 0, 0, 0, 0, time.UTC).Add(-time.Duration(r.Range(1, n+2)) * t.TF.D)
	} else {
		y := r.PickI(2019, 2020, 2021)
		base = time.Date(y, time.Month(r.Range(1, 11)), r.Range(2, 27), r.Intn(24), r.Intn(60), r.Intn(60), 0, time.UTC)
	}
	b := base.Unix()
	b -= b % step
	if o.Variable {
		// several records per interval, distinct times at least 1 microsecond apart
		cur := b*1e9 + r.I64n(step*1e9)
		for i := 0; i < n; i++ {
			t.Epoch = append(t.Epoch, cur/1e9)
			t.Nanos = append(t.Nanos, int32(cur%1e9))
			var d int64
			switch r.Intn(5) {
			case 0:
				d = 1000 + r.I64n(1000000) // microseconds apart
			case 1:
				d = 1e9 // exactly one second later
			case 2:
				d = step*1e9*int64(r.Range(1, 4)) + r.I64n(1e9)
			case 3:
				d = int64(1e9) - cur%1e9 // onto a whole second
				if d < 1000 {
					d += 1e9
				}
			default:
				d = 1000 + r.I64n(step*1e9)
			}
			cur += d
		}
	} else {
		cur := b
		for i := 0; i < n; i++ {
			tm := time.Unix(cur, 0).UTC()
			if tm.Month() == 1 && tm.Day() == 1 && tm.Hour() == 0 && tm.Minute() == 0 && tm.Second() == 0 {
				cur += step // never the very first slot of a year (F-JAN1 is another property's concern)
			}
			t.Epoch = append(t.Epoch, cur)
			gap := int64(1)
			switch r.Intn(6) {
			case 0:
				gap = int64(r.Range(2, 5))
			case 1:
				gap = int64(r.Range(6, 400))
			}
			cur += gap * step
		}
	}
	for i := range t.Cols {
		t.Cols[i].Data = genColumn(r, t.Cols[i].TS, len(t.Epoch))
	}
	return t
}

// store writes the table through the real writer and loads the reference rows.
func (t *sqlTable) store(inst *ms.Inst) error {
	var cols []ms.Col
	for _, c := range t.Cols {
		cols = append(cols, ms.Col{Name: c.Name, Data: c.Data})
	}
	if t.Variable {
		cols = append(cols, ms.Col{Name: "Nanoseconds", Data: t.Nanos})
	}
	if err := inst.Write(t.Key, ms.CS(t.Epoch, cols...), t.Variable); err != nil {
		return fmt.Errorf("write %s: %v", t.Key, err)
	}
	ref, err := inst.QueryAll(t.Key)
	if err != nil {
		return fmt.Errorf("reference query %s: %v", t.Key, err)
	}
	t.Ref = ref
	t.RefNs = make([]int64, ref.N)
	for i := 0; i < ref.N; i++ {
		t.RefNs[i] = ref.TimeNs(i)
	}
	return nil
}

func (t *sqlTable) col(name string) *sqlCol {
	for i := range t.Cols {
		if t.Cols[i].Name == name {
			return &t.Cols[i]
		}
	}
	return nil
}

func (t *sqlTable) describe() map[string]interface{} {
	var cs []string
	for _, c := range t.Cols {
		cs = append(cs, c.Name+":"+c.TS)
	}
	return map[string]interface{}{"key": t.Key, "variable_length": t.Variable, "columns": cs, "rows": t.Ref.Dump(70)}
}

func (t *sqlTable) typeSig() string {
	var cs []string
	for _, c := range t.Cols {
		cs = append(cs, c.TS)
	}
	sort.Strings(cs)
	return strings.Join(cs, "")
}

func rowBucket(n int) string {
	switch {
	case n <= 1:
		return "1"
	case n <= 3:
		return "2-3"
	case n <= 13:
		return "4-13"
	case n <= 30:
		return "14-30"
	}
	return ">30"
}

// ---------------------------------------------------------------------------------------------
// literals and comparisons

type sqlLit struct {
	Text  string
	Form  string  // value columns: "int" | "dec"; Epoch: "sec" | "ns" | "str"
	I     int64   // integer literal value
	F     float64 // decimal literal value
	IsDec bool
	Ns    int64   // Epoch literals: the instant in nanoseconds
	Raw   float64 // Epoch literals: the number as written (seconds stay seconds) - used by as-is models only
}

func (l sqlLit) asF64() float64 {
	if l.IsDec {
		return l.F
	}
	return float64(l.I)
}

func (l sqlLit) asI64() int64 {
	if l.IsDec {
		return int64(l.F)
	}
	return l.I
}

// valLit builds a value literal from its text exactly as the lexer classifies it.
func valLit(text string) sqlLit {
	if strings.Contains(text, ".") {
		f, err := strconv.ParseFloat(text, 64)
		if err != nil {
			panic(err)
		}
		return sqlLit{Text: text, Form: "dec", F: f, IsDec: true}
	}
	i, err := strconv.ParseInt(text, 10, 64)
	if err != nil {
		panic(err)
	}
	return sqlLit{Text: text, Form: "int", I: i}
}

func fmtF(x float64) string { return strconv.FormatFloat(x, 'f', -1, 64) }

type sqlCmp struct {
	Col   string
	Epoch bool
	Op    string // "<" "<=" ">" ">=" "=" "between"
	A, B  sqlLit // B only for between
}

func (c sqlCmp) SQL(lower bool) string {
	if c.Op == "between" {
		if lower {
			return c.Col + " between " + c.A.Text + " and " + c.B.Text
		}
		return c.Col + " BETWEEN " + c.A.Text + " AND " + c.B.Text
	}
	return c.Col + " " + c.Op + " " + c.A.Text
}

type sqlWhere []sqlCmp

// render writes the WHERE clause (without the keyword); style 0 flat, 1 right-nested parentheses.
func (w sqlWhere) render(lower bool, nested bool) string {
	and := " AND "
	if lower {
		and = " and "
	}
	if !nested || len(w) < 3 {
		var p []string
		for _, c := range w {
			p = append(p, c.SQL(lower))
		}
		return strings.Join(p, and)
	}
	s := w[len(w)-1].SQL(lower)
	for i := len(w) - 2; i >= 0; i-- {
		if i == len(w)-2 {
			s = w[i].SQL(lower) + and + s
		} else {
			s = w[i].SQL(lower) + and + "(" + s + ")"
		}
	}
	return s
}

func cmpI(a, b int64) int {
	switch {
	case a < b:
		return -1
	case a > b:
		return 1
	}
	return 0
}

func cmpF64(a, b float64) int {
	switch {
	case a < b:
		return -1
	case a > b:
		return 1
	}
	return 0
}

// cmpCell orders stored value i of a column against a literal in the column's own precision:
// the literal is converted to the column's type, then compared in that type.
func cmpCell(col interface{}, i int, l sqlLit) int {
	switch c := col.(type) {
	case []int8:
		return cmpI(int64(c[i]), l.asI64())
	case []int16:
		return cmpI(int64(c[i]), l.asI64())
	case []int32:
		return cmpI(int64(c[i]), l.asI64())
	case []int64:
		return cmpI(c[i], l.asI64())
	case []uint8:
		return cmpI(int64(c[i]), l.asI64())
	case []uint16:
		return cmpI(int64(c[i]), l.asI64())
	case []uint32:
		return cmpI(int64(c[i]), l.asI64())
	case []uint64:
		return cmpI(int64(c[i]), l.asI64()) // generated values stay below 2^63
	case []float32:
		lv := float32(l.asF64())
		switch {
		case c[i] < lv:
			return -1
		case c[i] > lv:
			return 1
		}
		return 0
	case []float64:
		return cmpF64(c[i], l.asF64())
	}
	panic(fmt.Sprintf("column type %T", col))
}

func opHolds(op string, ord int) bool {
	switch op {
	case "<":
		return ord < 0
	case "<=":
		return ord <= 0
	case ">":
		return ord > 0
	case ">=":
		return ord >= 0
	case "=":
		return ord == 0
	}
	panic("op " + op)
}

// rowOrd orders row i of the reference table against literal l for comparison c.
func (t *sqlTable) rowOrd(c sqlCmp, i int, l sqlLit) int {
	if c.Epoch {
		return cmpI(t.RefNs[i], l.Ns)
	}
	return cmpCell(t.Ref.Cols[c.Col], i, l)
}

// holds = the reference meaning of one comparison on one row (BETWEEN strictly between).
func (t *sqlTable) holds(c sqlCmp, i int) bool {
	if c.Op == "between" {
		return t.rowOrd(c, i, c.A) > 0 && t.rowOrd(c, i, c.B) < 0
	}
	return opHolds(c.Op, t.rowOrd(c, i, c.A))
}

// evalIdeal: indexes of the reference rows satisfying the conjunction, in time (reference) order.
func (t *sqlTable) evalIdeal(w sqlWhere) []int {
	idx := []int{}
	for i := 0; i < t.Ref.N; i++ {
		ok := true
		for _, c := range w {
			if !t.holds(c, i) {
				ok = false
				break
			}
		}
		if ok {
			idx = append(idx, i)
		}
	}
	return idx
}

// ---------------------------------------------------------------------------------------------
// as-is models of the demonstrated defects (see c19.go for the descriptions)

type sqlDefects struct{ SQL1, SQL2, SQL3, SQL4, SQL5 bool }

func (d sqlDefects) names() []string {
	var s []string
	if d.SQL1 {
		s = append(s, "F-SQL1")
	}
	if d.SQL2 {
		s = append(s, "F-SQL2")
	}
	if d.SQL3 {
		s = append(s, "F-SQL3")
	}
	if d.SQL4 {
		s = append(s, "F-SQL4")
	}
	if d.SQL5 {
		s = append(s, "F-SQL5")
	}
	return s
}

type sqlBound struct {
	set  bool
	lit  sqlLit
	incl bool
}

func (t *sqlTable) litOrderKey(c sqlCmp, l sqlLit, raw bool) float64 {
	if c.Epoch {
		if raw {
			return l.Raw
		}
		return float64(l.Ns)
	}
	return l.asF64()
}

// triggers: which defects can apply to this statement on this table (predicates on the input only).
func (t *sqlTable) triggers(w sqlWhere) sqlDefects {
	var d sqlDefects
	lower, upper, eq := map[string]int{}, map[string]int{}, map[string]int{}
	onStored := func(ns int64) bool {
		for _, x := range t.RefNs {
			if x == ns {
				return true
			}
		}
		return false
	}
	anyInclUpper, anyInclLower := false, false
	var upLits, loLits []sqlLit
	for _, c := range w {
		if !c.Epoch {
			if cc := t.col(c.Col); cc != nil && !supportedType(cc.TS) {
				d.SQL4 = true
			}
		}
		switch c.Op {
		case "<", "<=":
			upper[c.Col]++
			if c.Epoch {
				upLits = append(upLits, c.A)
				if c.A.Form == "sec" {
					d.SQL1 = true
				}
				if c.Op == "<=" {
					anyInclUpper = true
				}
			}
		case ">", ">=":
			lower[c.Col]++
			if c.Epoch {
				loLits = append(loLits, c.A)
				if c.Op == ">=" {
					anyInclLower = true
				}
			}
		case "=":
			eq[c.Col]++
		case "between":
			lower[c.Col]++
			upper[c.Col]++
			if c.Epoch {
				upLits = append(upLits, c.B)
				loLits = append(loLits, c.A)
				if c.B.Form == "sec" {
					d.SQL1 = true
				}
			}
		}
	}
	for _, m := range []map[string]int{lower, upper, eq} {
		for _, n := range m {
			if n >= 2 {
				d.SQL3 = true
			}
		}
	}
	// F-SQL5: on a float32 column, a lower bound that exceeds an upper bound as float64 literals
	// although the two are ordered the other way (or equal) in the column's precision
	for _, a := range w {
		cc := t.col(a.Col)
		if a.Epoch || cc == nil || cc.TS != "f4" {
			continue
		}
		var los, his []sqlLit
		for _, b := range w {
			if b.Col != a.Col {
				continue
			}
			switch b.Op {
			case ">", ">=":
				los = append(los, b.A)
			case "<", "<=":
				his = append(his, b.A)
			case "between":
				los = append(los, b.A)
				his = append(his, b.B)
			}
		}
		for _, lo := range los {
			for _, hi := range his {
				if lo.asF64() > hi.asF64() && float32(lo.asF64()) <= float32(hi.asF64()) {
					d.SQL5 = true
				}
			}
		}
	}
	if anyInclUpper {
		for _, l := range upLits {
			if onStored(l.Ns) {
				d.SQL2 = true
			}
		}
	}
	if anyInclLower && t.Variable {
		for _, l := range loLits {
			if onStored(l.Ns) {
				d.SQL2 = true
			}
		}
	}
	return d
}

// evalAsIs: the rows the statement returns when the given defects are present (and nothing else is wrong).
func (t *sqlTable) evalAsIs(w sqlWhere, d sqlDefects) []int {
	var comps sqlWhere
	for _, c := range w {
		if d.SQL4 && !c.Epoch {
			if cc := t.col(c.Col); cc != nil && !supportedType(cc.TS) {
				continue // predicate silently ignored
			}
		}
		comps = append(comps, c)
	}
	// per-column effective bounds
	type colEff struct {
		c        sqlCmp
		min, max sqlBound
		eqs      []sqlLit
	}
	var order []string
	effs := map[string]*colEff{}
	addLower := func(e *colEff, l sqlLit, incl bool) {
		k := t.litOrderKey(e.c, l, d.SQL3)
		if d.SQL3 {
			// keeps the looser (smaller) lower bound; the inclusive flag, once set, stays
			if !e.min.set || k < t.litOrderKey(e.c, e.min.lit, true) || k == t.litOrderKey(e.c, e.min.lit, true) {
				e.min.lit = l
			}
			e.min.incl = e.min.incl || incl
			e.min.set = true
			return
		}
		if !e.min.set || k > t.litOrderKey(e.c, e.min.lit, false) {
			e.min = sqlBound{true, l, incl}
		} else if k == t.litOrderKey(e.c, e.min.lit, false) && !incl {
			e.min.incl = false
		}
	}
	addUpper := func(e *colEff, l sqlLit, incl bool) {
		k := t.litOrderKey(e.c, l, d.SQL3)
		if d.SQL3 {
			if !e.max.set || k > t.litOrderKey(e.c, e.max.lit, true) || k == t.litOrderKey(e.c, e.max.lit, true) {
				e.max.lit = l
			}
			e.max.incl = e.max.incl || incl
			e.max.set = true
			return
		}
		if !e.max.set || k < t.litOrderKey(e.c, e.max.lit, false) {
			e.max = sqlBound{true, l, incl}
		} else if k == t.litOrderKey(e.c, e.max.lit, false) && !incl {
			e.max.incl = false
		}
	}
	for _, c := range comps {
		e := effs[c.Col]
		if e == nil {
			e = &colEff{c: c}
			effs[c.Col] = e
			order = append(order, c.Col)
		}
		switch c.Op {
		case "<":
			addUpper(e, c.A, false)
		case "<=":
			addUpper(e, c.A, true)
		case ">":
			addLower(e, c.A, false)
		case ">=":
			addLower(e, c.A, true)
		case "=":
			if d.SQL3 {
				e.eqs = []sqlLit{c.A} // the last equality replaces the earlier one
			} else {
				e.eqs = append(e.eqs, c.A)
			}
		case "between":
			addLower(e, c.A, false)
			addUpper(e, c.B, false)
		}
	}
	idx := []int{}
	ep := effs["Epoch"]
	if d.SQL5 {
		for _, name := range order {
			e := effs[name]
			if cc := t.col(name); cc != nil && cc.TS == "f4" && e.min.set && e.max.set && e.min.lit.asF64() > e.max.lit.asF64() {
				return idx // the early "always false" test compares the literals as float64
			}
		}
	}
	if d.SQL1 && ep != nil && ep.max.set && ep.max.lit.Form == "sec" {
		return idx // the upper bound lands in 1970: nothing is read
	}
	for i := 0; i < t.Ref.N; i++ {
		ok := true
		if d.SQL3 {
			for _, name := range order {
				e := effs[name]
				if e.min.set {
					o := t.rowOrd(e.c, i, e.min.lit)
					if o < 0 || (o == 0 && !e.min.incl) {
						ok = false
					}
				}
				if e.max.set {
					o := t.rowOrd(e.c, i, e.max.lit)
					if o > 0 || (o == 0 && !e.max.incl) {
						ok = false
					}
				}
				for _, l := range e.eqs {
					if t.rowOrd(e.c, i, l) != 0 {
						ok = false
					}
				}
			}
		} else {
			for _, c := range comps {
				if !t.holds(c, i) {
					ok = false
					break
				}
			}
		}
		if ok && d.SQL2 && ep != nil {
			// the pushed-down time range excludes an inclusive bound itself
			if ep.max.set && ep.max.incl && t.RefNs[i] == ep.max.lit.Ns {
				ok = false
			}
			if t.Variable && ep.min.set && ep.min.incl && t.RefNs[i] == ep.min.lit.Ns {
				ok = false
			}
		}
		if ok {
			idx = append(idx, i)
		}
	}
	return idx
}

// ---------------------------------------------------------------------------------------------
// literal generators

func distinctSortedF(col interface{}) []float64 {
	v := reflect.ValueOf(col)
	m := map[float64]bool{}
	var out []float64
	for i := 0; i < v.Len(); i++ {
		var f float64
		switch v.Index(i).Kind() {
		case reflect.Float32, reflect.Float64:
			f = v.Index(i).Float()
		case reflect.Int8, reflect.Int16, reflect.Int32, reflect.Int64:
			f = float64(v.Index(i).Int())
		default:
			f = float64(v.Index(i).Uint())
		}
		if !m[f] {
			m[f] = true
			out = append(out, f)
		}
	}
	sort.Float64s(out)
	return out
}

func typeMaxInt(ts string) int64 {
	switch ts {
	case "i1":
		return 127
	case "i2":
		return 32767
	case "i4":
		return 2147483647
	case "u1":
		return 255
	case "u2":
		return 65535
	case "u4":
		return 4294967295
	}
	return 1 << 62
}

// genValLit: a literal on, next to, between or outside the stored values of the column. Returns the
// literal and its position class (computed from the final literal, in the column's precision).
func (t *sqlTable) genValLit(r *gen.R, c *sqlCol) sqlLit {
	col := t.Ref.Cols[c.Name]
	ds := distinctSortedF(col)
	isF := c.TS == "f4" || c.TS == "f8"
	if !isF {
		var v int64
		pick := func() int64 { return int64(ds[r.Intn(len(ds))]) }
		switch r.Intn(10) {
		case 0, 1, 2, 3: // on
			v = pick()
			for k := 0; k < 3 && v < 0; k++ {
				v = pick()
			}
		case 4, 5: // between two adjacent stored values
			if len(ds) >= 2 {
				k := r.Intn(len(ds) - 1)
				v = int64(ds[k]) + (int64(ds[k+1])-int64(ds[k]))/2
			} else {
				v = pick() + 1
			}
		case 6: // above all
			v = int64(ds[len(ds)-1]) + int64(r.Range(1, 5))
		case 7: // below all
			if ds[0] > 0 {
				v = r.I64n(int64(ds[0]))
			}
		default: // next to a stored value
			v = pick() + int64(r.PickI(-1, 1))
		}
		if v < 0 {
			v = 0
		}
		if mx := typeMaxInt(c.TS); v > mx {
			v = mx
		}
		if r.P(1, 8) && v < 1<<52 {
			return valLit(fmt.Sprintf("%d.0", v)) // integral decimal literal on an integer column
		}
		return valLit(strconv.FormatInt(v, 10))
	}
	bits := 64
	if c.TS == "f4" {
		bits = 32
	}
	pick := func() float64 { return ds[r.Intn(len(ds))] }
	var x float64
	var text string
	switch r.Intn(10) {
	case 0, 1, 2: // on: the shortest decimal that converts back to the stored value
		x = pick()
		for k := 0; k < 3 && x < 0; k++ {
			x = pick()
		}
		if x >= 0 {
			text = strconv.FormatFloat(x, 'f', -1, bits)
		}
	case 3, 4: // a decimal that differs from a stored value only beyond the column's precision (f4) / by one ulp (f8)
		x = pick()
		if x > 0 {
			if bits == 32 {
				x = x * (1 + float64(r.PickI(-1, 1))*1e-9)
			} else {
				x = math.Nextafter(x, x+float64(r.PickI(-1, 1)))
			}
		}
	case 5, 6: // between
		if len(ds) >= 2 {
			k := r.Intn(len(ds) - 1)
			x = ds[k] + (ds[k+1]-ds[k])/2
		} else {
			x = pick() + 0.05
		}
	case 7:
		x = ds[len(ds)-1] + float64(r.Range(1, 30))/10
	case 8:
		if ds[0] > 0 {
			x = ds[0] * r.F64()
		}
	default: // integer literal on a float column
		x = math.Floor(pick())
		if x >= 0 && x < 1e15 {
			text = strconv.FormatInt(int64(x), 10)
		}
	}
	if x < 0 {
		x = 0
	}
	if text == "" {
		text = fmtF(x)
		if !strings.Contains(text, ".") && r.Bool() {
			text += ".0"
		}
	}
	return valLit(text)
}

type epochOpt struct {
	NoSec       bool // never the epoch-seconds form
	NotOnStored bool // never exactly a stored row time
	OnStored    bool // exactly a stored row time
	Form        string
}

func epochText(ns int64, form string, r *gen.R) (string, string) {
	tm := time.Unix(ns/1e9, ns%1e9).UTC()
	if form == "sec" && ns%1e9 != 0 {
		form = "ns"
	}
	switch form {
	case "sec":
		return strconv.FormatInt(ns/1e9, 10), "sec"
	case "ns":
		return strconv.FormatInt(ns, 10), "ns"
	}
	// string forms
	frac := ns % 1e9
	if frac != 0 {
		f := fmt.Sprintf("%09d", frac)
		f = strings.TrimRight(f, "0")
		return "'" + tm.Format("2006-01-02-15:04:05") + "." + f + "'", "str"
	}
	if tm.Hour() == 0 && tm.Minute() == 0 && tm.Second() == 0 && r.Bool() {
		return "'" + tm.Format("2006-01-02") + "'", "str"
	}
	if tm.Second() == 0 && r.P(1, 3) {
		return "'" + tm.Format("2006-01-02-15:04") + "'", "str"
	}
	switch r.Intn(6) {
	case 0:
		return "'" + tm.Format("2006-01-02-15:04:05") + " UTC'", "str"
	case 1:
		return "'" + tm.Format("2006-01-02-15:04:05") + ".00000000'", "str"
	}
	return "'" + tm.Format("2006-01-02-15:04:05") + "'", "str"
}

func (t *sqlTable) isStoredNs(ns int64) bool {
	for _, x := range t.RefNs {
		if x == ns {
			return true
		}
	}
	return false
}

// genEpochLit: an Epoch literal on, next to, between or outside the stored row times, in one of the three forms.
func (t *sqlTable) genEpochLit(r *gen.R, o epochOpt) sqlLit {
	n := len(t.RefNs)
	step := int64(t.TF.D)
	var ns int64
	pick := func() int64 { return t.RefNs[r.Intn(n)] }
	kind := r.Intn(10)
	if o.OnStored {
		kind = 0
	}
	switch kind {
	case 0, 1, 2, 3:
		ns = pick()
	case 4:
		ns = pick() + int64(r.PickI(-1, 1))*int64(time.Second)
	case 5:
		ns = pick() + int64(r.PickI(-1, 1))*step
	case 6:
		if n >= 2 {
			k := r.Intn(n - 1)
			ns = t.RefNs[k] + (t.RefNs[k+1]-t.RefNs[k])/2
			if !t.Variable || r.Bool() {
				ns -= ns % 1e9
			}
		} else {
			ns = pick() + step/2
		}
	case 7:
		ns = t.RefNs[0] - int64(r.Range(1, 400))*step
	case 8:
		ns = t.RefNs[n-1] + int64(r.Range(1, 400))*step
	default:
		ns = pick() + int64(r.PickI(-1, 1)) // one nanosecond off a stored time
	}
	form := o.Form
	if form == "" {
		form = r.PickS("str", "str", "sec", "ns")
	}
	if o.NoSec && form == "sec" {
		form = r.PickS("str", "ns")
	}
	if o.NotOnStored {
		for k := 0; k < 5 && t.isStoredNs(ns); k++ {
			if form == "sec" {
				ns += int64(time.Second)
			} else {
				ns += int64(r.PickI(1, 500, 1000000000))
			}
		}
	}
	if form == "sec" && ns%1e9 != 0 {
		if o.OnStored {
			form = "ns"
		} else {
			ns -= ns % 1e9
			if o.NotOnStored && t.isStoredNs(ns) {
				form = "ns"
				ns += 7
			}
		}
	}
	text, f := epochText(ns, form, r)
	l := sqlLit{Text: text, Form: f, Ns: ns, Raw: float64(ns)}
	if f == "sec" {
		l.Raw = float64(ns / 1e9)
		l.I = ns / 1e9
	}
	return l
}

// ---------------------------------------------------------------------------------------------
// WHERE generators

func (t *sqlTable) valueCols(supported bool) []*sqlCol {
	var out []*sqlCol
	for i := range t.Cols {
		if supportedType(t.Cols[i].TS) == supported {
			out = append(out, &t.Cols[i])
		}
	}
	return out
}

var sqlOps = []string{"<", "<=", ">", ">=", "="}

func orderLits(a, b sqlLit, key func(sqlLit) float64) (sqlLit, sqlLit) {
	if key(a) > key(b) {
		return b, a
	}
	return a, b
}

// genColPreds: the comparisons for one column in the fragment that avoids every known trigger:
// at most one lower bound, one upper bound (or one BETWEEN) and one equality per column; an Epoch
// upper bound is never written in epoch seconds; an inclusive Epoch bound never sits on a stored row
// time where the push-down would drop it (<= always, >= on variable-length tables).
func (t *sqlTable) genColPreds(r *gen.R, c *sqlCol, budget int) []sqlCmp {
	isEpoch := c == nil
	name := "Epoch"
	if !isEpoch {
		name = c.Name
	}
	lit := func(upper bool, op string) sqlLit {
		if !isEpoch {
			return t.genValLit(r, c)
		}
		o := epochOpt{NoSec: upper}
		if op == "<=" || (op == ">=" && t.Variable) {
			o.NotOnStored = true
		}
		return t.genEpochLit(r, o)
	}
	key := func(l sqlLit) float64 {
		if isEpoch {
			return float64(l.Ns)
		}
		return l.asF64()
	}
	pattern := r.Intn(10)
	if budget < 2 && pattern >= 5 && pattern <= 6 {
		pattern = 0
	}
	switch {
	case pattern <= 4: // single comparison
		op := sqlOps[r.Intn(len(sqlOps))]
		return []sqlCmp{{Col: name, Epoch: isEpoch, Op: op, A: lit(op == "<" || op == "<=", op)}}
	case pattern <= 6: // a lower and an upper bound as two comparisons
		lo := r.PickS(">", ">=")
		hi := r.PickS("<", "<=")
		var a, b sqlLit
		if isEpoch {
			// both literals satisfy the constraints of both roles, so they can be ordered freely
			o := epochOpt{NoSec: true, NotOnStored: hi == "<=" || (lo == ">=" && t.Variable)}
			a, b = t.genEpochLit(r, o), t.genEpochLit(r, o)
		} else {
			a, b = lit(false, lo), lit(true, hi)
		}
		if r.P(4, 5) { // mostly a non-empty window
			a, b = orderLits(a, b, key)
		}
		out := []sqlCmp{{Col: name, Epoch: isEpoch, Op: lo, A: a}, {Col: name, Epoch: isEpoch, Op: hi, A: b}}
		if r.Bool() {
			out[0], out[1] = out[1], out[0]
		}
		return out
	case pattern <= 8: // BETWEEN
		a, b := lit(false, ">"), lit(true, "<")
		if r.P(9, 10) {
			a, b = orderLits(a, b, key)
		}
		if isEpoch && b.Form == "sec" {
			// the upper side is never written in seconds in this fragment
			text, f := epochText(b.Ns, "ns", r)
			b.Text, b.Form, b.Raw = text, f, float64(b.Ns)
		}
		return []sqlCmp{{Col: name, Epoch: isEpoch, Op: "between", A: a, B: b}}
	default:
		return []sqlCmp{{Col: name, Epoch: isEpoch, Op: "=", A: lit(false, "=")}}
	}
}

// genWhereMain: a conjunction of up to k comparisons over Epoch and the supported value columns,
// inside the fragment that avoids every known trigger. Columns named in exclude are not used.
func (t *sqlTable) genWhereMain(r *gen.R, k int, exclude map[string]bool) sqlWhere {
	for try := 0; try < 20; try++ {
		w := t.genWhereMainOnce(r, k, exclude)
		if t.triggers(w) == (sqlDefects{}) {
			return w
		}
	}
	return nil // practically unreachable: an empty conjunction triggers nothing
}

func (t *sqlTable) genWhereMainOnce(r *gen.R, k int, exclude map[string]bool) sqlWhere {
	var w sqlWhere
	var cols []*sqlCol
	for _, c := range t.valueCols(true) {
		if !exclude[c.Name] {
			cols = append(cols, c)
		}
	}
	perm := r.Perm(len(cols))
	pi := 0
	usedEpoch := exclude["Epoch"]
	for len(w) < k {
		var ps []sqlCmp
		if !usedEpoch && (r.P(2, 5) || pi >= len(cols)) {
			usedEpoch = true
			ps = t.genColPreds(r, nil, k-len(w))
		} else if pi < len(cols) {
			ps = t.genColPreds(r, cols[perm[pi]], k-len(w))
			pi++
		} else {
			break
		}
		if len(w)+len(ps) > k {
			ps = ps[:1]
		}
		w = append(w, ps...)
	}
	return shuffleWhere(r, w)
}

func shuffleWhere(r *gen.R, w sqlWhere) sqlWhere {
	p := r.Perm(len(w))
	out := make(sqlWhere, len(w))
	for i, j := range p {
		out[i] = w[j]
	}
	return out
}

// ---------------------------------------------------------------------------------------------
// driving the real code

type sqlOut struct {
	T     *ms.Table
	Err   error
	Panic string
	Nil   bool // Materialize returned (nil, nil)
}

// runSQL sends one statement through exactly the calls DataService.executeSQL makes.
func runSQL(inst *ms.Inst, stmt string) sqlOut {
	var o sqlOut
	o.Panic = ms.Recover(func() {
		tree, err := sqlparser.BuildQueryTree(stmt)
		if err != nil {
			o.Err = fmt.Errorf("BuildQueryTree: %v", err)
			return
		}
		es, err := sqlparser.NewExecutableStatement(tree)
		if err != nil {
			o.Err = fmt.Errorf("NewExecutableStatement: %v", err)
			return
		}
		cs, err := es.Materialize(inst.Agg, inst.Cat)
		if err != nil {
			o.Err = fmt.Errorf("Materialize: %v", err)
			return
		}
		if cs == nil {
			o.Nil = true
			o.T = ms.FromCS(nil)
			return
		}
		o.T = ms.FromCS(cs)
	})
	return o
}

func (o sqlOut) describe() interface{} {
	switch {
	case o.Panic != "":
		return "panic: " + o.Panic
	case o.Err != nil:
		return "error: " + o.Err.Error()
	case o.Nil:
		return "nil result"
	}
	return map[string]interface{}{"columns": o.T.Names, "rows": o.T.Dump(70)}
}

// rowsOf counts the rows of a result by its longest column (a projection may lack Epoch).
func rowsOf(t *ms.Table) int {
	n := 0
	for _, c := range t.Cols {
		if l := reflect.ValueOf(c).Len(); l > n {
			n = l
		}
	}
	return n
}

// matchSelectAll compares the result of a SELECT * with the expected reference rows: same columns,
// same rows bit for bit, in time order. An error or an empty result both count as "no rows".
func matchSelectAll(t *sqlTable, idx []int, o sqlOut) string {
	if o.Panic != "" {
		return "panic: " + o.Panic
	}
	if o.Err != nil {
		if len(idx) == 0 {
			return ""
		}
		return fmt.Sprintf("error instead of %d rows: %v", len(idx), o.Err)
	}
	n := rowsOf(o.T)
	if len(idx) == 0 {
		if n == 0 {
			return ""
		}
		return fmt.Sprintf("expected no rows, got %d", n)
	}
	if o.Nil {
		return fmt.Sprintf("nil result instead of %d rows", len(idx))
	}
	exp := t.Ref.Select(idx)
	if d := ms.SameRows(exp, o.T); d != "" {
		return d
	}
	for i := 1; i < o.T.N; i++ {
		if o.T.TimeNs(i) < o.T.TimeNs(i-1) {
			return fmt.Sprintf("rows not in time order at row %d", i)
		}
	}
	return ""
}

func idxDump(t *sqlTable, idx []int) []string {
	if len(idx) == 0 {
		return []string{}
	}
	return t.Ref.Select(idx).Dump(70)
}

// subsets of the triggered defects, smallest first.
func defectSubsets(d sqlDefects) []sqlDefects {
	var all []sqlDefects
	for m := 1; m < 32; m++ {
		s := sqlDefects{m&1 != 0, m&2 != 0, m&4 != 0, m&8 != 0, m&16 != 0}
		if (s.SQL1 && !d.SQL1) || (s.SQL2 && !d.SQL2) || (s.SQL3 && !d.SQL3) || (s.SQL4 && !d.SQL4) || (s.SQL5 && !d.SQL5) {
			continue
		}
		all = append(all, s)
	}
	sort.SliceStable(all, func(i, j int) bool { return len(all[i].names()) < len(all[j].names()) })
	return all
}
