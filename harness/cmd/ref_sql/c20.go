package main

// C20 SQL projection, alias, LIMIT and INSERT INTO behave relationally.
//
// Real code driven: generated source tables written through the real writer; statements through
// BuildQueryTree -> NewExecutableStatement -> Materialize (what DataService.executeSQL runs); INSERT
// INTO writes through the global executor.ThisInstance (set as cmd/start does); targets are created
// through DataService.Create or by a first write, and read back through the non-SQL query path.
//
// Oracle (from the property text):
//   projection  every select item appears in the result under its alias (or its name), with the type and
//               exactly the values of the source column over the filtered rows (reference filter of C19), in
//               row order; no other column appears, except that the mandatory Epoch (and Nanoseconds) column
//               is tolerated when it was not named (the property does not fix whether it is kept);
//               the order of columns is not asserted.
//   LIMIT n     (n >= 1) the result equals the first n rows of the expected filtered result, and equals the
//               first n rows of the very same statement executed without LIMIT (metamorphic).
//   INSERT      after `INSERT INTO t [(cols)] SELECT ...`, t read back through the non-SQL path holds its
//               previous rows overwritten/extended by exactly the selected rows with Epoch truncated to t's
//               timeframe, applied in row order (last writer wins per interval); nothing is written when
//               nothing is selected. Variable-length targets (small stratum): the selected rows are appended
//               with their time kept to the target's tick resolution.
//
// Known findings:
//   F-ALIAS   aliases are applied one after the other on the projected series, and a rename onto a name that
//             is still present removes that column first: `SELECT A AS B, B AS A` returns a single column A
//             holding A's values. Trigger: an alias equals the name of another selected source column.
//             As-is: the sequential rename-with-removal (an error when a later item's source is gone).
//   F-LIMIT0  `LIMIT 0` is treated as "no limit" and returns every row. Trigger: n == 0.
//   F-INSVAR  INSERT INTO a variable-length target without a column list that names Nanoseconds projects the
//             selected rows onto the target's catalog columns (which do not list Nanoseconds) before writing:
//             every row is written at its whole second (sub-second time lost).
//             Trigger: variable-length target and no column list containing Nanoseconds.

import (
	"fmt"
	"reflect"
	"sort"
	"strings"
	"time"

	"github.com/alpacahq/marketstore/v4/frontend"
	"github.com/alpacahq/marketstore/v4/verif/internal/gen"
	"github.com/alpacahq/marketstore/v4/verif/internal/ms"
	"github.com/alpacahq/marketstore/v4/verif/internal/runner"
)

func c20cases(tier string) int {
	if tier == "thorough" {
		return 160
	}
	return 32
}

type selItem struct {
	Src   string // source column name ("Epoch" allowed)
	Alias string // "" = none
	Bare  bool   // alias written without AS
}

func (it selItem) out() string {
	if it.Alias != "" {
		return it.Alias
	}
	return it.Src
}

func (it selItem) SQL(lower bool) string {
	if it.Alias == "" {
		return it.Src
	}
	if it.Bare {
		return it.Src + " " + it.Alias
	}
	if lower {
		return it.Src + " as " + it.Alias
	}
	return it.Src + " AS " + it.Alias
}

func itemsSQL(items []selItem, lower bool) string {
	var p []string
	for _, it := range items {
		p = append(p, it.SQL(lower))
	}
	return strings.Join(p, ", ")
}

var freshAliases = []string{"a1", "px2", "Val", "Foo", "t_0", "Zz", "mid", "Last1", "w", "QQ", "n9", "Spread"}

// srcColumn returns the reference column behind a source name.
func (t *sqlTable) srcColumn(name string) interface{} { return t.Ref.Cols[name] }

// colEqual: column `got` equals column `src` restricted to idx (type and bit patterns).
func colEqual(src interface{}, idx []int, got interface{}) string {
	if reflect.TypeOf(src) != reflect.TypeOf(got) {
		return fmt.Sprintf("type %T instead of %T", got, src)
	}
	gv := reflect.ValueOf(got)
	if gv.Len() != len(idx) {
		return fmt.Sprintf("%d values instead of %d", gv.Len(), len(idx))
	}
	for k, i := range idx {
		if ms.Cell(src, i) != ms.Cell(got, k) {
			return fmt.Sprintf("row %d: %v instead of %v", k, gv.Index(k).Interface(), reflect.ValueOf(src).Index(i).Interface())
		}
	}
	return ""
}

// matchMapping: the result holds exactly the columns of `want` (output name -> source name) over idx;
// an unnamed Epoch / Nanoseconds column is tolerated.
func matchMapping(t *sqlTable, want map[string]string, idx []int, o sqlOut) string {
	if o.Panic != "" {
		return "panic: " + o.Panic
	}
	if o.Err != nil {
		if len(idx) == 0 {
			return ""
		}
		return fmt.Sprintf("error instead of %d rows: %v", len(idx), o.Err)
	}
	if len(idx) == 0 {
		if n := rowsOf(o.T); n != 0 {
			return fmt.Sprintf("expected no rows, got %d", n)
		}
		return ""
	}
	if o.Nil {
		return fmt.Sprintf("nil result instead of %d rows", len(idx))
	}
	seen := map[string]int{}
	for _, n := range o.T.Names {
		seen[n]++
		if seen[n] > 1 {
			return "column " + n + " returned twice"
		}
		if _, ok := want[n]; !ok && n != "Epoch" && n != "Nanoseconds" {
			return "unexpected column " + n + " in " + fmt.Sprint(o.T.Names)
		}
	}
	var outs []string
	for n := range want {
		outs = append(outs, n)
	}
	sort.Strings(outs)
	for _, n := range outs {
		got, ok := o.T.Cols[n]
		if !ok {
			return "column " + n + " missing from " + fmt.Sprint(o.T.Names)
		}
		if d := colEqual(t.srcColumn(want[n]), idx, got); d != "" {
			return "column " + n + " (= " + want[n] + "): " + d
		}
	}
	return ""
}

func idealMapping(items []selItem) map[string]string {
	m := map[string]string{}
	for _, it := range items {
		m[it.out()] = it.Src
	}
	return m
}

// aliasClash: trigger of F-ALIAS.
func aliasClash(items []selItem) bool {
	for i, it := range items {
		if it.Alias == "" {
			continue
		}
		for j, ot := range items {
			if i != j && ot.Src == it.Alias {
				return true
			}
		}
	}
	return false
}

// asIsAliasMapping: sequential rename on the projected series where a rename onto an existing name drops
// that column first. ok=false: the statement fails because a later item's source column is gone.
func asIsAliasMapping(items []selItem) (m map[string]string, ok bool) {
	m = map[string]string{}
	for _, it := range items {
		m[it.Src] = it.Src
	}
	for _, it := range items {
		if it.Alias == "" {
			continue
		}
		src, present := m[it.Src]
		if !present {
			return nil, false
		}
		delete(m, it.Alias)
		if _, still := m[it.Src]; !still {
			// the alias equalled the item's own name: the column removed itself
			continue
		}
		delete(m, it.Src)
		m[it.Alias] = src
	}
	return m, true
}

// genItems: an ordered subset of <= 4 columns of Epoch + value columns, with and without aliases.
func (t *sqlTable) genItems(r *gen.R) []selItem {
	pool := []string{"Epoch"}
	for _, c := range t.Cols {
		pool = append(pool, c.Name)
	}
	p := r.Perm(len(pool))
	n := r.Range(1, 4)
	if n > len(pool) {
		n = len(pool)
	}
	selected := map[string]bool{}
	var items []selItem
	for i := 0; i < n; i++ {
		items = append(items, selItem{Src: pool[p[i]]})
		selected[pool[p[i]]] = true
	}
	var unselected []string
	for _, c := range t.Cols {
		if !selected[c.Name] {
			unselected = append(unselected, c.Name)
		}
	}
	fp := r.Perm(len(freshAliases))
	fi := 0
	used := map[string]bool{}
	for i := range items {
		switch r.Intn(20) {
		case 0, 1, 2, 3, 4:
			items[i].Alias = freshAliases[fp[fi]]
			fi++
		case 5, 6:
			items[i].Alias = freshAliases[fp[fi]]
			items[i].Bare = true
			fi++
		case 7, 8, 9:
			// the name of a source column that is not selected: no clash in the projected series
			if len(unselected) > 0 {
				a := unselected[r.Intn(len(unselected))]
				if !used[a] {
					items[i].Alias = a
					used[a] = true
				}
			}
		}
	}
	return items
}

// genClashItems: select lists aimed at F-ALIAS.
func (t *sqlTable) genClashItems(r *gen.R) []selItem {
	p := r.Perm(len(t.Cols))
	n := r.Range(2, 4)
	if n > len(t.Cols) {
		n = len(t.Cols)
	}
	var items []selItem
	for i := 0; i < n; i++ {
		items = append(items, selItem{Src: t.Cols[p[i]].Name})
	}
	if r.Bool() {
		items = append([]selItem{{Src: "Epoch"}}, items...)
	}
	first := 0
	if items[0].Src == "Epoch" {
		first = 1
	}
	a, b := first, first+1
	// only lists whose output names stay distinct (two outputs with one name would be ambiguous)
	switch r.Intn(4) {
	case 0: // swap
		items[a].Alias, items[b].Alias = items[b].Src, items[a].Src
	case 1: // chain: the earlier item takes the later item's name, which moves on to a fresh one
		items[a].Alias = items[b].Src
		items[b].Alias = freshAliases[r.Intn(len(freshAliases))]
	case 2: // the same chain written in the other order
		items[a].Alias = freshAliases[r.Intn(len(freshAliases))]
		items[b].Alias = items[a].Src
	default: // rotation over all selected value columns
		n := len(items) - first
		for i := 0; i < n; i++ {
			items[first+i].Alias = items[first+(i+1)%n].Src
		}
	}
	return items
}

// ---------------------------------------------------------------------------------------------
// INSERT INTO

type insTarget struct {
	Key      string
	TF       tfSpec
	Variable bool
	Cols     []sqlCol // target columns (name, type) in target order
	SrcOf    map[string]string
	ByWrite  bool
}

func truncEpoch(e int64, tf tfSpec) int64 {
	s := int64(tf.D / time.Second)
	return e - ((e%s)+s)%s
}

func createBucket(inst *ms.Inst, key string, cols []sqlCol, variable bool) error {
	var names, types []string
	for _, c := range cols {
		names = append(names, c.Name)
		types = append(types, c.TS)
	}
	var resp frontend.MultiServerResponse
	var err error
	p := ms.Recover(func() {
		err = inst.DS.Create(nil, &frontend.MultiCreateRequest{Requests: []frontend.CreateRequest{{
			Key: key + ":Symbol/Timeframe/AttributeGroup", ColumnNames: names, ColumnTypes: types, IsVariableLength: variable}}}, &resp)
	})
	if p != "" {
		return fmt.Errorf("Create panicked: %s", p)
	}
	if err != nil {
		return err
	}
	for _, r := range resp.Responses {
		if r.Error != "" {
			return fmt.Errorf("Create: %s", r.Error)
		}
	}
	return nil
}

type modelRow struct {
	Ns    int64
	Cells []interface{}
}

func tableRows(tb *ms.Table, cols []sqlCol) ([]modelRow, string) {
	var rows []modelRow
	for i := 0; i < tb.N; i++ {
		mr := modelRow{Ns: tb.TimeNs(i)}
		for _, c := range cols {
			col, ok := tb.Cols[c.Name]
			if !ok {
				return nil, "column " + c.Name + " missing from " + fmt.Sprint(tb.Names)
			}
			mr.Cells = append(mr.Cells, ms.Cell(col, i))
		}
		rows = append(rows, mr)
	}
	return rows, ""
}

func readTarget(inst *ms.Inst, t *sqlTable, tg *insTarget) ([]modelRow, *ms.Table, string) {
	var tb *ms.Table
	var err error
	if p := ms.Recover(func() { tb, err = inst.QueryAll(tg.Key) }); p != "" {
		return nil, nil, "reading the target back panicked: " + p
	}
	if err != nil {
		if ms.QueryErrNoData(err) {
			return nil, ms.FromCS(nil), ""
		}
		return nil, nil, "reading the target back failed: " + err.Error()
	}
	if tb.N == 0 {
		return nil, tb, ""
	}
	want := map[string]bool{"Epoch": true}
	if tg.Variable {
		want["Nanoseconds"] = true
	}
	for _, c := range tg.Cols {
		want[c.Name] = true
	}
	for _, n := range tb.Names {
		if !want[n] {
			return nil, tb, "target has an unexpected column " + n
		}
	}
	for _, c := range tg.Cols {
		col, ok := tb.Cols[c.Name]
		if !ok {
			return nil, tb, "target lacks column " + c.Name
		}
		// the type the source column itself is read back with (i1 columns come back as []uint8)
		if src := t.Ref.Cols[tg.SrcOf[c.Name]]; reflect.TypeOf(col) != reflect.TypeOf(src) {
			return nil, tb, fmt.Sprintf("target column %s has type %T, source column %s has %T", c.Name, col, tg.SrcOf[c.Name], src)
		}
	}
	rows, d := tableRows(tb, tg.Cols)
	return rows, tb, d
}

func rowsDump(rows []modelRow, tg *insTarget) []string {
	var out []string
	for i, r := range rows {
		if i >= 70 {
			out = append(out, fmt.Sprintf("... %d rows", len(rows)))
			break
		}
		s := fmt.Sprintf("t=%d.%09d", r.Ns/1e9, r.Ns%1e9)
		for k, c := range tg.Cols {
			s += fmt.Sprintf(" %s=%v", c.Name, r.Cells[k])
		}
		out = append(out, s)
	}
	return out
}

// selectedRows: the rows an INSERT's SELECT yields, as target rows (cells in target column order).
func (t *sqlTable) selectedRows(tg *insTarget, idx []int) []modelRow {
	var rows []modelRow
	for _, i := range idx {
		mr := modelRow{Ns: t.RefNs[i]}
		for _, c := range tg.Cols {
			mr.Cells = append(mr.Cells, ms.Cell(t.Ref.Cols[tg.SrcOf[c.Name]], i))
		}
		rows = append(rows, mr)
	}
	return rows
}

// fixedModel: previous rows overwritten by the selected rows with Epoch truncated to the target's timeframe.
func fixedModel(pre, sel []modelRow, tf tfSpec) []modelRow {
	m := map[int64]modelRow{}
	for _, r := range pre {
		m[r.Ns/1e9] = r
	}
	for _, r := range sel {
		sec := r.Ns / 1e9
		if r.Ns < 0 && r.Ns%1e9 != 0 {
			sec--
		}
		e := truncEpoch(sec, tf)
		m[e] = modelRow{Ns: e * 1e9, Cells: r.Cells}
	}
	var ks []int64
	for k := range m {
		ks = append(ks, k)
	}
	sort.Slice(ks, func(i, j int) bool { return ks[i] < ks[j] })
	var out []modelRow
	for _, k := range ks {
		out = append(out, m[k])
	}
	return out
}

func cellsEqual(a, b []interface{}) bool {
	if len(a) != len(b) {
		return false
	}
	for i := range a {
		if a[i] != b[i] {
			return false
		}
	}
	return true
}

// sameRowsTol compares row lists; tol = how many ns earlier a read-back time may be (tick resolution).
func sameRowsTol(exp, got []modelRow, tol int64) string {
	if len(exp) != len(got) {
		return fmt.Sprintf("%d rows instead of %d", len(got), len(exp))
	}
	for i := range exp {
		d := exp[i].Ns - got[i].Ns
		if d < -1 || d > tol {
			return fmt.Sprintf("row %d: time %d.%09d instead of %d.%09d", i, got[i].Ns/1e9, got[i].Ns%1e9, exp[i].Ns/1e9, exp[i].Ns%1e9)
		}
		if !cellsEqual(exp[i].Cells, got[i].Cells) {
			return fmt.Sprintf("row %d (t=%d): values %v instead of %v", i, exp[i].Ns/1e9, got[i].Cells, exp[i].Cells)
		}
	}
	return ""
}

func onJan1(ns int64) bool {
	tm := time.Unix(ns/1e9, 0).UTC()
	return tm.Month() == 1 && tm.Day() == 1
}

// ---------------------------------------------------------------------------------------------

type c20acc struct {
	res        *runner.Result
	nviol      int
	known      map[string]int
	knownFirst map[string]interface{}
	knownDet   map[string]string
	samples    []string
}

func (a *c20acc) violation(detail string, w interface{}) {
	a.nviol++
	if a.nviol <= 3 {
		a.res.Violation(detail, w)
	}
}

func (a *c20acc) knownHit(f, detail string, w interface{}) {
	a.known[f]++
	if _, ok := a.knownFirst[f]; !ok {
		a.knownFirst[f] = w
		a.knownDet[f] = detail
	}
}

func vf(t *sqlTable) string {
	if t.Variable {
		return "V"
	}
	return "F"
}

func whereSQL(w sqlWhere, lower bool, r *gen.R) string {
	if len(w) == 0 {
		return ""
	}
	if lower {
		return " where " + w.render(true, r.P(1, 5))
	}
	return " WHERE " + w.render(false, r.P(1, 5))
}

func headIdx(idx []int, n int) []int {
	if n < len(idx) {
		return idx[:n]
	}
	return idx
}

func c20run(c *runner.Ctx) runner.Result {
	var res runner.Result
	ms.Quiet()
	acc := &c20acc{res: &res, known: map[string]int{}, knownFirst: map[string]interface{}{}, knownDet: map[string]string{}}
	rt := c.R("table")
	opt := tableOpt{Variable: c.Case%4 == 3, Odd: c.Case%3 == 0, MinCols: 3, MaxRows: 45}
	t := genTable(rt, opt)
	var inst *ms.Inst
	if p := ms.Recover(func() { inst = ms.Open(c.Scratch+"/root", ms.Opts{SetGlobalInstance: true}) }); p != "" {
		res.Inconclusive("cannot open instance: " + p)
		return res
	}
	var serr error
	if p := ms.Recover(func() { serr = t.store(inst) }); p != "" || serr != nil {
		res.Inconclusive(fmt.Sprintf("cannot store the source table (not a C20 observation): %v %s", serr, p))
		return res
	}
	if t.Ref.N == 0 {
		res.Inconclusive("reference query returned no rows")
		return res
	}
	res.Set("timeframes", t.TF.Name)
	res.Set("record_kinds", map[bool]string{false: "fixed", true: "variable"}[t.Variable])
	res.Sig = fmt.Sprintf("table|%s|%s|rows%s|cols%d", t.TF.Name, vf(t), rowBucket(t.Ref.N), len(t.Cols))
	nProj, nLimit, nIns := 8, 5, 4
	if c.Thorough() {
		nProj, nLimit, nIns = 9, 6, 5
	}
	stmts := 0

	genW := func(r *gen.R, p, q int) sqlWhere {
		if !r.P(p, q) {
			return nil
		}
		var w sqlWhere
		keepFirst := r.P(1, 6)
		for try := 0; try < 4; try++ {
			w = t.genWhereMain(r, r.PickI(1, 1, 2, 2, 3), nil)
			if keepFirst || len(t.evalIdeal(w)) > 0 {
				break
			}
		}
		return w
	}

	// ---- projection / alias -------------------------------------------------------------------
	for s := 0; s < nProj+1; s++ {
		r := c.R(fmt.Sprintf("proj%d", s))
		clash := s == nProj // the last one aims at F-ALIAS
		if clash && len(t.Cols) < 2 {
			continue
		}
		var items []selItem
		if clash {
			items = t.genClashItems(r)
		} else {
			items = t.genItems(r)
		}
		w := genW(r, 1, 2)
		lower := r.P(1, 6)
		idx := t.evalIdeal(w)
		limit := -1
		if r.P(1, 3) {
			limit = r.PickI(1, 2, len(idx), len(idx)+1, 1+r.Intn(len(idx)+1))
			if limit < 1 {
				limit = 1
			}
			idx = headIdx(idx, limit)
		}
		stmt := "SELECT " + itemsSQL(items, lower) + " FROM `" + t.Key + "`"
		if lower {
			stmt = "select " + itemsSQL(items, lower) + " from `" + t.Key + "`"
		}
		stmt += whereSQL(w, lower, r)
		if limit >= 0 {
			stmt += fmt.Sprintf(" LIMIT %d", limit)
		}
		stmt += ";"
		if !clash && aliasClash(items) {
			res.Inconclusive("generator produced an alias clash in the main fragment: " + stmt)
			continue
		}
		o := runSQL(inst, stmt)
		stmts++
		res.Count("statements", 1)
		res.Count("projection_statements", 1)
		res.Count("rows_compared", int64(len(idx)))
		res.Count("columns_compared", int64(len(items)))
		nal := 0
		hasEpoch := false
		for _, it := range items {
			if it.Alias != "" {
				nal++
			}
			if it.Src == "Epoch" {
				hasEpoch = true
			}
		}
		if nal > 0 {
			res.Count("statements_with_alias", 1)
		}
		if len(idx) > 0 {
			res.Sigs = append(res.Sigs, fmt.Sprintf("proj|%s|n=%d|aliases=%d|epoch=%v|where=%v|limit=%v|clash=%v", vf(t), len(items), nal, hasEpoch, len(w) > 0, limit >= 0, clash))
		}
		if c.Case < 2 && len(acc.samples) < 3 {
			acc.samples = append(acc.samples, fmt.Sprintf("%s -> %d rows", stmt, len(idx)))
		}
		diff := matchMapping(t, idealMapping(items), idx, o)
		if diff == "" {
			continue
		}
		wit := map[string]interface{}{"table": t.describe(), "statement": stmt, "expected_rows": len(idx), "expected_columns": idealMapping(items), "actual": o.describe()}
		if aliasClash(items) {
			m, ok := asIsAliasMapping(items)
			match := false
			if ok {
				match = matchMapping(t, m, idx, o) == ""
			} else {
				match = o.Err != nil && strings.Contains(o.Err.Error(), "does not exist")
			}
			if match {
				acc.knownHit("F-ALIAS", fmt.Sprintf("%s: %s (as-is columns %v)", stmt, diff, m), wit)
				continue
			}
		}
		acc.violation(stmt+": "+diff, wit)
	}

	// ---- LIMIT --------------------------------------------------------------------------------
	for s := 0; s < nLimit+1; s++ {
		r := c.R(fmt.Sprintf("limit%d", s))
		zero := s == nLimit // aims at F-LIMIT0
		w := genW(r, 3, 5)
		idx := t.evalIdeal(w)
		m := len(idx)
		n := r.PickI(1, m-1, m, m+1, 2*m+3, 1+r.Intn(m+1), 1+r.Intn(m+1))
		if n < 1 {
			n = 1
		}
		if zero {
			n = 0
		}
		lower := r.P(1, 6)
		base := "SELECT * FROM `" + t.Key + "`" + whereSQL(w, lower, r)
		// the filtered result may also come from a parenthesised subquery (with or without a larger
		// LIMIT of its own): the outer LIMIT still returns its first n rows
		form := "plain"
		if !zero && s%3 == 1 {
			form = "subquery"
			base = "SELECT * FROM (" + base + ")"
		} else if !zero && s%3 == 2 {
			form = "subquery_with_inner_limit"
			base = fmt.Sprintf("SELECT * FROM (%s LIMIT %d)", base, n+1+r.Intn(4))
		}
		res.Count("limit_statements_"+form, 1)
		lim := fmt.Sprintf(" LIMIT %d", n)
		if lower {
			lim = fmt.Sprintf(" limit %d", n)
		}
		stmt := base + lim + ";"
		o := runSQL(inst, stmt)
		o0 := runSQL(inst, base+";")
		stmts += 2
		res.Count("statements", 2)
		res.Count("limit_statements", 1)
		exp := headIdx(idx, n)
		res.Count("rows_compared", int64(len(exp)))
		if m >= 2 {
			cl := "n<m"
			switch {
			case n == 0:
				cl = "n=0"
			case n == m:
				cl = "n=m"
			case n > m:
				cl = "n>m"
			case n == m-1:
				cl = "n=m-1"
			case n == 1:
				cl = "n=1"
			}
			res.Sigs = append(res.Sigs, fmt.Sprintf("limit|%s|%s|where=%v|%s", vf(t), cl, len(w) > 0, form))
		}
		wit := map[string]interface{}{"table": t.describe(), "statement": stmt, "expected_rows": idxDump(t, exp), "actual": o.describe()}
		diff := matchSelectAll(t, exp, o)
		if diff == "" && o0.Err == nil && o.Err == nil && o0.Panic == "" && !o0.Nil && !o.Nil && rowsOf(o.T) > 0 {
			// metamorphic: first n rows of the same statement without LIMIT
			k := n
			if k > o0.T.N {
				k = o0.T.N
			}
			head := make([]int, k)
			for i := range head {
				head[i] = i
			}
			if d := ms.SameRows(o0.T.Select(head), o.T); d != "" {
				diff = "differs from the first rows of the statement without LIMIT: " + d
				wit["without_limit"] = o0.describe()
			}
			res.Count("limit_metamorphic_comparisons", 1)
		}
		if diff == "" {
			continue
		}
		if n == 0 && matchSelectAll(t, idx, o) == "" {
			acc.knownHit("F-LIMIT0", fmt.Sprintf("%s returns all %d rows", stmt, m), wit)
			continue
		}
		acc.violation(stmt+": "+diff, wit)
	}

	// ---- INSERT INTO --------------------------------------------------------------------------
	for s := 0; s < nIns+1; s++ {
		r := c.R(fmt.Sprintf("ins%d", s))
		varTarget := false
		if s == nIns { // variable-length target stratum (only from variable-length sources)
			if !t.Variable {
				continue
			}
			varTarget = true
		}
		w := genW(r, 1, 2)
		idx := t.evalIdeal(w)
		limit := -1
		if r.P(1, 5) {
			limit = 1 + r.Intn(len(idx)+2)
			idx = headIdx(idx, limit)
		}
		// target timeframe: equal or coarser
		si := tfIndex(t.TF.Name)
		ti := si
		if r.Bool() {
			ti = si + r.Intn(len(sqlTFs)-si)
		}
		if sqlTFs[ti].Name == "1D" && ti != si {
			for _, i := range idx {
				if onJan1(t.RefNs[i]) {
					ti = si // a row truncated onto Jan 1 of a 1D bucket is F-JAN1's business
					break
				}
			}
		}
		tg := &insTarget{Key: fmt.Sprintf("TGT%d/%s/%s", s, sqlTFs[ti].Name, r.PickS("OHLCV", "AGG", "T")), TF: sqlTFs[ti], Variable: varTarget, SrcOf: map[string]string{}}
		// target columns: a non-empty subset of the source columns, renamed or not
		p := r.Perm(len(t.Cols))
		nc := r.Range(1, len(t.Cols))
		rename := r.P(1, 3) && !varTarget
		for i := 0; i < nc; i++ {
			src := t.Cols[p[i]]
			name := src.Name
			if rename {
				name = fmt.Sprintf("c%d_%s", i, strings.ToLower(src.TS))
			}
			tg.Cols = append(tg.Cols, sqlCol{Name: name, TS: src.TS})
			tg.SrcOf[name] = src.Name
		}
		// create the target
		tg.ByWrite = !varTarget && r.P(2, 5)
		var cerr error
		if tg.ByWrite {
			// first write: a few rows, some inside the source's time range
			np := r.Range(1, 4)
			var ep []int64
			seenE := map[int64]bool{}
			for i := 0; i < np; i++ {
				var e int64
				if r.Bool() {
					e = truncEpoch(t.RefNs[r.Intn(len(t.RefNs))]/1e9, tg.TF)
				} else {
					e = truncEpoch(t.RefNs[0]/1e9-int64(r.Range(1, 50))*int64(tg.TF.D/time.Second), tg.TF)
				}
				if onJan1(e*1e9) || seenE[e] {
					continue
				}
				seenE[e] = true
				ep = append(ep, e)
			}
			if len(ep) == 0 {
				tg.ByWrite = false
			} else {
				sort.Slice(ep, func(i, j int) bool { return ep[i] < ep[j] })
				var cols []ms.Col
				for _, cc := range tg.Cols {
					cols = append(cols, ms.Col{Name: cc.Name, Data: genColumn(r, cc.TS, len(ep))})
				}
				if p := ms.Recover(func() { cerr = inst.Write(tg.Key, ms.CS(ep, cols...), false) }); p != "" {
					cerr = fmt.Errorf("panic: %s", p)
				}
			}
		}
		if !tg.ByWrite {
			cerr = createBucket(inst, tg.Key, tg.Cols, tg.Variable)
		}
		if cerr != nil {
			res.Inconclusive(fmt.Sprintf("cannot create target %s (not a C20 observation): %v", tg.Key, cerr))
			continue
		}
		pre, _, d := readTarget(inst, t, tg)
		if d != "" {
			res.Inconclusive("cannot read the fresh target: " + d)
			continue
		}
		// the statement
		form := r.Intn(4)
		if rename && form == 0 {
			form = 1
		}
		var sel string
		colList := ""
		listNanos := false
		switch {
		case varTarget:
			sel = "*"
			if r.Bool() { // the supported way: a column list that names Nanoseconds
				names := []string{"Epoch"}
				for _, cc := range tg.Cols {
					names = append(names, cc.Name)
				}
				names = append(names, "Nanoseconds")
				colList = " (" + strings.Join(names, ", ") + ")"
				listNanos = true
			}
		case form == 0:
			sel = "*"
		default:
			items := []selItem{{Src: "Epoch"}}
			for _, cc := range tg.Cols {
				it := selItem{Src: tg.SrcOf[cc.Name]}
				if rename {
					it.Alias = cc.Name
				}
				items = append(items, it)
			}
			if form == 3 && !rename { // an extra column the target does not have
				for _, sc := range t.Cols {
					if _, used := tg.SrcOf[sc.Name]; !used {
						items = append(items, selItem{Src: sc.Name})
						break
					}
				}
			}
			ip := r.Perm(len(items))
			sh := make([]selItem, len(items))
			for i, j := range ip {
				sh[i] = items[j]
			}
			sel = itemsSQL(sh, false)
			if form == 2 {
				names := []string{"Epoch"}
				for _, cc := range tg.Cols {
					names = append(names, cc.Name)
				}
				colList = " (" + strings.Join(names, ", ") + ")"
			}
		}
		stmt := "INSERT INTO `" + tg.Key + "`" + colList + " SELECT " + sel + " FROM `" + t.Key + "`" + whereSQL(w, false, r)
		if limit >= 0 {
			stmt += fmt.Sprintf(" LIMIT %d", limit)
		}
		stmt += ";"
		o := runSQL(inst, stmt)
		stmts++
		res.Count("statements", 1)
		res.Count("insert_statements", 1)
		res.Set("target_timeframes", tg.TF.Name)
		selRows := t.selectedRows(tg, idx)
		res.Count("rows_compared", int64(len(selRows)))
		got, gotT, d := readTarget(inst, t, tg)
		var dump interface{}
		if gotT != nil {
			dump = gotT.Dump(70)
		}
		wit := map[string]interface{}{"source": t.describe(), "target": tg.Key, "target_columns": fmt.Sprint(tg.Cols), "target_created_by_first_write": tg.ByWrite,
			"target_before": rowsDump(pre, tg), "statement": stmt, "selected_rows": rowsDump(selRows, tg), "statement_result": o.describe(), "target_after": dump}
		if len(selRows) > 0 {
			res.Sigs = append(res.Sigs, fmt.Sprintf("insert|%s>%s|%s|var_target=%v|form=%d|list=%v|rename=%v|first_write=%v|where=%v|limit=%v", t.TF.Name, tg.TF.Name, vf(t), varTarget, form, colList != "", rename, tg.ByWrite, len(w) > 0, limit >= 0))
		}
		if c.Case < 2 && s == 0 {
			acc.samples = append(acc.samples, fmt.Sprintf("%s -> %d rows selected", stmt, len(selRows)))
		}
		if d != "" {
			acc.violation(stmt+": "+d, wit)
			continue
		}
		if o.Panic != "" {
			acc.violation(stmt+": panic: "+o.Panic, wit)
			continue
		}
		if o.Err != nil && len(selRows) > 0 {
			acc.violation(fmt.Sprintf("%s: error although %d rows are selected and the target schema matches: %v", stmt, len(selRows), o.Err), wit)
			continue
		}
		var diff string
		if !tg.Variable {
			exp := fixedModel(pre, selRows, tg.TF)
			wit["expected_target"] = rowsDump(exp, tg)
			diff = sameRowsTol(exp, got, 0)
		} else {
			tol := int64(tg.TF.D)>>32 + 3
			exp := append(append([]modelRow{}, pre...), selRows...)
			wit["expected_target"] = rowsDump(exp, tg)
			diff = sameRowsTol(exp, got, tol)
			if diff != "" && !listNanos {
				// F-INSVAR: every row lands on its whole second
				var as []modelRow
				as = append(as, pre...)
				for _, rw := range selRows {
					as = append(as, modelRow{Ns: rw.Ns - rw.Ns%1e9, Cells: rw.Cells})
				}
				if sameRowsTol(as, got, tol) == "" {
					acc.knownHit("F-INSVAR", stmt+": "+diff, wit)
					continue
				}
			}
		}
		if diff != "" {
			acc.violation(stmt+": target after INSERT: "+diff, wit)
		}
	}

	res.Evals = int64(stmts)
	if acc.nviol > 3 {
		res.Violation(fmt.Sprintf("%d further statements of this case violate the property", acc.nviol-3), nil)
	}
	var ks []string
	for f := range acc.known {
		ks = append(ks, f)
	}
	sort.Strings(ks)
	for _, f := range ks {
		res.Count("known_"+f+"_statements", int64(acc.known[f]))
		res.Known(f, fmt.Sprintf("%d statements; first: %s", acc.known[f], acc.knownDet[f]), acc.knownFirst[f])
	}
	if len(acc.samples) > 0 {
		res.Sample = map[string]interface{}{"table": t.Key, "columns": t.typeSig(), "rows": t.Ref.N, "statements": acc.samples}
	}
	return res
}

func init() {
	register(&runner.Monitor{
		ID:    "C20",
		Level: "exploration",
		Rule: "case = one generated source table (as in C19; every fourth variable-length) plus ~20 statements: 8-9 projections `SELECT items FROM t [WHERE w] [LIMIT n]` (ordered subsets of <=4 of Epoch + value columns, aliases with AS / bare / equal to a non-selected column's name; one more aimed at an alias that equals another selected column, F-ALIAS), 5-6 `SELECT * .. LIMIT n` with n in {1, m-1, m, m+1, 2m+3, random} compared with the model and with the same statement without LIMIT (one more with LIMIT 0, F-LIMIT0), 4-5 `INSERT INTO target [(cols)] SELECT ..` into fresh targets of equal or coarser timeframe (created by DataService.Create or by a first write with rows partly overlapping the inserted intervals; target columns = subset of the source's, optionally renamed through aliases; select * / explicit list in any order / extra column / column list; with and without WHERE and LIMIT), read back through the non-SQL query and compared with the overwrite model; variable-length sources get one INSERT into a variable-length target (with a column list naming Nanoseconds: supported; without: F-INSVAR); WHERE clauses come from C19's fragment that avoids its known triggers; " +
			"a statement is non-trivial when it selects >= 1 row (LIMIT: the filtered result has >= 2 rows); distinct = distinct statement shapes (kind, counts of items/aliases, LIMIT class, INSERT form, timeframes) plus table shapes",
		Assumptions: []string{
			"whether the mandatory Epoch/Nanoseconds column accompanies a projection that does not name it is not fixed by the property: tolerated, not required; column order is not asserted",
			"WHERE clauses are judged by C19's reference filter and drawn from the fragment avoiding F-SQL1..4",
			"variable-length targets: the selected rows keep their time up to the target's tick resolution (interval/2^32, +3ns) rather than being truncated; targets never receive a row on Jan 1 of a 1D bucket (F-JAN1, C08)",
			"DataService.Create stamps the new bucket with the current year (wall clock) - not part of any verdict",
		},
		Cases:        c20cases,
		Batch:        2,
		BatchTimeout: 45 * time.Minute,
		Run:          c20run,
		Need:         []string{"statements", "rows_compared", "projection_statements", "limit_statements", "insert_statements", "limit_metamorphic_comparisons"},
		MinDistinct:  20,
	})
}
