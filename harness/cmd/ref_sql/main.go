// ref_sql: differential monitors on the SQL front end (see DESIGN.md 3.2): generated tables are
// written through the real writer, generated statements go through exactly what
// DataService.executeSQL does (BuildQueryTree -> NewExecutableStatement -> Materialize) and the
// result is compared with a reference relational model computed from the unrestricted non-SQL query.
// Built with checkptr (quick) / -race (thorough). One file per property; each registers its monitor in init().
package main

import (
	"github.com/alpacahq/marketstore/v4/verif/internal/runner"
)

var monitors []*runner.Monitor

func register(m *runner.Monitor) { monitors = append(monitors, m) }

func main() { runner.Main(monitors...) }
