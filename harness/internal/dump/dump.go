// Package dump queries a running instance for everything the judge looks at (links /repo).
package dump

import (
	"fmt"
	"os"
	"path/filepath"
	"sort"
	"strings"
	"time"

	"github.com/alpacahq/marketstore/v4/verif/internal/hist"
	"github.com/alpacahq/marketstore/v4/verif/internal/ms"
)

// All dumps every listed bucket with the unrestricted query (+ battery of restricted queries).
func All(in *ms.Inst, battery bool) *hist.Dump {
	d := &hist.Dump{OK: true, Buckets: map[string]hist.BucketDump{}}
	d.Listed = in.ListTBK()
	d.OwnWAL = filepath.Base(in.WAL.FilePtr.Name())
	ents, _ := os.ReadDir(in.Root)
	for _, e := range ents {
		if strings.Contains(e.Name(), ".walfile") && e.Name() != d.OwnWAL {
			d.WALFiles = append(d.WALFiles, e.Name())
		}
	}
	sort.Strings(d.WALFiles)
	for _, key := range d.Listed {
		d.Buckets[key] = Bucket(in, key, battery)
	}
	return d
}

func conv(t *ms.Table) []hist.DumpRow {
	rows := make([]hist.DumpRow, 0, t.N)
	a, _ := t.Cols["A"].([]int64)
	b, _ := t.Cols["B"].([]int64)
	for i := 0; i < t.N; i++ {
		r := hist.DumpRow{t.Epoch[i], -1, 0, 0}
		if t.Nanos != nil {
			r[1] = int64(t.Nanos[i])
		}
		if a != nil {
			r[2] = a[i]
		}
		if b != nil {
			r[3] = b[i]
		}
		rows = append(rows, r)
	}
	return rows
}

// Bucket dumps one bucket.
func Bucket(in *ms.Inst, key string, battery bool) hist.BucketDump {
	var bd hist.BucketDump
	var t *ms.Table
	var err error
	p := ms.Recover(func() { t, err = in.QueryAll(key) })
	switch {
	case p != "":
		bd.Err = "panic: " + p
	case err != nil && ms.QueryErrNoData(err):
		// empty bucket
	case err != nil:
		bd.Err = err.Error()
	default:
		bd.Rows = conv(t)
		bd.Variable = t.Nanos != nil
		bd.Columns = t.Names
	}
	if battery && bd.Err == "" && len(bd.Rows) > 0 {
		bd.Battery = map[string]string{}
		n := len(bd.Rows)
		first, last := bd.Rows[0][0], bd.Rows[n-1][0]
		mid := bd.Rows[n/2][0]
		type q struct {
			name       string
			s, e       int64
			limit      int
			fromStart  bool
		}
		qs := []q{
			{"range_first_mid", first, mid, 0, false},
			{"range_mid_last", mid, last, 0, false},
			{"range_mid_mid", mid, mid, 0, false},
			{"first3", 0, 4102444800, 3, true},
			{"last3", 0, 4102444800, 3, false},
			{"last1_to_mid", 0, mid, 1, false},
		}
		for _, x := range qs {
			var tt *ms.Table
			var e2 error
			pp := ms.Recover(func() {
				tt, e2 = in.Query(key, time.Unix(x.s, 0).UTC(), time.Unix(x.e, 0).UTC(), x.limit, x.fromStart, nil)
			})
			switch {
			case pp != "":
				bd.Battery[x.name] = "panic: " + pp
			case e2 != nil && ms.QueryErrNoData(e2):
				bd.Battery[x.name] = "[]"
			case e2 != nil:
				bd.Battery[x.name] = "error: " + e2.Error()
			default:
				bd.Battery[x.name] = fmt.Sprint(conv(tt))
			}
		}
	}
	return bd
}
