// Package ms wraps the real marketstore packages the way cmd/start wires them, for use by the
// monitors. It contains no model code: everything here calls the code under /repo.
package ms

import (
	"fmt"
	"github.com/alpacahq/marketstore/v4/utils/verifhook"
	"math"
	"os"
	"reflect"
	"sort"
	"strings"
	"sync"
	"time"

	"github.com/alpacahq/marketstore/v4/catalog"
	"github.com/alpacahq/marketstore/v4/executor"
	"github.com/alpacahq/marketstore/v4/frontend"
	"github.com/alpacahq/marketstore/v4/internal/di"
	"github.com/alpacahq/marketstore/v4/plugins/trigger"
	"github.com/alpacahq/marketstore/v4/sqlparser"
	"github.com/alpacahq/marketstore/v4/utils"
	"github.com/alpacahq/marketstore/v4/utils/io"
	"github.com/alpacahq/marketstore/v4/utils/log"
)

// Opts configures an instance.
type Opts struct {
	Timezone           *time.Location
	DisableCompression bool
	Triggers           []*trigger.Matcher
	// Background: start the real SyncWAL loop with these timers (0 => not started; flushes inline).
	WALRefresh, PrimaryRefresh time.Duration
	RotateInterval             int
	SetGlobalInstance          bool // executor.ThisInstance (needed by INSERT INTO and aggtrigger)
}

// Inst is one running "server" without listeners.
type Inst struct {
	Root string
	C    *di.Container
	Cat  *catalog.Directory
	WAL  *executor.WALFileType
	W    frontend.Writer
	QS   *frontend.QueryService
	DS   *frontend.DataService
	Agg  *sqlparser.AggRunner
	bg   bool
}

// Quiet keeps only error/fatal logs (they go to fd 1, which the runner redirects to a file).
func Quiet() { log.SetLevel(log.ERROR) }

// Open performs the same start-up sequence as cmd/start (catalog, WAL creation, replay + cleanup
// of old WAL files, writer), minus network listeners.
func Open(root string, o Opts) *Inst {
	cfg := utils.NewDefaultConfig(root)
	cfg.BackgroundSync = false // started below with explicit timers, exactly as internal/di does
	if o.Timezone != nil {
		cfg.Timezone = o.Timezone
	}
	cfg.DisableVariableCompression = o.DisableCompression
	utils.InstanceConfig = *cfg
	c := di.NewContainer(cfg)
	if o.Triggers != nil {
		c.InjectTriggerMatchers(o.Triggers)
	}
	c.GetStartTriggerPluginDispatcher()
	in := &Inst{Root: c.GetAbsRootDir(), C: c}
	in.Cat = c.GetCatalogDir()
	in.WAL = c.GetInitWALFile()
	if o.SetGlobalInstance {
		executor.NewInstanceSetup(in.Cat, in.WAL)
	}
	in.W = c.GetWriter()
	in.QS = c.GetHTTPService()
	in.Agg = c.GetAggRunner()
	in.DS = frontend.NewDataService(in.Root, in.Cat, in.Agg, in.W, in.QS)
	if o.WALRefresh > 0 {
		ri := o.RotateInterval
		if ri <= 0 {
			ri = 5
		}
		go in.WAL.SyncWAL(o.WALRefresh, o.PrimaryRefresh, ri)
		in.WAL.IncrementWaitGroup()
		in.bg = true
		// The loop goroutine announces itself through a package flag the writers read; a request issued
		// before the goroutine has run would flush inline, concurrently with the loop. The server starts
		// serving long after this point; give the goroutine time to be scheduled (not part of any verdict).
		// It is observed, not slept for: the installed hook handler is wrapped until the loop goroutine has
		// passed one of its own hook points (wal.loop.*), which it only reaches after setting the flag.
		loopSeen := make(chan struct{})
		var once sync.Once
		prev := verifhook.Get()
		verifhook.Set(func(name string) {
			if strings.HasPrefix(name, "wal.loop.") {
				once.Do(func() { close(loopSeen) })
			}
			if prev != nil {
				prev(name)
			}
		})
		select {
		case <-loopSeen: // the loop's WAL timer (WALRefresh) or checkpoint timer fired
		case <-time.After(60 * time.Second):
		}
		verifhook.Set(prev)
	}
	return in
}

// Shutdown performs the graceful shutdown the server does on SIGTERM (only meaningful with background sync).
func (in *Inst) Shutdown() {
	if in.bg {
		in.WAL.Shutdown()
	}
}

// ---------------------------------------------------------------------------------------------
// Column construction

// Col is a named column; Data is a typed slice ([]float32, []int64, ...).
type Col struct {
	Name string
	Data interface{}
}

// CS builds a ColumnSeries with Epoch first.
func CS(epochs []int64, cols ...Col) *io.ColumnSeries {
	cs := io.NewColumnSeries()
	cs.AddColumn("Epoch", epochs)
	for _, c := range cols {
		cs.AddColumn(c.Name, c.Data)
	}
	return cs
}

// TBK parses "SYM/1Min/OHLC".
func TBK(s string) *io.TimeBucketKey { return io.NewTimeBucketKey(s) }

// Write writes one bucket through the real writer.
func (in *Inst) Write(key string, cs *io.ColumnSeries, variable bool) error {
	csm := io.NewColumnSeriesMap()
	csm.AddColumnSeries(*TBK(key), cs)
	return in.W.WriteCSM(csm, variable)
}

// ---------------------------------------------------------------------------------------------
// Query helpers

// FarFuture is the "all time" upper bound (year must stay below 32768).
var FarFuture = time.Date(2100, 1, 1, 0, 0, 0, 0, time.UTC)

// Table is a decoded query result: rows in returned order.
type Table struct {
	Names []string // column names in returned order (incl. Epoch, Nanoseconds when present)
	Types []string
	Epoch []int64
	Nanos []int32 // nil when no Nanoseconds column
	Cols  map[string]interface{}
	N     int
}

// FromCS converts a ColumnSeries to a Table.
func FromCS(cs *io.ColumnSeries) *Table {
	t := &Table{Cols: map[string]interface{}{}}
	if cs == nil {
		return t
	}
	t.Names = append(t.Names, cs.GetColumnNames()...)
	for _, ds := range cs.GetDataShapes() {
		t.Types = append(t.Types, ds.Type.String())
	}
	for _, n := range t.Names {
		t.Cols[n] = cs.GetColumn(n)
	}
	if e, ok := cs.GetColumn("Epoch").([]int64); ok {
		t.Epoch = e
		t.N = len(e)
	} else if len(t.Names) > 0 {
		t.N = reflect.ValueOf(cs.GetColumn(t.Names[0])).Len()
	}
	if ns, ok := cs.GetColumn("Nanoseconds").([]int32); ok {
		t.Nanos = ns
	}
	return t
}

// QueryErrNoData reports whether err is the "nothing there" error of the planner.
func QueryErrNoData(err error) bool {
	return err != nil && (strings.Contains(err.Error(), "no files returned from query parse") ||
		strings.Contains(err.Error(), "No files returned from query parse"))
}

// Query runs the real query path. limit 0 = none.
func (in *Inst) Query(key string, start, end time.Time, limit int, fromStart bool, columns []string) (*Table, error) {
	csm, err := in.QS.ExecuteQuery(TBK(key), start, end, limit, fromStart, columns)
	if err != nil {
		return nil, err
	}
	for k, cs := range csm {
		if k.GetItemKey() == key {
			return FromCS(cs), nil
		}
	}
	if len(csm) == 1 {
		for _, cs := range csm {
			return FromCS(cs), nil
		}
	}
	return FromCS(nil), nil
}

// QueryAll = unrestricted query.
func (in *Inst) QueryAll(key string) (*Table, error) {
	return in.Query(key, time.Unix(0, 0).UTC(), FarFuture, 0, false, nil)
}

// Cell returns column value i as a comparable (bit-exact for floats).
func Cell(col interface{}, i int) interface{} {
	switch c := col.(type) {
	case []float32:
		return math.Float32bits(c[i])
	case []float64:
		return math.Float64bits(c[i])
	default:
		return reflect.ValueOf(col).Index(i).Interface()
	}
}

// RowString renders row i of the table (floats by bit pattern aware printing).
func (t *Table) RowString(i int) string {
	var sb strings.Builder
	for k, n := range t.Names {
		if k > 0 {
			sb.WriteByte(' ')
		}
		fmt.Fprintf(&sb, "%s=%v", n, reflect.ValueOf(t.Cols[n]).Index(i).Interface())
	}
	return sb.String()
}

// Dump renders up to max rows.
func (t *Table) Dump(max int) []string {
	var out []string
	for i := 0; i < t.N && i < max; i++ {
		out = append(out, t.RowString(i))
	}
	if t.N > max {
		out = append(out, fmt.Sprintf("... %d rows total", t.N))
	}
	return out
}

// SameRows compares two tables on all shared semantics: same column names (order-insensitive
// unless strictOrder), same row count, same values bit for bit.
func SameRows(a, b *Table) string {
	if a.N != b.N {
		return fmt.Sprintf("row counts differ: %d vs %d", a.N, b.N)
	}
	an := append([]string{}, a.Names...)
	bn := append([]string{}, b.Names...)
	sort.Strings(an)
	sort.Strings(bn)
	if strings.Join(an, ",") != strings.Join(bn, ",") {
		return fmt.Sprintf("column sets differ: %v vs %v", a.Names, b.Names)
	}
	for _, n := range a.Names {
		ca, cb := a.Cols[n], b.Cols[n]
		if reflect.TypeOf(ca) != reflect.TypeOf(cb) {
			return fmt.Sprintf("column %s types differ: %T vs %T", n, ca, cb)
		}
		for i := 0; i < a.N; i++ {
			if Cell(ca, i) != Cell(cb, i) {
				return fmt.Sprintf("row %d column %s differs: %v vs %v", i, n, reflect.ValueOf(ca).Index(i).Interface(), reflect.ValueOf(cb).Index(i).Interface())
			}
		}
	}
	return ""
}

// Select returns the sub-table of the rows with the given indexes.
func (t *Table) Select(idx []int) *Table {
	o := &Table{Names: t.Names, Types: t.Types, Cols: map[string]interface{}{}, N: len(idx)}
	for _, n := range t.Names {
		src := reflect.ValueOf(t.Cols[n])
		dst := reflect.MakeSlice(src.Type(), len(idx), len(idx))
		for k, i := range idx {
			dst.Index(k).Set(src.Index(i))
		}
		o.Cols[n] = dst.Interface()
	}
	if e, ok := o.Cols["Epoch"].([]int64); ok {
		o.Epoch = e
	}
	if ns, ok := o.Cols["Nanoseconds"].([]int32); ok {
		o.Nanos = ns
	}
	return o
}

// TimeNs returns the full-precision time of row i in ns since the Unix epoch.
func (t *Table) TimeNs(i int) int64 {
	v := t.Epoch[i] * 1e9
	if t.Nanos != nil {
		v += int64(t.Nanos[i])
	}
	return v
}

// ListTBK returns the bucket keys the catalog lists.
func (in *Inst) ListTBK() []string {
	l := catalog.ListTimeBucketKeyNames(in.Cat)
	sort.Strings(l)
	return l
}

// Recover runs f and returns the panic value as text ("" if none).
func Recover(f func()) (p string) {
	defer func() {
		if r := recover(); r != nil {
			p = fmt.Sprint(r)
		}
	}()
	f()
	return ""
}

// MustMkdir creates dir.
func MustMkdir(dir string) string {
	if err := os.MkdirAll(dir, 0o755); err != nil {
		panic(err)
	}
	return dir
}

// ElemTypes lists the fixed-width element types usable in bucket schemas, with numpy type strings.
var ElemTypes = []struct {
	T   io.EnumElementType
	Str string
}{
	{io.BYTE, "i1"}, {io.INT16, "i2"}, {io.INT32, "i4"}, {io.INT64, "i8"},
	{io.UINT8, "u1"}, {io.UINT16, "u2"}, {io.UINT32, "u4"}, {io.UINT64, "u8"},
	{io.FLOAT32, "f4"}, {io.FLOAT64, "f8"},
}

// MakeCol builds a typed column of the element type from int64 seeds (value i -> conv(seed[i])).
func MakeCol(t io.EnumElementType, vals []int64) interface{} {
	n := len(vals)
	switch t {
	case io.BYTE:
		c := make([]int8, n)
		for i, v := range vals {
			c[i] = int8(v)
		}
		return c
	case io.INT16:
		c := make([]int16, n)
		for i, v := range vals {
			c[i] = int16(v)
		}
		return c
	case io.INT32:
		c := make([]int32, n)
		for i, v := range vals {
			c[i] = int32(v)
		}
		return c
	case io.INT64:
		c := make([]int64, n)
		copy(c, vals)
		return c
	case io.UINT8:
		c := make([]uint8, n)
		for i, v := range vals {
			c[i] = uint8(v)
		}
		return c
	case io.UINT16:
		c := make([]uint16, n)
		for i, v := range vals {
			c[i] = uint16(v)
		}
		return c
	case io.UINT32:
		c := make([]uint32, n)
		for i, v := range vals {
			c[i] = uint32(v)
		}
		return c
	case io.UINT64:
		c := make([]uint64, n)
		for i, v := range vals {
			c[i] = uint64(v)
		}
		return c
	case io.FLOAT32:
		c := make([]float32, n)
		for i, v := range vals {
			c[i] = float32(v)
		}
		return c
	case io.FLOAT64:
		c := make([]float64, n)
		for i, v := range vals {
			c[i] = float64(v)
		}
		return c
	}
	panic("unsupported type")
}
