// Package runner is the parent/child engine shared by all monitors.
//
// A monitor is a function from a case number to a Result. The parent process splits the
// seed-determined case list into batches, runs each batch in a child process (same binary,
// --child), journals every case before it starts, attributes a child's death to the case in
// flight, aggregates what the children observed into /verif/evidence/<id>.json, matches
// reported findings against /verif/known_findings.json and prints the verdict lines.
package runner

import (
	"bufio"
	"encoding/json"
	"fmt"
	"os"
	"os/exec"
	"path/filepath"
	"runtime"
	"sort"
	"strconv"
	"strings"
	"sync"
	"syscall"
	"time"

	"github.com/alpacahq/marketstore/v4/verif/internal/gen"
)

// Issue is one thing a case observed that is not "held".
type Issue struct {
	// Status: "violation" | "known" | "inconclusive".
	Status  string      `json:"status"`
	Finding string      `json:"finding,omitempty"` // id in known_findings.json when Status=="known"
	Detail  string      `json:"detail"`
	Witness interface{} `json:"witness,omitempty"` // concrete failing input / history
}

// Result is what one case reports.
type Result struct {
	Case   int     `json:"case"`
	Issues []Issue `json:"issues,omitempty"`
	// Sig: non-empty => the case was non-trivial by the monitor's rule; distinct values are counted.
	Sig string `json:"sig,omitempty"`
	// Sigs: additional distinct non-trivial sub-cases observed inside this case (e.g. crash states).
	Sigs   []string            `json:"sigs,omitempty"`
	Evals  int64               `json:"evals,omitempty"`  // executions inside this case (default 1)
	Sample interface{}         `json:"sample,omitempty"` // written-out form of the case
	Counts map[string]int64    `json:"counts,omitempty"` // summed over cases
	Sets   map[string][]string `json:"sets,omitempty"`   // unioned over cases, distinct count reported
}

func (r *Result) Violation(detail string, witness interface{}) {
	r.Issues = append(r.Issues, Issue{Status: "violation", Detail: detail, Witness: witness})
}

func (r *Result) Known(finding, detail string, witness interface{}) {
	r.Issues = append(r.Issues, Issue{Status: "known", Finding: finding, Detail: detail, Witness: witness})
}

func (r *Result) Inconclusive(detail string) {
	r.Issues = append(r.Issues, Issue{Status: "inconclusive", Detail: detail})
}

func (r *Result) Count(k string, n int64) {
	if r.Counts == nil {
		r.Counts = map[string]int64{}
	}
	r.Counts[k] += n
}

func (r *Result) Set(k, v string) {
	if r.Sets == nil {
		r.Sets = map[string][]string{}
	}
	for _, x := range r.Sets[k] {
		if x == v {
			return
		}
	}
	r.Sets[k] = append(r.Sets[k], v)
}

// Ctx is handed to a monitor's Run.
type Ctx struct {
	Prop    string
	Seed    int64
	Tier    string
	Case    int
	Scratch string // private empty directory for this case (removed afterwards)
	BatchDir string // directory of the child process (race logs live here)
	Env     map[string]string
}

// R returns the generator for a named stream of this case.
func (c *Ctx) R(stream string) *gen.R { return gen.New(c.Seed, c.Prop+"/"+stream, c.Case) }

func (c *Ctx) Thorough() bool { return c.Tier == "thorough" }

// Monitor describes one property's check.
type Monitor struct {
	ID          string
	Level       string // exploration | fault_enumeration
	Rule        string
	Assumptions []string
	// Cases returns the number of cases for a tier (a pure function of the tier).
	Cases func(tier string) int
	Batch int // cases per child process (default 50)
	Par   int // max children in parallel (default NumCPU)
	// BatchTimeout bounds one child (watchdog; firing => in-flight case inconclusive).
	BatchTimeout time.Duration
	Run          func(c *Ctx) Result
	// Crash classifies the death of a child during a case (panic text / fatal sanitizer report).
	// Default: violation.
	Crash func(c *Ctx, text string) Result
	// HangIsViolation: a watchdog firing is re-run alone; a second firing is a violation.
	HangIsViolation bool
	Exhaustive      func(tier string) bool
	// MinDistinct: fewer distinct non-trivial cases than this => broken check (exit 2). Default 2.
	MinDistinct int
	// Need lists Counts keys that must be > 0 for the run to count as having observed something.
	Need []string
	// ChildEnv adds environment variables for children.
	ChildEnv []string
	// RaceLog: children are -race builds; collect reports in <Ctx.BatchDir>/race.* instead of stopping.
	RaceLog bool
	// Post runs in the parent after aggregation and may add issues (e.g. cross-case checks).
	Post func(a *Agg)
	// Setup runs once in the parent before children start (may build shared artefacts in a.Shared).
	Setup func(tier string, seed int64, shared string) error
}

type knownFinding struct {
	ID        string `json:"id"`
	Property  string `json:"property"`
	Status    string `json:"status"` // open | fixed
	WhatFails string `json:"what_fails"`
	Trigger   string `json:"trigger,omitempty"`
	Commit    string `json:"commit,omitempty"`
	Line      string `json:"line,omitempty"`
}

// Agg is the parent's aggregate.
type Agg struct {
	Mon        *Monitor
	Tier       string
	Seed       int64
	Evals      int64
	Sigs       map[string]struct{}
	Samples    []interface{}
	Counts     map[string]int64
	Sets       map[string]map[string]struct{}
	Violations []viol
	Known      map[string]int
	KnownEx    map[string]string
	Inconcl    []string
	CasesRun   int
	Crashes    int
}

type viol struct {
	Case    int
	Detail  string
	Witness interface{}
}

func (a *Agg) AddViolation(caseNo int, detail string, w interface{}) {
	a.Violations = append(a.Violations, viol{caseNo, detail, w})
}

func verifDir() string {
	if d := os.Getenv("VERIF_DIR"); d != "" {
		return d
	}
	return "/verif"
}

func scratchBase() string {
	if d := os.Getenv("VERIF_SCRATCH"); d != "" {
		return d
	}
	base := "/dev/shm"
	if st, err := os.Stat(base); err != nil || !st.IsDir() {
		base = os.TempDir()
	}
	d, err := os.MkdirTemp(base, "verif-")
	if err != nil {
		panic(err)
	}
	os.Setenv("VERIF_SCRATCH_OWNED", d)
	return d
}

func envSeed() int64 {
	if s := os.Getenv("VERIF_SEED"); s != "" {
		if v, err := strconv.ParseInt(s, 10, 64); err == nil {
			return v
		}
	}
	return 1
}

// Main dispatches: <prog> <prop> [--tier t] | --child ... | --replay path
func Main(mons ...*Monitor) {
	if len(os.Args) < 2 {
		fmt.Fprintln(os.Stderr, "usage: <prog> <property> [--tier quick|thorough] [--replay file]")
		os.Exit(2)
	}
	id := os.Args[1]
	var m *Monitor
	for _, x := range mons {
		if x.ID == id {
			m = x
		}
	}
	if m == nil {
		fmt.Fprintf(os.Stderr, "unknown property %s\n", id)
		os.Exit(2)
	}
	tier := os.Getenv("VERIF_TIER")
	if tier == "" {
		tier = "quick"
	}
	var child bool
	var from, to int
	var journal, replay string
	args := os.Args[2:]
	for i := 0; i < len(args); i++ {
		switch args[i] {
		case "--tier":
			i++
			tier = args[i]
		case "--child":
			child = true
		case "--from":
			i++
			from, _ = strconv.Atoi(args[i])
		case "--to":
			i++
			to, _ = strconv.Atoi(args[i])
		case "--journal":
			i++
			journal = args[i]
		case "--replay":
			i++
			replay = args[i]
		}
	}
	if tier != "quick" && tier != "thorough" {
		fmt.Fprintf(os.Stderr, "bad tier %q\n", tier)
		os.Exit(2)
	}
	seed := envSeed()
	if child {
		runChild(m, tier, seed, from, to, journal)
		return
	}
	if replay != "" {
		os.Exit(runReplay(m, replay))
	}
	os.Exit(runParent(m, tier, seed))
}

func runChild(m *Monitor, tier string, seed int64, from, to int, journal string) {
	jf, err := os.OpenFile(journal, os.O_CREATE|os.O_WRONLY|os.O_APPEND, 0o644)
	if err != nil {
		fmt.Fprintln(os.Stderr, "journal:", err)
		os.Exit(3)
	}
	scratch := os.Getenv("VERIF_CHILD_SCRATCH")
	for c := from; c < to; c++ {
		fmt.Fprintf(jf, "S %d\n", c)
		dir := filepath.Join(scratch, fmt.Sprintf("case%d", c))
		os.MkdirAll(dir, 0o755)
		ctx := &Ctx{Prop: m.ID, Seed: seed, Tier: tier, Case: c, Scratch: dir, BatchDir: scratch}
		res := m.Run(ctx)
		res.Case = c
		os.RemoveAll(dir)
		b, err := json.Marshal(res)
		if err != nil {
			b, _ = json.Marshal(Result{Case: c, Issues: []Issue{{Status: "inconclusive", Detail: "result not serialisable: " + err.Error()}}})
		}
		fmt.Fprintf(jf, "R %s\n", b)
	}
	jf.Close()
	os.Exit(0)
}

type batchOut struct {
	results []Result
}

func tailFile(path string, n int) string {
	b, err := os.ReadFile(path)
	if err != nil {
		return ""
	}
	if len(b) > n {
		b = b[len(b)-n:]
	}
	return string(b)
}

// extractPanic pulls the interesting part out of a child's output.
func extractPanic(out string) string {
	for _, key := range []string{"panic:", "fatal error:", "==ERROR: AddressSanitizer", "WARNING: DATA RACE", "\"level\":\"fatal\"", "SIGQUIT"} {
		if i := strings.Index(out, key); i >= 0 {
			s := out[i:]
			if len(s) > 3000 {
				s = s[:3000]
			}
			return s
		}
	}
	if len(out) > 1500 {
		out = out[len(out)-1500:]
	}
	return out
}

func readJournal(path string) (results []Result, inflight int) {
	inflight = -1
	f, err := os.Open(path)
	if err != nil {
		return nil, -1
	}
	defer f.Close()
	sc := bufio.NewScanner(f)
	sc.Buffer(make([]byte, 1<<20), 1<<30)
	for sc.Scan() {
		line := sc.Text()
		if strings.HasPrefix(line, "S ") {
			inflight, _ = strconv.Atoi(line[2:])
		} else if strings.HasPrefix(line, "R ") {
			var r Result
			if err := json.Unmarshal([]byte(line[2:]), &r); err == nil {
				results = append(results, r)
				if r.Case == inflight {
					inflight = -1
				}
			}
		}
	}
	return results, inflight
}

func (m *Monitor) runBatch(tier string, seed int64, from, to int, scratch string, extraTimeout time.Duration) (results []Result) {
	cur := from
	attempt := 0
	for cur < to {
		attempt++
		dir := filepath.Join(scratch, fmt.Sprintf("b%d-%d", from, attempt))
		os.MkdirAll(dir, 0o755)
		journal := filepath.Join(dir, "journal")
		logp := filepath.Join(dir, "log")
		lf, _ := os.Create(logp)
		cmd := exec.Command(os.Args[0], m.ID, "--child", "--tier", tier, "--from", strconv.Itoa(cur), "--to", strconv.Itoa(to), "--journal", journal)
		cmd.Stdout = lf
		cmd.Stderr = lf
		cmd.Env = append(os.Environ(), "VERIF_CHILD_SCRATCH="+dir, "VERIF_SEED="+strconv.FormatInt(seed, 10))
		cmd.Env = append(cmd.Env, m.ChildEnv...)
		if m.RaceLog {
			// race reports go to <batch dir>/race.<pid>; the run continues after a report
			cmd.Env = append(cmd.Env, "GORACE=halt_on_error=0 log_path="+filepath.Join(dir, "race"))
		}
		cmd.SysProcAttr = &syscall.SysProcAttr{Setpgid: true}
		timeout := m.BatchTimeout
		if timeout == 0 {
			timeout = 10 * time.Minute
		}
		timeout += extraTimeout
		done := make(chan error, 1)
		if err := cmd.Start(); err != nil {
			results = append(results, Result{Case: cur, Issues: []Issue{{Status: "inconclusive", Detail: "cannot start child: " + err.Error()}}})
			lf.Close()
			os.RemoveAll(dir)
			return results
		}
		go func() { done <- cmd.Wait() }()
		timedOut := false
		var werr error
		select {
		case werr = <-done:
		case <-time.After(timeout):
			timedOut = true
			syscall.Kill(-cmd.Process.Pid, syscall.SIGQUIT)
			select {
			case werr = <-done:
			case <-time.After(20 * time.Second):
				syscall.Kill(-cmd.Process.Pid, syscall.SIGKILL)
				werr = <-done
			}
		}
		lf.Close()
		rs, inflight := readJournal(journal)
		results = append(results, rs...)
		if werr == nil && inflight < 0 {
			os.RemoveAll(dir)
			return results
		}
		// child died or was killed
		if inflight < 0 {
			// died between cases or before the first: treat next case as in flight
			inflight = cur + len(rs)
			if inflight >= to {
				os.RemoveAll(dir)
				return results
			}
		}
		text := extractPanic(tailFile(logp, 400000))
		ctx := &Ctx{Prop: m.ID, Seed: seed, Tier: tier, Case: inflight}
		var r Result
		switch {
		case timedOut && !m.HangIsViolation:
			r = Result{Case: inflight}
			r.Inconclusive(fmt.Sprintf("watchdog (%s) fired during case %d", timeout, inflight))
		case timedOut:
			r = Result{Case: inflight}
			r.Issues = append(r.Issues, Issue{Status: "hang", Detail: fmt.Sprintf("watchdog (%s) fired during case %d: %s", timeout, inflight, firstLines(text, 40))})
		case m.Crash != nil:
			r = m.Crash(ctx, text)
			r.Case = inflight
		default:
			r = Result{Case: inflight}
			r.Violation(fmt.Sprintf("child process died during case %d (%v): %s", inflight, werr, firstLines(text, 60)), map[string]interface{}{"seed": seed, "case": inflight, "tier": tier})
		}
		r.Count("child_deaths", 1)
		results = append(results, r)
		os.RemoveAll(dir)
		cur = inflight + 1
	}
	return results
}

func firstLines(s string, n int) string {
	lines := strings.Split(s, "\n")
	if len(lines) > n {
		lines = lines[:n]
	}
	return strings.Join(lines, "\n")
}

func loadKnown() []knownFinding {
	var doc struct {
		Findings []knownFinding `json:"findings"`
	}
	b, err := os.ReadFile(filepath.Join(verifDir(), "known_findings.json"))
	if err != nil {
		return nil
	}
	if err := json.Unmarshal(b, &doc); err != nil {
		fmt.Fprintln(os.Stderr, "known_findings.json unreadable:", err)
		os.Exit(2)
	}
	return doc.Findings
}

func runParent(m *Monitor, tier string, seed int64) int {
	start := time.Now()
	scratch := scratchBase()
	defer func() {
		if d := os.Getenv("VERIF_SCRATCH_OWNED"); d != "" {
			os.RemoveAll(d)
		}
	}()
	pdir, err := os.MkdirTemp(scratch, m.ID+"-")
	if err != nil {
		fmt.Fprintln(os.Stderr, err)
		return 2
	}
	defer os.RemoveAll(pdir)
	shared := filepath.Join(pdir, "shared")
	os.MkdirAll(shared, 0o755)
	os.Setenv("VERIF_SHARED", shared)
	if m.Setup != nil {
		if err := m.Setup(tier, seed, shared); err != nil {
			fmt.Fprintf(os.Stderr, "BROKEN-CHECK property=%s setup failed: %v\n", m.ID, err)
			return 2
		}
	}
	n := m.Cases(tier)
	batch := m.Batch
	if batch <= 0 {
		batch = 50
	}
	par := m.Par
	if par <= 0 {
		par = runtime.NumCPU()
	}
	if p := os.Getenv("VERIF_PAR"); p != "" {
		if v, err := strconv.Atoi(p); err == nil && v > 0 {
			par = v
		}
	}
	type job struct{ from, to int }
	jobs := make(chan job, n/batch+2)
	for f := 0; f < n; f += batch {
		t := f + batch
		if t > n {
			t = n
		}
		jobs <- job{f, t}
	}
	close(jobs)
	var mu sync.Mutex
	var all []Result
	var wg sync.WaitGroup
	for w := 0; w < par; w++ {
		wg.Add(1)
		go func() {
			defer wg.Done()
			for j := range jobs {
				rs := m.runBatch(tier, seed, j.from, j.to, pdir, 0)
				mu.Lock()
				all = append(all, rs...)
				mu.Unlock()
			}
		}()
	}
	wg.Wait()
	// hang re-runs (alone, idle machine)
	for i := range all {
		for k := range all[i].Issues {
			is := &all[i].Issues[k]
			if is.Status != "hang" {
				continue
			}
			rs := m.runBatch(tier, seed, all[i].Case, all[i].Case+1, pdir, m.BatchTimeout*4)
			again := false
			for _, r := range rs {
				for _, x := range r.Issues {
					if x.Status == "hang" {
						again = true
					}
				}
			}
			if again {
				is.Status = "violation"
				is.Detail = "hang twice (second time alone, 5x watchdog): " + is.Detail
				is.Witness = map[string]interface{}{"seed": seed, "case": all[i].Case, "tier": tier}
			} else {
				is.Status = "inconclusive"
			}
		}
	}
	sort.Slice(all, func(i, j int) bool { return all[i].Case < all[j].Case })
	a := aggregate(m, tier, seed, all)
	if m.Post != nil {
		m.Post(a)
	}
	return finish(a, n, time.Since(start))
}

func aggregate(m *Monitor, tier string, seed int64, all []Result) *Agg {
	a := &Agg{Mon: m, Tier: tier, Seed: seed, Sigs: map[string]struct{}{}, Counts: map[string]int64{},
		Sets: map[string]map[string]struct{}{}, Known: map[string]int{}, KnownEx: map[string]string{}}
	known := map[string]knownFinding{}
	for _, k := range loadKnown() {
		if k.Property == m.ID || strings.Contains(","+k.Property+",", ","+m.ID+",") {
			known[k.ID] = k
		}
	}
	for _, r := range all {
		a.CasesRun++
		if r.Evals > 0 {
			a.Evals += r.Evals
		} else {
			a.Evals++
		}
		if r.Sig != "" {
			a.Sigs[r.Sig] = struct{}{}
		}
		for _, s := range r.Sigs {
			a.Sigs[s] = struct{}{}
		}
		if r.Sample != nil && len(a.Samples) < 5 {
			a.Samples = append(a.Samples, r.Sample)
		}
		for k, v := range r.Counts {
			a.Counts[k] += v
		}
		for k, vs := range r.Sets {
			if a.Sets[k] == nil {
				a.Sets[k] = map[string]struct{}{}
			}
			for _, v := range vs {
				a.Sets[k][v] = struct{}{}
			}
		}
		for _, is := range r.Issues {
			switch is.Status {
			case "violation":
				a.Violations = append(a.Violations, viol{r.Case, is.Detail, is.Witness})
			case "known":
				k, ok := known[is.Finding]
				if ok && k.Status == "open" {
					a.Known[is.Finding]++
					if _, seen := a.KnownEx[is.Finding]; !seen {
						a.KnownEx[is.Finding] = is.Detail
					}
				} else {
					why := "not listed in known_findings.json for " + m.ID
					if ok {
						why = "listed as " + k.Status + " (a fixed entry suppresses nothing)"
					}
					a.Violations = append(a.Violations, viol{r.Case, fmt.Sprintf("[%s: %s] %s", is.Finding, why, is.Detail), is.Witness})
				}
			default:
				a.Inconcl = append(a.Inconcl, fmt.Sprintf("case %d: %s", r.Case, is.Detail))
			}
		}
	}
	return a
}

func finish(a *Agg, planned int, wall time.Duration) int {
	m := a.Mon
	vd := verifDir()
	if o := os.Getenv("VERIF_OUT_DIR"); o != "" {
		// runs against a scratch copy of the repository (seeded-change validation) must not overwrite the
		// evidence of the real tree
		vd = o
	}
	// replay files
	var vlines []string
	rdir := filepath.Join(vd, "replays", m.ID)
	if len(a.Violations) > 0 {
		os.MkdirAll(rdir, 0o755)
	}
	for i, v := range a.Violations {
		if i >= 25 {
			break
		}
		p := filepath.Join(rdir, fmt.Sprintf("seed%d-%s-case%d-%d.json", a.Seed, a.Tier, v.Case, i))
		doc := map[string]interface{}{"property": m.ID, "seed": a.Seed, "tier": a.Tier, "case": v.Case, "detail": v.Detail, "witness": v.Witness}
		b, _ := json.MarshalIndent(doc, "", " ")
		os.WriteFile(p, b, 0o644)
		vlines = append(vlines, fmt.Sprintf("VIOLATION property=%s replay=%s", m.ID, p))
		fmt.Printf("  detail[%d]: %s\n", i, firstLines(v.Detail, 12))
	}
	// known findings: one line per listed open finding of this property
	var knownIDs []string
	for _, k := range loadKnown() {
		if (k.Property == m.ID || strings.Contains(","+k.Property+",", ","+m.ID+",")) && k.Status == "open" {
			knownIDs = append(knownIDs, k.ID)
			n := a.Known[k.ID]
			obs := fmt.Sprintf("observed %d times in this run", n)
			if n == 0 {
				obs = "not re-observed in this run"
			}
			fmt.Printf("KNOWN-FINDING: property=%s %s %s (%s)\n", m.ID, k.ID, k.WhatFails, obs)
		}
	}
	distinct := len(a.Sigs)
	cov := map[string]interface{}{
		"evaluations":         a.Evals,
		"distinct_nontrivial": distinct,
		"rule":                m.Rule,
		"samples":             a.Samples,
		"cases_planned":       planned,
		"cases_run":           a.CasesRun,
		"inconclusive":        len(a.Inconcl),
		"known_findings_seen": a.Known,
		"counts":              a.Counts,
	}
	if len(a.Inconcl) > 0 {
		ex := a.Inconcl
		if len(ex) > 5 {
			ex = ex[:5]
		}
		cov["inconclusive_examples"] = ex
	}
	for k, s := range a.Sets {
		cov["distinct_"+k] = len(s)
		if len(s) <= 40 {
			var xs []string
			for x := range s {
				xs = append(xs, x)
			}
			sort.Strings(xs)
			cov["set_"+k] = xs
		}
	}
	if m.Exhaustive != nil && m.Exhaustive(a.Tier) {
		cov["exhaustive"] = true
	}
	if len(a.Samples) == 0 {
		cov["samples"] = []interface{}{"no sample recorded"}
	}
	ev := map[string]interface{}{
		"property_id": m.ID,
		"tier":        a.Tier,
		"seed":        a.Seed,
		"level":       m.Level,
		"coverage":    cov,
		"assumptions": m.Assumptions,
		"wall_s":      float64(int(wall.Seconds()*100)) / 100,
		"violations":  len(a.Violations),
	}
	if m.Assumptions == nil {
		ev["assumptions"] = []string{}
	}
	os.MkdirAll(filepath.Join(vd, "evidence"), 0o755)
	b, _ := json.MarshalIndent(ev, "", " ")
	if err := os.WriteFile(filepath.Join(vd, "evidence", m.ID+".json"), b, 0o644); err != nil {
		fmt.Fprintln(os.Stderr, "cannot write evidence:", err)
		return 2
	}
	fmt.Printf("SUMMARY property=%s tier=%s seed=%d cases=%d/%d evaluations=%d distinct_nontrivial=%d violations=%d known=%v inconclusive=%d wall=%.1fs\n",
		m.ID, a.Tier, a.Seed, a.CasesRun, planned, a.Evals, distinct, len(a.Violations), a.Known, len(a.Inconcl), wall.Seconds())
	var cks []string
	for k := range a.Counts {
		cks = append(cks, k)
	}
	sort.Strings(cks)
	for _, k := range cks {
		fmt.Printf("  %s=%d", k, a.Counts[k])
	}
	if len(cks) > 0 {
		fmt.Println()
	}
	if len(vlines) > 0 {
		for _, l := range vlines {
			fmt.Println(l)
		}
		return 1
	}
	min := m.MinDistinct
	if min <= 0 {
		min = 2
	}
	broken := ""
	if distinct < min {
		broken = fmt.Sprintf("only %d distinct non-trivial cases observed (need %d)", distinct, min)
	}
	for _, k := range m.Need {
		if a.Counts[k] <= 0 {
			broken = fmt.Sprintf("monitor observed no %q events", k)
		}
	}
	if a.CasesRun < planned && len(a.Inconcl) == 0 {
		broken = fmt.Sprintf("%d of %d cases ran", a.CasesRun, planned)
	}
	if broken != "" {
		fmt.Printf("BROKEN-CHECK property=%s %s\n", m.ID, broken)
		return 2
	}
	return 0
}

func runReplay(m *Monitor, path string) int {
	b, err := os.ReadFile(path)
	if err != nil {
		fmt.Fprintln(os.Stderr, err)
		return 2
	}
	var doc struct {
		Seed int64  `json:"seed"`
		Tier string `json:"tier"`
		Case int    `json:"case"`
	}
	if err := json.Unmarshal(b, &doc); err != nil {
		fmt.Fprintln(os.Stderr, err)
		return 2
	}
	scratch := scratchBase()
	defer func() {
		if d := os.Getenv("VERIF_SCRATCH_OWNED"); d != "" {
			os.RemoveAll(d)
		}
	}()
	pdir, _ := os.MkdirTemp(scratch, m.ID+"-replay-")
	defer os.RemoveAll(pdir)
	shared := filepath.Join(pdir, "shared")
	os.MkdirAll(shared, 0o755)
	os.Setenv("VERIF_SHARED", shared)
	if m.Setup != nil {
		if err := m.Setup(doc.Tier, doc.Seed, shared); err != nil {
			fmt.Fprintln(os.Stderr, err)
			return 2
		}
	}
	rs := m.runBatch(doc.Tier, doc.Seed, doc.Case, doc.Case+1, pdir, 0)
	a := aggregate(m, doc.Tier, doc.Seed, rs)
	for _, v := range a.Violations {
		fmt.Printf("VIOLATION property=%s replay=%s\n  %s\n", m.ID, path, firstLines(v.Detail, 30))
	}
	for k, n := range a.Known {
		fmt.Printf("KNOWN-FINDING: property=%s %s x%d %s\n", m.ID, k, n, a.KnownEx[k])
	}
	if len(a.Violations) > 0 {
		return 1
	}
	fmt.Printf("replay of case %d (seed %d, %s): no violation\n", doc.Case, doc.Seed, doc.Tier)
	return 0
}
