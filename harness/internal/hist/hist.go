// Package hist defines the write histories the crash/shutdown engines execute, the unique-payload
// convention, and the dump format of the recovery child. It links no repository code, so the
// crashlab parent (the judge) stays independent of the implementation under test.
package hist

import (
	"encoding/json"
	"os"
	"sort"
	"time"
)

// Row is one written row. T = unix nanoseconds (UTC). V = unique payload (id*1000 + ordinal).
type Row struct {
	T int64 `json:"t"`
	V int64 `json:"v"`
}

// BucketWrite is the part of a request that targets one bucket.
type BucketWrite struct {
	Key  string `json:"key"` // SYM/TF/AG
	Rows []Row  `json:"rows"`
}

// Step is one step of a writer thread.
type Step struct {
	Op       string        `json:"op"` // write | checkpoint | sleep
	ID       int           `json:"id,omitempty"`
	Variable bool          `json:"variable,omitempty"`
	Buckets  []BucketWrite `json:"buckets,omitempty"`
	Us       int           `json:"us,omitempty"` // sleep microseconds
	// ReadBack: query the written intervals right after the write returned and record R <id> ok|stale.
	ReadBack bool `json:"read_back,omitempty"`
}

// History is executed by wlchild.
type History struct {
	Mode    string   `json:"mode"` // inline | background
	WalMs   int      `json:"wal_ms,omitempty"`
	PrimMs  int      `json:"prim_ms,omitempty"`
	Rotate  int      `json:"rotate,omitempty"`
	Threads [][]Step `json:"threads"`
	// End: "exit" (process ends without shutdown: the log's last prefix is a crash too),
	// "shutdown" (graceful: dump, Shutdown(), dump), "shutdown_inflight" (last write of thread 0 is
	// started concurrently with Shutdown()).
	End string `json:"end"`
	// HookDelays: seeded delays at verifhook points (name -> microseconds, applied every Nth event).
	HookSeed int64 `json:"hook_seed,omitempty"`
	// PreShutdownUs: pause between the last writer finishing and the shutdown request.
	PreShutdownUs int `json:"pre_shutdown_us,omitempty"`
}

// Payload columns. Fixed and variable buckets both carry A = V and B = 3V+1 (int64), so a row whose
// columns disagree is torn and a row identifies the write it came from.
func ColB(v int64) int64 { return 3*v + 1 }

// Timeframe durations used by the histories (UTC, so interval start = truncation).
func TFDur(tf string) time.Duration {
	switch tf {
	case "1Sec":
		return time.Second
	case "1Min":
		return time.Minute
	case "5Min":
		return 5 * time.Minute
	case "15Min":
		return 15 * time.Minute
	case "4H":
		return 4 * time.Hour
	case "1H":
		return time.Hour
	case "1D":
		return 24 * time.Hour
	}
	panic("hist: unknown timeframe " + tf)
}

// KeyTF extracts the timeframe of "SYM/TF/AG".
func KeyTF(key string) string {
	a := -1
	for i := 0; i < len(key); i++ {
		if key[i] == '/' {
			if a < 0 {
				a = i
			} else {
				return key[a+1 : i]
			}
		}
	}
	return ""
}

// IntervalStart returns the start (unix seconds) of the interval containing t (unix ns).
func IntervalStart(key string, tns int64) int64 {
	d := int64(TFDur(KeyTF(key)))
	return (tns - mod(tns, d)) / 1e9
}

func mod(a, b int64) int64 {
	m := a % b
	if m < 0 {
		m += b
	}
	return m
}

// DumpRow is one returned row: [epoch, nanos(-1 if none), A, B].
type DumpRow [4]int64

// BucketDump is the unrestricted query result of one bucket.
type BucketDump struct {
	Rows     []DumpRow `json:"rows"`
	Err      string    `json:"err,omitempty"`
	Variable bool      `json:"variable"`
	Columns  []string  `json:"columns,omitempty"`
	// Battery: results of the fixed battery of restricted queries (C35), rendered as strings.
	Battery map[string]string `json:"battery,omitempty"`
}

// Dump is what recchild / wlchild write after querying everything.
type Dump struct {
	OK       bool                  `json:"ok"`
	Listed   []string              `json:"listed"`
	Buckets  map[string]BucketDump `json:"buckets"`
	WALFiles []string              `json:"wal_files"` // *.walfile names present after startup (excluding own)
	OwnWAL   string                `json:"own_wal"`
	Stage    string                `json:"stage,omitempty"`
}

func ReadJSON(path string, v interface{}) error {
	b, err := os.ReadFile(path)
	if err != nil {
		return err
	}
	return json.Unmarshal(b, v)
}

func WriteJSON(path string, v interface{}) error {
	b, err := json.Marshal(v)
	if err != nil {
		return err
	}
	return os.WriteFile(path, b, 0o644)
}

// Keys lists the bucket keys a history touches, sorted, with their record type.
func (h *History) Keys() map[string]bool {
	m := map[string]bool{}
	for _, th := range h.Threads {
		for _, s := range th {
			for _, b := range s.Buckets {
				m[b.Key] = s.Variable
			}
		}
	}
	return m
}

func SortedKeys(m map[string]bool) []string {
	var ks []string
	for k := range m {
		ks = append(ks, k)
	}
	sort.Strings(ks)
	return ks
}
