// Package gen holds the seeded generator used by every monitor. No math/rand global,
// no time: a case is a pure function of (seed, stream, ordinal).
package gen

// R is a SplitMix64 generator.
type R struct{ s uint64 }

func mix(z uint64) uint64 {
	z += 0x9e3779b97f4a7c15
	z = (z ^ (z >> 30)) * 0xbf58476d1ce4e5b9
	z = (z ^ (z >> 27)) * 0x94d049bb133111eb
	return z ^ (z >> 31)
}

// New returns a generator for (seed, stream, ordinal).
func New(seed int64, stream string, ordinal int) *R {
	h := uint64(seed) * 0x9e3779b97f4a7c15
	for i := 0; i < len(stream); i++ {
		h = mix(h ^ uint64(stream[i]))
	}
	h = mix(h ^ uint64(ordinal)*0xd1342543de82ef95)
	return &R{s: h}
}

func (r *R) U64() uint64 {
	r.s += 0x9e3779b97f4a7c15
	z := r.s
	z = (z ^ (z >> 30)) * 0xbf58476d1ce4e5b9
	z = (z ^ (z >> 27)) * 0x94d049bb133111eb
	return z ^ (z >> 31)
}

// Intn returns a value in [0,n). n<=0 returns 0.
func (r *R) Intn(n int) int {
	if n <= 0 {
		return 0
	}
	return int(r.U64() % uint64(n))
}

func (r *R) I64n(n int64) int64 {
	if n <= 0 {
		return 0
	}
	return int64(r.U64() % uint64(n))
}

// Range returns a value in [lo,hi].
func (r *R) Range(lo, hi int) int { return lo + r.Intn(hi-lo+1) }

func (r *R) Bool() bool { return r.U64()&1 == 1 }

// P returns true with probability num/den.
func (r *R) P(num, den int) bool { return r.Intn(den) < num }

func (r *R) F64() float64 { return float64(r.U64()>>11) / float64(1<<53) }

// Perm returns a permutation of [0,n).
func (r *R) Perm(n int) []int {
	p := make([]int, n)
	for i := range p {
		p[i] = i
	}
	for i := n - 1; i > 0; i-- {
		j := r.Intn(i + 1)
		p[i], p[j] = p[j], p[i]
	}
	return p
}

// PickS picks one string.
func (r *R) PickS(xs ...string) string { return xs[r.Intn(len(xs))] }

// PickI picks one int.
func (r *R) PickI(xs ...int) int { return xs[r.Intn(len(xs))] }

// PickI64 picks one int64.
func (r *R) PickI64(xs ...int64) int64 { return xs[r.Intn(len(xs))] }
