// Package straceparse turns an `strace -f -y -xx -s <big>` log into an ordered list of file-system
// effects below a root directory (plus marker writes), and materialises prefixes of that list as
// directory trees (sparse-aware). It links no repository code.
package straceparse

import (
	"bufio"
	"crypto/sha256"
	"encoding/hex"
	"fmt"
	"os"
	"path/filepath"
	"sort"
	"strconv"
	"strings"
)

// Effect kinds.
const (
	Create   = "create"
	Mkdir    = "mkdir"
	Write    = "write"
	Truncate = "truncate"
	Rename   = "rename"
	Unlink   = "unlink"
	Rmdir    = "rmdir"
	Fsync    = "fsync"
	SyncAll  = "sync"
	Marker   = "marker"
)

// Effect is one completed, successful, state-changing (or durability / marker) system call.
type Effect struct {
	Kind  string
	Path  string // relative to the root ("" for SyncAll / Marker)
	Path2 string // rename target
	Off   int64
	Data  []byte
	Size  int64  // truncate
	Text  string // marker
	Line  int    // line number in the log where the call completed (markers: where it was entered)
	Trunc bool   // create with O_TRUNC on an existing file (recorded as Truncate 0)
}

func (e Effect) String() string {
	switch e.Kind {
	case Write:
		return fmt.Sprintf("write(%s, off=%d, len=%d)", e.Path, e.Off, len(e.Data))
	case Truncate:
		return fmt.Sprintf("truncate(%s, %d)", e.Path, e.Size)
	case Rename:
		return fmt.Sprintf("rename(%s -> %s)", e.Path, e.Path2)
	case Marker:
		return "marker(" + e.Text + ")"
	case SyncAll:
		return "sync()"
	}
	return e.Kind + "(" + e.Path + ")"
}

// Mutating reports whether the effect changes the tree.
func (e Effect) Mutating() bool {
	switch e.Kind {
	case Create, Mkdir, Write, Truncate, Rename, Unlink, Rmdir:
		return true
	}
	return false
}

func unhex(s string) string {
	if !strings.Contains(s, "\\x") {
		return s
	}
	var b strings.Builder
	for i := 0; i < len(s); {
		if s[i] == '\\' && i+3 < len(s) && s[i+1] == 'x' {
			v, err := strconv.ParseUint(s[i+2:i+4], 16, 8)
			if err == nil {
				b.WriteByte(byte(v))
				i += 4
				continue
			}
		}
		b.WriteByte(s[i])
		i++
	}
	return b.String()
}

func unhexBytes(s string) []byte {
	// s is a sequence of \xNN
	out := make([]byte, 0, len(s)/4)
	for i := 0; i+3 < len(s); {
		if s[i] == '\\' && s[i+1] == 'x' {
			hi, lo := fromHex(s[i+2]), fromHex(s[i+3])
			out = append(out, hi<<4|lo)
			i += 4
		} else {
			// other escapes do not occur with -xx; be defensive
			out = append(out, s[i])
			i++
		}
	}
	return out
}

func fromHex(c byte) byte {
	switch {
	case c >= '0' && c <= '9':
		return c - '0'
	case c >= 'a' && c <= 'f':
		return c - 'a' + 10
	case c >= 'A' && c <= 'F':
		return c - 'A' + 10
	}
	return 0
}

// splitArgs splits "a, b<c>, \"...\", d" at top-level ", ".
func splitArgs(s string) []string {
	var out []string
	depth := 0
	inq := false
	start := 0
	for i := 0; i < len(s); i++ {
		c := s[i]
		switch {
		case c == '"':
			inq = !inq
		case inq:
		case c == '<' || c == '{' || c == '[':
			depth++
		case c == '>' || c == '}' || c == ']':
			depth--
		case c == ',' && depth == 0 && i+1 < len(s) && s[i+1] == ' ':
			out = append(out, s[start:i])
			start = i + 2
			i++
		}
	}
	out = append(out, s[start:])
	return out
}

// fdArg parses `7<\x2f...>` → (7, "/...").
func fdArg(a string) (int, string) {
	i := strings.IndexByte(a, '<')
	if i < 0 {
		n, _ := strconv.Atoi(a)
		return n, ""
	}
	n, err := strconv.Atoi(a[:i])
	if err != nil {
		n = -100 // AT_FDCWD
	}
	p := a[i+1:]
	p = strings.TrimSuffix(p, ">")
	return n, unhex(p)
}

func strArg(a string) string {
	a = strings.TrimSpace(a)
	a = strings.TrimSuffix(a, "...")
	a = strings.Trim(a, "\"")
	return unhex(a)
}

type fdState struct {
	path string
	off  int64
	app  bool
}

// Log is the parsed result.
type Log struct {
	Root       string
	MarkerPath string
	Effects    []Effect
	Lines      int
	Syscalls   int
	ExitStatus string
	Unparsed   []string
}

// Parse reads the log. Effects on paths below root are kept; writes to markerPath become markers.
func Parse(logPath, root, markerPath string) (*Log, error) {
	f, err := os.Open(logPath)
	if err != nil {
		return nil, err
	}
	defer f.Close()
	lg := &Log{Root: root, MarkerPath: markerPath}
	sc := bufio.NewScanner(f)
	sc.Buffer(make([]byte, 1<<20), 1<<31-1)
	pending := map[string]string{} // pid -> unfinished text
	pendLine := map[string]int{}
	fds := map[int]*fdState{}
	exists := map[string]bool{} // files known to exist below root (for create detection)
	rel := func(p string) (string, bool) {
		if p == root {
			return ".", true
		}
		if strings.HasPrefix(p, root+"/") {
			return p[len(root)+1:], true
		}
		return "", false
	}
	lineNo := 0
	for sc.Scan() {
		lineNo++
		line := sc.Text()
		sp := strings.IndexByte(line, ' ')
		if sp < 0 {
			continue
		}
		pid := line[:sp]
		rest := strings.TrimLeft(line[sp+1:], " ")
		if strings.HasPrefix(rest, "---") {
			continue
		}
		if strings.HasPrefix(rest, "+++") {
			lg.ExitStatus = rest
			continue
		}
		entryLine := lineNo
		if strings.HasSuffix(rest, "<unfinished ...>") {
			pending[pid] = strings.TrimSuffix(rest, " <unfinished ...>")
			pendLine[pid] = lineNo
			// marker writes are positioned at entry: emit now if this is a marker write
			continue
		}
		if strings.HasPrefix(rest, "<... ") {
			i := strings.Index(rest, "resumed>")
			if i < 0 {
				continue
			}
			head, ok := pending[pid]
			if !ok {
				continue
			}
			delete(pending, pid)
			entryLine = pendLine[pid]
			tail := strings.TrimLeft(rest[i+len("resumed>"):], " ")
			// "<... x resumed>)     = 24"  or  "<... x resumed>, 512) = 9"
			if j := strings.LastIndex(tail, ")"); j >= 0 {
				tail = tail[:j+1] + " " + strings.TrimLeft(tail[j+1:], " ")
			}
			rest = head + tail
		}
		// name(args) = ret
		op := strings.IndexByte(rest, '(')
		// short calls are padded: "sync()                = 0 (INJECTED)"
		eqs := strings.LastIndex(rest, " = ")
		if op < 0 || eqs < 0 {
			continue
		}
		eq := eqs
		for eq > 0 && rest[eq-1] == ' ' {
			eq--
		}
		if eq == 0 || rest[eq-1] != ')' {
			continue
		}
		eq--
		name := rest[:op]
		argstr := ""
		if eq > op {
			argstr = rest[op+1 : eq]
		}
		ret := strings.TrimSpace(rest[eqs+3:])
		lg.Syscalls++
		if strings.HasPrefix(ret, "-1") || strings.HasPrefix(ret, "?") {
			continue // failed call: no effect
		}
		args := splitArgs(argstr)
		switch name {
		case "openat", "open":
			var path, flags string
			if name == "openat" {
				if len(args) < 3 {
					continue
				}
				_, dir := fdArg(args[0])
				path = strArg(args[1])
				if !filepath.IsAbs(path) {
					path = filepath.Join(dir, path)
				}
				flags = args[2]
			} else {
				if len(args) < 2 {
					continue
				}
				path = strArg(args[0])
				flags = args[1]
			}
			path = filepath.Clean(path)
			fd, _ := fdArg(ret)
			fds[fd] = &fdState{path: path, app: strings.Contains(flags, "O_APPEND")}
			if r, ok := rel(path); ok && !strings.Contains(flags, "O_DIRECTORY") {
				if strings.Contains(flags, "O_CREAT") && !exists[r] {
					exists[r] = true
					lg.Effects = append(lg.Effects, Effect{Kind: Create, Path: r, Line: lineNo})
				} else if strings.Contains(flags, "O_TRUNC") && exists[r] {
					lg.Effects = append(lg.Effects, Effect{Kind: Truncate, Path: r, Size: 0, Line: lineNo})
				}
			}
		case "close":
			fd, _ := fdArg(args[0])
			delete(fds, fd)
		case "read":
			fd, _ := fdArg(args[0])
			n, _ := strconv.ParseInt(ret, 10, 64)
			if st := fds[fd]; st != nil {
				st.off += n
			}
		case "lseek":
			fd, _ := fdArg(args[0])
			n, _ := strconv.ParseInt(ret, 10, 64)
			if st := fds[fd]; st != nil {
				st.off = n
			}
		case "write", "pwrite64":
			fd, p := fdArg(args[0])
			n, _ := strconv.ParseInt(ret, 10, 64)
			st := fds[fd]
			if st == nil {
				st = &fdState{path: p}
				fds[fd] = st
			}
			path := st.path
			if path == "" {
				path = p
			}
			if path == markerPath {
				data := unhexBytes(strings.Trim(strings.TrimSpace(args[1]), "\""))
				lg.Effects = append(lg.Effects, Effect{Kind: Marker, Text: strings.TrimSpace(string(data)), Line: entryLine})
				continue
			}
			r, ok := rel(path)
			if !ok {
				if name == "write" {
					st.off += n
				}
				continue
			}
			data := unhexBytes(strings.Trim(strings.TrimSuffix(strings.TrimSpace(args[1]), "..."), "\""))
			if int64(len(data)) > n {
				data = data[:n]
			}
			if int64(len(data)) < n {
				lg.Unparsed = append(lg.Unparsed, fmt.Sprintf("line %d: %s captured %d of %d bytes", lineNo, name, len(data), n))
			}
			var off int64
			if name == "pwrite64" {
				off, _ = strconv.ParseInt(strings.TrimSpace(args[3]), 10, 64)
			} else {
				if st.app {
					off = -1 // resolved at apply time (append)
				} else {
					off = st.off
				}
				st.off += n
			}
			lg.Effects = append(lg.Effects, Effect{Kind: Write, Path: r, Off: off, Data: data, Line: lineNo})
		case "ftruncate":
			fd, p := fdArg(args[0])
			if st := fds[fd]; st != nil && st.path != "" {
				p = st.path
			}
			if r, ok := rel(p); ok {
				n, _ := strconv.ParseInt(strings.TrimSpace(args[1]), 10, 64)
				lg.Effects = append(lg.Effects, Effect{Kind: Truncate, Path: r, Size: n, Line: lineNo})
			}
		case "fsync", "fdatasync":
			fd, p := fdArg(args[0])
			if st := fds[fd]; st != nil && st.path != "" {
				p = st.path
			}
			if r, ok := rel(p); ok {
				lg.Effects = append(lg.Effects, Effect{Kind: Fsync, Path: r, Line: lineNo})
			}
		case "sync", "syncfs":
			lg.Effects = append(lg.Effects, Effect{Kind: SyncAll, Line: lineNo})
		case "mkdirat", "mkdir":
			var path string
			if name == "mkdirat" {
				_, dir := fdArg(args[0])
				path = strArg(args[1])
				if !filepath.IsAbs(path) {
					path = filepath.Join(dir, path)
				}
			} else {
				path = strArg(args[0])
			}
			if r, ok := rel(filepath.Clean(path)); ok {
				lg.Effects = append(lg.Effects, Effect{Kind: Mkdir, Path: r, Line: lineNo})
			}
		case "unlinkat", "unlink", "rmdir":
			var path string
			kind := Unlink
			if name == "unlinkat" {
				_, dir := fdArg(args[0])
				path = strArg(args[1])
				if !filepath.IsAbs(path) {
					path = filepath.Join(dir, path)
				}
				if len(args) > 2 && strings.Contains(args[2], "AT_REMOVEDIR") {
					kind = Rmdir
				}
			} else {
				path = strArg(args[0])
				if name == "rmdir" {
					kind = Rmdir
				}
			}
			if r, ok := rel(filepath.Clean(path)); ok {
				delete(exists, r)
				lg.Effects = append(lg.Effects, Effect{Kind: kind, Path: r, Line: lineNo})
			}
		case "renameat", "renameat2", "rename":
			var a, b string
			if name == "rename" {
				a, b = strArg(args[0]), strArg(args[1])
			} else {
				_, d1 := fdArg(args[0])
				a = strArg(args[1])
				if !filepath.IsAbs(a) {
					a = filepath.Join(d1, a)
				}
				_, d2 := fdArg(args[2])
				b = strArg(args[3])
				if !filepath.IsAbs(b) {
					b = filepath.Join(d2, b)
				}
			}
			ra, ok1 := rel(filepath.Clean(a))
			rb, ok2 := rel(filepath.Clean(b))
			if ok1 && ok2 {
				if exists[ra] {
					delete(exists, ra)
					exists[rb] = true
				}
				lg.Effects = append(lg.Effects, Effect{Kind: Rename, Path: ra, Path2: rb, Line: lineNo})
			} else if ok1 || ok2 {
				lg.Unparsed = append(lg.Unparsed, fmt.Sprintf("line %d: rename across the root: %s -> %s", lineNo, a, b))
			}
		}
	}
	lg.Lines = lineNo
	// order: by Line (markers were stamped with their entry line)
	sort.SliceStable(lg.Effects, func(i, j int) bool { return lg.Effects[i].Line < lg.Effects[j].Line })
	return lg, sc.Err()
}

// ---------------------------------------------------------------------------------------------
// Model file system (sparse files as extent lists)

type extent struct {
	off  int64
	data []byte
}

// File is a sparse file.
type File struct {
	Size int64
	ext  []extent
}

// FS is an in-memory tree.
type FS struct {
	Files map[string]*File
	Dirs  map[string]bool
}

func NewFS() *FS { return &FS{Files: map[string]*File{}, Dirs: map[string]bool{}} }

func (fs *FS) Clone() *FS {
	n := NewFS()
	for k := range fs.Dirs {
		n.Dirs[k] = true
	}
	for k, f := range fs.Files {
		nf := &File{Size: f.Size, ext: make([]extent, len(f.ext))}
		copy(nf.ext, f.ext) // extents are immutable once written
		n.Files[k] = nf
	}
	return n
}

func (f *File) write(off int64, data []byte) {
	d := make([]byte, len(data))
	copy(d, data)
	f.ext = append(f.ext, extent{off, d})
	if off+int64(len(data)) > f.Size {
		f.Size = off + int64(len(data))
	}
}

func (f *File) truncate(n int64) {
	if n < f.Size {
		var ne []extent
		for _, e := range f.ext {
			if e.off >= n {
				continue
			}
			if e.off+int64(len(e.data)) > n {
				e = extent{e.off, e.data[:n-e.off]}
			}
			ne = append(ne, e)
		}
		f.ext = ne
	}
	f.Size = n
}

// Apply applies one effect. Returns an error for effects that cannot apply (parser self-check).
func (fs *FS) Apply(e Effect) error {
	switch e.Kind {
	case Create:
		if fs.Files[e.Path] == nil {
			fs.Files[e.Path] = &File{}
		}
	case Mkdir:
		fs.Dirs[e.Path] = true
	case Write:
		f := fs.Files[e.Path]
		if f == nil {
			return fmt.Errorf("write to unknown file %s", e.Path)
		}
		off := e.Off
		if off < 0 {
			off = f.Size
		}
		f.write(off, e.Data)
	case Truncate:
		f := fs.Files[e.Path]
		if f == nil {
			return fmt.Errorf("truncate of unknown file %s", e.Path)
		}
		f.truncate(e.Size)
	case Unlink:
		delete(fs.Files, e.Path)
	case Rmdir:
		delete(fs.Dirs, e.Path)
	case Rename:
		if f := fs.Files[e.Path]; f != nil {
			fs.Files[e.Path2] = f
			delete(fs.Files, e.Path)
		} else if fs.Dirs[e.Path] {
			delete(fs.Dirs, e.Path)
			fs.Dirs[e.Path2] = true
			for k, f := range fs.Files {
				if strings.HasPrefix(k, e.Path+"/") {
					fs.Files[e.Path2+k[len(e.Path):]] = f
					delete(fs.Files, k)
				}
			}
		}
	}
	return nil
}

// Bytes returns the content of [off, off+n) of a file (zeros in holes).
func (f *File) Bytes(off, n int64) []byte {
	out := make([]byte, n)
	for _, e := range f.ext {
		a, b := e.off, e.off+int64(len(e.data))
		if b <= off || a >= off+n {
			continue
		}
		lo, hi := a, b
		if lo < off {
			lo = off
		}
		if hi > off+n {
			hi = off + n
		}
		copy(out[lo-off:hi-off], e.data[lo-a:hi-a])
	}
	return out
}

// Materialise writes the tree under dir (which is created).
func (fs *FS) Materialise(dir string) error {
	if err := os.MkdirAll(dir, 0o770); err != nil {
		return err
	}
	var dirs []string
	for d := range fs.Dirs {
		dirs = append(dirs, d)
	}
	sort.Strings(dirs)
	for _, d := range dirs {
		if err := os.MkdirAll(filepath.Join(dir, d), 0o770); err != nil {
			return err
		}
	}
	for name, f := range fs.Files {
		p := filepath.Join(dir, name)
		os.MkdirAll(filepath.Dir(p), 0o770)
		fp, err := os.OpenFile(p, os.O_CREATE|os.O_RDWR|os.O_TRUNC, 0o600)
		if err != nil {
			return err
		}
		for _, e := range f.ext {
			if _, err := fp.WriteAt(e.data, e.off); err != nil {
				fp.Close()
				return err
			}
		}
		if err := fp.Truncate(f.Size); err != nil {
			fp.Close()
			return err
		}
		fp.Close()
	}
	return nil
}

// Hash is a content hash of the tree (sparse-aware: hashes sizes and the merged non-zero content).
func (fs *FS) Hash() string {
	h := sha256.New()
	var names []string
	for n := range fs.Files {
		names = append(names, n)
	}
	sort.Strings(names)
	for _, n := range names {
		f := fs.Files[n]
		fmt.Fprintf(h, "F %s %d\n", n, f.Size)
		// canonical content: flatten extents in order into a map of final bytes per written range
		type rng struct{ a, b int64 }
		var rs []rng
		for _, e := range f.ext {
			rs = append(rs, rng{e.off, e.off + int64(len(e.data))})
		}
		sort.Slice(rs, func(i, j int) bool { return rs[i].a < rs[j].a })
		var merged []rng
		for _, r := range rs {
			if len(merged) > 0 && r.a <= merged[len(merged)-1].b {
				if r.b > merged[len(merged)-1].b {
					merged[len(merged)-1].b = r.b
				}
			} else {
				merged = append(merged, r)
			}
		}
		for _, r := range merged {
			if r.b > f.Size {
				r.b = f.Size
			}
			if r.b <= r.a {
				continue
			}
			data := f.Bytes(r.a, r.b-r.a)
			// skip all-zero ranges so that "hole" == "zeros"
			nz := false
			for _, c := range data {
				if c != 0 {
					nz = true
					break
				}
			}
			if nz {
				fmt.Fprintf(h, "R %d %d\n", r.a, r.b)
				h.Write(data)
			}
		}
	}
	var ds []string
	for d := range fs.Dirs {
		ds = append(ds, d)
	}
	sort.Strings(ds)
	for _, d := range ds {
		fmt.Fprintf(h, "D %s\n", d)
	}
	return hex.EncodeToString(h.Sum(nil))[:24]
}

// HashDir hashes a real directory the same way (for the parser self-check). Zero ranges are ignored
// at 4 KiB granularity there, so compare with HashFlat of the model instead.
func HashDirFlat(dir string) (string, error) {
	h := sha256.New()
	var names []string
	err := filepath.Walk(dir, func(p string, info os.FileInfo, err error) error {
		if err != nil {
			return err
		}
		r, _ := filepath.Rel(dir, p)
		if r == "." {
			return nil
		}
		if info.IsDir() {
			names = append(names, "D "+r)
		} else {
			names = append(names, "F "+r)
		}
		return nil
	})
	if err != nil {
		return "", err
	}
	sort.Strings(names)
	for _, n := range names {
		if n[0] == 'D' {
			fmt.Fprintln(h, n)
			continue
		}
		b, err := os.ReadFile(filepath.Join(dir, n[2:]))
		if err != nil {
			return "", err
		}
		fmt.Fprintf(h, "%s %d\n", n, len(b))
		hashNonZero(h, b)
	}
	return hex.EncodeToString(h.Sum(nil))[:24], nil
}

type writer interface{ Write([]byte) (int, error) }

// hashNonZero hashes (offset, byte) runs of non-zero bytes.
func hashNonZero(h writer, b []byte) {
	i := 0
	for i < len(b) {
		if b[i] == 0 {
			i++
			continue
		}
		j := i
		for j < len(b) && b[j] != 0 {
			j++
		}
		fmt.Fprintf(h, "@%d:", i)
		h.Write(b[i:j])
		i = j
	}
}

// HashFlat hashes the model tree in the same format as HashDirFlat.
func (fs *FS) HashFlat() string {
	h := sha256.New()
	var names []string
	for n := range fs.Files {
		names = append(names, "F "+n)
	}
	for d := range fs.Dirs {
		if d != "." {
			names = append(names, "D "+d)
		}
	}
	sort.Strings(names)
	for _, n := range names {
		if n[0] == 'D' {
			fmt.Fprintln(h, n)
			continue
		}
		f := fs.Files[n[2:]]
		fmt.Fprintf(h, "%s %d\n", n, f.Size)
		hashNonZero(h, f.Bytes(0, f.Size))
	}
	return hex.EncodeToString(h.Sum(nil))[:24]
}
